/-
C08, part 8 — liveness with COLD caches on one switched LAN: the ARP resolution cascade (request flooded by a switch that has
learned nothing — past any number of other hosts, which only log it and spend its shared TTL —, reply switched back) turns a
cold pair of hosts into a warm one, and the ping then succeeds.
-/
import PrimaiteModel.Props.C08Liveness
namespace Primaite.Forward
open Primaite.Route (findBestRoute Table)

/-! ### the interpreter never changes the configuration (no assumption on the log, unlike `G`) -/

structure CAt (fuel : Nat) : Prop where
  send : ∀ st n i f, cfgOf (sendFrame fuel st n i f).1 = cfgOf st
  recv : ∀ st n i f, cfgOf (ifaceRecv fuel st n i f).1 = cfgOf st
  sw : ∀ st n i f, cfgOf (switchRecv fuel st n i f).1 = cfgOf st
  flood : ∀ st n i f ports, cfgOf (floodPorts fuel st n i f ports).1 = cfgOf st
  host : ∀ st n i f, cfgOf (hostRecv fuel st n i f).1 = cfgOf st
  router : ∀ st n i f, cfgOf (routerRecv fuel st n i f).1 = cfgOf st
  process : ∀ st n i f, cfgOf (routerProcess fuel st n i f).1 = cfgOf st
  arpReply : ∀ st n pl, cfgOf (sendArpReply fuel st n pl) = cfgOf st
  arpPkt : ∀ st n pl d, cfgOf (sendArpPkt fuel st n pl d) = cfgOf st
  icmp : ∀ st n d pl, cfgOf (sendIcmp fuel st n d pl) = cfgOf st
  details : ∀ st n d, cfgOf (resolveDetails fuel st n d).1 = cfgOf st
  out : ∀ st n d, cfgOf (resolveOut fuel st n d).1 = cfgOf st
  mac : ∀ st n ip re gw, cfgOf (arpMac fuel st n ip re gw).1 = cfgOf st
  ifc : ∀ st n ip re gw, cfgOf (arpIfc fuel st n ip re gw).1 = cfgOf st
  req : ∀ st n t, cfgOf (sendArpReq fuel st n t) = cfgOf st

theorem cfgOf_addArp (st : St) (n i : Nat) (ip : Ip) (mac : Mac) :
    cfgOf (st.modNode n (fun nd => nd.addArp ip mac i)) = cfgOf st := cfgOf_modNode st n _ (fun nd => addArp_cfg nd ip mac i)
theorem cfgOf_learnMac (st : St) (n p : Nat) (m : Mac) :
    cfgOf (st.modNode n (fun nd => nd.learnMac m p)) = cfgOf st := cfgOf_modNode st n _ (fun nd => (learnMac_cfg nd m p).1)
theorem cfgOf_bump (st : St) (n ident : Nat) :
    cfgOf (st.modNode n (fun nd => { nd with replies := bumpReply nd.replies ident })) = cfgOf st := cfgOf_modNode st n _ (fun _ => rfl)
theorem cfgOf_served (st : St) (n : Nat) (b : Bool) :
    cfgOf (st.modNode n (fun nd => { nd with served := b })) = cfgOf st := cfgOf_modNode st n _ (fun _ => rfl)
theorem cfgOf_got (st : St) (n svc : Nat) :
    cfgOf (st.modNode n (fun nd => { nd with got := svc :: nd.got })) = cfgOf st := cfgOf_modNode st n _ (fun _ => rfl)
theorem cfgOf_acks (st : St) (n svc : Nat) :
    cfgOf (st.modNode n (fun nd => { nd with acks := svc :: nd.acks })) = cfgOf st := cfgOf_modNode st n _ (fun _ => rfl)
theorem cfgOf_nextId (st : St) (k : Nat) : cfgOf ({ st with nextId := k } : St) = cfgOf st := rfl

theorem cAt_zero : CAt 0 := by
  constructor
  all_goals intros
  all_goals simp only [sendFrame, ifaceRecv, switchRecv, floodPorts, hostRecv, routerRecv, routerProcess, sendArpReply,
    sendArpPkt, sendIcmp, resolveDetails, resolveOut, arpMac, arpIfc, sendArpReq]
  all_goals rfl

theorem c_flood_fold (fuel : Nat) (ih : CAt fuel) (n i : Nat) (ports : List Nat) :
    ∀ (st : St) (g : Frame),
      cfgOf (ports.foldl (fun (acc : St × Frame) p =>
        match acc.1.iface? n p with
        | some pif => if pif.enabled && p != i then sendFrame fuel acc.1 n p acc.2 else acc
        | none => acc) (st, g)).1 = cfgOf st := by
  induction ports with
  | nil => intro st g; rfl
  | cons p ps ihp =>
    intro st g
    simp only [List.foldl_cons]
    split
    · split
      · have := ih.send st n p g
        generalize sendFrame fuel st n p g = r at this ⊢
        obtain ⟨st', g'⟩ := r
        rw [ihp st' g']; exact this
      · exact ihp st g
    · exact ihp st g

macro "cfg_close" ih:ident : tactic => `(tactic| (simp only [($ih).send, ($ih).recv, ($ih).sw, ($ih).flood, ($ih).host, ($ih).router,
  ($ih).process, ($ih).arpReply, ($ih).arpPkt, ($ih).icmp, ($ih).details, ($ih).out, ($ih).mac, ($ih).ifc, ($ih).req,
  cfgOf_emit, cfgOf_addArp, cfgOf_learnMac, cfgOf_bump, cfgOf_served, cfgOf_got, cfgOf_acks, cfgOf_nextId]))

theorem cAt_succ (fuel : Nat) (ih : CAt fuel) : CAt (fuel + 1) := by
  constructor
  · intro st n i f; simp only [sendFrame]; repeat' split
    all_goals first | rfl | cfg_close ih
  · intro st n i f; simp only [ifaceRecv]; repeat' split
    all_goals first | rfl | cfg_close ih
  · intro st n i f; simp only [switchRecv]; repeat' split
    all_goals first | rfl | cfg_close ih
  · intro st n i f ports; simp only [floodPorts]; exact c_flood_fold fuel ih n i ports st f
  · intro st n i f; simp only [hostRecv]; repeat' split
    all_goals first | rfl | cfg_close ih
  · intro st n i f; simp only [routerRecv]; repeat' split
    all_goals first | rfl | cfg_close ih
  · intro st n i f; simp only [routerProcess]; repeat' split
    all_goals first | rfl | cfg_close ih
  · intro st n pl; simp only [sendArpReply]; repeat' split
    all_goals first | rfl | cfg_close ih
  · intro st n pl d; simp only [sendArpPkt]; repeat' split
    all_goals first | rfl | cfg_close ih
  · intro st n d pl; simp only [sendIcmp]; repeat' split
    all_goals first | rfl | cfg_close ih
  · intro st n d; simp only [resolveDetails]; repeat' split
    all_goals first | rfl | cfg_close ih
  · intro st n d; simp only [resolveOut]; repeat' split
    all_goals first | rfl | cfg_close ih
  · intro st n ip re gw; simp only [arpMac]; repeat' split
    all_goals first | rfl | cfg_close ih
  · intro st n ip re gw; simp only [arpIfc]; repeat' split
    all_goals first | rfl | cfg_close ih
  · intro st n t; simp only [sendArpReq]; repeat' split
    all_goals first | rfl | cfg_close ih

theorem cAt (fuel : Nat) : CAt fuel := by
  induction fuel with
  | zero => exact cAt_zero
  | succ k ih => exact cAt_succ k ih

theorem iface?_eq_cfg (st : St) (n i : Nat) : st.iface? n i = ((cfgOf st)[n]?).bind (fun nc => nc.ifaces[i]?) := by
  unfold St.iface? cfgOf
  simp only [List.getElem?_map]
  cases st.nodes[n]? <;> rfl

theorem iface?_of_cfgOf {X st : St} (h : cfgOf X = cfgOf st) (n i : Nat) : X.iface? n i = st.iface? n i := by
  rw [iface?_eq_cfg, iface?_eq_cfg, h]

/-! ### a flood through a switch whose other ports are silent reaches exactly the one live port -/

/-- port `p` of node `s` sends nothing: no interface, disabled, or no cable. -/
def SilentPort (st : St) (s p : Nat) : Prop :=
  ∀ pif, st.iface? s p = some pif → pif.enabled = false ∨ pif.peer = none

/-- one iteration of the flood loop (callee budget `fuel + 1`). -/
def floodStep (fuel s i : Nat) (acc : St × Frame) (p : Nat) : St × Frame :=
  match acc.1.iface? s p with
  | some pif => if pif.enabled && p != i then sendFrame (fuel + 1) acc.1 s p acc.2 else acc
  | none => acc

theorem floodPorts_eq (fuel : Nat) (st : St) (s i : Nat) (f : Frame) (ports : List Nat) :
    floodPorts (fuel + 2) st s i f ports = ports.foldl (floodStep fuel s i) (st, f) := by
  simp only [floodPorts]
  rfl

theorem silent_step (fuel : Nat) (X : St) (s i p : Nat) (g : Frame) (h : SilentPort X s p ∨ p = i) :
    floodStep fuel s i (X, g) p = (X, g) := by
  unfold floodStep
  split
  · rename_i pif hp
    rcases h with h | h
    · rcases h pif hp with h1 | h1
      · simp [h1]
      · split
        · simp only [sendFrame, hp, h1]
          split <;> rfl
        · rfl
    · simp [h]
  · rfl

theorem flood_silent (fuel : Nat) (st : St) (s i : Nat) (ports : List Nat)
    (hs : ∀ p ∈ ports, SilentPort st s p ∨ p = i) :
    ∀ (X : St) (g : Frame), cfgOf X = cfgOf st → ports.foldl (floodStep fuel s i) (X, g) = (X, g) := by
  induction ports with
  | nil => intro X g _; rfl
  | cons p ps ihp =>
    intro X g hX
    simp only [List.foldl_cons]
    have hp : SilentPort X s p ∨ p = i := by
      rcases hs p (List.mem_cons_self) with h | h
      · left; intro pif hpif; rw [iface?_of_cfgOf hX] at hpif; exact h pif hpif
      · exact Or.inr h
    rw [silent_step fuel X s i p g hp]
    exact ihp (fun q hq => hs q (List.mem_cons_of_mem _ hq)) X g hX

/-- the flood loop over a switch with ONE live port `pb` besides the ingress: the frame goes out of `pb`, once. -/
theorem flood_one (fuel : Nat) (st : St) (s i pb : Nat) (f : Frame) (sb : Iface) (ports : List Nat)
    (hnd : ports.Nodup) (hmem : pb ∈ ports) (hpi : pb ≠ i) (hsb : st.iface? s pb = some sb) (hen : sb.enabled = true)
    (hs : ∀ p ∈ ports, p ≠ pb → SilentPort st s p ∨ p = i) :
    floodPorts (fuel + 2) st s i f ports = sendFrame (fuel + 1) st s pb f := by
  rw [floodPorts_eq]
  induction ports with
  | nil => cases hmem
  | cons p ps ihp =>
    simp only [List.foldl_cons]
    by_cases hp : p = pb
    · subst hp
      have hne : (p != i) = true := by simpa using hpi
      have hstep : floodStep fuel s i (st, f) p = sendFrame (fuel + 1) st s p f := by
        unfold floodStep
        simp only [hsb, hen, hne, Bool.and_self, if_true]
      rw [hstep]
      have hnot : p ∉ ps := (List.nodup_cons.1 hnd).1
      have hc := (cAt (fuel + 1)).send st s p f
      generalize sendFrame (fuel + 1) st s p f = r at hc ⊢
      obtain ⟨X, g⟩ := r
      exact flood_silent fuel st s i ps (fun q hq => hs q (List.mem_cons_of_mem _ hq) (fun h => hnot (h ▸ hq))) X g hc
    · rw [silent_step fuel st s i p f (hs p List.mem_cons_self hp)]
      have hmem' : pb ∈ ps := by
        rcases List.mem_cons.1 hmem with h | h
        · exact absurd h.symm hp
        · exact h
      exact ihp (List.nodup_cons.1 hnd).2 hmem' (fun q hq => hs q (List.mem_cons_of_mem _ hq))

/-! ### … and through a switch with OTHER HOSTS on it: they only log the reception and spend the shared TTL -/

/-- `hostAccepts` reads only the interfaces of the node. -/
theorem hostAccepts_ifaces (nd nd' : Node) (ifc : Iface) (f : Frame) (h : nd.ifaces = nd'.ifaces) :
    hostAccepts nd ifc f = hostAccepts nd' ifc f := by
  unfold hostAccepts; rw [h]

/-- port `p` of node `s` is quiet for frames addressed to `(dm, dip)`: silent, or cabled to an interface that is down, or
to the NIC of a host that does not accept such frames. -/
def QuietPort (st : St) (s p : Nat) (dm : Mac) (dip : Ip) : Prop :=
  ∀ pif, st.iface? s p = some pif → pif.enabled = false ∨ pif.peer = none ∨
    ∃ m j, pif.peer = some (m, j) ∧
      (st.iface? m j = none ∨ ∃ nif nd, st.iface? m j = some nif ∧ st.node? m = some nd ∧
        (nif.enabled = false ∨ (nd.kind = .host ∧ ∀ g : Frame, g.dstMac = dm → g.dstIp = dip → hostAccepts nd nif g = false)))

/-- `g'` is `g` after at most `k` receptions. -/
def Later (g g' : Frame) (k : Nat) : Prop :=
  g'.dstMac = g.dstMac ∧ g'.dstIp = g.dstIp ∧ g'.srcIp = g.srcIp ∧ g'.srcMac = g.srcMac ∧ g'.pl = g.pl ∧ g'.id = g.id ∧
    g'.ttl ≤ g.ttl ∧ g.ttl - k ≤ g'.ttl

theorem Later.refl (g : Frame) : Later g g 0 := ⟨rfl, rfl, rfl, rfl, rfl, rfl, Int.le_refl _, by omega⟩

theorem Later.step {g g' : Frame} {k : Nat} (h : Later g g' k) : Later g g'.dec (k + 1) := by
  obtain ⟨h1, h2, h3, h4, h5, h6, h7, h8⟩ := h
  refine ⟨h1, h2, h3, h4, h5, h6, ?_, ?_⟩
  · show g'.ttl - 1 ≤ g.ttl; omega
  · show g.ttl - ((k + 1 : Nat) : Int) ≤ g'.ttl - 1; omega

theorem Later.mono {g g' : Frame} {k k' : Nat} (h : Later g g' k) (hk : k ≤ k') : Later g g' k' := by
  obtain ⟨h1, h2, h3, h4, h5, h6, h7, h8⟩ := h
  exact ⟨h1, h2, h3, h4, h5, h6, h7, by omega⟩

/-- one quiet port: the state gains at most one log entry, the frame at most one reception. -/
theorem quiet_step (fuel : Nat) (X : St) (s i p : Nat) (g : Frame) (h : QuietPort X s p g.dstMac g.dstIp ∨ p = i) :
    ∃ L g', floodStep (fuel + 1) s i (X, g) p = ({ X with log := L ++ X.log }, g') ∧ Later g g' 1 := by
  have hid : ∃ L g', ((X, g) : St × Frame) = ({ X with log := L ++ X.log }, g') ∧ Later g g' 1 :=
    ⟨[], g, rfl, (Later.refl g).mono (by omega)⟩
  unfold floodStep
  split
  · rename_i pif hp
    rcases h with h | h
    · rcases h pif hp with h1 | h1 | ⟨m, j, hpeer, h1⟩
      · simpa [h1] using hid
      · split
        · simp only [sendFrame, hp, h1]
          split <;> exact hid
        · exact hid
      · split
        · rename_i hen
          have hen' : pif.enabled = true := by
            simp only [Bool.and_eq_true] at hen; exact hen.1
          rcases h1 with h1 | ⟨nif, nd, hnif, hnd, h1⟩
          · simp only [sendFrame, hp, hen', hpeer, h1, Bool.not_true, Bool.false_eq_true, if_false]
            exact hid
          · rcases h1 with h1 | ⟨hk, hacc⟩
            · simp only [sendFrame, hp, hen', hpeer, hnif, h1, Bool.not_true, Bool.false_eq_true, if_false, Bool.not_false, if_true]
              exact hid
            · cases hne : nif.enabled with
              | false =>
                simp only [sendFrame, hp, hen', hpeer, hnif, hne, Bool.not_true, Bool.false_eq_true, if_false, Bool.not_false, if_true]
                exact hid
              | true =>
                have hacc' : hostAccepts nd nif g.dec = false := hacc g.dec rfl rfl
                refine ⟨[.rx m j g.id g.ttl], g.dec, ?_, (Later.refl g).step⟩
                simp only [sendFrame, hp, hen', hpeer, hnif, hne, Bool.not_true, Bool.false_eq_true, if_false, ifaceRecv, hnd, hk, hacc']
                split <;> rfl
        · exact hid
    · simpa [h] using hid
  · exact hid

theorem node?_of_cfgOf {X : St} {c : List NodeCfg} (h : cfgOf X = c) {m : Nat} {nc : NodeCfg} (hm : c[m]? = some nc) :
    ∃ nd, X.node? m = some nd ∧ nd.cfg = nc := by
  subst h
  unfold cfgOf at hm
  simp only [List.getElem?_map] at hm
  unfold St.node?
  cases hx : X.nodes[m]? with
  | none => rw [hx] at hm; cases hm
  | some nd => rw [hx] at hm; exact ⟨nd, rfl, by simpa using hm⟩

/-- the same, read off the (static) configuration. -/
def QuietPortC (c : List NodeCfg) (s p : Nat) (dm : Mac) (dip : Ip) : Prop :=
  ∀ pif, (c[s]?).bind (fun nc => nc.ifaces[p]?) = some pif → pif.enabled = false ∨ pif.peer = none ∨
    ∃ m j, pif.peer = some (m, j) ∧
      ((c[m]?).bind (fun nc => nc.ifaces[j]?) = none ∨ ∃ nif nc, (c[m]?).bind (fun nc => nc.ifaces[j]?) = some nif ∧ c[m]? = some nc ∧
        (nif.enabled = false ∨ (nc.kind = .host ∧
          ∀ (nd : Node) (g : Frame), nd.ifaces = nc.ifaces → g.dstMac = dm → g.dstIp = dip → hostAccepts nd nif g = false)))

theorem quietPort_of_cfg {X : St} {c : List NodeCfg} (hc : cfgOf X = c) {s p : Nat} {dm : Mac} {dip : Ip}
    (h : QuietPortC c s p dm dip) : QuietPort X s p dm dip := by
  intro pif hp
  rw [iface?_eq_cfg, hc] at hp
  rcases h pif hp with h1 | h1 | ⟨m, j, hpeer, h1⟩
  · exact Or.inl h1
  · exact Or.inr (Or.inl h1)
  · refine Or.inr (Or.inr ⟨m, j, hpeer, ?_⟩)
    rcases h1 with h1 | ⟨nif, nc, hnif, hnc, h1⟩
    · left; rw [iface?_eq_cfg, hc]; exact h1
    · right
      obtain ⟨nd, hnd, hcfg⟩ := node?_of_cfgOf hc hnc
      refine ⟨nif, nd, by rw [iface?_eq_cfg, hc]; exact hnif, hnd, ?_⟩
      rcases h1 with h1 | ⟨hk, hacc⟩
      · exact Or.inl h1
      · right
        have hk' : nd.kind = .host := by rw [← hcfg] at hk; exact hk
        have hif : nd.ifaces = nc.ifaces := by rw [← hcfg]; rfl
        exact ⟨hk', fun g h1 h2 => hacc nd g hif h1 h2⟩

theorem log_log (X : St) (L1 L2 : List Ev) :
    ({ ({ X with log := L1 ++ X.log } : St) with log := L2 ++ ({ X with log := L1 ++ X.log } : St).log } : St) =
      { X with log := (L2 ++ L1) ++ X.log } := by
  simp [List.append_assoc]

/-- a flood over quiet ports only: the state gains log entries, the frame loses at most one TTL unit per port. -/
theorem quiet_fold (fuel : Nat) (c : List NodeCfg) (s i : Nat) (dm : Mac) (dip : Ip) (ports : List Nat)
    (hq : ∀ p ∈ ports, QuietPortC c s p dm dip ∨ p = i) :
    ∀ (X : St) (g : Frame), cfgOf X = c → g.dstMac = dm → g.dstIp = dip →
      ∃ L g', ports.foldl (floodStep (fuel + 1) s i) (X, g) = ({ X with log := L ++ X.log }, g') ∧ Later g g' ports.length := by
  induction ports with
  | nil => intro X g _ _ _; exact ⟨[], g, rfl, Later.refl g⟩
  | cons p ps ihp =>
    intro X g hX hm hd
    simp only [List.foldl_cons]
    have hp : QuietPort X s p g.dstMac g.dstIp ∨ p = i := by
      rcases hq p List.mem_cons_self with h | h
      · left; rw [hm, hd]; exact quietPort_of_cfg hX h
      · exact Or.inr h
    obtain ⟨L1, g1, e1, l1⟩ := quiet_step fuel X s i p g hp
    rw [e1]
    obtain ⟨L2, g2, e2, l2⟩ := ihp (fun q hq' => hq q (List.mem_cons_of_mem _ hq')) { X with log := L1 ++ X.log } g1 hX
      (by rw [l1.1]; exact hm) (by rw [l1.2.1]; exact hd)
    refine ⟨L2 ++ L1, g2, by rw [e2, log_log], ?_⟩
    obtain ⟨a1, a2, a3, a4, a5, a6, a7, a8⟩ := l1
    obtain ⟨b1, b2, b3, b4, b5, b6, b7, b8⟩ := l2
    refine ⟨b1.trans a1, b2.trans a2, b3.trans a3, b4.trans a4, b5.trans a5, b6.trans a6, by omega, ?_⟩
    simp only [List.length_cons]
    omega

/-- the flood loop over a switch with ONE port `pb` that matters besides the ingress, all others quiet: quiet receptions,
then the frame goes out of `pb` (its TTL lowered by at most the number of ports), then quiet receptions. -/
theorem flood_one_quiet (fuel : Nat) (st : St) (s i pb : Nat) (f : Frame) (sb : Iface) (ports : List Nat)
    (hnd : ports.Nodup) (hmem : pb ∈ ports) (hpi : pb ≠ i) (hsb : st.iface? s pb = some sb) (hen : sb.enabled = true)
    (hq : ∀ p ∈ ports, p ≠ pb → QuietPortC (cfgOf st) s p f.dstMac f.dstIp ∨ p = i) :
    ∃ (L1 : List Ev) (g1 : Frame) (post : List Nat), Later f g1 ports.length ∧ (∀ p ∈ post, QuietPortC (cfgOf st) s p f.dstMac f.dstIp ∨ p = i) ∧
      floodPorts (fuel + 3) st s i f ports =
        post.foldl (floodStep (fuel + 1) s i) (sendFrame (fuel + 2) { st with log := L1 ++ st.log } s pb g1) := by
  rw [floodPorts_eq]
  suffices hgen : ∀ (X : St) (g : Frame) (k : Nat), cfgOf X = cfgOf st → X.iface? s pb = some sb → Later f g k →
      ∃ (L1 : List Ev) (g1 : Frame) (post : List Nat), Later f g1 (k + ports.length) ∧ (∀ p ∈ post, QuietPortC (cfgOf st) s p f.dstMac f.dstIp ∨ p = i) ∧
        ports.foldl (floodStep (fuel + 1) s i) (X, g) =
          post.foldl (floodStep (fuel + 1) s i) (sendFrame (fuel + 2) { X with log := L1 ++ X.log } s pb g1) by
    obtain ⟨L1, g1, post, h1, h2, h3⟩ := hgen st f 0 rfl hsb (Later.refl f)
    exact ⟨L1, g1, post, by simpa using h1, h2, h3⟩
  induction ports with
  | nil => cases hmem
  | cons p ps ihp =>
    intro X g k hX hXsb hl
    simp only [List.foldl_cons]
    by_cases hp : p = pb
    · subst hp
      have hne : (p != i) = true := by simpa using hpi
      have hstep : floodStep (fuel + 1) s i (X, g) p = sendFrame (fuel + 2) X s p g := by
        unfold floodStep
        simp only [hXsb, hen, hne, Bool.and_self, if_true]
      rw [hstep]
      have hnot : p ∉ ps := (List.nodup_cons.1 hnd).1
      refine ⟨[], g, ps, hl.mono (by omega), ?_, by simp⟩
      intro q hq'
      exact hq q (List.mem_cons_of_mem _ hq') (fun h => hnot (h ▸ hq'))
    · have hqp : QuietPort X s p g.dstMac g.dstIp ∨ p = i := by
        rcases hq p List.mem_cons_self hp with h | h
        · left; rw [hl.1, hl.2.1]; exact quietPort_of_cfg hX h
        · exact Or.inr h
      obtain ⟨L0, g0, e0, l0⟩ := quiet_step fuel X s i p g hqp
      rw [e0]
      have hmem' : pb ∈ ps := by
        rcases List.mem_cons.1 hmem with h | h
        · exact absurd h.symm hp
        · exact h
      have hl' : Later f g0 (k + 1) := by
        obtain ⟨a1, a2, a3, a4, a5, a6, a7, a8⟩ := hl
        obtain ⟨b1, b2, b3, b4, b5, b6, b7, b8⟩ := l0
        exact ⟨b1.trans a1, b2.trans a2, b3.trans a3, b4.trans a4, b5.trans a5, b6.trans a6, by omega, by omega⟩
      obtain ⟨L1, g1, post, h1, h2, h3⟩ := ihp (List.nodup_cons.1 hnd).2 hmem' (fun q hq' => hq q (List.mem_cons_of_mem _ hq'))
        { X with log := L0 ++ X.log } g0 (k + 1) hX hXsb hl'
      refine ⟨L1 ++ L0, g1, post, ?_, h2, ?_⟩
      · simp only [List.length_cons]
        have : k + 1 + ps.length = k + (ps.length + 1) := by omega
        rw [← this]; exact h1
      · rw [h3, log_log]

/-! ### the steps of an ARP exchange, each for an arbitrary state with the local facts -/

/-- a single-NIC host: its only interface is number 0. -/
theorem iface0_of (X : St) (n : Nat) (nd : Node) (ifc : Iface) (hn : X.node? n = some nd) (hifs : nd.ifaces = [ifc]) :
    X.iface? n 0 = some ifc := by
  unfold St.iface?; unfold St.node? at hn; rw [hn]; simp [hifs]

/-- the ARP request a host builds for an on-link target it has not cached. -/
def mkArpReq (X : St) (ifc : Iface) (t : Ip) : Frame :=
  { id := X.nextId, srcMac := ifc.mac, dstMac := bcastMac, srcIp := ifc.ip, dstIp := t, ttl := initTtl, pl := .arpReq ifc.ip ifc.mac t }

theorem host_arp_request (fuel : Nat) (X : St) (a : Nat) (nd : Node) (ifc : Iface) (t : Ip)
    (hn : X.node? a = some nd) (hifs : nd.ifaces = [ifc]) (hen : ifc.enabled = true)
    (hcold : nd.arpGet t = none) (hin : ifc.inNet t = true) (hnn : t ≠ ifc.netAddr) (hnb : t ≠ ifc.bcastAddr) :
    sendArpReq (fuel + 3) X a t = (sendFrame (fuel + 1) { X with nextId := X.nextId + 1 } a 0 (mkArpReq X ifc t)).1 := by
  have hi := iface0_of X a nd ifc hn hifs
  have hfi : firstIn nd.ifaces t 0 = some 0 := by simp [hifs, firstIn, hin]
  have hfe : firstEnabledIn nd.ifaces t 0 = some 0 := by simp [hifs, firstEnabledIn, hin, hen]
  have hro : ∀ k, resolveOut (k + 1) X a t = (X, some 0) := by intro k; simp only [resolveOut, hn, hfe]
  have h1 : (t == ifc.netAddr) = false := by simpa using hnn
  have h2 : (t == ifc.bcastAddr) = false := by simpa using hnb
  simp only [sendArpReq, hn, hcold, Option.isSome_none, Bool.false_eq_true, if_false, hfi, Option.isSome_some, if_true, hro, hi, h1, h2,
    Bool.or_self, sendArpPkt, targetOf, plDstMac, mkArpReq]

/-- a cable: what leaves an enabled interface arrives at the enabled interface at the other end. -/
theorem link_step (fuel : Nat) (X : St) (n i m j : Nat) (ifc pif : Iface) (f : Frame)
    (hi : X.iface? n i = some ifc) (hen : ifc.enabled = true) (hpeer : ifc.peer = some (m, j))
    (hp : X.iface? m j = some pif) (hpen : pif.enabled = true) :
    sendFrame (fuel + 1) X n i f = ifaceRecv fuel X m j f := by
  simp only [sendFrame, hi, hen, hpeer, hp, hpen, Bool.not_true, Bool.false_eq_true, if_false]

theorem macPort_learn_self (nd : Node) (m : Mac) (p : Nat) : (nd.learnMac m p).macPort m = some p := by
  unfold Node.learnMac Node.macPort
  cases hf : nd.macTable.find? (fun e => e.1 == m) with
  | none => simp [List.find?_append, hf]
  | some x =>
    obtain ⟨m', p'⟩ := x
    have hm : m' = m := by
      have := List.find?_some hf
      simpa using this
    subst hm
    simp only
    split
    · rename_i hpp
      have : p' = p := by simpa using hpp
      subst this
      simp [hf]
    · have hnone : (nd.macTable.filter (fun e => e.1 != m')).find? (fun e => e.1 == m') = none := by
        rw [List.find?_eq_none]
        intro x hx
        have := (List.mem_filter.1 hx).2
        simp only [bne_iff_ne, ne_eq] at this
        simpa using this
      simp [List.find?_append, hnone]

theorem macPort_learn_other (nd : Node) (m m' : Mac) (p : Nat) (h : m' ≠ m) : (nd.learnMac m p).macPort m' = nd.macPort m' := by
  unfold Node.learnMac Node.macPort
  have hne : (m == m') = false := by simpa using fun h' => h h'.symm
  cases hf : nd.macTable.find? (fun e => e.1 == m) with
  | none =>
    simp only [List.find?_append]
    cases nd.macTable.find? (fun e => e.1 == m') <;> simp [hne]
  | some x =>
    obtain ⟨m0, p0⟩ := x
    simp only
    split
    · rfl
    · have hfilt : (nd.macTable.filter (fun e => e.1 != m)).find? (fun e => e.1 == m') = nd.macTable.find? (fun e => e.1 == m') := by
        induction nd.macTable with
        | nil => rfl
        | cons y ys ih =>
          simp only [List.filter_cons, List.find?_cons]
          by_cases hy : y.1 = m
          · have h1 : (y.1 != m) = false := by simp [hy]
            have h2 : (y.1 == m') = false := by simp [hy]; exact fun h' => h h'.symm
            simp only [h1, Bool.false_eq_true, if_false, h2, ih]
          · have h1 : (y.1 != m) = true := by simp [hy]
            simp only [h1, if_true, List.find?_cons, ih]
      simp only [List.find?_append, hfilt]
      cases nd.macTable.find? (fun e => e.1 == m') <;> simp [hne]

theorem node?_learn (X : St) (s i : Nat) (m : Mac) (nd : Node) (hn : X.node? s = some nd) :
    (X.modNode s (fun nd => nd.learnMac m i)).node? s = some (nd.learnMac m i) := by
  rw [node?_modNode]; simp [hn]

/-- a switch that has NOT learned the destination (or is handed a broadcast) and has one live port besides the ingress:
it learns the source on the ingress port and the frame leaves through that port. -/
theorem switch_flood_step (fuel : Nat) (X : St) (s i pb : Nat) (nd : Node) (ifc sb : Iface) (f : Frame)
    (hn : X.node? s = some nd) (hk : nd.kind = .switch) (hi : nd.ifaces[i]? = some ifc) (hsb : nd.ifaces[pb]? = some sb)
    (hen : sb.enabled = true) (hpi : pb ≠ i) (httl : 2 ≤ f.ttl)
    (hflood : f.dstMac = bcastMac ∨ (nd.learnMac f.srcMac i).macPort f.dstMac = none)
    (hs : ∀ p sp, nd.ifaces[p]? = some sp → p ≠ pb → p ≠ i → sp.enabled = false ∨ sp.peer = none) :
    ifaceRecv (fuel + 4) X s i f =
      sendFrame (fuel + 1) ((X.emit (.rx s i f.id f.ttl)).modNode s (fun nd => nd.learnMac f.srcMac i)) s pb f.dec := by
  have hi' : X.iface? s i = some ifc := by unfold St.iface?; unfold St.node? at hn; rw [hn]; exact hi
  have h1 : ¬ f.dec.ttl < 1 := by unfold Frame.dec; simp only; omega
  have s1 : ifaceRecv (fuel + 4) X s i f = switchRecv (fuel + 3) (X.emit (.rx s i f.id f.ttl)) s i f.dec := by
    simp only [ifaceRecv, hn, hi', h1, if_false, hk]
  generalize hY : (X.emit (.rx s i f.id f.ttl)).modNode s (fun nd => nd.learnMac f.dec.srcMac i) = Y
  have hYn : Y.node? s = some (nd.learnMac f.srcMac i) := by
    rw [← hY]; exact node?_learn _ s i _ nd (by rw [node?_emit]; exact hn)
  have hlen : (nd.learnMac f.srcMac i).ifaces = nd.ifaces := congrArg NodeCfg.ifaces (learnMac_cfg nd f.srcMac i).1
  have s2 : switchRecv (fuel + 3) (X.emit (.rx s i f.id f.ttl)) s i f.dec =
      floodPorts (fuel + 2) Y s i f.dec (List.range nd.ifaces.length) := by
    simp only [switchRecv, hY, hYn, hlen]
    rcases hflood with hb | hnone
    · have hb' : (f.dec.dstMac != bcastMac) = false := by simp [Frame.dec, hb]
      split
      · simp only [hb', Bool.false_eq_true, if_false]
      · rfl
    · have : (nd.learnMac f.srcMac i).macPort f.dec.dstMac = none := hnone
      simp only [this]
  have hYi : ∀ p, Y.iface? s p = nd.ifaces[p]? := by
    intro p
    unfold St.iface?; unfold St.node? at hYn; rw [hYn, Option.bind_some, hlen]
  have s3 : floodPorts (fuel + 2) Y s i f.dec (List.range nd.ifaces.length) = sendFrame (fuel + 1) Y s pb f.dec := by
    refine flood_one fuel Y s i pb f.dec sb _ List.nodup_range ?_ hpi (by rw [hYi]; exact hsb) hen ?_
    · rw [List.mem_range]
      rcases Nat.lt_or_ge pb nd.ifaces.length with h | h
      · exact h
      · rw [List.getElem?_eq_none h] at hsb; cases hsb
    · intro p _ hpb
      by_cases hpi' : p = i
      · exact Or.inr hpi'
      · left
        intro pif hpif
        rw [hYi] at hpif
        exact hs p pif hpif hpb hpi'
  rw [s1, s2, s3, ← hY]
  rfl

/-- the same with OTHER HOSTS on the switch: every other port is quiet for this frame. -/
theorem switch_flood_step_quiet (fuel : Nat) (X : St) (s i pb : Nat) (nd : Node) (ifc sb : Iface) (f : Frame)
    (hn : X.node? s = some nd) (hk : nd.kind = .switch) (hi : nd.ifaces[i]? = some ifc) (hsb : nd.ifaces[pb]? = some sb)
    (hen : sb.enabled = true) (hpi : pb ≠ i) (httl : 2 ≤ f.ttl)
    (hflood : f.dstMac = bcastMac ∨ (nd.learnMac f.srcMac i).macPort f.dstMac = none)
    (hq : ∀ p, p ≠ pb → p ≠ i → QuietPortC (cfgOf X) s p f.dstMac f.dstIp) :
    ∃ (L1 : List Ev) (g1 : Frame) (post : List Nat), Later f.dec g1 nd.ifaces.length ∧
      (∀ p ∈ post, QuietPortC (cfgOf X) s p f.dstMac f.dstIp ∨ p = i) ∧
      ifaceRecv (fuel + 5) X s i f = post.foldl (floodStep (fuel + 1) s i)
        (sendFrame (fuel + 2) { ((X.emit (.rx s i f.id f.ttl)).modNode s (fun nd => nd.learnMac f.srcMac i)) with
          log := L1 ++ ((X.emit (.rx s i f.id f.ttl)).modNode s (fun nd => nd.learnMac f.srcMac i)).log } s pb g1) := by
  have hi' : X.iface? s i = some ifc := by unfold St.iface?; unfold St.node? at hn; rw [hn]; exact hi
  have h1 : ¬ f.dec.ttl < 1 := by unfold Frame.dec; simp only; omega
  have s1 : ifaceRecv (fuel + 5) X s i f = switchRecv (fuel + 4) (X.emit (.rx s i f.id f.ttl)) s i f.dec := by
    simp only [ifaceRecv, hn, hi', h1, if_false, hk]
  generalize hY : (X.emit (.rx s i f.id f.ttl)).modNode s (fun nd => nd.learnMac f.dec.srcMac i) = Y
  have hYc : cfgOf Y = cfgOf X := by rw [← hY, cfgOf_learnMac, cfgOf_emit]
  have hYn : Y.node? s = some (nd.learnMac f.srcMac i) := by
    rw [← hY]; exact node?_learn _ s i _ nd (by rw [node?_emit]; exact hn)
  have hlen : (nd.learnMac f.srcMac i).ifaces = nd.ifaces := congrArg NodeCfg.ifaces (learnMac_cfg nd f.srcMac i).1
  have s2 : switchRecv (fuel + 4) (X.emit (.rx s i f.id f.ttl)) s i f.dec =
      floodPorts (fuel + 3) Y s i f.dec (List.range nd.ifaces.length) := by
    simp only [switchRecv, hY, hYn, hlen]
    rcases hflood with hb | hnone
    · have hb' : (f.dec.dstMac != bcastMac) = false := by simp [Frame.dec, hb]
      split
      · simp only [hb', Bool.false_eq_true, if_false]
      · rfl
    · have : (nd.learnMac f.srcMac i).macPort f.dec.dstMac = none := hnone
      simp only [this]
  have hYi : ∀ p, Y.iface? s p = nd.ifaces[p]? := by
    intro p
    unfold St.iface?; unfold St.node? at hYn; rw [hYn, Option.bind_some, hlen]
  obtain ⟨L1, g1, post, l1, hp, e3⟩ := flood_one_quiet fuel Y s i pb f.dec sb (List.range nd.ifaces.length) List.nodup_range
    (by
      rw [List.mem_range]
      rcases Nat.lt_or_ge pb nd.ifaces.length with h | h
      · exact h
      · rw [List.getElem?_eq_none h] at hsb; cases hsb)
    hpi (by rw [hYi]; exact hsb) hen
    (by
      intro p _ hpb
      by_cases hpi' : p = i
      · exact Or.inr hpi'
      · left; rw [hYc]; exact hq p hpb hpi')
  refine ⟨L1, g1, post, by simpa using l1, ?_, ?_⟩
  · intro p hp'; have := hp p hp'; rw [hYc] at this; exact this
  · rw [s1, s2, e3, ← hY]
    rfl

/-- a switch that knows the destination's port (after learning the source on the ingress port) passes the frame on. -/
theorem switch_known_step (fuel : Nat) (X : St) (s i p : Nat) (nd : Node) (ifc : Iface) (f : Frame)
    (hn : X.node? s = some nd) (hk : nd.kind = .switch) (hi : nd.ifaces[i]? = some ifc) (httl : 2 ≤ f.ttl)
    (hb : f.dstMac ≠ bcastMac) (hport : (nd.learnMac f.srcMac i).macPort f.dstMac = some p) :
    ifaceRecv (fuel + 3) X s i f =
      sendFrame (fuel + 1) ((X.emit (.rx s i f.id f.ttl)).modNode s (fun nd => nd.learnMac f.srcMac i)) s p f.dec := by
  have hi' : X.iface? s i = some ifc := by unfold St.iface?; unfold St.node? at hn; rw [hn]; exact hi
  have h1 : ¬ f.dec.ttl < 1 := by unfold Frame.dec; simp only; omega
  have s1 : ifaceRecv (fuel + 3) X s i f = switchRecv (fuel + 2) (X.emit (.rx s i f.id f.ttl)) s i f.dec := by
    simp only [ifaceRecv, hn, hi', h1, if_false, hk]
  generalize hY : (X.emit (.rx s i f.id f.ttl)).modNode s (fun nd => nd.learnMac f.dec.srcMac i) = Y
  have hYn : Y.node? s = some (nd.learnMac f.srcMac i) := by
    rw [← hY]; exact node?_learn _ s i _ nd (by rw [node?_emit]; exact hn)
  have hne : (f.dec.dstMac != bcastMac) = true := by simpa [Frame.dec] using hb
  have hp' : (nd.learnMac f.srcMac i).macPort f.dec.dstMac = some p := hport
  have s2 : switchRecv (fuel + 2) (X.emit (.rx s i f.id f.ttl)) s i f.dec = sendFrame (fuel + 1) Y s p f.dec := by
    simp only [switchRecv, hY, hYn, hp', hne, if_true]
  rw [s1, s2, ← hY]
  rfl

/-- the target of an ARP request learns the requester and answers. -/
theorem host_arp_req (fuel : Nat) (X : St) (b : Nat) (nd : Node) (ifc : Iface) (f : Frame) (sIp : Ip) (sMac : Mac)
    (hn : X.node? b = some nd) (hk : nd.kind = .host) (hon : nd.on = true) (hifs : nd.ifaces = [ifc])
    (hpl : f.pl = .arpReq sIp sMac ifc.ip) (hb : f.dstMac = bcastMac) (hd : f.dstIp = ifc.ip) (httl : 2 ≤ f.ttl) :
    ifaceRecv (fuel + 2) X b 0 f =
      (sendArpReply fuel (((X.emit (.rx b 0 f.id f.ttl)).modNode b (fun nd => nd.addArp f.srcIp f.srcMac 0)).emit
        (.sw b f.id f.dstIp true)) b (.arpRep ifc.ip ifc.mac sIp sMac), f.dec) := by
  have hi := iface0_of X b nd ifc hn hifs
  have h1 : ¬ f.dec.ttl < 1 := by unfold Frame.dec; simp only; omega
  have hacc : hostAccepts nd ifc f.dec = true := by
    unfold hostAccepts
    simp [Frame.dec, hb, hd]
  have hn' : (X.emit (.rx b 0 f.id f.ttl)).node? b = some nd := hn
  have hi' : (X.emit (.rx b 0 f.id f.ttl)).iface? b 0 = some ifc := hi
  have hbd : (f.dec.dstMac == bcastMac) = true := by simp [Frame.dec, hb]
  have hpl' : f.dec.pl = .arpReq sIp sMac ifc.ip := hpl
  simp only [ifaceRecv, hn, hi, h1, if_false, hk, hacc, if_true, hostRecv, portClosed, Bool.false_eq_true, hn', hi', hon, hpl', Bool.not_true, Bool.false_eq_true,
    bne_self_eq_false, hbd]
  rfl

/-- the ARP reply a host builds. -/
def mkArpRep (X : St) (ifc : Iface) (sip : Ip) (smac : Mac) (tip : Ip) (tmac : Mac) : Frame :=
  { id := X.nextId, srcMac := ifc.mac, dstMac := tmac, srcIp := ifc.ip, dstIp := tip, ttl := initTtl, pl := .arpRep sip smac tip tmac }

/-- … the answer goes out of the only NIC, addressed to the requester's pair. -/
theorem host_arp_reply_send (fuel : Nat) (X : St) (b : Nat) (nd : Node) (ifc : Iface) (sip : Ip) (smac : Mac) (tip : Ip) (tmac : Mac)
    (hn : X.node? b = some nd) (hifs : nd.ifaces = [ifc]) (hen : ifc.enabled = true) (hin : ifc.inNet tip = true) :
    sendArpReply (fuel + 3) X b (.arpRep sip smac tip tmac) =
      (sendFrame (fuel + 1) { X with nextId := X.nextId + 1 } b 0 (mkArpRep X ifc sip smac tip tmac)).1 := by
  have hi := iface0_of X b nd ifc hn hifs
  have hfe : firstEnabledIn nd.ifaces tip 0 = some 0 := by simp [hifs, firstEnabledIn, hin, hen]
  have hro : ∀ k, resolveOut (k + 1) X b tip = (X, some 0) := by intro k; simp only [resolveOut, hn, hfe]
  simp only [sendArpReply, targetOf, hro, sendArpPkt, hi, plDstMac, mkArpRep]

/-- the requester learns the answer (twice: from the frame's source pair and from the ARP payload). -/
theorem host_arp_rep (fuel : Nat) (X : St) (a : Nat) (nd : Node) (ifc : Iface) (f : Frame) (sIp : Ip) (sMac : Mac) (tIp : Ip)
    (tMac : Mac) (hn : X.node? a = some nd) (hk : nd.kind = .host) (hon : nd.on = true) (hifs : nd.ifaces = [ifc])
    (hpl : f.pl = .arpRep sIp sMac tIp tMac) (hm : f.dstMac = ifc.mac) (hnb : ifc.mac ≠ bcastMac) (hd : f.dstIp = ifc.ip)
    (httl : 2 ≤ f.ttl) :
    ifaceRecv (fuel + 2) X a 0 f =
      ((((X.emit (.rx a 0 f.id f.ttl)).modNode a (fun nd => nd.addArp f.srcIp f.srcMac 0)).emit (.sw a f.id f.dstIp false)).modNode a
        (fun nd => nd.addArp sIp sMac 0), f.dec) := by
  rw [host_end (fuel + 1) X a nd ifc f hn hk hifs hm hnb hd httl]
  have hi := iface0_of X a nd ifc hn hifs
  have hn' : (X.emit (.rx a 0 f.id f.ttl)).node? a = some nd := hn
  have hi' : (X.emit (.rx a 0 f.id f.ttl)).iface? a 0 = some ifc := hi
  have hbd : (f.dec.dstMac == bcastMac) = false := by simp [Frame.dec, hm, hnb]
  have hpl' : f.dec.pl = .arpRep sIp sMac tIp tMac := hpl
  simp only [hostRecv, portClosed, Bool.false_eq_true, if_false, hn', hi', hon, if_true, hpl', Bool.not_true, Bool.false_eq_true, if_false, hbd]
  rfl

/-! ### one switched LAN, cold caches: the ARP exchange -/

/-- what is tracked of a state along the exchange: the configuration and the three nodes involved. -/
structure Snap (X : St) (c : List NodeCfg) (a b s : Nat) (A B S : Node) : Prop where
  cfg : cfgOf X = c
  na : X.node? a = some A
  nb : X.node? b = some B
  ns : X.node? s = some S

theorem Snap.emit {X : St} {c : List NodeCfg} {a b s : Nat} {A B S : Node} (h : Snap X c a b s A B S) (e : Ev) :
    Snap (X.emit e) c a b s A B S := ⟨h.cfg, h.na, h.nb, h.ns⟩
theorem Snap.nextId {X : St} {c : List NodeCfg} {a b s : Nat} {A B S : Node} (h : Snap X c a b s A B S) (k : Nat) :
    Snap ({ X with nextId := k } : St) c a b s A B S := ⟨h.cfg, h.na, h.nb, h.ns⟩
theorem Snap.modA {X : St} {c : List NodeCfg} {a b s : Nat} {A B S : Node} (h : Snap X c a b s A B S) (f : Node → Node)
    (hf : ∀ nd, (f nd).cfg = nd.cfg) (hab : a ≠ b) (has : a ≠ s) : Snap (X.modNode a f) c a b s (f A) B S :=
  ⟨by rw [cfgOf_modNode X a f hf]; exact h.cfg, by rw [node?_modNode]; simp [h.na], by rw [node?_modNode]; simp [hab, h.nb],
    by rw [node?_modNode]; simp [has, h.ns]⟩
theorem Snap.modB {X : St} {c : List NodeCfg} {a b s : Nat} {A B S : Node} (h : Snap X c a b s A B S) (f : Node → Node)
    (hf : ∀ nd, (f nd).cfg = nd.cfg) (hab : a ≠ b) (hbs : b ≠ s) : Snap (X.modNode b f) c a b s A (f B) S :=
  ⟨by rw [cfgOf_modNode X b f hf]; exact h.cfg, by rw [node?_modNode]; simp [Ne.symm hab, h.na], by rw [node?_modNode]; simp [h.nb],
    by rw [node?_modNode]; simp [hbs, h.ns]⟩
theorem Snap.modS {X : St} {c : List NodeCfg} {a b s : Nat} {A B S : Node} (h : Snap X c a b s A B S) (f : Node → Node)
    (hf : ∀ nd, (f nd).cfg = nd.cfg) (has : a ≠ s) (hbs : b ≠ s) : Snap (X.modNode s f) c a b s A B (f S) :=
  ⟨by rw [cfgOf_modNode X s f hf]; exact h.cfg, by rw [node?_modNode]; simp [Ne.symm has, h.na],
    by rw [node?_modNode]; simp [Ne.symm hbs, h.nb], by rw [node?_modNode]; simp [h.ns]⟩

theorem Snap.iface {X Y : St} {c : List NodeCfg} {a b s : Nat} {A B S A' B' S' : Node} (hX : Snap X c a b s A B S)
    (hY : Snap Y c a b s A' B' S') (n i : Nat) : Y.iface? n i = X.iface? n i :=
  iface?_of_cfgOf (hY.cfg.trans hX.cfg.symm) n i

/-- two powered-on single-NIC hosts `a`, `b` of one subnet on ports `pa`, `pb` of switch `s` whose other ports are quiet (dead, uncabled, or
other hosts that drop the request); neither knows the other (cold ARP caches); the switch table is arbitrary. -/
structure ColdLan (st : St) (a b s pa pb : Nat) (ndA ndB ndS : Node) (ifA ifB sa sb : Iface) : Prop where
  nodeA : st.node? a = some ndA
  kindA : ndA.kind = .host
  onA : ndA.on = true
  ifsA : ndA.ifaces = [ifA]
  enA : ifA.enabled = true
  peerA : ifA.peer = some (s, pa)
  nodeB : st.node? b = some ndB
  kindB : ndB.kind = .host
  onB : ndB.on = true
  ifsB : ndB.ifaces = [ifB]
  enB : ifB.enabled = true
  peerB : ifB.peer = some (s, pb)
  nodeS : st.node? s = some ndS
  kindS : ndS.kind = .switch
  portA : ndS.ifaces[pa]? = some sa
  saEn : sa.enabled = true
  saPeer : sa.peer = some (a, 0)
  portB : ndS.ifaces[pb]? = some sb
  sbEn : sb.enabled = true
  sbPeer : sb.peer = some (b, 0)
  ab : a ≠ b
  as : a ≠ s
  bs : b ≠ s
  pab : pa ≠ pb
  /-- every other port of the switch is quiet for A's ARP request: dead, uncabled, or cabled to the NIC of a host with another
  address (which logs the reception and drops the frame) … -/
  quiet : ∀ p, p ≠ pb → p ≠ pa → QuietPortC (cfgOf st) s p bcastMac ifB.ip
  /-- … and there are few enough of them for the shared TTL to last until B's port is served. -/
  fewPorts : ndS.ifaces.length ≤ 60
  netAB : ifA.inNet ifB.ip = true
  netBA : ifB.inNet ifA.ip = true
  macA : ifA.mac ≠ bcastMac
  macB : ifB.mac ≠ bcastMac
  macAB : ifA.mac ≠ ifB.mac
  ipAB : ifA.ip ≠ ifB.ip
  coldA : ndA.arpGet ifB.ip = none
  coldB : ndB.arpGet ifA.ip = none
  notNet : ifB.ip ≠ ifA.netAddr
  notBc : ifB.ip ≠ ifA.bcastAddr

theorem addArp_ifaces (nd : Node) (ip : Ip) (mac : Mac) (i : Nat) : (nd.addArp ip mac i).ifaces = nd.ifaces :=
  congrArg NodeCfg.ifaces (addArp_cfg nd ip mac i)
theorem learnMac_ifaces (nd : Node) (m : Mac) (p : Nat) : (nd.learnMac m p).ifaces = nd.ifaces :=
  congrArg NodeCfg.ifaces (learnMac_cfg nd m p).1
theorem learnMac_kind (nd : Node) (m : Mac) (p : Nat) : (nd.learnMac m p).kind = nd.kind :=
  congrArg NodeCfg.kind (learnMac_cfg nd m p).1

/-- THE ARP EXCHANGE on a cold LAN, as an equation: the request is flooded by the switch (which learns A's port), B learns A
and answers, the switch learns B's port and returns the reply to A's port, A learns B.  Nothing else changes but the log. -/
theorem lan_arp_exchange (fuel : Nat) (st : St) (a b s pa pb : Nat) (ndA ndB ndS : Node) (ifA ifB sa sb : Iface)
    (h : ColdLan st a b s pa pb ndA ndB ndS ifA ifB sa sb) :
    ∃ Y, sendArpReq (fuel + 17) st a ifB.ip = Y ∧
      Snap Y (cfgOf st) a b s ((ndA.addArp ifB.ip ifB.mac 0).addArp ifB.ip ifB.mac 0) (ndB.addArp ifA.ip ifA.mac 0)
        ((ndS.learnMac ifA.mac pa).learnMac ifB.mac pb) := by
  have S0 : Snap st (cfgOf st) a b s ndA ndB ndS := ⟨rfl, h.nodeA, h.nodeB, h.nodeS⟩
  have ifA0 := iface0_of st a ndA ifA h.nodeA h.ifsA
  have ifB0 := iface0_of st b ndB ifB h.nodeB h.ifsB
  have ifSa : st.iface? s pa = some sa := by unfold St.iface?; have := h.nodeS; unfold St.node? at this; rw [this]; exact h.portA
  have ifSb : st.iface? s pb = some sb := by unfold St.iface?; have := h.nodeS; unfold St.node? at this; rw [this]; exact h.portB
  -- A sends the request
  refine ⟨_, rfl, ?_⟩
  rw [host_arp_request (fuel + 14) st a ndA ifA ifB.ip h.nodeA h.ifsA h.enA h.coldA h.netAB h.notNet h.notBc]
  generalize hst1 : ({ st with nextId := st.nextId + 1 } : St) = st1
  have S1 : Snap st1 (cfgOf st) a b s ndA ndB ndS := by rw [← hst1]; exact S0.nextId _
  generalize hQ : mkArpReq st ifA ifB.ip = Q
  have Qs : Q.srcMac = ifA.mac ∧ Q.dstMac = bcastMac ∧ Q.srcIp = ifA.ip ∧ Q.dstIp = ifB.ip ∧ Q.ttl = 64 ∧
      Q.pl = .arpReq ifA.ip ifA.mac ifB.ip := by rw [← hQ]; exact ⟨rfl, rfl, rfl, rfl, rfl, rfl⟩
  obtain ⟨q1, q2, q3, q4, q5, q6⟩ := Qs
  rw [link_step (fuel + 14) st1 a 0 s pa ifA sa Q (by rw [S0.iface S1]; exact ifA0) h.enA h.peerA (by rw [S0.iface S1]; exact ifSa) h.saEn]
  -- the switch floods it: quiet receptions, then port pb, then quiet receptions
  obtain ⟨L1, g1, post, lg, hpost, hfl⟩ := switch_flood_step_quiet (fuel + 9) st1 s pa pb ndS sa sb Q S1.ns h.kindS h.portA h.portB
    h.sbEn (Ne.symm h.pab) (by rw [q5]; decide) (Or.inl q2) (by rw [S1.cfg, q2, q4]; exact h.quiet)
  rw [hfl]
  obtain ⟨g1m, g1d, g1s, g1sm, g1p, _, g1hi, g1lo⟩ := lg
  have gm : g1.dstMac = bcastMac := g1m.trans q2
  have gd : g1.dstIp = ifB.ip := g1d.trans q4
  have gs : g1.srcIp = ifA.ip := g1s.trans q3
  have gsm : g1.srcMac = ifA.mac := g1sm.trans q1
  have gp : g1.pl = .arpReq ifA.ip ifA.mac ifB.ip := g1p.trans q6
  have gttl : 2 ≤ g1.ttl := by
    have : Q.dec.ttl = 63 := by show Q.ttl - 1 = 63; rw [q5]; rfl
    have hf := h.fewPorts
    omega
  generalize hst3 : ({ ((st1.emit (.rx s pa Q.id Q.ttl)).modNode s (fun nd => nd.learnMac Q.srcMac pa)) with
    log := L1 ++ ((st1.emit (.rx s pa Q.id Q.ttl)).modNode s (fun nd => nd.learnMac Q.srcMac pa)).log } : St) = st3
  have S3 : Snap st3 (cfgOf st) a b s ndA ndB (ndS.learnMac ifA.mac pa) := by
    rw [← hst3, q1]
    have := (S1.emit (.rx s pa Q.id Q.ttl)).modS (fun nd => nd.learnMac ifA.mac pa) (fun nd => (learnMac_cfg nd _ _).1) h.as h.bs
    exact ⟨this.cfg, this.na, this.nb, this.ns⟩
  rw [link_step (fuel + 10) st3 s pb b 0 sb ifB g1 (by rw [S0.iface S3]; exact ifSb) h.sbEn h.sbPeer (by rw [S0.iface S3]; exact ifB0) h.enB]
  -- B learns A and answers
  rw [host_arp_req (fuel + 8) st3 b ndB ifB g1 ifA.ip ifA.mac S3.nb h.kindB h.onB h.ifsB gp gm gd gttl]
  -- the receptions after B's port only add log entries
  have hcz := (cAt (fuel + 8)).arpReply (((st3.emit (.rx b 0 g1.id g1.ttl)).modNode b (fun nd => nd.addArp g1.srcIp g1.srcMac 0)).emit
    (.sw b g1.id g1.dstIp true)) b (.arpRep ifB.ip ifB.mac ifA.ip ifA.mac)
  obtain ⟨L2, g2, e2, _⟩ := quiet_fold (fuel + 9) (cfgOf st) s pa bcastMac ifB.ip post
    (by intro p hp; have := hpost p hp; rw [S1.cfg, q2, q4] at this; exact this)
    (sendArpReply (fuel + 8) (((st3.emit (.rx b 0 g1.id g1.ttl)).modNode b (fun nd => nd.addArp g1.srcIp g1.srcMac 0)).emit
      (.sw b g1.id g1.dstIp true)) b (.arpRep ifB.ip ifB.mac ifA.ip ifA.mac)) g1.dec
    (by rw [hcz, cfgOf_emit, cfgOf_addArp, cfgOf_emit]; exact S3.cfg) gm gd
  rw [e2]
  suffices hZ : Snap (sendArpReply (fuel + 8) (((st3.emit (.rx b 0 g1.id g1.ttl)).modNode b (fun nd => nd.addArp g1.srcIp g1.srcMac 0)).emit
      (.sw b g1.id g1.dstIp true)) b (.arpRep ifB.ip ifB.mac ifA.ip ifA.mac)) (cfgOf st) a b s
      ((ndA.addArp ifB.ip ifB.mac 0).addArp ifB.ip ifB.mac 0) (ndB.addArp ifA.ip ifA.mac 0)
      ((ndS.learnMac ifA.mac pa).learnMac ifB.mac pb) from ⟨hZ.cfg, hZ.na, hZ.nb, hZ.ns⟩
  generalize hst5 : ((st3.emit (.rx b 0 g1.id g1.ttl)).modNode b (fun nd => nd.addArp g1.srcIp g1.srcMac 0)).emit
    (.sw b g1.id g1.dstIp true) = st5
  have S5 : Snap st5 (cfgOf st) a b s ndA (ndB.addArp ifA.ip ifA.mac 0) (ndS.learnMac ifA.mac pa) := by
    rw [← hst5, gs, gsm]
    exact (((S3.emit _).modB _ (fun nd => addArp_cfg nd _ _ _) h.ab h.bs).emit _)
  rw [host_arp_reply_send (fuel + 5) st5 b (ndB.addArp ifA.ip ifA.mac 0) ifB ifB.ip ifB.mac ifA.ip ifA.mac S5.nb
    (by rw [addArp_ifaces]; exact h.ifsB) h.enB h.netBA]
  generalize hst6 : ({ st5 with nextId := st5.nextId + 1 } : St) = st6
  have S6 : Snap st6 (cfgOf st) a b s ndA (ndB.addArp ifA.ip ifA.mac 0) (ndS.learnMac ifA.mac pa) := by
    rw [← hst6]; exact S5.nextId _
  generalize hP : mkArpRep st5 ifB ifB.ip ifB.mac ifA.ip ifA.mac = P
  have Ps : P.srcMac = ifB.mac ∧ P.dstMac = ifA.mac ∧ P.srcIp = ifB.ip ∧ P.dstIp = ifA.ip ∧ P.ttl = 64 ∧
      P.pl = .arpRep ifB.ip ifB.mac ifA.ip ifA.mac := by rw [← hP]; exact ⟨rfl, rfl, rfl, rfl, rfl, rfl⟩
  obtain ⟨p1, p2, p3, p4, p5, p6⟩ := Ps
  rw [link_step (fuel + 5) st6 b 0 s pb ifB sb P (by rw [S0.iface S6]; exact ifB0) h.enB h.peerB (by rw [S0.iface S6]; exact ifSb) h.sbEn]
  -- the switch has learned A's port: the reply goes there, and the switch learns B's port
  rw [switch_known_step (fuel + 2) st6 s pb pa (ndS.learnMac ifA.mac pa) sb P S6.ns (by rw [learnMac_kind]; exact h.kindS)
    (by rw [learnMac_ifaces]; exact h.portB) (by rw [p5]; decide) (by rw [p2]; exact h.macA)
    (by rw [p1, p2, macPort_learn_other _ _ _ _ h.macAB]; exact macPort_learn_self ndS ifA.mac pa)]
  generalize hst8 : (st6.emit (.rx s pb P.id P.ttl)).modNode s (fun nd => nd.learnMac P.srcMac pb) = st8
  have S8 : Snap st8 (cfgOf st) a b s ndA (ndB.addArp ifA.ip ifA.mac 0) ((ndS.learnMac ifA.mac pa).learnMac ifB.mac pb) := by
    rw [← hst8, p1]; exact (S6.emit _).modS _ (fun nd => (learnMac_cfg nd _ _).1) h.as h.bs
  rw [link_step (fuel + 2) st8 s pa a 0 sa ifA P.dec (by rw [S0.iface S8]; exact ifSa) h.saEn h.saPeer (by rw [S0.iface S8]; exact ifA0) h.enA]
  -- A learns B
  rw [host_arp_rep fuel st8 a ndA ifA P.dec ifB.ip ifB.mac ifA.ip ifA.mac S8.na h.kindA h.onA h.ifsA p6 p2 h.macA p4
    (by show 2 ≤ P.ttl - 1; rw [p5]; decide)]
  have e1 : P.dec.srcIp = ifB.ip := p3
  have e2 : P.dec.srcMac = ifB.mac := p1
  rw [e1, e2]
  exact ((((S8.emit _).modA _ (fun nd => addArp_cfg nd _ _ _) h.ab h.as).emit _).modA _ (fun nd => addArp_cfg nd _ _ _) h.ab h.as)

/-! ### the warm exchange, for ANY identifier and from ANY state (the core of `C08_permitted_exchange_succeeds_warm`) -/

theorem warm_echo_core (X : St) (a b : Nat) (ndA ndB : Node) (ifA ifB : Iface) (eA eB : ArpEntry)
    (r1 i1 r2 i2 : Nat) (fsA fsB : Mac) (c1 h1 c2 h2 fuel ident : Nat)
    (hA : WarmHost X.nodes a ndA ifA ifB.ip eA r1 i1) (hB : WarmHost X.nodes b ndB ifB ifA.ip eB r2 i2)
    (pAB : Path X.nodes (.echoReq ident) ifA.ip ifB.ip r1 i1 ifA.mac eA.mac b 0 fsB ifB.mac c1 h1)
    (pBA : Path X.nodes (.echoRep ident) ifB.ip ifA.ip r2 i2 ifB.mac eB.mac a 0 fsA ifA.mac c2 h2)
    (hh1 : h1 ≤ 62) (hh2 : h2 ≤ 62) :
    (sendIcmp (fuel + c1 + c2 + 8) X a ifB.ip (.echoReq ident)).node? a =
      some { ndA with replies := bumpReply ndA.replies ident } := by
  obtain ⟨pA, hpA, hpAen⟩ := hA.peerUp
  obtain ⟨pB, hpB, hpBen⟩ := hB.peerUp
  obtain ⟨esA, hesA⟩ := hA.knowsPeer
  obtain ⟨esB, hesB⟩ := hB.knowsPeer
  have nodeA : ∀ Z : St, Z.nodes = X.nodes → Z.node? a = some ndA := fun Z hZ => by unfold St.node?; rw [hZ]; exact hA.node
  have nodeB : ∀ Z : St, Z.nodes = X.nodes → Z.node? b = some ndB := fun Z hZ => by unfold St.node?; rw [hZ]; exact hB.node
  have ifP1 : ∀ Z : St, Z.nodes = X.nodes → Z.iface? r1 i1 = some pA := fun Z hZ => by unfold St.iface?; rw [hZ]; exact hpA
  have ifP2 : ∀ Z : St, Z.nodes = X.nodes → Z.iface? r2 i2 = some pB := fun Z hZ => by unfold St.iface?; rw [hZ]; exact hpB
  have s1 : sendIcmp (fuel + c1 + c2 + 8) X a ifB.ip (.echoReq ident) =
      (ifaceRecv (fuel + c1 + c2 + 5 + 1) { X with nextId := X.nextId + 1 } r1 i1
        (mkFrame X ifA eA.mac ifB.ip (.echoReq ident))).1 :=
    host_send_warm (fuel + c1 + c2 + 5) X a ndA ifA pA ifB.ip eA (.echoReq ident) r1 i1 (nodeA X rfl) hA.kind
      hA.ifs hA.enabled hA.route hA.e0 hA.peer (ifP1 X rfl) hpAen
  obtain ⟨L1, f1, j1, f1s, f1d, f1p, _, f1m, f1t, _⟩ := journey pAB (fuel + c2 + 5)
    { X with nextId := X.nextId + 1 } (mkFrame X ifA eA.mac ifB.ip (.echoReq ident)) rfl rfl rfl rfl rfl hA.gwMacOk
    rfl (by simp [mkFrame, initTtl]; omega)
  have hf1 : fuel + c1 + c2 + 5 + 1 = fuel + c2 + 5 + c1 + 1 := by omega
  rw [hf1, j1] at s1
  generalize hst3 : ({ ({ X with nextId := X.nextId + 1 } : St) with
    log := L1 ++ ({ X with nextId := X.nextId + 1 } : St).log } : St) = st3 at s1
  have n3 : st3.nodes = X.nodes := by rw [← hst3]
  have f1ttl : 2 ≤ f1.ttl := by rw [f1t]; simp [mkFrame, initTtl]; omega
  rw [host_end (fuel + c2 + 5) st3 b ndB ifB f1 (nodeB st3 n3) hB.kind hB.ifs f1m hB.macOk f1d f1ttl] at s1
  have hf1dec : f1.dec.srcIp = ifA.ip ∧ f1.dec.dstIp = ifB.ip ∧ f1.dec.pl = .echoReq ident := ⟨f1s, f1d, f1p⟩
  rw [host_echo_req (fuel + c2 + 4) (st3.emit (.rx b 0 f1.id f1.ttl)) b ndB ifB f1.dec ident esB
    (nodeB _ n3) hB.on hB.ifs hf1dec.2.2 hf1dec.2.1 (by rw [hf1dec.1]; exact hesB)] at s1
  generalize hst4 : (st3.emit (.rx b 0 f1.id f1.ttl)).emit (.sw b f1.dec.id f1.dec.dstIp (f1.dec.dstMac == bcastMac)) = st4 at s1
  have n4 : st4.nodes = X.nodes := by rw [← hst4]; exact n3
  obtain ⟨kB, hro⟩ : ∃ k, resolveOut (fuel + c2 + 4) st4 b f1.dec.srcIp = (st4, some k) := by
    rw [hf1dec.1]
    exact host_resolveOut_warm (fuel + c2 + 2) st4 b ndB ifB ifA.ip eB (nodeB st4 n4) hB.kind hB.ifs hB.enabled hB.route
  simp only [hro] at s1
  rw [hf1dec.1] at s1
  rw [host_send_warm (fuel + c2 + 1) st4 b ndB ifB pB ifA.ip eB (.echoRep ident) r2 i2 (nodeB st4 n4) hB.kind hB.ifs
    hB.enabled hB.route hB.e0 hB.peer (ifP2 st4 n4) hpBen] at s1
  obtain ⟨L2, g1, j2, g1s, _, g1p, _, g1m, g1t, _⟩ := journey pBA (fuel + 1)
    { st4 with nextId := st4.nextId + 1 } (mkFrame st4 ifB eB.mac ifA.ip (.echoRep ident)) n4 rfl rfl rfl rfl hB.gwMacOk
    rfl (by simp [mkFrame, initTtl]; omega)
  have hf2 : fuel + c2 + 1 + 1 = fuel + 1 + c2 + 1 := by omega
  rw [hf2, j2] at s1
  generalize hst6 : ({ ({ st4 with nextId := st4.nextId + 1 } : St) with
    log := L2 ++ ({ st4 with nextId := st4.nextId + 1 } : St).log } : St) = st6 at s1
  have n6 : st6.nodes = X.nodes := by rw [← hst6]; exact n4
  have g1ttl : 2 ≤ g1.ttl := by rw [g1t]; simp [mkFrame, initTtl]; omega
  have g1d : g1.dstIp = ifA.ip := by assumption
  rw [host_end (fuel + 1) st6 a ndA ifA g1 (nodeA st6 n6) hA.kind hA.ifs g1m hA.macOk g1d g1ttl] at s1
  rw [host_echo_rep fuel (st6.emit (.rx a 0 g1.id g1.ttl)) a ndA ifA g1.dec ident esA (nodeA _ n6) hA.on hA.ifs g1p
    (by rw [show g1.dec.srcIp = g1.srcIp from rfl, g1s]; exact hesA)] at s1
  rw [s1]
  simp only [node?_modNode, if_true, node?_emit, nodeA st6 n6, Option.map_some]

/-! ### cold LAN: the ping succeeds -/

theorem find_learn_self (nd : Node) (m : Mac) (p : Nat) :
    (nd.learnMac m p).macTable.find? (fun e => e.1 == m) = some (m, p) := by
  unfold Node.learnMac
  cases hf : nd.macTable.find? (fun e => e.1 == m) with
  | none => simp [List.find?_append, hf]
  | some x =>
    obtain ⟨m', p'⟩ := x
    have hm : m' = m := by
      have := List.find?_some hf
      simpa using this
    subst hm
    simp only
    split
    · rename_i hpp
      have : p' = p := by simpa using hpp
      subst this
      exact hf
    · have hnone : (nd.macTable.filter (fun e => e.1 != m')).find? (fun e => e.1 == m') = none := by
        rw [List.find?_eq_none]
        intro x hx
        have := (List.mem_filter.1 hx).2
        simp only [bne_iff_ne, ne_eq] at this
        simpa using this
      simp [List.find?_append, hnone]

theorem find_learn_other (nd : Node) (m m' : Mac) (p : Nat) (h : m' ≠ m) :
    (nd.learnMac m p).macTable.find? (fun e => e.1 == m') = nd.macTable.find? (fun e => e.1 == m') := by
  unfold Node.learnMac
  have hne : (m == m') = false := by simpa using fun h' => h h'.symm
  cases hf : nd.macTable.find? (fun e => e.1 == m) with
  | none =>
    simp only [List.find?_append]
    cases nd.macTable.find? (fun e => e.1 == m') <;> simp [hne]
  | some x =>
    obtain ⟨m0, p0⟩ := x
    simp only
    split
    · rfl
    · have hfilt : (nd.macTable.filter (fun e => e.1 != m)).find? (fun e => e.1 == m') = nd.macTable.find? (fun e => e.1 == m') := by
        induction nd.macTable with
        | nil => rfl
        | cons y ys ih =>
          simp only [List.filter_cons, List.find?_cons]
          by_cases hy : y.1 = m
          · have h1 : (y.1 != m) = false := by simp [hy]
            have h2 : (y.1 == m') = false := by simp [hy]; exact fun h' => h h'.symm
            simp only [h1, Bool.false_eq_true, if_false, h2, ih]
          · have h1 : (y.1 != m) = true := by simp [hy]
            simp only [h1, if_true, List.find?_cons, ih]
      simp only [List.find?_append, hfilt]
      cases nd.macTable.find? (fun e => e.1 == m') <;> simp [hne]

theorem arpGet_addArp_new (nd : Node) (ip : Ip) (mac : Mac) (i : Nat) (h1 : ifaceWithIp nd.ifaces ip = none)
    (h2 : nd.arpGet ip = none) : (nd.addArp ip mac i).arpGet ip = some { ip := ip, mac := mac, ifc := i } := by
  unfold Node.addArp
  simp only [h1, h2, Option.isSome_none, Bool.false_eq_true, if_false]
  unfold Node.arpGet at h2 ⊢
  simp [List.find?_append, h2]

theorem addArp_kind (nd : Node) (ip : Ip) (mac : Mac) (i : Nat) : (nd.addArp ip mac i).kind = nd.kind :=
  congrArg NodeCfg.kind (addArp_cfg nd ip mac i)
theorem addArp_on (nd : Node) (ip : Ip) (mac : Mac) (i : Nat) : (nd.addArp ip mac i).on = nd.on := by
  unfold Node.addArp; split
  · rfl
  · split <;> rfl
theorem addArp_replies (nd : Node) (ip : Ip) (mac : Mac) (i : Nat) : (nd.addArp ip mac i).replies = nd.replies := by
  unfold Node.addArp; split
  · rfl
  · split <;> rfl

theorem hostArpNext_first (nd : Node) (ip : Ip) : ∃ gw', hostArpNext nd ip false false = .go ip true gw' := by
  unfold hostArpNext
  simp only [Bool.false_or]
  by_cases hg : nd.gateway = some ip
  · simp [hg]
  · have : (nd.gateway == some ip) = false := by simpa using hg
    simp [this]

theorem ColdLan.withNextId {st : St} {a b s pa pb : Nat} {ndA ndB ndS : Node} {ifA ifB sa sb : Iface}
    (h : ColdLan st a b s pa pb ndA ndB ndS ifA ifB sa sb) (k : Nat) :
    ColdLan ({ st with nextId := k } : St) a b s pa pb ndA ndB ndS ifA ifB sa sb :=
  ⟨h.nodeA, h.kindA, h.onA, h.ifsA, h.enA, h.peerA, h.nodeB, h.kindB, h.onB, h.ifsB, h.enB, h.peerB, h.nodeS, h.kindS, h.portA, h.saEn, h.saPeer, h.portB, h.sbEn, h.sbPeer, h.ab, h.as, h.bs, h.pab, h.quiet, h.fewPorts, h.netAB, h.netBA, h.macA, h.macB, h.macAB, h.ipAB, h.coldA, h.coldB, h.notNet, h.notBc⟩

/-- **LIVENESS WITH COLD CACHES, one switched LAN.**  Two powered-on single-NIC hosts of one subnet on a switch (≤ 60 ports)
whose other ports are quiet — dead, uncabled, or cabled to the NICs of OTHER HOSTS, which log the flooded request, spend one
unit of its shared TTL each and drop it —, neither host knowing the other, the switch's MAC table in ANY state: `ping` (one
echo) returns `True`.
The ARP cascade is part of the statement: A's request is flooded (the switch learns A's port), B learns A and answers, the
switch learns B's port and returns the reply through A's port, A learns B; then the echo request and the echo reply are
switched (no flood) and the reply is counted.  For every fuel ≥ 20. -/
theorem C08_permitted_exchange_succeeds_cold_lan (fuel : Nat) (st : St) (a b s pa pb : Nat) (ndA ndB ndS : Node)
    (ifA ifB sa sb : Iface) (h : ColdLan st a b s pa pb ndA ndB ndS ifA ifB sa sb)
    (hrep : replyCount ndA.replies st.nextId = none) (hlo : isLoopback ifB.ip = false) :
    (ping (fuel + 20) st a ifB.ip 1).2 = true := by
  generalize hst0 : ({ st with nextId := st.nextId + 1 } : St) = st0
  have h0 : ColdLan st0 a b s pa pb ndA ndB ndS ifA ifB sa sb := by rw [← hst0]; exact h.withNextId _
  obtain ⟨Y, hY, SY⟩ := lan_arp_exchange fuel st0 a b s pa pb ndA ndB ndS ifA ifB sa sb h0
  -- what the exchange left behind
  have hwA : ifaceWithIp ndA.ifaces ifB.ip = none := by
    simp [ifaceWithIp, h.ifsA, h.ipAB]
  have hwB : ifaceWithIp ndB.ifaces ifA.ip = none := by
    simp [ifaceWithIp, h.ifsB]; exact fun h' => h.ipAB h'.symm
  have hgA : (ndA.addArp ifB.ip ifB.mac 0).arpGet ifB.ip = some { ip := ifB.ip, mac := ifB.mac, ifc := 0 } :=
    arpGet_addArp_new ndA ifB.ip ifB.mac 0 hwA h.coldA
  have hA2 : (ndA.addArp ifB.ip ifB.mac 0).addArp ifB.ip ifB.mac 0 = ndA.addArp ifB.ip ifB.mac 0 :=
    addArp_known _ _ _ _ _ hgA
  rw [hA2] at SY
  have hgB : (ndB.addArp ifA.ip ifA.mac 0).arpGet ifA.ip = some { ip := ifA.ip, mac := ifA.mac, ifc := 0 } :=
    arpGet_addArp_new ndB ifA.ip ifA.mac 0 hwB h.coldB
  -- A's look-up: miss, request, hit
  obtain ⟨gw', hnext⟩ := hostArpNext_first ndA ifB.ip
  have hfe : firstEnabledIn ndA.ifaces ifB.ip 0 = some 0 := by simp [h.ifsA, firstEnabledIn, h.netAB, h.enA]
  have hmac0 : arpMac (fuel + 18) st0 a ifB.ip false false = (Y, some ifB.mac) := by
    simp only [arpMac, h0.nodeA, h.coldA, arpNext, h.kindA, hnext, hY, SY.na, hgA]
  have hifc : arpIfc (fuel + 18) Y a ifB.ip false false = (Y, some 0) := by
    simp only [arpIfc, SY.na, hgA]
  have hrd0 : resolveDetails (fuel + 19) st0 a ifB.ip = (Y, some ifB.mac, some 0) := by
    simp only [resolveDetails, h0.nodeA, hfe, hmac0, hifc]
  have hrdY : resolveDetails (fuel + 19) Y a ifB.ip = (Y, some ifB.mac, some 0) :=
    C08_host_resolves_direct (fuel + 17) Y a 0 (ndA.addArp ifB.ip ifB.mac 0) ifB.ip _ SY.na (by rw [addArp_kind]; exact h.kindA)
      (by rw [addArp_ifaces]; exact hfe) hgA
  have hsame : sendIcmp (fuel + 20) st0 a ifB.ip (.echoReq st.nextId) = sendIcmp (fuel + 20) Y a ifB.ip (.echoReq st.nextId) := by
    simp only [sendIcmp, hrd0, hrdY]
  -- the warm exchange from the state the ARP exchange left
  have nS : Y.nodes[s]? = some ((ndS.learnMac ifA.mac pa).learnMac ifB.mac pb) := SY.ns
  have nA : Y.nodes[a]? = some (ndA.addArp ifB.ip ifB.mac 0) := SY.na
  have nB : Y.nodes[b]? = some (ndB.addArp ifA.ip ifA.mac 0) := SY.nb
  have sIf : ((ndS.learnMac ifA.mac pa).learnMac ifB.mac pb).ifaces = ndS.ifaces := by rw [learnMac_ifaces, learnMac_ifaces]
  have wA : WarmHost Y.nodes a (ndA.addArp ifB.ip ifB.mac 0) ifA ifB.ip { ip := ifB.ip, mac := ifB.mac, ifc := 0 } s pa :=
    { node := nA, kind := by rw [addArp_kind]; exact h.kindA, on := by rw [addArp_on]; exact h.onA,
      ifs := by rw [addArp_ifaces]; exact h.ifsA, enabled := h.enA, route := Or.inl ⟨h.netAB, hgA⟩, e0 := rfl, peer := h.peerA,
      peerUp := ⟨sa, by rw [nS, Option.bind_some, sIf]; exact h.portA, h.saEn⟩, knowsPeer := ⟨_, hgA⟩, macOk := h.macA,
      gwMacOk := h.macB }
  have wB : WarmHost Y.nodes b (ndB.addArp ifA.ip ifA.mac 0) ifB ifA.ip { ip := ifA.ip, mac := ifA.mac, ifc := 0 } s pb :=
    { node := nB, kind := by rw [addArp_kind]; exact h.kindB, on := by rw [addArp_on]; exact h.onB,
      ifs := by rw [addArp_ifaces]; exact h.ifsB, enabled := h.enB, route := Or.inl ⟨h.netBA, hgB⟩, e0 := rfl, peer := h.peerB,
      peerUp := ⟨sb, by rw [nS, Option.bind_some, sIf]; exact h.portB, h.sbEn⟩, knowsPeer := ⟨_, hgB⟩, macOk := h.macB,
      gwMacOk := h.macA }
  have fA : ((ndS.learnMac ifA.mac pa).learnMac ifB.mac pb).macTable.find? (fun e => e.1 == ifA.mac) = some (ifA.mac, pa) := by
    rw [find_learn_other _ _ _ _ h.macAB]; exact find_learn_self ndS ifA.mac pa
  have fB : ((ndS.learnMac ifA.mac pa).learnMac ifB.mac pb).macTable.find? (fun e => e.1 == ifB.mac) = some (ifB.mac, pb) :=
    find_learn_self _ ifB.mac pb
  have hopAB : SwHop Y.nodes s pa ifA.mac ifB.mac b 0 :=
    ⟨⟨_, sa, pb, sb, ifB, nS, by rw [learnMac_kind, learnMac_kind]; exact h.kindS, by rw [sIf]; exact h.portA, fA,
      by unfold Node.macPort; rw [fB]; rfl, by rw [sIf]; exact h.portB, h.sbEn, h.sbPeer,
      by rw [nB, Option.bind_some, addArp_ifaces, h.ifsB]; rfl, h.enB⟩⟩
  have hopBA : SwHop Y.nodes s pb ifB.mac ifA.mac a 0 :=
    ⟨⟨_, sb, pa, sa, ifA, nS, by rw [learnMac_kind, learnMac_kind]; exact h.kindS, by rw [sIf]; exact h.portB, fB,
      by unfold Node.macPort; rw [fA]; rfl, by rw [sIf]; exact h.portA, h.saEn, h.saPeer,
      by rw [nA, Option.bind_some, addArp_ifaces, h.ifsA]; rfl, h.enA⟩⟩
  have pAB : Path Y.nodes (.echoReq st.nextId) ifA.ip ifB.ip s pa ifA.mac ifB.mac b 0 ifA.mac ifB.mac (0 + 3) (0 + 1) :=
    Path.switch hopAB Path.arrive
  have pBA : Path Y.nodes (.echoRep st.nextId) ifB.ip ifA.ip s pb ifB.mac ifA.mac a 0 ifB.mac ifA.mac (0 + 3) (0 + 1) :=
    Path.switch hopBA Path.arrive
  have hcore := warm_echo_core Y a b _ _ ifA ifB _ _ s pa s pb ifB.mac ifA.mac (0 + 3) (0 + 1) (0 + 3) (0 + 1) (fuel + 6) st.nextId
    wA wB pAB pBA (by omega) (by omega)
  have hfu : fuel + 6 + (0 + 3) + (0 + 3) + 8 = fuel + 20 := by omega
  rw [hfu, ← hsame] at hcore
  -- `ping` reads the counter
  have hro : resolveOut (fuel + 20) st0 a ifB.ip = (st0, some 0) := by simp only [resolveOut, h0.nodeA, hfe]
  unfold ping
  simp only [h.nodeA, h.onA, hlo, Bool.not_true, Bool.false_eq_true, if_false, List.range_one, List.foldl_cons, List.foldl_nil, hst0, hro,
    hcore, Bool.true_and]
  rw [addArp_replies, replyCount_bump ndA.replies st.nextId hrep]
  rfl

/-! ### non-vacuity: a concrete cold LAN (three hosts on a four-port switch, one port uncabled, a stale table entry) -/

def clA : Iface := { mac := 11, ip := 0xC0A80102#32, plen := 24, enabled := true, peer := some (1, 0) }
def clB : Iface := { mac := 12, ip := 0xC0A80103#32, plen := 24, enabled := true, peer := some (1, 1) }
def clC : Iface := { mac := 13, ip := 0xC0A80104#32, plen := 24, enabled := true, peer := some (1, 2) }
def clS0 : Iface := { mac := 21, ip := 0#32, plen := 0, enabled := true, peer := some (0, 0) }
def clS1 : Iface := { mac := 22, ip := 0#32, plen := 0, enabled := true, peer := some (2, 0) }
def clS2 : Iface := { mac := 23, ip := 0#32, plen := 0, enabled := true, peer := some (3, 0) }
def clS3 : Iface := { mac := 24, ip := 0#32, plen := 0, enabled := true, peer := none }
def clHostA : Node := { kind := .host, ifaces := [clA] }
def clSwitch : Node := { kind := .switch, ifaces := [clS0, clS1, clS2, clS3], macTable := [(12, 3)] }  -- a stale entry for B
def clHostB : Node := { kind := .host, ifaces := [clB], gateway := some 0xC0A80101#32 }
def clHostC : Node := { kind := .host, ifaces := [clC] }
def clSt : St := { nodes := [clHostA, clSwitch, clHostB, clHostC] }

theorem clLan : ColdLan clSt 0 2 1 0 1 clHostA clHostB clSwitch clA clB clS0 clS1 :=
  { nodeA := rfl, kindA := rfl, onA := rfl, ifsA := rfl, enA := rfl, peerA := rfl, nodeB := rfl, kindB := rfl, onB := rfl,
    ifsB := rfl, enB := rfl, peerB := rfl, nodeS := rfl, kindS := rfl, portA := rfl, saEn := rfl, saPeer := rfl, portB := rfl,
    sbEn := rfl, sbPeer := rfl, ab := by decide, as := by decide, bs := by decide, pab := by decide,
    quiet := by
      intro p h1 h2 pif hp
      match p, hp with
      | 0, _ => exact absurd rfl h2
      | 1, _ => exact absurd rfl h1
      | 2, hp =>
        -- host C hears the request, logs it and drops it
        have : pif = clS2 := by
          have : some clS2 = some pif := hp
          simpa using this.symm
        subst this
        refine Or.inr (Or.inr ⟨3, 0, rfl, Or.inr ⟨clC, clHostC.cfg, rfl, rfl, Or.inr ⟨rfl, ?_⟩⟩⟩)
        intro nd g _ hm hd
        unfold hostAccepts
        rw [hm, hd]
        simp only [beq_self_eq_true, if_true]
        decide
      | 3, hp =>
        have : pif = clS3 := by
          have : some clS3 = some pif := hp
          simpa using this.symm
        subst this
        exact Or.inr (Or.inl rfl)
      | (k + 4), hp => exact absurd hp (by simp [cfgOf, clSt, clSwitch, Node.cfg]),
    fewPorts := by decide,
    netAB := by decide, netBA := by decide, macA := by decide, macB := by decide, macAB := by decide, ipAB := by decide,
    coldA := rfl, coldB := rfl, notNet := by decide, notBc := by decide }

/-- the theorem applies (cold caches, a third host on the switch, a stale switch entry for B on the wrong port) … -/
example : (ping 20 clSt 0 clB.ip 1).2 = true :=
  C08_permitted_exchange_succeeds_cold_lan 0 clSt 0 2 1 0 1 clHostA clHostB clSwitch clA clB clS0 clS1 clLan rfl (by decide)
/-- … and agrees with evaluation; with the NIC of B disabled the same ping fails (the hypotheses matter). -/
example : (ping 20 clSt 0 clB.ip 1).2 = true := by decide +kernel
example : (ping 200 { clSt with nodes := [clHostA, clSwitch, { clHostB with ifaces := [{ clB with enabled := false }] }, clHostC] }
    0 clB.ip 1).2 = false := by decide +kernel

end Primaite.Forward
