/-
C13, round 7 second shift: "software that is not running never handles network payloads" on the TRANSLATED `receive` / `send`
methods of every shipped class (FTP client / server and the C2 suite included), for every payload, every payload test and every
return value of a callee:

  * `quietChain_sound`   — the checker is sound: a chain it accepts returns False and performs only allowed effects whenever
                            `_can_perform_action()` is False, whatever the payload (all `Env`);
  * `C13_gen_receive_quiet` / `C13_receive_not_running` — every shipped class's `receive`;
  * `C13_gen_send_quiet` / `C13_send_not_running`       — every shipped class's `send` (one listed exception: `DatabaseService.send`
                            has no guard of its own; its only caller in the class is `DatabaseService.receive`, after the guard);
  * `C13_gen_c2_relay`   — the C2 relay: `_handle_c2_payload` dispatches the three payload types to the three handlers, and nothing
                            in the package calls the handlers except `receive` → `_handle_c2_payload` (so a command or its output is
                            handled only behind `AbstractC2.receive`'s guard); likewise `_process_ftp_command`;
  * `C13_relay_running_reaches_handler` — non-vacuity: RUNNING software with a well-typed payload does reach its handler.
-/
import PrimaiteModel.Model.C13Relay
import PrimaiteModel.Gen.SoftwareRelay
namespace Primaite.C13
open Primaite.Relay

theorem quietBody_sound (allowed : List String) (env : Env) (hc : env.canAct = false) (sup : Bool × List String) (supQuiet : Bool)
    (hsup : supQuiet = true → sup.1 = false ∧ ∀ e ∈ sup.2, e ∈ allowed) (prog : List Stmt)
    (hq : quietBody allowed supQuiet prog = true) :
    (runBody env sup prog).1 = false ∧ ∀ e ∈ (runBody env sup prog).2, e ∈ allowed := by
  induction prog with
  | nil => simp [runBody]
  | cons s r ih =>
    cases s with
    | typeCheck c =>
      simp only [quietBody] at hq
      simp only [runBody]
      split
      · exact ih hq
      · simp
    | guardCan => simp [runBody, hc]
    | guardSuper =>
      simp only [quietBody] at hq
      obtain ⟨h1, h2⟩ := hsup hq
      simp only [runBody, h1]
      exact ⟨by simp, h2⟩
    | retSuper =>
      simp only [quietBody] at hq
      simpa [runBody] using hsup hq
    | retCan => simp [runBody, hc]
    | retIf c b =>
      simp only [quietBody, Bool.and_eq_true, Bool.not_eq_eq_eq_not, Bool.not_true] at hq
      simp only [runBody]
      split
      · simp [hq.1]
      · exact ih hq.2
    | retEffIf c e => simp [quietBody] at hq
    | doIf c e =>
      simp only [quietBody, Bool.and_eq_true, List.contains_iff_mem] at hq
      obtain ⟨h1, h2⟩ := ih hq.2
      simp only [runBody]
      refine ⟨h1, ?_⟩
      split
      · intro x hx
        rcases List.mem_cons.1 hx with hx | hx
        · exact hx ▸ hq.1
        · exact h2 x hx
      · exact h2
    | eff e =>
      simp only [quietBody, Bool.and_eq_true, List.contains_iff_mem] at hq
      obtain ⟨h1, h2⟩ := ih hq.2
      simp only [runBody]
      refine ⟨h1, ?_⟩
      intro x hx
      rcases List.mem_cons.1 hx with hx | hx
      · exact hx ▸ hq.1
      · exact h2 x hx
    | retEff e => simp [quietBody] at hq
    | ret b =>
      simp only [quietBody, Bool.not_eq_eq_eq_not, Bool.not_true] at hq
      simp [runBody, hq]

/-- **the checker is sound**: a chain accepted by `quietChain allowed`, run with `_can_perform_action() = False`, returns False and
performs only effects in `allowed` — for every payload type, every test on the payload, every return value of a callee -/
theorem quietChain_sound (allowed : List String) (env : Env) (hc : env.canAct = false) (chain : List (List Stmt))
    (hq : quietChain allowed chain = true) :
    (runChain env chain).1 = false ∧ ∀ e ∈ (runChain env chain).2, e ∈ allowed := by
  induction chain with
  | nil => simp [runChain]
  | cons p ps ih =>
    simp only [quietChain] at hq
    simp only [runChain]
    exact quietBody_sound allowed env hc _ (quietChain allowed ps) (fun h => ih h) p hq

/-- the programs of a chain -/
def progs (x : String × List (String × List Stmt)) : List (List Stmt) := x.2.map (·.2)

/-- **the tie, receive**: the translated `receive` of EVERY shipped class passes the checker — with NO effect allowed before the
guard, except `FTPClient` (its `_active` flag) -/
theorem C13_gen_receive_quiet :
    (∀ x ∈ Gen.SoftwareRelay.receiveChains, x.1 ≠ "FTPClient" → quietChain [] (progs x) = true) ∧
    (∀ x ∈ Gen.SoftwareRelay.receiveChains, quietChain allowedBeforeGuard (progs x) = true) ∧
    Gen.SoftwareRelay.receiveChains.length = 24 := by decide

/-- **not running ⇒ `receive` handles nothing**: every shipped class, every payload -/
theorem C13_receive_not_running (x : String × List (String × List Stmt)) (hx : x ∈ Gen.SoftwareRelay.receiveChains)
    (env : Env) (hc : env.canAct = false) :
    (runChain env (progs x)).1 = false ∧ ∀ e ∈ (runChain env (progs x)).2, e ∈ allowedBeforeGuard :=
  quietChain_sound _ env hc _ (C13_gen_receive_quiet.2.1 x hx)

/-- **the tie, send**: the translated `send` of every shipped class passes the checker, except the classes listed in
`unguardedSend` (`DatabaseService`: called only from its own `receive`, which is guarded) -/
theorem C13_gen_send_quiet :
    (∀ x ∈ Gen.SoftwareRelay.sendChains, (Gen.SoftwareRelay.unguardedSend.map (·.1)).contains x.1 = false →
      quietChain allowedBeforeGuard (progs x) = true) ∧
    Gen.SoftwareRelay.unguardedSend = [("DatabaseService", ["DatabaseService.receive"])] ∧
    Gen.SoftwareRelay.sendChains.length = 24 := by decide

theorem C13_send_not_running (x : String × List (String × List Stmt)) (hx : x ∈ Gen.SoftwareRelay.sendChains)
    (hn : (Gen.SoftwareRelay.unguardedSend.map (·.1)).contains x.1 = false) (env : Env) (hc : env.canAct = false) :
    (runChain env (progs x)).1 = false ∧ ∀ e ∈ (runChain env (progs x)).2, e ∈ allowedBeforeGuard :=
  quietChain_sound _ env hc _ (C13_gen_send_quiet.1 x hx hn)

/-- **the C2 command relay and the FTP handlers sit behind `receive`**: the dispatch is the three-way one, and in the whole package
the handlers are called from nowhere else -/
theorem C13_gen_c2_relay :
    Gen.SoftwareRelay.c2HandlePayload =
      [.retEffIf "payload.payload_type == C2Payload.KEEP_ALIVE" "_handle_keep_alive",
       .retEffIf "payload.payload_type == C2Payload.INPUT" "_handle_command_input",
       .retEffIf "payload.payload_type == C2Payload.OUTPUT" "_handle_command_output", .ret false] ∧
    Gen.SoftwareRelay.handlerCallers =
      [("_handle_c2_payload", ["AbstractC2.receive"]), ("_handle_keep_alive", ["AbstractC2._handle_c2_payload"]),
       ("_handle_command_input", ["AbstractC2._handle_c2_payload"]), ("_handle_command_output", ["AbstractC2._handle_c2_payload"]),
       ("_process_ftp_command", ["FTPClient._process_ftp_command", "FTPClient.receive", "FTPServer._process_ftp_command",
                                 "FTPServer.receive"])] := by decide

/-- an unexpected C2 payload type is dropped: handled by no handler, returns False (every `res`) -/
theorem C13_c2_unknown_payload_dropped (env : Env) (h : ∀ c, env.cond c = false) :
    runBody env (false, []) Gen.SoftwareRelay.c2HandlePayload = (false, []) := by
  have := C13_gen_c2_relay.1
  rw [this]
  simp [runBody, h]

/-- look a class's chain up -/
def chainOf (l : List (String × List (String × List Stmt))) (c : String) : List (List Stmt) :=
  match l.find? (·.1 == c) with
  | some x => progs x
  | none => []

/-- non-vacuity: RUNNING software handed a well-typed payload reaches its handler (FTP server and client, C2 beacon);
a stopped FTP client only sets its `_active` flag -/
theorem C13_relay_running_reaches_handler :
    let on : Env := { canAct := true, isType := fun _ => true, cond := fun _ => false, res := fun _ => true }
    let off : Env := { on with canAct := false }
    runChain on (chainOf Gen.SoftwareRelay.receiveChains "FTPServer") = (true, ["_process_ftp_command"]) ∧
    runChain on (chainOf Gen.SoftwareRelay.receiveChains "FTPClient") = (true, ["set:_active", "_process_ftp_command"]) ∧
    runChain on (chainOf Gen.SoftwareRelay.receiveChains "C2Beacon") = (true, ["_handle_c2_payload"]) ∧
    runChain off (chainOf Gen.SoftwareRelay.receiveChains "FTPServer") = (false, []) ∧
    runChain off (chainOf Gen.SoftwareRelay.receiveChains "FTPClient") = (false, ["set:_active"]) ∧
    runChain off (chainOf Gen.SoftwareRelay.receiveChains "C2Server") = (false, []) ∧
    runChain off (chainOf Gen.SoftwareRelay.sendChains "C2Server") = (false, []) ∧
    runChain off (chainOf Gen.SoftwareRelay.sendChains "FTPClient") = (false, ["set:_active"]) := by decide

end Primaite.C13

namespace Primaite.C13
open Primaite.Relay

/-- a RUNNING FTP client handed an FTP packet: the three tests its `receive` makes on the packet as inputs -/
def ftpEnv (noStatus portOk quitOk : Bool) : Env :=
  { canAct := true, isType := fun _ => true, res := fun _ => false,
    cond := fun c =>
      if c = "payload.status_code is None" then noStatus
      else if c = "payload.ftp_command is FTPCommand.PORT and payload.status_code is FTPStatusCode.OK" then portOk
      else if c = "payload.ftp_command is FTPCommand.QUIT and payload.status_code is FTPStatusCode.OK" then quitOk
      else false }

/-- **what a RUNNING FTP client does with a server's answer** (the connection bookkeeping of the relay, on the translated code, every
combination of the tests): an answer without a status code is refused; otherwise the packet is processed and accepted, a connection
is added exactly for a successful PORT and terminated exactly for a successful QUIT -/
theorem C13_ftp_client_bookkeeping (a b c : Bool) :
    let r := runChain (ftpEnv a b c) (chainOf Gen.SoftwareRelay.receiveChains "FTPClient")
    (a = true → r = (false, ["set:_active"])) ∧
    (a = false → r.1 = true ∧ r.2.contains "_process_ftp_command" = true ∧
      r.2.contains "add_connection" = b ∧ r.2.contains "terminate_connection" = c) := by
  cases a <;> cases b <;> cases c <;> decide

/-- **what a RUNNING FTP server does with a packet**: one that already carries a status code (an answer) is ignored, a request is
processed and accepted -/
theorem C13_ftp_server_requests_only (answered : Bool) :
    let env : Env := { canAct := true, isType := fun _ => true, res := fun _ => false,
                       cond := fun c => if c = "payload.status_code is not None" then answered else false }
    runChain env (chainOf Gen.SoftwareRelay.receiveChains "FTPServer") =
      if answered then (false, []) else (true, ["_process_ftp_command"]) := by
  cases answered <;> decide

end Primaite.C13
