/-
C15 — the file system stays structurally consistent under any operation sequence.
Property theorems; the model is `Model/FileSystem.lean`, the invariant `Inv`/`FolderInv` and the per-operation
preservation lemmas are in `Lemmas/FileSystem{Basics,Folder,State,Ops}.lean`.
-/
import PrimaiteModel.Lemmas.FileSystemDescribe
import PrimaiteModel.Lemmas.FileSystemKeeps
import PrimaiteModel.Lemmas.FileSystemSnapshot
import PrimaiteModel.Gen.FileSystem
namespace Primaite.FileSystem

/-! ### the invariant holds initially, after every step, hence in every reachable state -/

/-- A fresh file system (whatever `_default_folder_restore_duration` is set to afterwards) satisfies `Inv`. -/
theorem C15_inv_init (d : Option Int) : Inv (init d) := by
  constructor
  · intro g hg
    simp only [init, List.mem_singleton, List.not_mem_nil, or_false] at hg
    subst hg
    exact ⟨folderInv_empty 0 "root" 3, by intro a ha; simp at ha, by simp [init]⟩
  all_goals simp [init, lookupRoute]

/-- Every operation — each request below `file_system`, by whatever route, on existing, deleted or never-created names,
and both halves of a tick — preserves `Inv`. -/
theorem C15_inv_step {s : State} (h : Inv s) (op : Op) : Inv (step s op).1 := by
  cases op with
  | createFile F x force => exact inv_createFile h F x force
  | createFolder F => exact (createFolder_spec h F).1
  | deleteFile F x => exact inv_deleteFile h F x
  | deleteFolder F => exact inv_deleteFolder h F
  | restoreFile F x => exact inv_restoreFile h F x
  | restoreFolder F => exact inv_restoreFolder h F
  | access F x => exact h
  | folderVerb F v => exact inv_folderVerb h F v
  | folderDelete F x => exact inv_folderDelete h F x
  | fileVerb F x v => exact inv_fileVerb h F x v
  | fsFileVerb F x v => simp only [step]; rw [fsFileVerb_state h]; exact h
  | preTick => exact inv_congr h rfl rfl rfl rfl
  | tick => exact inv_tick h

theorem C15_inv_run {s : State} (h : Inv s) (ops : List Op) : Inv (run s ops).1 := by
  induction ops generalizing s with
  | nil => exact h
  | cons op ops ih => simp only [run]; exact ih (C15_inv_step h op)

/-- `Inv` holds in every state reachable from a fresh file system by any operation sequence. -/
theorem C15_inv_reachable (d : Option Int) (ops : List Op) : Inv (run (init d) ops).1 :=
  C15_inv_run (C15_inv_init d) ops

/-- A reachable, non-trivial state (a restored file next to a deleted namesake, a deleted folder, a re-created folder of
the same name) — the invariant is not vacuous and `run` really moves items between the dictionaries. -/
example :
    let s := (run (init (some 1))
      [.createFile "fa" "a" false, .deleteFile "fa" "a", .createFile "fa" "a" true, .deleteFile "fa" "a",
       .restoreFile "fa" "a", .createFolder "fb", .deleteFolder "fb", .createFolder "fb"]).1
    s.folders.map (·.name) = ["root", "fa", "fb"] ∧ s.deletedFolders.map (·.name) = ["fb"] ∧
    (s.folders.map (fun g => (g.files.map (·.id), g.deletedFiles.map (·.id)))) = [([], []), ([2], [3]), ([], [])] := by
  decide

/-! ### the statements of C15 read off the invariant -/

/-- Live folder names are unique, and live file names are unique within every folder (as lists without repetition). -/
theorem C15_live_names_unique {s : State} (h : Inv s) :
    (s.folders.map Folder.name).Nodup ∧
    ∀ g, g ∈ s.folders ∨ g ∈ s.deletedFolders → (g.files.map File.name).Nodup :=
  ⟨nodup_map_of_inj Folder.id Folder.name h.liveIds h.uniqueNames,
   fun g hg => nodup_map_of_inj File.id File.name (h.folder g hg).1.liveIds (h.folder g hg).1.uniqueNames⟩

/-- Every folder is in exactly one of `folders` / `deleted_folders` (no uuid occurs twice across both) and its `deleted`
flag says which; the same for the files of every folder. -/
theorem C15_partition {s : State} (h : Inv s) :
    ((s.folders ++ s.deletedFolders).map Folder.id).Nodup ∧
    (∀ g ∈ s.folders ++ s.deletedFolders, (g.deleted = true ↔ g ∈ s.deletedFolders) ∧ (g.deleted = false ↔ g ∈ s.folders)) ∧
    ∀ g ∈ s.folders ++ s.deletedFolders,
      ((g.files ++ g.deletedFiles).map File.id).Nodup ∧
      ∀ f ∈ g.files ++ g.deletedFiles, (f.deleted = true ↔ f ∈ g.deletedFiles) ∧ (f.deleted = false ↔ f ∈ g.files) := by
  refine ⟨?_, ?_, ?_⟩
  · rw [List.map_append, List.nodup_append]
    refine ⟨h.liveIds, h.delIds, ?_⟩
    intro a ha b hb
    obtain ⟨a0, ha0, rfl⟩ := List.mem_map.mp ha
    obtain ⟨b0, hb0, rfl⟩ := List.mem_map.mp hb
    exact h.disjoint a0 ha0 b0 hb0
  · intro g hg
    rcases List.mem_append.mp hg with hl | hd
    · have := h.liveFlag g hl
      refine ⟨⟨(fun e => by rw [this] at e; cases e), fun hd => h.delFlag g hd⟩, ⟨fun _ => hl, fun _ => this⟩⟩
    · have := h.delFlag g hd
      refine ⟨⟨fun _ => hd, fun _ => this⟩, ⟨(fun e => by rw [this] at e; cases e), fun hl => h.liveFlag g hl⟩⟩
  · intro g hg
    have gi := (h.folder g (List.mem_append.mp hg)).1
    refine ⟨?_, ?_⟩
    · rw [List.map_append, List.nodup_append]
      refine ⟨gi.liveIds, gi.delIds, ?_⟩
      intro a ha b hb
      obtain ⟨a0, ha0, rfl⟩ := List.mem_map.mp ha
      obtain ⟨b0, hb0, rfl⟩ := List.mem_map.mp hb
      exact gi.disjoint a0 ha0 b0 hb0
    · intro f hf
      rcases List.mem_append.mp hf with hl | hd
      · have := gi.liveFlag f hl
        refine ⟨⟨(fun e => by rw [this] at e; cases e), fun hd => gi.delFlag f hd⟩, ⟨fun _ => hl, fun _ => this⟩⟩
      · have := gi.delFlag f hd
        refine ⟨⟨fun _ => hd, fun _ => this⟩, ⟨(fun e => by rw [this] at e; cases e), fun hl => gi.liveFlag f hl⟩⟩

/-- A request that passes the guards of the `folder` route is answered by the live folder of that name, and inside it a
request that passes the guards of the `file` route is answered by the live file of that name: the name-keyed routes
never lead to a deleted namesake. -/
theorem C15_routes_lead_to_live {s : State} (h : Inv s) :
    (∀ g ∈ s.folders, lookupRoute s.folderRoutes g.name = some g.id ∧ findFolderById s g.id = some g) ∧
    ∀ g, g ∈ s.folders ∨ g ∈ s.deletedFolders → ∀ f ∈ g.files,
      lookupRoute g.fileRoutes f.name = some f.id ∧ (g.files ++ g.deletedFiles).find? (fun y => y.id == f.id) = some f := by
  refine ⟨?_, ?_⟩
  · intro g hg
    have hguard : folderGuard s g.name = true := by
      unfold folderGuard
      rw [getFolder_incl_of_live (getFolder_of_live h hg), getFolder_of_live h hg]
      simp [h.liveFlag g hg]
    obtain ⟨g0, hg0, hn0, _, _, hfind⟩ := folderGuard_spec h hguard
    have := eq_of_key_eq Folder.id h.liveIds hg0 hg (h.uniqueNames g0 hg0 g hg hn0)
    subst this
    exact ⟨h.routes g0 hg, hfind⟩
  · intro g hg f hf
    have gi := (h.folder g hg).1
    refine ⟨gi.routes f hf, ?_⟩
    cases hfind : (g.files ++ g.deletedFiles).find? (fun y => y.id == f.id) with
    | none =>
      have := List.find?_eq_none.mp hfind f (List.mem_append.mpr (Or.inl hf))
      simp at this
    | some f0 =>
      have hid : f0.id = f.id := by simpa using List.find?_some hfind
      rw [file_eq_of_id gi hf (List.mem_of_find?_eq_some hfind) hid]

/-! ### the reported state -/

/-- `describe_state()` lists exactly the live and the deleted items: one entry per live folder, in dictionary order, each
carrying that folder's own description, whose `files` dict has one entry per live file carrying that file's uuid
(no two live items collapse onto one key); the keys of `deleted_folders` / `deleted_files` are exactly the names of the
deleted items and every entry there describes a deleted item of that name (deleted namesakes share one key — a name is
all a dict keyed by name can list); the counters are reported as they are. -/
theorem C15_describe_exact {s : State} (h : Inv s) :
    (describe s).folders = s.folders.map (fun g => (g.name, g.describe)) ∧
    (∀ n, n ∈ (describe s).deletedFolders.map (·.1) ↔ ∃ g ∈ s.deletedFolders, g.name = n) ∧
    (∀ p ∈ (describe s).deletedFolders, ∃ g ∈ s.deletedFolders, p = (g.name, g.describe)) ∧
    (∀ g, g ∈ s.folders ∨ g ∈ s.deletedFolders →
      g.describe.files = g.files.map (fun f => (f.name, f.id)) ∧
      (∀ n, n ∈ g.describe.deletedFiles.map (·.1) ↔ ∃ f ∈ g.deletedFiles, f.name = n) ∧
      (∀ p ∈ g.describe.deletedFiles, ∃ f ∈ g.deletedFiles, p = (f.name, f.id))) ∧
    (describe s).numCreations = s.numCreations ∧ (describe s).numDeletions = s.numDeletions := by
  have hu := C15_live_names_unique h
  refine ⟨?_, ?_, ?_, ?_, rfl, rfl⟩
  · unfold describe
    simp only
    apply pyDict_of_nodup
    rw [List.map_map]
    exact hu.1
  · intro n
    unfold describe
    simp only
    rw [pyDict_keys_mem, List.map_map]
    simp [List.mem_map]
  · intro p hp
    unfold describe at hp
    simp only at hp
    obtain ⟨g, hg, rfl⟩ := List.mem_map.mp (pyDict_mem _ p hp)
    exact ⟨g, hg, rfl⟩
  · intro g hg
    refine ⟨?_, ?_, ?_⟩
    · unfold Folder.describe
      simp only
      apply pyDict_of_nodup
      rw [List.map_map]
      exact hu.2 g hg
    · intro n
      unfold Folder.describe
      simp only
      rw [pyDict_keys_mem, List.map_map]
      simp [List.mem_map]
    · intro p hp
      unfold Folder.describe at hp
      simp only at hp
      obtain ⟨f, hf, rfl⟩ := List.mem_map.mp (pyDict_mem _ p hp)
      exact ⟨f, hf, rfl⟩

/-- Without the invariant the report does collapse: two live files of one name (the state F-25 produced) are listed as
one — so `C15_describe_exact` genuinely needs `Inv`. -/
example :
    let g : Folder := { id := 1, name := "fa", files := [{ id := 2, name := "a" }, { id := 3, name := "a" }] }
    g.describe.files = [("a", 3)] := by decide

/-! ### the per-tick counters -/

/-- What one answered operation does to `(num_file_creations, num_file_deletions)`. -/
def tallyStep (op : Op) (o : Out) (cd : Nat × Nat) : Nat × Nat :=
  match op, o with
  | .preTick, _ => (0, 0)
  | .createFile .., .success => (cd.1 + 1, cd.2)
  | .deleteFile .., .success => (cd.1, cd.2 + 1)
  | _, _ => cd

def tally : List Op → List Out → Nat × Nat → Nat × Nat
  | op :: ops, o :: os, cd => tally ops os (tallyStep op o cd)
  | _, _, cd => cd

theorem createFolder_counters (s : State) (n : Name) :
    (createFolder s n).1.numCreations = s.numCreations ∧ (createFolder s n).1.numDeletions = s.numDeletions := by
  rw [createFolder_eq]; cases getFolder s n <;> exact ⟨rfl, rfl⟩

theorem viaFolder_counters (s : State) (F : Name) (k : Folder → Option (Folder × Out)) :
    (viaFolder s F k).1.numCreations = s.numCreations ∧ (viaFolder s F k).1.numDeletions = s.numDeletions := by
  unfold viaFolder
  split
  · exact ⟨rfl, rfl⟩
  · split
    · exact ⟨rfl, rfl⟩
    · split
      · exact ⟨rfl, rfl⟩
      · split <;> exact ⟨rfl, rfl⟩

/-- Every operation moves the counters exactly as `tallyStep` says: `pre_timestep` zeroes both, a successful
`create/file` adds one creation, a successful `delete/file` adds one deletion, nothing else touches them
(in particular `["folder",F,"delete",x]` deletes a file without counting it — the code's behaviour). -/
theorem C15_counters_step (s : State) (op : Op) :
    ((step s op).1.numCreations, (step s op).1.numDeletions) = tallyStep op (step s op).2 (s.numCreations, s.numDeletions) := by
  cases op with
  | createFile F x force =>
    simp only [step]
    unfold createFile
    by_cases hc : (!force && (getFile s (if F = "" then "root" else F) x).isSome) = true
    · rw [if_pos hc]; rfl
    · rw [if_neg hc]
      have ht : (createFileTarget s F).1.numCreations = s.numCreations ∧ (createFileTarget s F).1.numDeletions = s.numDeletions := by
        unfold createFileTarget
        split
        · cases getFolder s F with
          | some g => exact ⟨rfl, rfl⟩
          | none => exact createFolder_counters s F
        · exact ⟨rfl, rfl⟩
      cases heq : createFileTarget s F with
      | mk s1 og =>
        rw [heq] at ht
        cases og with
        | none => simp only [tallyStep]; rw [ht.1, ht.2]
        | some g =>
          simp only
          unfold createFileIn
          cases g.getFile x <;> simp only [tallyStep, updFolder] <;> rw [ht.1, ht.2]
  | createFolder F => simp only [step, tallyStep]; rw [(createFolder_counters s F).1, (createFolder_counters s F).2]
  | deleteFile F x =>
    simp only [step]; unfold deleteFile
    split
    · rfl
    · cases getFolder s F with
      | none => rfl
      | some g => simp only; cases g.getFile x <;> rfl
  | deleteFolder F =>
    simp only [step]; unfold deleteFolder
    cases getFolder s F with
    | none => rfl
    | some g => simp only; split <;> rfl
  | restoreFile F x =>
    simp only [step]; unfold restoreFile
    cases getFolder s F with
    | none => rfl
    | some g => simp only; cases g.getFile x true <;> rfl
  | restoreFolder F =>
    simp only [step]; unfold restoreFolder
    cases getFolder s F true <;> rfl
  | access F x => rfl
  | folderVerb F v => simp only [step, tallyStep]; rw [(viaFolder_counters s F _).1, (viaFolder_counters s F _).2]
  | folderDelete F x => simp only [step, tallyStep]; rw [(viaFolder_counters s F _).1, (viaFolder_counters s F _).2]
  | fileVerb F x v => simp only [step, tallyStep]; rw [(viaFolder_counters s F _).1, (viaFolder_counters s F _).2]
  | fsFileVerb F x v =>
    simp only [step]; unfold fsFileVerb
    cases getFolder s F with
    | none => rfl
    | some g =>
      simp only
      cases g.getFile x with
      | none => rfl
      | some f => simp only; cases f.verb v <;> rfl
  | preTick => rfl
  | tick => rfl

/-- Along any operation sequence the counters are the tally of the answered operations. -/
theorem C15_counters_tally (s : State) (ops : List Op) :
    ((run s ops).1.numCreations, (run s ops).1.numDeletions) = tally ops (run s ops).2 (s.numCreations, s.numDeletions) := by
  induction ops generalizing s with
  | nil => rfl
  | cons op ops ih =>
    simp only [run, tally]
    rw [ih, C15_counters_step]

/-- The counters start every tick at zero: `pre_timestep` zeroes both, whatever happened before … -/
theorem C15_counters_zero_at_tick_start (s : State) :
    (step s .preTick).1.numCreations = 0 ∧ (step s .preTick).1.numDeletions = 0 := ⟨rfl, rfl⟩

/-- … and from there they count exactly the successful `create/file` and `delete/file` requests of the tick. -/
theorem C15_counters_count_since_tick_start (s : State) (ops : List Op) :
    let r := run s (.preTick :: ops)
    (r.1.numCreations, r.1.numDeletions) = tally ops r.2.tail (0, 0) := by
  simp only [run, List.tail_cons]
  rw [C15_counters_tally]
  rfl

/-! ### nothing raises -/

/-- In a state satisfying `Inv` no file-system request answers with an exception: the root folder exists for
`create_file`'s default, and no request route dangles. -/
theorem C15_never_raises {s : State} (h : Inv s) (op : Op) : (step s op).2 ≠ .raised := by
  cases op with
  | createFile F x force =>
    simp only [step]
    unfold createFile
    by_cases hc : (!force && (getFile s (if F = "" then "root" else F) x).isSome) = true
    · rw [if_pos hc]; simp
    · rw [if_neg hc]
      have htarget : ∃ s1 g, createFileTarget s F = (s1, some g) := by
        unfold createFileTarget
        by_cases hF : F = ""
        · obtain ⟨r, hr, hrn⟩ := h.root
          have := getFolder_of_live h hr
          rw [hrn] at this
          simp only [hF, ne_eq, not_true_eq_false, if_false, this]
          exact ⟨s, r, rfl⟩
        · simp only [ne_eq, hF, not_false_eq_true, if_true]
          cases getFolder s F with
          | some g => exact ⟨s, g, rfl⟩
          | none => exact ⟨_, _, rfl⟩
      obtain ⟨s1, g, ht⟩ := htarget
      rw [ht]
      simp only
      unfold createFileIn
      cases g.getFile x <;> simp
  | createFolder F => simp [step]
  | deleteFile F x =>
    simp only [step]; unfold deleteFile
    split
    · simp
    · cases getFolder s F with
      | none => simp
      | some g => simp only; cases g.getFile x <;> simp
  | deleteFolder F =>
    simp only [step]; unfold deleteFolder
    cases getFolder s F with
    | none => simp
    | some g => simp only; split <;> simp
  | restoreFile F x =>
    simp only [step]; unfold restoreFile
    cases getFolder s F with
    | none => simp
    | some g =>
      simp only
      cases g.getFile x true with
      | none => simp
      | some f => exact ofBool_ne_raised _
  | restoreFolder F =>
    simp only [step]; unfold restoreFolder
    cases getFolder s F true <;> simp
  | access F x => exact ofBool_ne_raised _
  | folderVerb F v =>
    simp only [step]
    rcases viaFolder_out h F (fun g => (g.verb v).map (fun (g', b) => (g', ofBool b))) with ⟨_, e⟩ | ⟨g, _, _, ⟨_, e⟩ | ⟨g', o, hk, e⟩⟩
    · rw [e]; simp
    · rw [e]; simp
    · rw [e]
      cases hv : g.verb v with
      | none => simp [hv] at hk
      | some p =>
        simp only [hv, Option.map_some, Option.some.injEq, Prod.mk.injEq] at hk
        rw [← hk.2]; exact ofBool_ne_raised _
  | folderDelete F x =>
    simp only [step]
    rcases viaFolder_out h F (fun g => let (g', b) := g.removeFileByName x; some (g', ofBool b)) with
      ⟨_, e⟩ | ⟨g, _, _, ⟨_, e⟩ | ⟨g', o, hk, e⟩⟩
    · rw [e]; simp
    · rw [e]; simp
    · rw [e]
      simp only [Option.some.injEq, Prod.mk.injEq] at hk
      rw [← hk.2]; exact ofBool_ne_raised _
  | fileVerb F x v =>
    simp only [step]
    rcases viaFolder_out h F (fun g => some (g.fileRequest x v)) with ⟨_, e⟩ | ⟨g, hgm, _, ⟨_, e⟩ | ⟨g', o, hk, e⟩⟩
    · rw [e]; simp
    · rw [e]; simp
    · rw [e]
      simp only [Option.some.injEq] at hk
      have := fileRequest_out_ne_raised (h.folder g (Or.inl hgm)).1 x v
      rw [hk] at this
      exact this
  | fsFileVerb F x v =>
    simp only [step]; unfold fsFileVerb
    cases getFolder s F with
    | none => simp
    | some g =>
      simp only
      cases g.getFile x with
      | none => simp
      | some f =>
        simp only
        cases f.verb v with
        | none => simp
        | some p => exact ofBool_ne_raised _
  | preTick => simp [step]
  | tick => simp [step]

/-- Along any operation sequence from a fresh file system, no answer is an exception. -/
theorem C15_never_raises_run (d : Option Int) (ops : List Op) : Out.raised ∉ (run (init d) ops).2 := by
  suffices ∀ s, Inv s → Out.raised ∉ (run s ops).2 from this _ (C15_inv_init d)
  induction ops with
  | nil => intro s _; simp [run]
  | cons op ops ih =>
    intro s h
    simp only [run, List.mem_cons, not_or]
    exact ⟨fun e => C15_never_raises h op e.symm, ih _ (C15_inv_step h op)⟩

/-! ### creating what already exists is refused or a no-op -/

/-- The structural content of a folder / of the file system: everything except request routes, timers and counters. -/
def Folder.core (g : Folder) : Nat × Name × Bool × List File × List File :=
  (g.id, g.name, g.deleted, g.files, g.deletedFiles)
def State.core (s : State) : List (Nat × Name × Bool × List File × List File) × List (Nat × Name × Bool × List File × List File) :=
  (s.folders.map Folder.core, s.deletedFolders.map Folder.core)

/-- Creating a folder whose name is live answers `success` and changes nothing structural (it only re-applies the
configured restore duration); with no configured duration the state is literally unchanged. -/
theorem C15_create_existing_folder_noop {s : State} (h : Inv s) {g : Folder} (hg : g ∈ s.folders) :
    (step s (.createFolder g.name)).2 = .success ∧ (step s (.createFolder g.name)).1.core = s.core ∧
    (s.defaultRestore = none → (step s (.createFolder g.name)).1 = s) := by
  simp only [step]
  rw [createFolder_eq, getFolder_of_live h hg]
  simp only
  obtain ⟨f1, f2, f3, f4, f5, _, _⟩ := setDur_fields s g
  have hfold : dictSet Folder.id s.folders (setDur s g) =
      s.folders.map (fun y => if y.id == g.id then setDur s g else y) := by
    unfold dictSet
    have : s.folders.any (fun y => y.id == (setDur s g).id) = true := by
      simp only [List.any_eq_true, beq_iff_eq]; exact ⟨g, hg, f1.symm⟩
    rw [if_pos this, f1]
  refine ⟨by trivial, ?_, ?_⟩
  · unfold State.core
    simp only [hfold, List.map_map, Prod.mk.injEq, and_true]
    apply List.map_congr_left
    intro a ha
    by_cases hk : a.id = g.id
    · have := eq_of_key_eq Folder.id h.liveIds ha hg hk
      subst this
      simp [Folder.core, f1, f2, f3, f4, f5]
    · simp [hk]
  · intro hd
    have : setDur s g = g := by unfold setDur; rw [hd]
    rw [this, dictSet_self Folder.id h.liveIds hg]

/-- Creating a file whose name is live in the target folder: unforced, the request is refused and nothing changes;
forced, it answers `success` and nothing structural changes (same files, same uuids; only the creation counter and
the route registration move). `F = ""` addresses the root folder. -/
theorem C15_create_existing_file_refused_or_noop {s : State} (h : Inv s) {g : Folder} {f : File} (F : Name)
    (hg : g ∈ s.folders) (hF : g.name = if F = "" then "root" else F) (hf : f ∈ g.files) :
    step s (.createFile F f.name false) = (s, .failure) ∧
    (step s (.createFile F f.name true)).2 = .success ∧ (step s (.createFile F f.name true)).1.core = s.core := by
  have gi := h.folder g (Or.inl hg)
  have hgf : getFolder s (if F = "" then "root" else F) = some g := by rw [← hF]; exact getFolder_of_live h hg
  have hff : g.getFile f.name = some f := getFile_of_live gi.1 hf
  have hlook : getFile s (if F = "" then "root" else F) f.name = some f := by
    unfold getFile; rw [hgf]; exact hff
  have htarget : createFileTarget s F = (s, some g) := by
    unfold createFileTarget
    by_cases hFe : F = ""
    · simp only [hFe, ne_eq, not_true_eq_false, if_false]
      rw [hFe] at hgf; simp only [if_true] at hgf; rw [hgf]
    · simp only [ne_eq, hFe, not_false_eq_true, if_true]
      simp only [hFe, if_false] at hgf; rw [hgf]
  refine ⟨?_, ?_, ?_⟩
  · simp [step, createFile, hlook]
  · simp [step, createFile, htarget, createFileIn, hff]
  · simp only [step, createFile, Bool.not_true, Bool.false_and, Bool.false_eq_true, if_false, htarget, createFileIn, hff]
    unfold State.core updFolder
    simp only [List.map_map, Prod.mk.injEq]
    constructor
    · apply List.map_congr_left
      intro a ha
      by_cases hk : a.id = g.id
      · have := eq_of_key_eq Folder.id h.liveIds ha hg hk
        subst this
        simp [Folder.core, Folder.addFile, dictSet_self File.id gi.1.liveIds hf]
      · simp [hk]
    · apply List.map_congr_left
      intro a ha
      have hk : a.id ≠ g.id := fun e => h.disjoint g hg a ha e.symm
      simp [hk]

/-! ### a deleted (or never-created) item is unavailable -/

/-- The operations that act on, or inside, the folder named `F` — everything except creation and `restore/folder`. -/
def Op.usesFolder (F : Name) : Op → Bool
  | .deleteFile F' _ | .deleteFolder F' | .restoreFile F' _ | .access F' _ | .folderVerb F' _ | .folderDelete F' _
  | .fileVerb F' _ _ | .fsFileVerb F' _ _ => F' == F
  | _ => false

/-- The operations that act on the file `x` of folder `F` — everything except creation and `restore/file`. -/
def Op.usesFile (F x : Name) : Op → Bool
  | .deleteFile F' x' | .access F' x' | .folderDelete F' x' | .fileVerb F' x' _ | .fsFileVerb F' x' _ => F' == F && x' == x
  | _ => false

/-- When no live folder is named `F` (the folder is deleted or was never created), every request on it or on
anything inside it is refused with `failure` and changes nothing. Only `create/…` and `restore/folder` get through. -/
theorem C15_deleted_folder_unavailable {s : State} {F : Name} (hno : ∀ g ∈ s.folders, g.name ≠ F) (op : Op)
    (hop : op.usesFolder F = true) : step s op = (s, .failure) := by
  have hg := getFolder_none_of hno
  have hguard := folderGuard_false_of_no_live hno
  cases op <;> simp only [Op.usesFolder, beq_iff_eq, Bool.false_eq_true] at hop <;> subst hop <;>
    simp [step, deleteFile, deleteFolder, restoreFile, access, getFile, viaFolder, fsFileVerb, hg, hguard, ofBool]

example : ∃ s, Inv s ∧ (∃ g ∈ s.deletedFolders, g.name = "fa") ∧ ∀ g ∈ s.folders, g.name ≠ "fa" :=
  ⟨(run (init none) [.createFile "fa" "a" false, .deleteFolder "fa"]).1, C15_inv_reachable _ _, by decide, by decide⟩

/-- When the live folder `F` has no live file named `x` (the file is deleted or was never created), every request on
that file is refused with `failure` and changes nothing. Only `create/file` and `restore/file` (and the completion of a
folder restore) get through. -/
theorem C15_deleted_file_unavailable {s : State} (h : Inv s) {g : Folder} {x : Name} (hg : g ∈ s.folders)
    (hno : ∀ f ∈ g.files, f.name ≠ x) (op : Op) (hop : op.usesFile g.name x = true) : step s op = (s, .failure) := by
  have hgf := getFolder_of_live h hg
  have hff := getFile_none_of hno
  have hvia : ∀ k : Folder → Option (Folder × Out), k g = some (g, .failure) → viaFolder s g.name k = (s, .failure) := by
    intro k hk
    rcases viaFolder_out h g.name k with ⟨hnone, _⟩ | ⟨g0, hg0, hn0, ⟨hk0, _⟩ | ⟨g', o, hk0, e⟩⟩
    · exact absurd rfl (hnone g hg)
    · have := eq_of_key_eq Folder.id h.liveIds hg0 hg (h.uniqueNames g0 hg0 g hg hn0)
      subst this; rw [hk] at hk0; cases hk0
    · have := eq_of_key_eq Folder.id h.liveIds hg0 hg (h.uniqueNames g0 hg0 g hg hn0)
      subst this
      rw [hk] at hk0
      simp only [Option.some.injEq, Prod.mk.injEq] at hk0
      rw [e, ← hk0.1, ← hk0.2, updFolder_self h hg]
  cases op <;> simp only [Op.usesFile, Bool.and_eq_true, beq_iff_eq, Bool.false_eq_true] at hop
  case deleteFile F' x' => obtain ⟨rfl, rfl⟩ := hop; simp [step, deleteFile, getFile, hgf, hff]
  case access F' x' => obtain ⟨rfl, rfl⟩ := hop; simp [step, access, getFile, hgf, hff, ofBool]
  case fsFileVerb F' x' v => obtain ⟨rfl, rfl⟩ := hop; simp [step, fsFileVerb, hgf, hff]
  case folderDelete F' x' =>
    obtain ⟨rfl, rfl⟩ := hop
    simp only [step]
    apply hvia
    rcases removeFileByName_spec (g := g) (n := x') with ⟨f, hfm, hfn, _⟩ | ⟨_, he⟩
    · exact absurd hfn (hno f hfm)
    · simp [he, ofBool]
  case fileVerb F' x' v =>
    obtain ⟨rfl, rfl⟩ := hop
    simp only [step]
    apply hvia
    have e1 := fileRequest_state (h.folder g (Or.inl hg)).1 x' v
    have e2 := fileRequest_refused v hno
    exact congrArg some (Prod.ext e1 e2)

example : ∃ s g, Inv s ∧ g ∈ s.folders ∧ g.name = "fa" ∧ (∃ f ∈ g.deletedFiles, f.name = "a") ∧ ∀ f ∈ g.files, f.name ≠ "a" :=
  ⟨(run (init none) [.createFile "fa" "a" false, .deleteFile "fa" "a"]).1, _, C15_inv_reachable _ _,
    List.mem_cons_of_mem _ (List.mem_cons_self ..), by decide, by decide, by decide⟩

/-! ### deleting moves an item to the deleted set, restoring moves it back -/

/-- `delete/file` on a live file: answered `success`; afterwards the file (same uuid) is in the folder's
`deleted_files` with its flag set and no longer in `files`; every other file of the folder stays where it was. -/
theorem C15_delete_file_moves {s : State} (h : Inv s) {g : Folder} {f : File} (hg : g ∈ s.folders) (hf : f ∈ g.files) :
    (step s (.deleteFile g.name f.name)).2 = .success ∧
    ∃ g' ∈ (step s (.deleteFile g.name f.name)).1.folders, g'.id = g.id ∧
      f.delete ∈ g'.deletedFiles ∧ (∀ a ∈ g'.files, a.id ≠ f.id) ∧
      (∀ a ∈ g.files, a.id ≠ f.id → a ∈ g'.files) ∧ (∀ b ∈ g.deletedFiles, b ∈ g'.deletedFiles) := by
  have gi := (h.folder g (Or.inl hg)).1
  have hgf := getFolder_of_live h hg
  have hff := getFile_of_live gi hf
  have hlook : getFile s g.name f.name = some f := by unfold getFile; rw [hgf]; exact hff
  have hany : g.files.any (fun y => y.id == f.id) = true := by
    simp only [List.any_eq_true, beq_iff_eq]; exact ⟨f, hf, rfl⟩
  simp only [step, deleteFile, hlook, Option.isNone_some, Bool.false_eq_true, if_false, hgf, hff]
  refine ⟨trivial, g.removeFile f, ?_, ?_, ?_, ?_, ?_, ?_⟩
  · simp only [updFolder]
    exact List.mem_map.mpr ⟨g, hg, by simp⟩
  · unfold Folder.removeFile; rw [if_pos hany]
  · unfold Folder.removeFile; rw [if_pos hany]
    exact (mem_dictSet File.id).mpr (Or.inl rfl)
  · unfold Folder.removeFile; rw [if_pos hany]
    intro a ha
    exact ((mem_dictPop File.id).mp ha).2
  · unfold Folder.removeFile; rw [if_pos hany]
    intro a ha hne
    exact (mem_dictPop File.id).mpr ⟨ha, hne⟩
  · unfold Folder.removeFile; rw [if_pos hany]
    intro b hb
    exact (mem_dictSet File.id).mpr (Or.inr ⟨hb, fun e => gi.disjoint f hf b hb e.symm⟩)

/-- `restore/file` on a name with no live file but a deleted one: answered `success`; afterwards that file (the oldest
deleted one of that name, same uuid) is in `files` with its flag cleared and no longer in `deleted_files`. -/
theorem C15_restore_file_moves {s : State} (h : Inv s) {g : Folder} {f : File} {x : Name} (hg : g ∈ s.folders)
    (hno : ∀ a ∈ g.files, a.name ≠ x) (hf : g.getFile x true = some f) :
    f ∈ g.deletedFiles ∧ (step s (.restoreFile g.name x)).2 = .success ∧
    ∃ g' ∈ (step s (.restoreFile g.name x)).1.folders, g'.id = g.id ∧
      f.restore ∈ g'.files ∧ f.restore.deleted = false ∧ (∀ b ∈ g'.deletedFiles, b.id ≠ f.id) ∧
      (∀ a ∈ g.files, a ∈ g'.files) := by
  have gi := (h.folder g (Or.inl hg)).1
  have hgf := getFolder_of_live h hg
  obtain ⟨hfn, hcase⟩ := getFile_incl hf
  have hfd : f ∈ g.deletedFiles := by
    rcases hcase with hl | ⟨hd, _⟩
    · exact absurd hfn (hno f hl)
    · exact hd
  have hrf : (g.restoreFile x).1.files = dictSet File.id g.files f.restore ∧
      (g.restoreFile x).1.deletedFiles = dictPop File.id g.deletedFiles f.id ∧ (g.restoreFile x).2 = true := by
    unfold Folder.restoreFile; rw [hf]; exact ⟨rfl, rfl, rfl⟩
  refine ⟨hfd, ?_, ?_⟩
  · simp [step, restoreFile, hgf, hf, hrf.2.2, ofBool]
  · simp only [step, restoreFile, hgf, hf]
    refine ⟨(g.restoreFile x).1, ?_, (restoreFile_meta g x).1, ?_⟩
    · simp only [updFolder]
      exact List.mem_map.mpr ⟨g, hg, by simp⟩
    · rw [hrf.1, hrf.2.1]
      refine ⟨(mem_dictSet File.id).mpr (Or.inl rfl), rfl, ?_, ?_⟩
      · intro b hb; exact ((mem_dictPop File.id).mp hb).2
      · intro a ha
        exact (mem_dictSet File.id).mpr (Or.inr ⟨ha, fun e => gi.disjoint a ha f hfd e⟩)

/-- The root folder cannot be deleted. -/
theorem C15_root_undeletable (s : State) : step s (.deleteFolder "root") = (s, .failure) := by
  simp only [step, deleteFolder]
  cases getFolder s "root" <;> simp

/-- `delete/folder` on a live folder other than root: answered `success`; afterwards no live folder has that uuid, and the
folder (same uuid) is in `deleted_folders`, flagged, with no live files — every file it had is in its `deleted_files`,
flagged. All other folders are untouched. -/
theorem C15_delete_folder_moves {s : State} (h : Inv s) {g : Folder} (hg : g ∈ s.folders) (hr : g.name ≠ "root") :
    (step s (.deleteFolder g.name)).2 = .success ∧
    (∀ a ∈ (step s (.deleteFolder g.name)).1.folders, a.id ≠ g.id) ∧
    (∀ a ∈ s.folders, a.id ≠ g.id → a ∈ (step s (.deleteFolder g.name)).1.folders) ∧
    (∀ b ∈ s.deletedFolders, b ∈ (step s (.deleteFolder g.name)).1.deletedFolders) ∧
    ∃ g' ∈ (step s (.deleteFolder g.name)).1.deletedFolders, g'.id = g.id ∧ g'.name = g.name ∧ g'.deleted = true ∧
      g'.files = [] ∧ (∀ b ∈ g'.deletedFiles, b.deleted = true) ∧
      ∀ f, f ∈ g.files ∨ f ∈ g.deletedFiles → ∃ f' ∈ g'.deletedFiles, f'.id = f.id := by
  have gi := (h.folder g (Or.inl hg)).1
  have hgf := getFolder_of_live h hg
  simp only [step, deleteFolder, hgf, hr, if_false]
  refine ⟨trivial, ?_, ?_, ?_, ?_⟩
  · intro a ha; exact ((mem_dictPop Folder.id).mp ha).2
  · intro a ha hne; exact (mem_dictPop Folder.id).mpr ⟨ha, hne⟩
  · intro b hb
    exact (mem_dictSet Folder.id).mpr (Or.inr ⟨hb, fun e => h.disjoint g hg b hb e.symm⟩)
  · refine ⟨_, (mem_dictSet Folder.id).mpr (Or.inl rfl), rfl, rfl, rfl, rfl, ?_, ?_⟩
    · exact (folderInv_removeAllFiles (gi.congr (g' := { g with deleted := true }) rfl rfl rfl)).delFlag
    · -- ids are kept by the accumulation
      have key : ∀ (fs d : List File) (i : Nat), (∃ y ∈ d, y.id = i) ∨ (∃ y ∈ fs, y.id = i) →
          ∃ y ∈ fs.foldl (fun d f => dictSet File.id d f.delete) d, y.id = i := by
        intro fs
        induction fs with
        | nil =>
          intro d i hi
          rcases hi with hi | ⟨y, hy, _⟩
          · exact hi
          · cases hy
        | cons c t ih =>
          intro d i hi
          simp only [List.foldl_cons]
          apply ih
          rcases hi with ⟨y, hy, hyi⟩ | ⟨y, hy, hyi⟩
          · by_cases hk : y.id = c.id
            · exact Or.inl ⟨c.delete, (mem_dictSet File.id).mpr (Or.inl rfl), by rw [← hyi, hk]; rfl⟩
            · exact Or.inl ⟨y, (mem_dictSet File.id).mpr (Or.inr ⟨hy, hk⟩), hyi⟩
          · rcases List.mem_cons.mp hy with rfl | hy
            · exact Or.inl ⟨y.delete, (mem_dictSet File.id).mpr (Or.inl rfl), hyi⟩
            · exact Or.inr ⟨y, hy, hyi⟩
      intro f hf
      unfold Folder.removeAllFiles
      simp only
      rcases hf with hf | hf
      · exact key g.files g.deletedFiles f.id (Or.inr ⟨f, hf, rfl⟩)
      · exact key g.files g.deletedFiles f.id (Or.inl ⟨f, hf, rfl⟩)

/-- `restore/folder` on a name with no live folder but a deleted one: answered `success`; afterwards that folder (the
oldest deleted one of that name, same uuid) is live with its flag cleared and its restore countdown running, and no
longer in `deleted_folders`; its files stay deleted until the countdown completes. -/
theorem C15_restore_folder_moves {s : State} (h : Inv s) {g : Folder} {F : Name} (hno : ∀ a ∈ s.folders, a.name ≠ F)
    (hgf : getFolder s F true = some g) :
    g ∈ s.deletedFolders ∧ (step s (.restoreFolder F)).2 = .success ∧
    g.restore ∈ (step s (.restoreFolder F)).1.folders ∧ g.restore.deleted = false ∧ g.restore.id = g.id ∧
    g.restore.files = g.files ∧ g.restore.deletedFiles = g.deletedFiles ∧
    (∀ b ∈ (step s (.restoreFolder F)).1.deletedFolders, b.id ≠ g.id) ∧
    (∀ a ∈ s.folders, a ∈ (step s (.restoreFolder F)).1.folders) := by
  obtain ⟨hgn, hcase⟩ := getFolder_incl hgf
  have hgd : g ∈ s.deletedFolders := by
    rcases hcase with hl | ⟨hd, _⟩
    · exact absurd hgn (hno g hl)
    · exact hd
  simp only [step, restoreFolder, hgf]
  refine ⟨hgd, trivial, (mem_dictSet Folder.id).mpr (Or.inl rfl), rfl, rfl, rfl, rfl, ?_, ?_⟩
  · intro b hb; exact ((mem_dictPop Folder.id).mp hb).2
  · intro a ha
    exact (mem_dictSet Folder.id).mpr (Or.inr ⟨ha, fun e => h.disjoint a ha g hgd e⟩)

/-! ### never neither: no item is ever lost -/

/-- Every folder uuid present before an operation is present afterwards (live or deleted), and that folder still holds
every file uuid it held (live or deleted): together with `C15_partition`, every item ever created is at every later
moment in exactly one of the two sets of its owner. -/
theorem C15_no_item_lost {s : State} (h : Inv s) (op : Op) : Keeps s (step s op).1 := keeps_step h op

theorem C15_no_item_lost_run {s : State} (h : Inv s) (ops : List Op) : Keeps s (run s ops).1 := by
  induction ops generalizing s with
  | nil => exact Keeps.refl s
  | cons op ops ih => simp only [run]; exact (keeps_step h op).trans (ih (C15_inv_step h op))

/-- From any reachable state onwards, along any continuation. -/
theorem C15_no_item_lost_reachable (d : Option Int) (ops1 ops2 : List Op) :
    Keeps (run (init d) ops1).1 (run (run (init d) ops1).1 ops2).1 :=
  C15_no_item_lost_run (C15_inv_reachable d ops1) ops2

/-! ### translator tie: the tables regenerated from the source agree with what the model assumes -/

/-- The request trees, handler functions, validator bodies and the cleaned bodies of every transcribed method are,
verbatim, the text the model was written against (`Lemmas/FileSystemSnapshot.lean`). A change to any of them breaks
this obligation. -/
theorem C15_gen_source_snapshot :
    Gen.FileSystem.methods = Snapshot.methods ∧ Gen.FileSystem.fsHandlers = Snapshot.fsHandlers ∧
    Gen.FileSystem.fsTree = Snapshot.fsTree ∧ Gen.FileSystem.folderTree = Snapshot.folderTree ∧
    Gen.FileSystem.validators = Snapshot.validators :=
  ⟨rfl, rfl, rfl, rfl, rfl⟩

/-- The request names an item registers are exactly the model's five verbs, bound to the methods the model
transcribes; every other name is `unreachable`. -/
theorem C15_gen_item_verbs :
    Gen.FileSystem.itemVerbs =
      [("scan", "scan"), ("checkhash", "check_hash"), ("repair", "repair"), ("restore", "restore"), ("corrupt", "corrupt")] ∧
    Gen.FileSystem.itemVerbs.map (fun p => verbOf p.1) = [.scan, .checkhash, .repair, .restore, .corrupt] := by
  decide

/-- `scan/repair/corrupt` of files and folders start with the deleted-guard (answer `False`) and otherwise answer `True`;
`check_hash` answers `False` unconditionally — which is what `File.verb` / `Folder.verb` return. -/
theorem C15_gen_guards :
    Gen.FileSystem.guards =
      [("Folder.scan", true, true), ("Folder.repair", true, true), ("Folder.corrupt", true, true),
       ("Folder.check_hash", true, false), ("File.scan", true, true), ("File.repair", true, true),
       ("File.corrupt", true, true), ("File.check_hash", true, false)] ∧
    (∀ f : File, (f.verb .scan).map (·.2) = some (!f.deleted) ∧ (f.verb .repair).map (·.2) = some (!f.deleted) ∧
      (f.verb .corrupt).map (·.2) = some (!f.deleted) ∧ (f.verb .checkhash).map (·.2) = some false) ∧
    (∀ g : Folder, (g.verb .scan).map (·.2) = some (!g.deleted) ∧ (g.verb .repair).map (·.2) = some (!g.deleted) ∧
      (g.verb .corrupt).map (·.2) = some (!g.deleted) ∧ (g.verb .checkhash).map (·.2) = some false) := by
  refine ⟨by decide, ?_, ?_⟩ <;> intro x <;> simp [File.verb, Folder.verb]

/-- Field defaults the model's `init` and fresh items rely on. -/
theorem C15_gen_constants :
    Gen.FileSystem.folderRestoreDuration = ({ id := 0, name := "" } : Folder).restoreDuration ∧
    Gen.FileSystem.folderRestoreCountdown = ({ id := 0, name := "" } : Folder).restoreCountdown ∧
    Gen.FileSystem.itemDeletedDefault = ({ id := 0, name := "" } : Folder).deleted ∧
    Gen.FileSystem.itemDeletedDefault = ({ id := 0, name := "" } : File).deleted ∧
    Gen.FileSystem.defaultFolderRestoreDuration = "None" ∧
    Gen.FileSystem.numFileCreationsDefault = (init none).numCreations ∧
    Gen.FileSystem.numFileDeletionsDefault = (init none).numDeletions := by
  decide

/-- Every file/folder agent action forms exactly the request whose model operation is the one the rig drives for it;
in particular `node-file-create` carries `config.force` (not the verb) as the force element. -/
theorem C15_gen_actions (n F x : String) (force : Bool) :
    ofNodeRequest (Gen.FileSystem.nodeFileCreate n F x (if force then "1" else "0")) = some (.createFile F x force) ∧
    ofNodeRequest (Gen.FileSystem.nodeFileDelete n F x) = some (.deleteFile F x) ∧
    ofNodeRequest (Gen.FileSystem.nodeFileAccess n F x) = some (.access F x) ∧
    ofNodeRequest (Gen.FileSystem.nodeFileScan n F x) = some (.fileVerb F x .scan) ∧
    ofNodeRequest (Gen.FileSystem.nodeFileCheckhash n F x) = some (.fileVerb F x .checkhash) ∧
    ofNodeRequest (Gen.FileSystem.nodeFileRepair n F x) = some (.fileVerb F x .repair) ∧
    ofNodeRequest (Gen.FileSystem.nodeFileRestore n F x) = some (.fileVerb F x .restore) ∧
    ofNodeRequest (Gen.FileSystem.nodeFileCorrupt n F x) = some (.fileVerb F x .corrupt) ∧
    ofNodeRequest (Gen.FileSystem.nodeFolderCreate n F) = some (.createFolder F) ∧
    ofNodeRequest (Gen.FileSystem.nodeFolderScan n F) = some (.folderVerb F .scan) ∧
    ofNodeRequest (Gen.FileSystem.nodeFolderCheckhash n F) = some (.folderVerb F .checkhash) ∧
    ofNodeRequest (Gen.FileSystem.nodeFolderRepair n F) = some (.folderVerb F .repair) ∧
    ofNodeRequest (Gen.FileSystem.nodeFolderRestore n F) = some (.folderVerb F .restore) ∧
    Gen.FileSystem.actionNames =
      ["node-file-create", "node-file-scan", "node-file-delete", "node-file-restore", "node-file-corrupt",
       "node-file-access", "node-file-checkhash", "node-file-repair", "node-folder-scan", "node-folder-checkhash",
       "node-folder-repair", "node-folder-restore", "node-folder-create"] := by
  cases force <;>
    simp [ofNodeRequest, ofRequest, verbOf, Gen.FileSystem.nodeFileCreate, Gen.FileSystem.nodeFileDelete,
      Gen.FileSystem.nodeFileAccess, Gen.FileSystem.nodeFileScan, Gen.FileSystem.nodeFileCheckhash,
      Gen.FileSystem.nodeFileRepair, Gen.FileSystem.nodeFileRestore, Gen.FileSystem.nodeFileCorrupt,
      Gen.FileSystem.nodeFolderCreate, Gen.FileSystem.nodeFolderScan, Gen.FileSystem.nodeFolderCheckhash,
      Gen.FileSystem.nodeFolderRepair, Gen.FileSystem.nodeFolderRestore, Gen.FileSystem.actionNames]

end Primaite.FileSystem
