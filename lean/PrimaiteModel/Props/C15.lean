/-
C15 — the file system stays structurally consistent under any operation sequence.
Property theorems; the model is `Model/FileSystem.lean`, the invariant `Inv`/`FolderInv` and the per-operation
preservation lemmas are in `Lemmas/FileSystem{Basics,Folder,State,Ops}.lean`.
-/
import PrimaiteModel.Lemmas.FileSystemOps
import PrimaiteModel.Lemmas.FileSystemSnapshot
import PrimaiteModel.Gen.FileSystem
namespace Primaite.FileSystem

/-! ### the invariant holds initially, after every step, hence in every reachable state -/

/-- A fresh file system (whatever `_default_folder_restore_duration` is set to afterwards) satisfies `Inv`. -/
theorem C15_inv_init (d : Option Int) : Inv (init d) := by
  constructor
  · intro g hg
    simp only [init, List.mem_singleton, List.not_mem_nil, or_false] at hg
    subst hg
    exact ⟨folderInv_empty 0 "root" 3, by intro a ha; simp at ha, by simp [init]⟩
  all_goals simp [init, lookupRoute]

/-- Every operation — each request below `file_system`, by whatever route, on existing, deleted or never-created names,
and both halves of a tick — preserves `Inv`. -/
theorem C15_inv_step {s : State} (h : Inv s) (op : Op) : Inv (step s op).1 := by
  cases op with
  | createFile F x force => exact inv_createFile h F x force
  | createFolder F => exact (createFolder_spec h F).1
  | deleteFile F x => exact inv_deleteFile h F x
  | deleteFolder F => exact inv_deleteFolder h F
  | restoreFile F x => exact inv_restoreFile h F x
  | restoreFolder F => exact inv_restoreFolder h F
  | access F x => exact h
  | folderVerb F v => exact inv_folderVerb h F v
  | folderDelete F x => exact inv_folderDelete h F x
  | fileVerb F x v => exact inv_fileVerb h F x v
  | fsFileVerb F x v => simp only [step]; rw [fsFileVerb_state h]; exact h
  | preTick => exact inv_congr h rfl rfl rfl rfl
  | tick => exact inv_tick h

theorem C15_inv_run {s : State} (h : Inv s) (ops : List Op) : Inv (run s ops).1 := by
  induction ops generalizing s with
  | nil => exact h
  | cons op ops ih => simp only [run]; exact ih (C15_inv_step h op)

/-- `Inv` holds in every state reachable from a fresh file system by any operation sequence. -/
theorem C15_inv_reachable (d : Option Int) (ops : List Op) : Inv (run (init d) ops).1 :=
  C15_inv_run (C15_inv_init d) ops

/-- A reachable, non-trivial state (a restored file next to a deleted namesake, a deleted folder, a re-created folder of
the same name) — the invariant is not vacuous and `run` really moves items between the dictionaries. -/
example :
    let s := (run (init (some 1))
      [.createFile "fa" "a" false, .deleteFile "fa" "a", .createFile "fa" "a" true, .deleteFile "fa" "a",
       .restoreFile "fa" "a", .createFolder "fb", .deleteFolder "fb", .createFolder "fb"]).1
    s.folders.map (·.name) = ["root", "fa", "fb"] ∧ s.deletedFolders.map (·.name) = ["fb"] ∧
    (s.folders.map (fun g => (g.files.map (·.id), g.deletedFiles.map (·.id)))) = [([], []), ([2], [3]), ([], [])] := by
  decide

/-! ### translator tie: the tables regenerated from the source agree with what the model assumes -/

/-- The request trees, handler functions, validator bodies and the cleaned bodies of every transcribed method are,
verbatim, the text the model was written against (`Lemmas/FileSystemSnapshot.lean`). A change to any of them breaks
this obligation. -/
theorem C15_gen_source_snapshot :
    Gen.FileSystem.methods = Snapshot.methods ∧ Gen.FileSystem.fsHandlers = Snapshot.fsHandlers ∧
    Gen.FileSystem.fsTree = Snapshot.fsTree ∧ Gen.FileSystem.folderTree = Snapshot.folderTree ∧
    Gen.FileSystem.validators = Snapshot.validators :=
  ⟨rfl, rfl, rfl, rfl, rfl⟩

/-- The request names an item registers are exactly the model's five verbs, bound to the methods the model
transcribes; every other name is `unreachable`. -/
theorem C15_gen_item_verbs :
    Gen.FileSystem.itemVerbs =
      [("scan", "scan"), ("checkhash", "check_hash"), ("repair", "repair"), ("restore", "restore"), ("corrupt", "corrupt")] ∧
    Gen.FileSystem.itemVerbs.map (fun p => verbOf p.1) = [.scan, .checkhash, .repair, .restore, .corrupt] := by
  decide

/-- `scan/repair/corrupt` of files and folders start with the deleted-guard (answer `False`) and otherwise answer `True`;
`check_hash` answers `False` unconditionally — which is what `File.verb` / `Folder.verb` return. -/
theorem C15_gen_guards :
    Gen.FileSystem.guards =
      [("Folder.scan", true, true), ("Folder.repair", true, true), ("Folder.corrupt", true, true),
       ("Folder.check_hash", true, false), ("File.scan", true, true), ("File.repair", true, true),
       ("File.corrupt", true, true), ("File.check_hash", true, false)] ∧
    (∀ f : File, (f.verb .scan).map (·.2) = some (!f.deleted) ∧ (f.verb .repair).map (·.2) = some (!f.deleted) ∧
      (f.verb .corrupt).map (·.2) = some (!f.deleted) ∧ (f.verb .checkhash).map (·.2) = some false) ∧
    (∀ g : Folder, (g.verb .scan).map (·.2) = some (!g.deleted) ∧ (g.verb .repair).map (·.2) = some (!g.deleted) ∧
      (g.verb .corrupt).map (·.2) = some (!g.deleted) ∧ (g.verb .checkhash).map (·.2) = some false) := by
  refine ⟨by decide, ?_, ?_⟩ <;> intro x <;> simp [File.verb, Folder.verb]

/-- Field defaults the model's `init` and fresh items rely on. -/
theorem C15_gen_constants :
    Gen.FileSystem.folderRestoreDuration = ({ id := 0, name := "" } : Folder).restoreDuration ∧
    Gen.FileSystem.folderRestoreCountdown = ({ id := 0, name := "" } : Folder).restoreCountdown ∧
    Gen.FileSystem.itemDeletedDefault = ({ id := 0, name := "" } : Folder).deleted ∧
    Gen.FileSystem.itemDeletedDefault = ({ id := 0, name := "" } : File).deleted ∧
    Gen.FileSystem.defaultFolderRestoreDuration = "None" ∧
    Gen.FileSystem.numFileCreationsDefault = (init none).numCreations ∧
    Gen.FileSystem.numFileDeletionsDefault = (init none).numDeletions := by
  decide

/-- Every file/folder agent action forms exactly the request whose model operation is the one the rig drives for it;
in particular `node-file-create` carries `config.force` (not the verb) as the force element. -/
theorem C15_gen_actions (n F x : String) (force : Bool) :
    ofNodeRequest (Gen.FileSystem.nodeFileCreate n F x (if force then "1" else "0")) = some (.createFile F x force) ∧
    ofNodeRequest (Gen.FileSystem.nodeFileDelete n F x) = some (.deleteFile F x) ∧
    ofNodeRequest (Gen.FileSystem.nodeFileAccess n F x) = some (.access F x) ∧
    ofNodeRequest (Gen.FileSystem.nodeFileScan n F x) = some (.fileVerb F x .scan) ∧
    ofNodeRequest (Gen.FileSystem.nodeFileCheckhash n F x) = some (.fileVerb F x .checkhash) ∧
    ofNodeRequest (Gen.FileSystem.nodeFileRepair n F x) = some (.fileVerb F x .repair) ∧
    ofNodeRequest (Gen.FileSystem.nodeFileRestore n F x) = some (.fileVerb F x .restore) ∧
    ofNodeRequest (Gen.FileSystem.nodeFileCorrupt n F x) = some (.fileVerb F x .corrupt) ∧
    ofNodeRequest (Gen.FileSystem.nodeFolderCreate n F) = some (.createFolder F) ∧
    ofNodeRequest (Gen.FileSystem.nodeFolderScan n F) = some (.folderVerb F .scan) ∧
    ofNodeRequest (Gen.FileSystem.nodeFolderCheckhash n F) = some (.folderVerb F .checkhash) ∧
    ofNodeRequest (Gen.FileSystem.nodeFolderRepair n F) = some (.folderVerb F .repair) ∧
    ofNodeRequest (Gen.FileSystem.nodeFolderRestore n F) = some (.folderVerb F .restore) ∧
    Gen.FileSystem.actionNames =
      ["node-file-create", "node-file-scan", "node-file-delete", "node-file-restore", "node-file-corrupt",
       "node-file-access", "node-file-checkhash", "node-file-repair", "node-folder-scan", "node-folder-checkhash",
       "node-folder-repair", "node-folder-restore", "node-folder-create"] := by
  cases force <;>
    simp [ofNodeRequest, ofRequest, verbOf, Gen.FileSystem.nodeFileCreate, Gen.FileSystem.nodeFileDelete,
      Gen.FileSystem.nodeFileAccess, Gen.FileSystem.nodeFileScan, Gen.FileSystem.nodeFileCheckhash,
      Gen.FileSystem.nodeFileRepair, Gen.FileSystem.nodeFileRestore, Gen.FileSystem.nodeFileCorrupt,
      Gen.FileSystem.nodeFolderCreate, Gen.FileSystem.nodeFolderScan, Gen.FileSystem.nodeFolderCheckhash,
      Gen.FileSystem.nodeFolderRepair, Gen.FileSystem.nodeFolderRestore, Gen.FileSystem.actionNames]

end Primaite.FileSystem
