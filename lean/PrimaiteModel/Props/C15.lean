/-
C15 — the file system stays structurally consistent under any operation sequence.
Property theorems; the model is `Model/FileSystem.lean`, the invariant `Inv`/`FolderInv` and the per-operation
preservation lemmas are in `Lemmas/FileSystem{Basics,Folder,State,Ops}.lean`.
-/
import PrimaiteModel.Lemmas.FileSystemOps
import PrimaiteModel.Lemmas.FileSystemSnapshot
import PrimaiteModel.Gen.FileSystem
namespace Primaite.FileSystem

/-! ### the invariant holds initially, after every step, hence in every reachable state -/

/-- A fresh file system (whatever `_default_folder_restore_duration` is set to afterwards) satisfies `Inv`. -/
theorem C15_inv_init (d : Option Int) : Inv (init d) := by
  constructor
  · intro g hg
    simp only [init, List.mem_singleton, List.not_mem_nil, or_false] at hg
    subst hg
    exact ⟨folderInv_empty 0 "root" 3, by intro a ha; simp at ha, by simp [init]⟩
  all_goals simp [init, lookupRoute]

/-- Every operation — each request below `file_system`, by whatever route, on existing, deleted or never-created names,
and both halves of a tick — preserves `Inv`. -/
theorem C15_inv_step {s : State} (h : Inv s) (op : Op) : Inv (step s op).1 := by
  cases op with
  | createFile F x force => exact inv_createFile h F x force
  | createFolder F => exact (createFolder_spec h F).1
  | deleteFile F x => exact inv_deleteFile h F x
  | deleteFolder F => exact inv_deleteFolder h F
  | restoreFile F x => exact inv_restoreFile h F x
  | restoreFolder F => exact inv_restoreFolder h F
  | access F x => exact h
  | folderVerb F v => exact inv_folderVerb h F v
  | folderDelete F x => exact inv_folderDelete h F x
  | fileVerb F x v => exact inv_fileVerb h F x v
  | fsFileVerb F x v => simp only [step]; rw [fsFileVerb_state h]; exact h
  | preTick => exact inv_congr h rfl rfl rfl rfl
  | tick => exact inv_tick h

theorem C15_inv_run {s : State} (h : Inv s) (ops : List Op) : Inv (run s ops).1 := by
  induction ops generalizing s with
  | nil => exact h
  | cons op ops ih => simp only [run]; exact ih (C15_inv_step h op)

/-- `Inv` holds in every state reachable from a fresh file system by any operation sequence. -/
theorem C15_inv_reachable (d : Option Int) (ops : List Op) : Inv (run (init d) ops).1 :=
  C15_inv_run (C15_inv_init d) ops

/-- A reachable, non-trivial state (a restored file next to a deleted namesake, a deleted folder, a re-created folder of
the same name) — the invariant is not vacuous and `run` really moves items between the dictionaries. -/
example :
    let s := (run (init (some 1))
      [.createFile "fa" "a" false, .deleteFile "fa" "a", .createFile "fa" "a" true, .deleteFile "fa" "a",
       .restoreFile "fa" "a", .createFolder "fb", .deleteFolder "fb", .createFolder "fb"]).1
    s.folders.map (·.name) = ["root", "fa", "fb"] ∧ s.deletedFolders.map (·.name) = ["fb"] ∧
    (s.folders.map (fun g => (g.files.map (·.id), g.deletedFiles.map (·.id)))) = [([], []), ([2], [3]), ([], [])] := by
  decide

end Primaite.FileSystem
