/-
C08, part 6 — fuel independence of the forwarding interpreter, UNCONDITIONALLY (any topology, configuration, state):
a run that does not run out of fuel computes exactly the same result, state, log and frame with any larger fuel.
Together with `C08Termination.lean` (no run with fuel ≥ `fuelBound` runs out of fuel under `GoodCfg`) this gives
`∀ fuel ≥ fuelBound, deliver fuel = deliver fuelBound`.
-/
import PrimaiteModel.Model.Forward
namespace Primaite.Forward
open Primaite.Route (findBestRoute Table)

/-! ### the out-of-fuel flag is sticky: no function ever clears it -/

theorem oof_emit {st : St} (e : Ev) (h : st.oof = true) : (st.emit e).oof = true := h
theorem oof_mod {st : St} (n : Nat) (f : Node → Node) (h : st.oof = true) : (st.modNode n f).oof = true := h
theorem oof_nextId {st : St} (k : Nat) (h : st.oof = true) : ({ st with nextId := k } : St).oof = true := h
theorem oof_out (st : St) : st.out.oof = true := rfl

structure SAt (fuel : Nat) : Prop where
  send : ∀ st n i f, st.oof = true → (sendFrame fuel st n i f).1.oof = true
  recv : ∀ st n i f, st.oof = true → (ifaceRecv fuel st n i f).1.oof = true
  sw : ∀ st n i f, st.oof = true → (switchRecv fuel st n i f).1.oof = true
  flood : ∀ st n i f ports, st.oof = true → (floodPorts fuel st n i f ports).1.oof = true
  host : ∀ st n i f, st.oof = true → (hostRecv fuel st n i f).1.oof = true
  router : ∀ st n i f, st.oof = true → (routerRecv fuel st n i f).1.oof = true
  process : ∀ st n i f, st.oof = true → (routerProcess fuel st n i f).1.oof = true
  arpReply : ∀ st n pl, st.oof = true → (sendArpReply fuel st n pl).oof = true
  arpPkt : ∀ st n pl d, st.oof = true → (sendArpPkt fuel st n pl d).oof = true
  icmp : ∀ st n d pl, st.oof = true → (sendIcmp fuel st n d pl).oof = true
  details : ∀ st n d, st.oof = true → (resolveDetails fuel st n d).1.oof = true
  out : ∀ st n d, st.oof = true → (resolveOut fuel st n d).1.oof = true
  mac : ∀ st n ip re gw, st.oof = true → (arpMac fuel st n ip re gw).1.oof = true
  ifc : ∀ st n ip re gw, st.oof = true → (arpIfc fuel st n ip re gw).1.oof = true
  req : ∀ st n t, st.oof = true → (sendArpReq fuel st n t).oof = true

/-- close a goal `(… nested calls … X …).oof = true` from `h : X.oof = true`. -/
macro "sticky" ih:ident h:ident : tactic => `(tactic| (repeat (first
  | exact $h
  | apply ($ih).send
  | apply ($ih).recv
  | apply ($ih).sw
  | apply ($ih).flood
  | apply ($ih).host
  | apply ($ih).router
  | apply ($ih).process
  | apply ($ih).arpReply
  | apply ($ih).arpPkt
  | apply ($ih).icmp
  | apply ($ih).details
  | apply ($ih).out
  | apply ($ih).mac
  | apply ($ih).ifc
  | apply ($ih).req)))

theorem sAt_zero : SAt 0 := by
  constructor
  all_goals intros
  all_goals simp only [sendFrame, ifaceRecv, switchRecv, floodPorts, hostRecv, routerRecv, routerProcess, sendArpReply,
    sendArpPkt, sendIcmp, resolveDetails, resolveOut, arpMac, arpIfc, sendArpReq]
  all_goals exact oof_out _

theorem s_flood_fold (fuel : Nat) (ih : SAt fuel) (n i : Nat) (ports : List Nat) :
    ∀ (st : St) (g : Frame), st.oof = true →
      (ports.foldl (fun (acc : St × Frame) p =>
        match acc.1.iface? n p with
        | some pif => if pif.enabled && p != i then sendFrame fuel acc.1 n p acc.2 else acc
        | none => acc) (st, g)).1.oof = true := by
  induction ports with
  | nil => intro st g h; exact h
  | cons p ps ihp =>
    intro st g h
    simp only [List.foldl_cons]
    split
    · split
      · have := ih.send st n p g h
        generalize sendFrame fuel st n p g = r at this ⊢
        obtain ⟨st', g'⟩ := r
        exact ihp st' g' this
      · exact ihp st g h
    · exact ihp st g h

theorem sAt_succ (fuel : Nat) (ih : SAt fuel) : SAt (fuel + 1) := by
  constructor
  · intro st n i f h; simp only [sendFrame]; repeat' split
    all_goals sticky ih h
  · intro st n i f h; simp only [ifaceRecv]; repeat' split
    all_goals sticky ih h
  · intro st n i f h; simp only [switchRecv]; repeat' split
    all_goals sticky ih h
  · intro st n i f ports h; simp only [floodPorts]; exact s_flood_fold fuel ih n i ports st f h
  · intro st n i f h; simp only [hostRecv]; repeat' split
    all_goals sticky ih h
  · intro st n i f h; simp only [routerRecv]; repeat' split
    all_goals sticky ih h
  · intro st n i f h; simp only [routerProcess]; repeat' split
    all_goals sticky ih h
  · intro st n pl h; simp only [sendArpReply]; repeat' split
    all_goals sticky ih h
  · intro st n pl d h; simp only [sendArpPkt]; repeat' split
    all_goals sticky ih h
  · intro st n d pl h; simp only [sendIcmp]; repeat' split
    all_goals sticky ih h
  · intro st n d h; simp only [resolveDetails]; repeat' split
    all_goals sticky ih h
  · intro st n d h; simp only [resolveOut]; repeat' split
    all_goals sticky ih h
  · intro st n ip re gw h; simp only [arpMac]; repeat' split
    all_goals sticky ih h
  · intro st n ip re gw h; simp only [arpIfc]; repeat' split
    all_goals sticky ih h
  · intro st n t h; simp only [sendArpReq]; repeat' split
    all_goals sticky ih h

theorem sAt (fuel : Nat) : SAt fuel := by
  induction fuel with
  | zero => exact sAt_zero
  | succ k ih => exact sAt_succ k ih

/-! ### more fuel changes nothing for a run that did not run out of it -/

structure MAt (fuel : Nat) : Prop where
  send : ∀ st n i f x', sendFrame (fuel + 1) st n i f = x' → (sendFrame fuel st n i f).1.oof = true ∨ x' = sendFrame fuel st n i f
  recv : ∀ st n i f x', ifaceRecv (fuel + 1) st n i f = x' → (ifaceRecv fuel st n i f).1.oof = true ∨ x' = ifaceRecv fuel st n i f
  sw : ∀ st n i f x', switchRecv (fuel + 1) st n i f = x' → (switchRecv fuel st n i f).1.oof = true ∨ x' = switchRecv fuel st n i f
  flood : ∀ st n i f ports x', floodPorts (fuel + 1) st n i f ports = x' → (floodPorts fuel st n i f ports).1.oof = true ∨ x' = floodPorts fuel st n i f ports
  host : ∀ st n i f x', hostRecv (fuel + 1) st n i f = x' → (hostRecv fuel st n i f).1.oof = true ∨ x' = hostRecv fuel st n i f
  router : ∀ st n i f x', routerRecv (fuel + 1) st n i f = x' → (routerRecv fuel st n i f).1.oof = true ∨ x' = routerRecv fuel st n i f
  process : ∀ st n i f x', routerProcess (fuel + 1) st n i f = x' → (routerProcess fuel st n i f).1.oof = true ∨ x' = routerProcess fuel st n i f
  arpReply : ∀ st n pl x', sendArpReply (fuel + 1) st n pl = x' → (sendArpReply fuel st n pl).oof = true ∨ x' = sendArpReply fuel st n pl
  arpPkt : ∀ st n pl d x', sendArpPkt (fuel + 1) st n pl d = x' → (sendArpPkt fuel st n pl d).oof = true ∨ x' = sendArpPkt fuel st n pl d
  icmp : ∀ st n d pl x', sendIcmp (fuel + 1) st n d pl = x' → (sendIcmp fuel st n d pl).oof = true ∨ x' = sendIcmp fuel st n d pl
  details : ∀ st n d x', resolveDetails (fuel + 1) st n d = x' → (resolveDetails fuel st n d).1.oof = true ∨ x' = resolveDetails fuel st n d
  out : ∀ st n d x', resolveOut (fuel + 1) st n d = x' → (resolveOut fuel st n d).1.oof = true ∨ x' = resolveOut fuel st n d
  mac : ∀ st n ip re gw x', arpMac (fuel + 1) st n ip re gw = x' → (arpMac fuel st n ip re gw).1.oof = true ∨ x' = arpMac fuel st n ip re gw
  ifc : ∀ st n ip re gw x', arpIfc (fuel + 1) st n ip re gw = x' → (arpIfc fuel st n ip re gw).1.oof = true ∨ x' = arpIfc fuel st n ip re gw
  req : ∀ st n t x', sendArpReq (fuel + 1) st n t = x' → (sendArpReq fuel st n t).oof = true ∨ x' = sendArpReq fuel st n t

/-- one step of the congruence proof: finished, or rewrite the next closed call by the induction hypothesis (if that call ran
out of fuel, so does the whole body: stickiness), or split the next match. -/
macro "mono_step" ih:ident is:ident fuel:ident : tactic => `(tactic| first
  | exact Or.inr rfl
  | (generalize hx : sendFrame ($fuel + 1) _ _ _ _ = x'; (fail_if_success (clear hx x'));
      rcases ($ih).send _ _ _ _ _ hx with h | h; (left; (repeat' split) <;> (sticky $is h; done)); (subst h))
  | (generalize hx : ifaceRecv ($fuel + 1) _ _ _ _ = x'; (fail_if_success (clear hx x'));
      rcases ($ih).recv _ _ _ _ _ hx with h | h; (left; (repeat' split) <;> (sticky $is h; done)); (subst h))
  | (generalize hx : switchRecv ($fuel + 1) _ _ _ _ = x'; (fail_if_success (clear hx x'));
      rcases ($ih).sw _ _ _ _ _ hx with h | h; (left; (repeat' split) <;> (sticky $is h; done)); (subst h))
  | (generalize hx : floodPorts ($fuel + 1) _ _ _ _ _ = x'; (fail_if_success (clear hx x'));
      rcases ($ih).flood _ _ _ _ _ _ hx with h | h; (left; (repeat' split) <;> (sticky $is h; done)); (subst h))
  | (generalize hx : hostRecv ($fuel + 1) _ _ _ _ = x'; (fail_if_success (clear hx x'));
      rcases ($ih).host _ _ _ _ _ hx with h | h; (left; (repeat' split) <;> (sticky $is h; done)); (subst h))
  | (generalize hx : routerRecv ($fuel + 1) _ _ _ _ = x'; (fail_if_success (clear hx x'));
      rcases ($ih).router _ _ _ _ _ hx with h | h; (left; (repeat' split) <;> (sticky $is h; done)); (subst h))
  | (generalize hx : routerProcess ($fuel + 1) _ _ _ _ = x'; (fail_if_success (clear hx x'));
      rcases ($ih).process _ _ _ _ _ hx with h | h; (left; (repeat' split) <;> (sticky $is h; done)); (subst h))
  | (generalize hx : sendArpReply ($fuel + 1) _ _ _ = x'; (fail_if_success (clear hx x'));
      rcases ($ih).arpReply _ _ _ _ hx with h | h; (left; (repeat' split) <;> (sticky $is h; done)); (subst h))
  | (generalize hx : sendArpPkt ($fuel + 1) _ _ _ _ = x'; (fail_if_success (clear hx x'));
      rcases ($ih).arpPkt _ _ _ _ _ hx with h | h; (left; (repeat' split) <;> (sticky $is h; done)); (subst h))
  | (generalize hx : sendIcmp ($fuel + 1) _ _ _ _ = x'; (fail_if_success (clear hx x'));
      rcases ($ih).icmp _ _ _ _ _ hx with h | h; (left; (repeat' split) <;> (sticky $is h; done)); (subst h))
  | (generalize hx : resolveDetails ($fuel + 1) _ _ _ = x'; (fail_if_success (clear hx x'));
      rcases ($ih).details _ _ _ _ hx with h | h; (left; (repeat' split) <;> (sticky $is h; done)); (subst h))
  | (generalize hx : resolveOut ($fuel + 1) _ _ _ = x'; (fail_if_success (clear hx x'));
      rcases ($ih).out _ _ _ _ hx with h | h; (left; (repeat' split) <;> (sticky $is h; done)); (subst h))
  | (generalize hx : arpMac ($fuel + 1) _ _ _ _ _ = x'; (fail_if_success (clear hx x'));
      rcases ($ih).mac _ _ _ _ _ _ hx with h | h; (left; (repeat' split) <;> (sticky $is h; done)); (subst h))
  | (generalize hx : arpIfc ($fuel + 1) _ _ _ _ _ = x'; (fail_if_success (clear hx x'));
      rcases ($ih).ifc _ _ _ _ _ _ hx with h | h; (left; (repeat' split) <;> (sticky $is h; done)); (subst h))
  | (generalize hx : sendArpReq ($fuel + 1) _ _ _ = x'; (fail_if_success (clear hx x'));
      rcases ($ih).req _ _ _ _ hx with h | h; (left; (repeat' split) <;> (sticky $is h; done)); (subst h))
  | split)

theorem mAt_zero : MAt 0 := by
  constructor
  all_goals intros
  all_goals left
  all_goals simp only [sendFrame, ifaceRecv, switchRecv, floodPorts, hostRecv, routerRecv, routerProcess, sendArpReply,
    sendArpPkt, sendIcmp, resolveDetails, resolveOut, arpMac, arpIfc, sendArpReq]
  all_goals rfl

theorem m_flood_fold (fuel : Nat) (ih : MAt fuel) (is : SAt fuel) (n i : Nat) (ports : List Nat) :
    ∀ (st : St) (g : Frame),
      (ports.foldl (fun (acc : St × Frame) p =>
        match acc.1.iface? n p with
        | some pif => if pif.enabled && p != i then sendFrame fuel acc.1 n p acc.2 else acc
        | none => acc) (st, g)).1.oof = true ∨
      ports.foldl (fun (acc : St × Frame) p =>
        match acc.1.iface? n p with
        | some pif => if pif.enabled && p != i then sendFrame (fuel + 1) acc.1 n p acc.2 else acc
        | none => acc) (st, g) =
      ports.foldl (fun (acc : St × Frame) p =>
        match acc.1.iface? n p with
        | some pif => if pif.enabled && p != i then sendFrame fuel acc.1 n p acc.2 else acc
        | none => acc) (st, g) := by
  induction ports with
  | nil => intro st g; exact Or.inr rfl
  | cons p ps ihp =>
    intro st g
    simp only [List.foldl_cons]
    split
    · split
      · rcases ih.send st n p g _ rfl with h | h
        · left
          have := s_flood_fold fuel is n i ps (sendFrame fuel st n p g).1 (sendFrame fuel st n p g).2 h
          exact this
        · rw [h]
          exact ihp (sendFrame fuel st n p g).1 (sendFrame fuel st n p g).2
      · exact ihp st g
    · exact ihp st g

section msucc
variable {fuel : Nat} (ih : MAt fuel) (is : SAt fuel)
include ih is

theorem m_send (st : St) (n : Nat) (i : Nat) (f : Frame) :
    (sendFrame (fuel + 1) st n i f).1.oof = true ∨ sendFrame (fuel + 1 + 1) st n i f = sendFrame (fuel + 1) st n i f := by
  simp only [sendFrame]
  repeat' (mono_step ih is fuel)

theorem m_recv (st : St) (n : Nat) (i : Nat) (f : Frame) :
    (ifaceRecv (fuel + 1) st n i f).1.oof = true ∨ ifaceRecv (fuel + 1 + 1) st n i f = ifaceRecv (fuel + 1) st n i f := by
  simp only [ifaceRecv]
  repeat' (mono_step ih is fuel)

theorem m_sw (st : St) (n : Nat) (i : Nat) (f : Frame) :
    (switchRecv (fuel + 1) st n i f).1.oof = true ∨ switchRecv (fuel + 1 + 1) st n i f = switchRecv (fuel + 1) st n i f := by
  simp only [switchRecv]
  repeat' (mono_step ih is fuel)

theorem m_flood (st : St) (n : Nat) (i : Nat) (f : Frame) (ports : List Nat) :
    (floodPorts (fuel + 1) st n i f ports).1.oof = true ∨ floodPorts (fuel + 1 + 1) st n i f ports = floodPorts (fuel + 1) st n i f ports := by
  simp only [floodPorts]; exact m_flood_fold fuel ih is n i ports st f

theorem m_host (st : St) (n : Nat) (i : Nat) (f : Frame) :
    (hostRecv (fuel + 1) st n i f).1.oof = true ∨ hostRecv (fuel + 1 + 1) st n i f = hostRecv (fuel + 1) st n i f := by
  simp only [hostRecv]
  split
  · rename_i nd ifc hn hi
    by_cases hon : nd.on = true
    · simp only [hon, if_true, Bool.not_true, Bool.false_eq_true, if_false]
      repeat' (mono_step ih is fuel)
    · have hoff : nd.on = false := by simpa using hon
      simp only [hoff, Bool.false_eq_true, if_false, Bool.not_false, if_true]
      repeat' (mono_step ih is fuel)
  · exact Or.inr rfl

theorem m_router (st : St) (n : Nat) (i : Nat) (f : Frame) :
    (routerRecv (fuel + 1) st n i f).1.oof = true ∨ routerRecv (fuel + 1 + 1) st n i f = routerRecv (fuel + 1) st n i f := by
  simp only [routerRecv]
  split
  · rename_i nd ifc hn hi
    split
    · exact Or.inr rfl
    · split
      · exact Or.inr rfl
      · split
        · repeat' (mono_step ih is fuel)
        · split
          · repeat' (mono_step ih is fuel)
          · rename_i acl hfw
            split
            · split
              · exact Or.inr rfl
              · -- `_process_dmz_outbound_frame`: the first look-up, then by cases on its answer and on the route
                mono_step ih is fuel
                generalize arpIfc fuel _ n f.dstIp false false = r1
                rcases r1 with ⟨s1, _ | o1⟩
                · simp only []
                  cases hfb : findBestRoute nd.routes f.dstIp with
                  | raised => simp only []; repeat' (mono_step ih is fuel)
                  | noRoute => simp only [Route.Result.nextHop?]; repeat' (mono_step ih is fuel)
                  | route k r => simp only [Route.Result.nextHop?]; repeat' (mono_step ih is fuel)
                  | default nh => simp only [Route.Result.nextHop?]; repeat' (mono_step ih is fuel)
                · simp only []; repeat' (mono_step ih is fuel)
            · repeat' (mono_step ih is fuel)
  · exact Or.inr rfl

theorem m_process (st : St) (n : Nat) (i : Nat) (f : Frame) :
    (routerProcess (fuel + 1) st n i f).1.oof = true ∨ routerProcess (fuel + 1 + 1) st n i f = routerProcess (fuel + 1) st n i f := by
  simp only [routerProcess]
  repeat' (mono_step ih is fuel)

theorem m_arpReply (st : St) (n : Nat) (pl : Pl) :
    (sendArpReply (fuel + 1) st n pl).oof = true ∨ sendArpReply (fuel + 1 + 1) st n pl = sendArpReply (fuel + 1) st n pl := by
  simp only [sendArpReply]
  repeat' (mono_step ih is fuel)

theorem m_arpPkt (st : St) (n : Nat) (pl : Pl) (d : Ip) :
    (sendArpPkt (fuel + 1) st n pl d).oof = true ∨ sendArpPkt (fuel + 1 + 1) st n pl d = sendArpPkt (fuel + 1) st n pl d := by
  simp only [sendArpPkt]
  repeat' (mono_step ih is fuel)

theorem m_icmp (st : St) (n : Nat) (d : Ip) (pl : Pl) :
    (sendIcmp (fuel + 1) st n d pl).oof = true ∨ sendIcmp (fuel + 1 + 1) st n d pl = sendIcmp (fuel + 1) st n d pl := by
  simp only [sendIcmp]
  repeat' (mono_step ih is fuel)

theorem m_details (st : St) (n : Nat) (d : Ip) :
    (resolveDetails (fuel + 1) st n d).1.oof = true ∨ resolveDetails (fuel + 1 + 1) st n d = resolveDetails (fuel + 1) st n d := by
  simp only [resolveDetails]
  split
  · exact Or.inr rfl
  · rename_i nd hn
    cases hfe : firstEnabledIn nd.ifaces d 0 with
    | none => simp only []; repeat' (mono_step ih is fuel)
    | some k0 => simp only []; repeat' (mono_step ih is fuel)

theorem m_out (st : St) (n : Nat) (d : Ip) :
    (resolveOut (fuel + 1) st n d).1.oof = true ∨ resolveOut (fuel + 1 + 1) st n d = resolveOut (fuel + 1) st n d := by
  simp only [resolveOut]
  repeat' (mono_step ih is fuel)

theorem m_mac (st : St) (n : Nat) (ip : Ip) (re : Bool) (gw : Bool) :
    (arpMac (fuel + 1) st n ip re gw).1.oof = true ∨ arpMac (fuel + 1 + 1) st n ip re gw = arpMac (fuel + 1) st n ip re gw := by
  rw [arpMac, arpMac]
  repeat' (mono_step ih is fuel)

theorem m_ifc (st : St) (n : Nat) (ip : Ip) (re : Bool) (gw : Bool) :
    (arpIfc (fuel + 1) st n ip re gw).1.oof = true ∨ arpIfc (fuel + 1 + 1) st n ip re gw = arpIfc (fuel + 1) st n ip re gw := by
  rw [arpIfc, arpIfc]
  repeat' (mono_step ih is fuel)

theorem m_req (st : St) (n : Nat) (t : Ip) :
    (sendArpReq (fuel + 1) st n t).oof = true ∨ sendArpReq (fuel + 1 + 1) st n t = sendArpReq (fuel + 1) st n t := by
  simp only [sendArpReq]
  repeat' (mono_step ih is fuel)

end msucc

theorem mAt_succ (fuel : Nat) (ih : MAt fuel) (is : SAt fuel) : MAt (fuel + 1) :=
  ⟨fun st n i f x' hx' => hx' ▸ m_send ih is st n i f,
    fun st n i f x' hx' => hx' ▸ m_recv ih is st n i f,
    fun st n i f x' hx' => hx' ▸ m_sw ih is st n i f,
    fun st n i f ports x' hx' => hx' ▸ m_flood ih is st n i f ports,
    fun st n i f x' hx' => hx' ▸ m_host ih is st n i f,
    fun st n i f x' hx' => hx' ▸ m_router ih is st n i f,
    fun st n i f x' hx' => hx' ▸ m_process ih is st n i f,
    fun st n pl x' hx' => hx' ▸ m_arpReply ih is st n pl,
    fun st n pl d x' hx' => hx' ▸ m_arpPkt ih is st n pl d,
    fun st n d pl x' hx' => hx' ▸ m_icmp ih is st n d pl,
    fun st n d x' hx' => hx' ▸ m_details ih is st n d,
    fun st n d x' hx' => hx' ▸ m_out ih is st n d,
    fun st n ip re gw x' hx' => hx' ▸ m_mac ih is st n ip re gw,
    fun st n ip re gw x' hx' => hx' ▸ m_ifc ih is st n ip re gw,
    fun st n t x' hx' => hx' ▸ m_req ih is st n t⟩

theorem mAt (fuel : Nat) : MAt fuel := by
  induction fuel with
  | zero => exact mAt_zero
  | succ k ih => exact mAt_succ k ih (sAt k)

/-! ### any amount of extra fuel -/

theorem mono_send (fuel : Nat) (st : St) (n i : Nat) (f : Frame) (h : (sendFrame fuel st n i f).1.oof = false) :
    ∀ k, sendFrame (fuel + k) st n i f = sendFrame fuel st n i f := by
  intro k
  induction k with
  | zero => rfl
  | succ k ihk =>
    rcases (mAt (fuel + k)).send st n i f _ rfl with h1 | h1
    · rw [ihk, h] at h1; cases h1
    · rw [← Nat.add_assoc, h1, ihk]

theorem mono_out (fuel : Nat) (st : St) (n : Nat) (d : Ip) (h : (resolveOut fuel st n d).1.oof = false) :
    ∀ k, resolveOut (fuel + k) st n d = resolveOut fuel st n d := by
  intro k
  induction k with
  | zero => rfl
  | succ k ihk =>
    rcases (mAt (fuel + k)).out st n d _ rfl with h1 | h1
    · rw [ihk, h] at h1; cases h1
    · rw [← Nat.add_assoc, h1, ihk]

theorem mono_icmp (fuel : Nat) (st : St) (n : Nat) (d : Ip) (pl : Pl) (h : (sendIcmp fuel st n d pl).oof = false) :
    ∀ k, sendIcmp (fuel + k) st n d pl = sendIcmp fuel st n d pl := by
  intro k
  induction k with
  | zero => rfl
  | succ k ihk =>
    rcases (mAt (fuel + k)).icmp st n d pl _ rfl with h1 | h1
    · rw [ihk, h] at h1; cases h1
    · rw [← Nat.add_assoc, h1, ihk]

theorem mono_mac (fuel : Nat) (st : St) (n : Nat) (ip : Ip) (re gw : Bool) (h : (arpMac fuel st n ip re gw).1.oof = false) :
    ∀ k, arpMac (fuel + k) st n ip re gw = arpMac fuel st n ip re gw := by
  intro k
  induction k with
  | zero => rfl
  | succ k ihk =>
    rcases (mAt (fuel + k)).mac st n ip re gw _ rfl with h1 | h1
    · rw [ihk, h] at h1; cases h1
    · rw [← Nat.add_assoc, h1, ihk]

/-! ### the operations of the driver: `ping`, `requestService`, `enableIface`, `powerOn` -/

/-- one iteration of `ICMP.ping`. -/
def pingStep (fuel n : Nat) (target : Ip) (ident : Nat) (acc : St × Bool) : St × Bool :=
  if !acc.2 then acc else
  match (resolveOut fuel acc.1 n target).2 with
  | none => ((resolveOut fuel acc.1 n target).1, false)
  | some _ => (sendIcmp fuel (resolveOut fuel acc.1 n target).1 n target (.echoReq ident), true)

theorem pingStep_sticky (fuel n : Nat) (target : Ip) (ident : Nat) (acc : St × Bool) (h : acc.1.oof = true) :
    (pingStep fuel n target ident acc).1.oof = true := by
  have is := sAt fuel
  unfold pingStep
  repeat' split
  all_goals sticky is h

theorem pingFold_sticky (fuel n : Nat) (target : Ip) (ident : Nat) (l : List Nat) :
    ∀ acc : St × Bool, acc.1.oof = true → (l.foldl (fun a _ => pingStep fuel n target ident a) acc).1.oof = true := by
  induction l with
  | nil => intro acc h; exact h
  | cons x xs ihx => intro acc h; exact ihx _ (pingStep_sticky fuel n target ident acc h)

theorem pingStep_mono (fuel n : Nat) (target : Ip) (ident : Nat) (acc : St × Bool) :
    (pingStep fuel n target ident acc).1.oof = true ∨ pingStep (fuel + 1) n target ident acc = pingStep fuel n target ident acc := by
  have ih := mAt fuel
  have is := sAt fuel
  unfold pingStep
  repeat' (mono_step ih is fuel)

theorem pingFold_mono (fuel n : Nat) (target : Ip) (ident : Nat) (l : List Nat) :
    ∀ acc : St × Bool, (l.foldl (fun a _ => pingStep fuel n target ident a) acc).1.oof = true ∨
      l.foldl (fun a _ => pingStep (fuel + 1) n target ident a) acc = l.foldl (fun a _ => pingStep fuel n target ident a) acc := by
  induction l with
  | nil => intro acc; exact Or.inr rfl
  | cons x xs ihx =>
    intro acc
    simp only [List.foldl_cons]
    rcases pingStep_mono fuel n target ident acc with h | h
    · exact Or.inl (pingFold_sticky fuel n target ident xs _ h)
    · rw [h]; exact ihx _

theorem ping_eq (fuel : Nat) (st : St) (n : Nat) (target : Ip) (pings : Nat) :
    ping fuel st n target pings =
      match st.node? n with
      | none => (st, false)
      | some nd =>
        if !nd.on then (st, false) else
        if isLoopback target then (st, nd.ifaces.any (·.enabled)) else
        let res := (List.range pings).foldl (fun a _ => pingStep fuel n target st.nextId a) ({ st with nextId := st.nextId + 1 }, true)
        match res.1.node? n with
        | none => (res.1, false)
        | some nd' => (res.1, res.2 && replyCount nd'.replies st.nextId == some pings) := by
  unfold ping pingStep
  rfl

theorem ping_mono1 (fuel : Nat) (st : St) (n : Nat) (target : Ip) (pings : Nat) :
    (ping fuel st n target pings).1.oof = true ∨ ping (fuel + 1) st n target pings = ping fuel st n target pings := by
  rw [ping_eq, ping_eq]
  split
  · exact Or.inr rfl
  · split
    · exact Or.inr rfl
    · split
      · exact Or.inr rfl
      · simp only
        rcases pingFold_mono fuel n target st.nextId (List.range pings) ({ st with nextId := st.nextId + 1 }, true) with h | h
        · left
          split <;> exact h
        · rw [h]; exact Or.inr rfl

theorem requestService_mono1 (fuel : Nat) (st : St) (n : Nat) (server : Ip) :
    (requestService fuel st n server).1.oof = true ∨ requestService (fuel + 1) st n server = requestService fuel st n server := by
  have ih := mAt fuel
  have is := sAt fuel
  unfold requestService
  simp only
  repeat' (mono_step ih is fuel)

/-- `enable()` proper: the interface comes up if it may. -/
def enableSt (st : St) (n i : Nat) (nd : Node) (ifc : Iface) : St :=
  if ifc.enabled || (nd.on && ifc.peer.isSome) then
    st.modNode n (fun nd => { nd with ifaces := nd.ifaces.modify i (fun x => { x with enabled := true }) })
  else st

/-- `default_gateway_hello` of a host NIC. -/
def helloGw (fuel : Nat) (X : St) (n : Nat) (nd : Node) : St :=
  match nd.kind, nd.gateway with
  | .host, some g => if nd.on then (arpMac fuel X n g false false).1 else X
  | _, _ => X

theorem enableIface_eq (fuel : Nat) (st : St) (n i : Nat) :
    enableIface fuel st n i =
      match st.node? n, st.iface? n i with
      | some nd, some ifc => helloGw fuel (enableSt st n i nd ifc) n nd
      | _, _ => st := by
  unfold enableIface helloGw enableSt
  rfl

theorem helloGw_mono1 (fuel : Nat) (X : St) (n : Nat) (nd : Node) :
    (helloGw fuel X n nd).oof = true ∨ helloGw (fuel + 1) X n nd = helloGw fuel X n nd := by
  have ih := mAt fuel
  have is := sAt fuel
  unfold helloGw
  repeat' (mono_step ih is fuel)

theorem helloGw_sticky (fuel : Nat) (X : St) (n : Nat) (nd : Node) (h : X.oof = true) : (helloGw fuel X n nd).oof = true := by
  have is := sAt fuel
  unfold helloGw
  repeat' split
  all_goals sticky is h

theorem requestApp_mono1 (fuel : Nat) (st : St) (n : Nat) (server : Ip) (svc : Nat) (reply : Bool) :
    (requestApp fuel st n server svc reply).1.oof = true ∨
      requestApp (fuel + 1) st n server svc reply = requestApp fuel st n server svc reply := by
  have ih := mAt fuel
  have is := sAt fuel
  unfold requestApp
  simp only
  repeat' (mono_step ih is fuel)

theorem enableIface_mono1 (fuel : Nat) (st : St) (n i : Nat) :
    (enableIface fuel st n i).oof = true ∨ enableIface (fuel + 1) st n i = enableIface fuel st n i := by
  rw [enableIface_eq, enableIface_eq]
  split
  · exact helloGw_mono1 fuel _ n _
  · exact Or.inr rfl

theorem enableIface_sticky (fuel : Nat) (st : St) (n i : Nat) (h : st.oof = true) : (enableIface fuel st n i).oof = true := by
  rw [enableIface_eq]
  split
  · apply helloGw_sticky
    unfold enableSt
    split <;> exact h
  · exact h

theorem powerFold_sticky (fuel n : Nat) (l : List Nat) :
    ∀ acc : St, acc.oof = true → (l.foldl (fun a i => enableIface fuel a n i) acc).oof = true := by
  induction l with
  | nil => intro acc h; exact h
  | cons x xs ihx => intro acc h; exact ihx _ (enableIface_sticky fuel acc n x h)

theorem powerFold_mono (fuel n : Nat) (l : List Nat) :
    ∀ acc : St, (l.foldl (fun a i => enableIface fuel a n i) acc).oof = true ∨
      l.foldl (fun a i => enableIface (fuel + 1) a n i) acc = l.foldl (fun a i => enableIface fuel a n i) acc := by
  induction l with
  | nil => intro acc; exact Or.inr rfl
  | cons x xs ihx =>
    intro acc
    simp only [List.foldl_cons]
    rcases enableIface_mono1 fuel acc n x with h | h
    · exact Or.inl (powerFold_sticky fuel n xs _ h)
    · rw [h]; exact ihx _

theorem powerOn_mono1 (fuel : Nat) (st : St) (n : Nat) :
    (powerOn fuel st n).oof = true ∨ powerOn (fuel + 1) st n = powerOn fuel st n := by
  unfold powerOn
  split
  · exact Or.inr rfl
  · exact powerFold_mono fuel n _ _

/-- an operation of the driver (what the rig sends to the model). -/
inductive NetOp
  | ping (n : Nat) (dst : Ip) (count : Nat)
  | service (n : Nat) (server : Ip)
  | enable (n i : Nat)
  | disable (n i : Nat)
  | power (n : Nat) (on : Bool)
  | arpclear (n : Nat)
  | app (n : Nat) (server : Ip) (svc : Nat) (reply : Bool)

/-- one operation at nesting budget `fuel`: the new state and the operation's result (`true` where there is none). -/
def runOp (fuel : Nat) (st : St) : NetOp → St × Bool
  | .ping n dst k => ping fuel st n dst k
  | .service n srv => requestService fuel st n srv
  | .enable n i => (enableIface fuel st n i, true)
  | .disable n i => (disableIface st n i, true)
  | .power n true => (powerOn fuel st n, true)
  | .power n false => (powerOff st n, true)
  | .arpclear n => (st.modNode n (fun nd => { nd with arp := [] }), true)
  | .app n srv svc reply => requestApp fuel st n srv svc reply

theorem runOp_mono1 (fuel : Nat) (st : St) (op : NetOp) :
    (runOp fuel st op).1.oof = true ∨ runOp (fuel + 1) st op = runOp fuel st op := by
  cases op with
  | ping n dst k => exact ping_mono1 fuel st n dst k
  | service n srv => exact requestService_mono1 fuel st n srv
  | enable n i =>
    rcases enableIface_mono1 fuel st n i with h | h
    · exact Or.inl h
    · right; simp only [runOp, h]
  | disable n i => exact Or.inr rfl
  | arpclear n => exact Or.inr rfl
  | app n srv svc reply => exact requestApp_mono1 fuel st n srv svc reply
  | power n on =>
    cases on
    · exact Or.inr rfl
    · rcases powerOn_mono1 fuel st n with h | h
      · exact Or.inl h
      · right; simp only [runOp, h]

/-- **Fuel independence (unconditional).**  If an operation — a ping with all its echo requests, a service request, an
interface coming up, a node powering on — finishes within `fuel` levels of nesting, then with ANY larger budget it computes
exactly the same state (caches, tables, log of every receive / hop / hand-over), the same result and does not run out of fuel
either.  No assumption on topology, configuration or state. -/
theorem C08_fuel_independent (fuel : Nat) (st : St) (op : NetOp) (h : (runOp fuel st op).1.oof = false) :
    ∀ k, runOp (fuel + k) st op = runOp fuel st op := by
  intro k
  induction k with
  | zero => rfl
  | succ k ihk =>
    rcases runOp_mono1 (fuel + k) st op with h1 | h1
    · rw [ihk, h] at h1; cases h1
    · rw [← Nat.add_assoc, h1, ihk]

/-- the same for one frame handed to an interface (the building block). -/
theorem C08_fuel_independent_frame (fuel : Nat) (st : St) (n i : Nat) (f : Frame) (h : (sendFrame fuel st n i f).1.oof = false) :
    ∀ k, sendFrame (fuel + k) st n i f = sendFrame fuel st n i f := mono_send fuel st n i f h

end Primaite.Forward
