/-
C03 — same scenario, seed and actions give the same trajectory, in any process.   CLAIM: proof, PARTIAL.

What is proved (about the opaque-environment model `Model/Noninterf.lean`):
  for EVERY simulator written against the interface "identifiers are equality tokens, clock readings reach state only
  through the length of their text inside `Frame.size`, sets are iterated only through permutation-invariant consumers,
  random draws come from the seeded generator", for every configuration schedule, seed and operation list (steps and
  resets, with or without a seed), the canonical trajectory is the same under any two valid environments `ρ`, `ρ'`
  (uuid stream, clock stream, set-iteration orders) whose readings have texts of equal length; and the episode that
  follows `reset(seed = s)` is a function of (schedule, episode index, s, later operations) only.

What ties the interface to the source: the regenerated nondeterminism inventory `Gen/Nondet.lean` and the committed
discharge table `Lemmas/NondetDischarge.lean` (`C03_inventory_discharged`, `C03_discharges_justified`), and the
cross-process rig (fresh interpreters, different PYTHONHASHSEED, logging on/off).

What is NOT proved: that the inventory is complete (the extractor's job), that CPython behaves as `ρ` says (trusted),
and anything about the reasons marked `byReading` in the discharge table.  The full statement is false of the code as it
is: `C03_full_counterexample` (finding F-9, `Frame.size` contains the text of wall-clock readings).
-/
import PrimaiteModel.Lemmas.NondetDischarge

namespace Primaite.Noninterf
open Primaite.Gen.Nondet

/-! ## the theorems -/

/-- **run_indep_of_env** (partial: `StampLenAgree` excludes exactly F-9).  Construct the environment with the configured
seed and play any operation list: the canonical trajectory does not depend on the opaque environment. -/
theorem C03_run_indep_of_env {ι ι' Cfg σ Act : Type} [DecidableEq ι] [DecidableEq ι'] (g : Fixed)
    (sim : Sim Cfg σ Act) (sched : Nat → Cfg) (seed : Nat) (ops : List (Op Act)) (ρ : Rho ι) (ρ' : Rho ι')
    (hv : ρ.Valid) (hv' : ρ'.Valid) (hs : sim.Safe (StampLenAgree g ρ ρ')) :
    run g sim sched seed ops ρ = run g sim sched seed ops ρ' := by
  unfold run
  apply canon_runOps_eq g hv hv' sim sched hs ops
  have e := interp_indep g hv hv' (sim.construct (sched 0)) { rng := g.seed seed } (hs.construct _)
  simp only [start, Proc.Agree, e, and_self]

/-- The same at full strength for a simulator that never computes a size from an unseeded reading (what a repaired
`Frame.size` would be): no hypothesis on the clock at all. -/
theorem C03_run_indep_of_env_repaired_size {ι ι' Cfg σ Act : Type} [DecidableEq ι] [DecidableEq ι'] (g : Fixed)
    (sim : Sim Cfg σ Act) (sched : Nat → Cfg) (seed : Nat) (ops : List (Op Act)) (ρ : Rho ι) (ρ' : Rho ι')
    (hv : ρ.Valid) (hv' : ρ'.Valid) (hs : sim.Safe False) :
    run g sim sched seed ops ρ = run g sim sched seed ops ρ' :=
  C03_run_indep_of_env g sim sched seed ops ρ ρ' hv hv'
    ⟨fun c => (hs.construct c).mono False.elim, fun c => (hs.rebuild c).mono False.elim,
     fun s a => (hs.step s a).mono False.elim⟩

/-- **reseed_reproduces.** Take two processes in ARBITRARY states (different histories, different generator states,
different positions in different environments) that are about to start the same episode index. After
`reset(seed = s)` the same later operations give the same canonical trajectory: the episode is a function of
(schedule, episode index, s, operations) only. -/
theorem C03_reseed_reproduces {ι ι' Cfg σ Act : Type} [DecidableEq ι] [DecidableEq ι'] (g : Fixed)
    (sim : Sim Cfg σ Act) (sched : Nat → Cfg) (ρ : Rho ι) (ρ' : Rho ι') (hv : ρ.Valid) (hv' : ρ'.Valid)
    (hs : sim.Safe (StampLenAgree g ρ ρ')) (p p' : Proc σ) (he : p.episode = p'.episode) (s : Nat)
    (ops : List (Op Act)) :
    canonRun [] (runOps g ρ sim sched p (.reset (some s) :: ops)) =
      canonRun [] (runOps g ρ' sim sched p' (.reset (some s) :: ops)) := by
  obtain ⟨ha, sym, h1, h2⟩ := doReset_seed_rel g hv hv' sim sched hs p p' he s
  obtain ⟨syms, r1, r2⟩ := runOps_rel g hv hv' sim sched hs ops _ _ ha
  have e1 : runOps g ρ sim sched p (.reset (some s) :: ops) =
      (sym :: syms).map (fun l => l.map (Tok.map fun n => ρ.uuid ((doReset g ρ sim sched p (some s)).1.baseId + n))) := by
    simp only [runOps, opStep, List.map_cons, ← h1, ← r1]
  have e2 : runOps g ρ' sim sched p' (.reset (some s) :: ops) =
      (sym :: syms).map (fun l => l.map (Tok.map fun n => ρ'.uuid ((doReset g ρ' sim sched p' (some s)).1.baseId + n))) := by
    simp only [runOps, opStep, List.map_cons, ← h2, ← r2]
  rw [e1, e2]
  have c1 := canonRun_map_inj (fun n => ρ.uuid ((doReset g ρ sim sched p (some s)).1.baseId + n))
    (fun a b e => by have := hv.inj _ _ e; omega) (sym :: syms) []
  have c2 := canonRun_map_inj (fun n => ρ'.uuid ((doReset g ρ' sim sched p' (some s)).1.baseId + n))
    (fun a b e => by have := hv'.inj _ _ e; omega) (sym :: syms) []
  simp only [List.map_nil] at c1 c2
  rw [c1, c2]

/-- Corollary in the words of the property: the episode after `reset(seed = s)` does not depend on the history `pre`
played before it (same number of earlier resets `= episode index`), nor on the environment. -/
theorem C03_reseed_history_irrelevant {ι Cfg σ Act : Type} [DecidableEq ι] (g : Fixed)
    (sim : Sim Cfg σ Act) (sched : Nat → Cfg) (ρ ρ' : Rho ι) (hv : ρ.Valid) (hv' : ρ'.Valid)
    (hs : sim.Safe (StampLenAgree g ρ ρ')) (st st' : σ) (w w' : World) (e : Nat) (s : Nat) (ops : List (Op Act)) :
    canonRun [] (runOps g ρ sim sched { episode := e, st := st, w := w } (.reset (some s) :: ops)) =
      canonRun [] (runOps g ρ' sim sched { episode := e, st := st', w := w' } (.reset (some s) :: ops)) :=
  C03_reseed_reproduces g sim sched ρ ρ' hv hv' hs { episode := e, st := st, w := w } { episode := e, st := st', w := w' } rfl s ops

/-! ## the full statement, and why it is false of the code as it is (finding F-9) -/

/-- Full statement: no hypothesis on the clock (only the set consumers must be invariant). -/
def C03_Full : Prop :=
  ∀ (Cfg σ Act : Type) (g : Fixed) (sim : Sim Cfg σ Act) (sched : Nat → Cfg) (seed : Nat) (ops : List (Op Act))
    (ρ ρ' : Rho Nat), ρ.Valid → ρ'.Valid → sim.Safe True → run g sim sched seed ops ρ = run g sim sched seed ops ρ'

def demoFixed : Fixed := { next := fun s => (s * 7 + 3, s + 1), seed := id, textLen := isoTextLen }

/-- One link of bandwidth `bw` bytes per tick; a step sends one frame of 500 bytes plus its `sent_timestamp` text and
reports whether the link accepted it (`Link.can_transmit_frame`). -/
def linkSim (bw : Nat) : Sim Unit Nat Unit where
  construct _ := .ret 0
  rebuild _ := .ret (0, [])
  step load _ := .now fun h => .frameSize 500 [h] fun n =>
    if load + n ≤ bw then .ret (load + n, [.val 1]) else .ret (load, [.val 0])

def rhoWholeSecond : Rho Nat := { uuid := id, stamp := fun _ => 0, perm := fun _ l => l }
def rhoMicros : Rho Nat := { uuid := id, stamp := fun _ => 1, perm := fun _ l => l }
def rhoReversed : Rho Nat := { uuid := id, stamp := fun _ => 1, perm := fun _ l => l.reverse }

theorem rhoWholeSecond_valid : rhoWholeSecond.Valid := ⟨fun _ _ h => h, fun _ _ => List.Perm.refl _⟩
theorem rhoMicros_valid : rhoMicros.Valid := ⟨fun _ _ h => h, fun _ _ => List.Perm.refl _⟩
theorem rhoReversed_valid : rhoReversed.Valid := ⟨fun _ _ h => h, fun _ l => List.reverse_perm l⟩

theorem linkSim_safe (bw : Nat) (P : Prop) (hP : P) : (linkSim bw).Safe P where
  construct _ := trivial
  rebuild _ := trivial
  step load _ := by
    intro h
    refine ⟨.inr hP, fun n => ?_⟩
    by_cases hle : load + n ≤ bw <;> simp [hle, Prog.Safe]

/-- **F-9.** A frame whose clock reading happens to have a zero microsecond field is 7 bytes shorter; on a link whose
free capacity lies between the two sizes one process transmits and the other drops. -/
theorem C03_full_counterexample : ¬ C03_Full := by
  intro h
  have := h Unit Nat Unit demoFixed (linkSim 520) (fun _ => ()) 0 [.step ()] rhoWholeSecond rhoMicros
    rhoWholeSecond_valid rhoMicros_valid (linkSim_safe 520 True trivial)
  exact absurd this (by decide)

/-- The same pair of environments is harmless when all readings have texts of the same length … -/
example : run demoFixed (linkSim 520) (fun _ => ()) 0 [.step (), .reset (some 3), .step ()] rhoMicros =
    run demoFixed (linkSim 520) (fun _ => ()) 0 [.step (), .reset (some 3), .step ()] rhoReversed :=
  C03_run_indep_of_env demoFixed _ _ _ _ _ _ rhoMicros_valid rhoReversed_valid
    (linkSim_safe 520 _ (fun _ _ => rfl))

/-- … and the hypotheses of the partial theorem are met by a non-trivial pair (different set orders, same text lengths). -/
example : StampLenAgree demoFixed rhoMicros rhoReversed ∧ rhoMicros.perm 0 [1, 2] ≠ rhoReversed.perm 0 [1, 2] :=
  ⟨fun _ _ => rfl, by decide⟩

/-! ## why the consumers must be invariant (finding F-8, repaired in the code) -/

/-- nmap's ping scan: iterate the target set, report the live hosts in the order visited. `consumer` is `rawIter` in the
code before the repair and `sortedIter` after it. -/
def scanSim (consumer : List Nat → List Nat) : Sim Unit Unit (List Nat) where
  construct _ := .ret ()
  rebuild _ := .ret ((), [])
  step _ targets := .iterSet consumer targets fun visited => .ret ((), visited.map .val)

theorem scanSim_sorted_safe (P : Prop) : (scanSim sortedIter).Safe P where
  construct _ := trivial
  rebuild _ := trivial
  step _ _ := ⟨sortedIter_invariant, fun _ => trivial⟩

/-- Before the repair: two processes report the live hosts in different orders. -/
theorem C03_raw_set_iteration_counterexample :
    run demoFixed (scanSim rawIter) (fun _ => ()) 0 [.step [10, 1, 14]] rhoMicros ≠
      run demoFixed (scanSim rawIter) (fun _ => ()) 0 [.step [10, 1, 14]] rhoReversed := by decide

/-- After the repair (`for ip in sorted(targets)`): every pair of valid environments gives the same trajectory. -/
theorem C03_sorted_scan_indep (ops : List (Op (List Nat))) (seed : Nat) {ι ι' : Type} [DecidableEq ι] [DecidableEq ι']
    (ρ : Rho ι) (ρ' : Rho ι') (hv : ρ.Valid) (hv' : ρ'.Valid) :
    run demoFixed (scanSim sortedIter) (fun _ => ()) seed ops ρ = run demoFixed (scanSim sortedIter) (fun _ => ()) seed ops ρ' :=
  C03_run_indep_of_env demoFixed _ _ _ _ _ _ hv hv' (scanSim_sorted_safe _)

example : run demoFixed (scanSim sortedIter) (fun _ => ()) 0 [.step [10, 1, 14]] rhoReversed = [[.val 1, .val 10, .val 14]] := by
  decide

/-! ## identifiers: the canonical form really erases them -/

/-- A simulator that allocates an identifier per step and reports it together with whether it equals the first one. -/
def idSim : Sim Unit (Option Nat) Unit where
  construct _ := .ret none
  rebuild _ := .ret (none, [])
  step first _ := .fresh fun h =>
    match first with
    | none => .ret (some h, [.ident h, .val 1])
    | some f => .idEq f h fun same => .ret (some f, [.ident h, .ident f, .val (if same then 1 else 0)])

def rhoOdd : Rho Nat := { uuid := fun k => 2 * k + 1001, stamp := fun _ => 1, perm := fun _ l => l }
theorem rhoOdd_valid : rhoOdd.Valid := ⟨fun i j h => by simp [rhoOdd] at h; omega, fun _ _ => List.Perm.refl _⟩

example : run demoFixed idSim (fun _ => ()) 0 [.step (), .step (), .step ()] rhoOdd =
    [[.ident 0, .val 1], [.ident 1, .ident 0, .val 0], [.ident 2, .ident 0, .val 0]] := by decide

example : (runOps demoFixed rhoOdd idSim (fun _ => ()) (start demoFixed rhoOdd idSim (fun _ => ()) 0) [.step (), .step ()]) =
    [[.ident 1001, .val 1], [.ident 1003, .ident 1001, .val 0]] := by decide

/-! ## the translator tie: every site of the regenerated inventory is discharged -/

set_option maxRecDepth 100000 in
/-- The regenerated inventory is, site for site and in order, the committed table: no new, moved, renamed or vanished
site. A change of the source that adds `for x in some_set`, a `uuid4()`, a `datetime.now()`, a `random.*` … breaks this. -/
theorem C03_inventory_discharged : sites = table.map (·.1) := by decide

/-- Every reason used in the table is backed by its lemma (or is marked `byReading`). -/
theorem C03_discharges_justified : ∀ e ∈ table, e.2.Justified := fun e _ => Discharge.justified e.2

/-- The set iterations that rest on a lemma (not on reading): all `setIter` sites except the int-hashed port sets and the
cycle check. -/
theorem C03_set_iterations_by_lemma :
    ((table.filter fun e => e.1.kind == .setIter && !e.2.byReading).length,
     (table.filter fun e => e.1.kind == .setIter && e.2.byReading).map (·.2)) =
    (8, [.setCycleCheck, .setIntHash, .setIntHash]) := by decide

/-- How the 63 discharges split: by lemma / by reading (incl. trusted CPython facts) / attributed to the open finding. -/
theorem C03_discharge_counts :
    (table.length, (table.filter fun e => e.2.byReading).length, (table.filter fun e => e.2 == .readingLenF9).length) = (63, 29, 4) := by
  decide

/-- Exactly the sites attributed to the open finding F-9. -/
theorem C03_f9_sites : (table.filter fun e => e.2 == .readingLenF9).map (fun e => (e.1.file, e.1.scope)) =
    [("simulator/network/protocols/icmp.py", "ICMPPacket.__init__"),
     ("simulator/network/transmission/data_link_layer.py", "Frame.set_received_timestamp"),
     ("simulator/network/transmission/data_link_layer.py", "Frame.set_sent_timestamp"),
     ("simulator/system/services/ntp/ntp_server.py", "NTPServer.receive")] := by decide

end Primaite.Noninterf
