/-
C03 — same scenario, seed and actions give the same trajectory, in any process.   CLAIM: proof, PARTIAL.

What is proved (about the opaque-environment model `Model/Noninterf.lean`):
  for EVERY simulator written against the interface "identifiers are equality tokens, clock readings reach state only
  through the length of their text inside `Frame.size`, sets are iterated only through permutation-invariant consumers,
  random draws come from the seeded generator", for every configuration schedule, seed and operation list (steps and
  resets, with or without a seed), the canonical trajectory is the same under any two valid environments `ρ`, `ρ'`
  (uuid stream, clock stream, set-iteration orders) whose readings have texts of equal length; and the episode that
  follows `reset(seed = s)` is a function of (schedule, episode index, s, later operations) only.

What ties the interface to the source: the regenerated nondeterminism inventory `Gen/Nondet.lean` and the committed
discharge table `Lemmas/NondetDischarge.lean` (`C03_inventory_discharged`, `C03_discharges_justified`), and the
cross-process rig (fresh interpreters, different PYTHONHASHSEED, logging on/off).

What is NOT proved: that the inventory is complete (the extractor's job), that CPython behaves as `ρ` says (trusted),
and anything about the reasons marked `byReading` in the discharge table.  The full statement is false of the code as it
is: `C03_full_counterexample` (finding F-9, `Frame.size` contains the text of wall-clock readings).
-/
import PrimaiteModel.Lemmas.NondetDischarge
import PrimaiteModel.Gen.SharedState
import PrimaiteModel.Gen.NondetOutput
import PrimaiteModel.Gen.OwnGeneratorState

namespace Primaite.Noninterf
open Primaite.Gen.Nondet

/-! ## the theorems -/

/-- **run_indep_of_env** (partial: `StampLenAgree` excludes exactly F-9).  Construct the environment with the configured
seed and play any operation list: the canonical trajectory does not depend on the opaque environment. -/
theorem C03_run_indep_of_env_agree {ι ι' Cfg σ Act : Type} [DecidableEq ι] [DecidableEq ι'] (g : Fixed)
    (sim : Sim Cfg σ Act) (sched : Nat → Cfg) (seed : Nat) (ops : List (Op Act)) (ρ : Rho ι) (ρ' : Rho ι')
    (hv : ρ.Valid) (hv' : ρ'.Valid) (hs : sim.Safe g.seeds (StampLenAgree g ρ ρ')) :
    run g sim sched seed ops ρ = run g sim sched seed ops ρ' := by
  unfold run
  apply canon_runOps_eq g hv hv' sim sched hs ops
  have e := interp_indep g hv hv' (sim.construct (sched 0)) { rng := seedAll g seed } (hs.construct _)
  simp only [start, Proc.Agree, e, and_self]

/-- The same at full strength for a simulator that never computes a size from an unseeded reading (what a repaired
`Frame.size` would be): no hypothesis on the clock at all. -/
theorem C03_run_indep_of_env_repaired_size {ι ι' Cfg σ Act : Type} [DecidableEq ι] [DecidableEq ι'] (g : Fixed)
    (sim : Sim Cfg σ Act) (sched : Nat → Cfg) (seed : Nat) (ops : List (Op Act)) (ρ : Rho ι) (ρ' : Rho ι')
    (hv : ρ.Valid) (hv' : ρ'.Valid) (hs : sim.Safe g.seeds False) :
    run g sim sched seed ops ρ = run g sim sched seed ops ρ' :=
  C03_run_indep_of_env_agree g sim sched seed ops ρ ρ' hv hv'
    ⟨fun c => (hs.construct c).mono False.elim, fun c => (hs.rebuild c).mono False.elim,
     fun s a => (hs.step s a).mono False.elim⟩

/-- **reseed_reproduces.** Take two processes in ARBITRARY states (different histories, different generator states,
different positions in different environments) that are about to start the same episode index. After
`reset(seed = s)` the same later operations give the same canonical trajectory: the episode is a function of
(schedule, episode index, s, operations) only. -/
theorem C03_reseed_reproduces_agree {ι ι' Cfg σ Act : Type} [DecidableEq ι] [DecidableEq ι'] (g : Fixed)
    (sim : Sim Cfg σ Act) (sched : Nat → Cfg) (ρ : Rho ι) (ρ' : Rho ι') (hv : ρ.Valid) (hv' : ρ'.Valid)
    (hs : sim.Safe g.seeds (StampLenAgree g ρ ρ')) (p p' : Proc σ) (he : p.episode = p'.episode) (s : Nat)
    (ops : List (Op Act)) :
    canonRun [] (runOps g ρ sim sched p (.reset (some s) :: ops)) =
      canonRun [] (runOps g ρ' sim sched p' (.reset (some s) :: ops)) := by
  obtain ⟨ha, sym, h1, h2⟩ := doReset_seed_rel g hv hv' sim sched hs p p' he s
  obtain ⟨syms, r1, r2⟩ := runOps_rel g hv hv' sim sched hs ops _ _ ha
  have e1 : runOps g ρ sim sched p (.reset (some s) :: ops) =
      (sym :: syms).map (fun l => l.map (Tok.map fun n => ρ.uuid ((doReset g ρ sim sched p (some s)).1.baseId + n))) := by
    simp only [runOps, opStep, List.map_cons, ← h1, ← r1]
  have e2 : runOps g ρ' sim sched p' (.reset (some s) :: ops) =
      (sym :: syms).map (fun l => l.map (Tok.map fun n => ρ'.uuid ((doReset g ρ' sim sched p' (some s)).1.baseId + n))) := by
    simp only [runOps, opStep, List.map_cons, ← h2, ← r2]
  rw [e1, e2]
  have c1 := canonRun_map_inj (fun n => ρ.uuid ((doReset g ρ sim sched p (some s)).1.baseId + n))
    (fun a b e => by have := hv.inj _ _ e; omega) (sym :: syms) []
  have c2 := canonRun_map_inj (fun n => ρ'.uuid ((doReset g ρ' sim sched p' (some s)).1.baseId + n))
    (fun a b e => by have := hv'.inj _ _ e; omega) (sym :: syms) []
  simp only [List.map_nil] at c1 c2
  rw [c1, c2]

/-- Corollary in the words of the property: the episode after `reset(seed = s)` does not depend on the history `pre`
played before it (same number of earlier resets `= episode index`), nor on the environment. -/
theorem C03_reseed_history_irrelevant_agree {ι Cfg σ Act : Type} [DecidableEq ι] (g : Fixed)
    (sim : Sim Cfg σ Act) (sched : Nat → Cfg) (ρ ρ' : Rho ι) (hv : ρ.Valid) (hv' : ρ'.Valid)
    (hs : sim.Safe g.seeds (StampLenAgree g ρ ρ')) (st st' : σ) (w w' : World) (e : Nat) (s : Nat) (ops : List (Op Act)) :
    canonRun [] (runOps g ρ sim sched { episode := e, st := st, w := w } (.reset (some s) :: ops)) =
      canonRun [] (runOps g ρ' sim sched { episode := e, st := st', w := w' } (.reset (some s) :: ops)) :=
  C03_reseed_reproduces_agree g sim sched ρ ρ' hv hv' hs { episode := e, st := st, w := w } { episode := e, st := st', w := w' } rfl s ops

/-! ## the statement for VARIABLE-width readings, and why it is false (the code before the F-9 repair) -/

/-- The statement with NO hypothesis on the text-length function (any `g`, e.g. the pre-repair ISO text that drops a zero
microsecond field): false, `C03_full_counterexample`. With `g.FixedWidth` it is `C03_run_indep_of_env`. -/
def C03_Full : Prop :=
  ∀ (Cfg σ Act : Type) (g : Fixed) (sim : Sim Cfg σ Act) (sched : Nat → Cfg) (seed : Nat) (ops : List (Op Act))
    (ρ ρ' : Rho Nat), ρ.Valid → ρ'.Valid → sim.Safe g.seeds True → run g sim sched seed ops ρ = run g sim sched seed ops ρ'

/-- a toy generator per family (python / numpy / torch are seeded, gymnasium's per-space generator is not) -/
def demoFixed : Fixed :=
  { next := fun f s => (s * 7 + 3 + (match f with | .py => 0 | .np => 1 | .torch => 2 | .space => 5), s + 1),
    seed := fun f s => s * 4 + (match f with | .py => 0 | .np => 1 | .torch => 2 | .space => 3),
    textLen := isoTextLen }

/-- One link of bandwidth `bw` bytes per tick; a step sends one frame of 500 bytes plus its `sent_timestamp` text and
reports whether the link accepted it (`Link.can_transmit_frame`). -/
def linkSim (bw : Nat) : Sim Unit Nat Unit where
  construct _ := .ret 0
  rebuild _ := .ret (0, [])
  step load _ := .now fun h => .frameSize 500 [h] fun n =>
    if load + n ≤ bw then .ret (load + n, [.val 1]) else .ret (load, [.val 0])

def rhoWholeSecond : Rho Nat := { uuid := id, stamp := fun _ => 0, perm := fun _ l => l }
def rhoMicros : Rho Nat := { uuid := id, stamp := fun _ => 1, perm := fun _ l => l }
def rhoReversed : Rho Nat := { uuid := id, stamp := fun _ => 1, perm := fun _ l => l.reverse }

theorem rhoWholeSecond_valid : rhoWholeSecond.Valid := ⟨fun _ _ h => h, fun _ _ => List.Perm.refl _⟩
theorem rhoMicros_valid : rhoMicros.Valid := ⟨fun _ _ h => h, fun _ _ => List.Perm.refl _⟩
theorem rhoReversed_valid : rhoReversed.Valid := ⟨fun _ _ h => h, fun _ l => List.reverse_perm l⟩

theorem linkSim_safe (bw : Nat) (S : Fam → Bool) (P : Prop) (hP : P) : (linkSim bw).Safe S P where
  construct _ := trivial
  rebuild _ := trivial
  step load _ := by
    intro h
    refine ⟨.inr hP, fun n => ?_⟩
    by_cases hle : load + n ≤ bw <;> simp [hle, Prog.Safe]

/-- **F-9.** A frame whose clock reading happens to have a zero microsecond field is 7 bytes shorter; on a link whose
free capacity lies between the two sizes one process transmits and the other drops. -/
theorem C03_full_counterexample : ¬ C03_Full := by
  intro h
  have := h Unit Nat Unit demoFixed (linkSim 520) (fun _ => ()) 0 [.step ()] rhoWholeSecond rhoMicros
    rhoWholeSecond_valid rhoMicros_valid (linkSim_safe 520 _ True trivial)
  exact absurd this (by decide)

/-- The same pair of environments is harmless when all readings have texts of the same length … -/
example : run demoFixed (linkSim 520) (fun _ => ()) 0 [.step (), .reset (some 3), .step ()] rhoMicros =
    run demoFixed (linkSim 520) (fun _ => ()) 0 [.step (), .reset (some 3), .step ()] rhoReversed :=
  C03_run_indep_of_env_agree demoFixed _ _ _ _ _ _ rhoMicros_valid rhoReversed_valid
    (linkSim_safe 520 _ _ (fun _ _ => rfl))

/-- … and the hypotheses of the partial theorem are met by a non-trivial pair (different set orders, same text lengths). -/
example : StampLenAgree demoFixed rhoMicros rhoReversed ∧ rhoMicros.perm 0 [1, 2] ≠ rhoReversed.perm 0 [1, 2] :=
  ⟨fun _ _ => rfl, by decide⟩

/-! ## why the consumers must be invariant (finding F-8, repaired in the code) -/

/-- nmap's ping scan: iterate the target set, report the live hosts in the order visited. `consumer` is `rawIter` in the
code before the repair and `sortedIter` after it. -/
def scanSim (consumer : List Nat → List Nat) : Sim Unit Unit (List Nat) where
  construct _ := .ret ()
  rebuild _ := .ret ((), [])
  step _ targets := .iterSet consumer targets fun visited => .ret ((), visited.map .val)

theorem scanSim_sorted_safe (S : Fam → Bool) (P : Prop) : (scanSim sortedIter).Safe S P where
  construct _ := trivial
  rebuild _ := trivial
  step _ _ := ⟨sortedIter_invariant, fun _ => trivial⟩

/-- Before the repair: two processes report the live hosts in different orders. -/
theorem C03_raw_set_iteration_counterexample :
    run demoFixed (scanSim rawIter) (fun _ => ()) 0 [.step [10, 1, 14]] rhoMicros ≠
      run demoFixed (scanSim rawIter) (fun _ => ()) 0 [.step [10, 1, 14]] rhoReversed := by decide

/-- After the repair (`for ip in sorted(targets)`): every pair of valid environments gives the same trajectory. -/
theorem C03_sorted_scan_indep (ops : List (Op (List Nat))) (seed : Nat) {ι ι' : Type} [DecidableEq ι] [DecidableEq ι']
    (ρ : Rho ι) (ρ' : Rho ι') (hv : ρ.Valid) (hv' : ρ'.Valid) :
    run demoFixed (scanSim sortedIter) (fun _ => ()) seed ops ρ = run demoFixed (scanSim sortedIter) (fun _ => ()) seed ops ρ' :=
  C03_run_indep_of_env_agree demoFixed _ _ _ _ _ _ hv hv' (scanSim_sorted_safe _ _)

example : run demoFixed (scanSim sortedIter) (fun _ => ()) 0 [.step [10, 1, 14]] rhoReversed = [[.val 1, .val 10, .val 14]] := by
  decide

/-! ## identifiers: the canonical form really erases them -/

/-- A simulator that allocates an identifier per step and reports it together with whether it equals the first one. -/
def idSim : Sim Unit (Option Nat) Unit where
  construct _ := .ret none
  rebuild _ := .ret (none, [])
  step first _ := .fresh fun h =>
    match first with
    | none => .ret (some h, [.ident h, .val 1])
    | some f => .idEq f h fun same => .ret (some f, [.ident h, .ident f, .val (if same then 1 else 0)])

def rhoOdd : Rho Nat := { uuid := fun k => 2 * k + 1001, stamp := fun _ => 1, perm := fun _ l => l }
theorem rhoOdd_valid : rhoOdd.Valid := ⟨fun i j h => by simp [rhoOdd] at h; omega, fun _ _ => List.Perm.refl _⟩

example : run demoFixed idSim (fun _ => ()) 0 [.step (), .step (), .step ()] rhoOdd =
    [[.ident 0, .val 1], [.ident 1, .ident 0, .val 0], [.ident 2, .ident 0, .val 0]] := by decide

example : (runOps demoFixed rhoOdd idSim (fun _ => ()) (start demoFixed rhoOdd idSim (fun _ => ()) 0) [.step (), .step ()]) =
    [[.ident 1001, .val 1], [.ident 1003, .ident 1001, .val 0]] := by decide

/-! ## the seeding path: `reset(seed=0)` re-seeds, `reset()` does not; seeding precedes construction; every family drawn from is seeded -/

open Primaite.Gen in
/-- the regenerated tests as model tests (`none` for a test the extractor could not classify) -/
def toSeedTest : NondetSeeding.Test → Option SeedTest
  | .isNone => some .isNone
  | .isNotNone => some .isNotNone
  | .truthy => some .truthy
  | .falsy => some .falsy
  | .eqInt n => some (.eqInt n)
  | .ltInt n => some (.ltInt n)
  | .other _ => none

open Primaite.Gen in
/-- the shape of `set_random_seed` + the guard in `reset`, as regenerated from session/environment.py -/
def genShape : Option SeedShape := do
  let a ← NondetSeeding.absent.mapM toSeedTest
  let i ← NondetSeeding.invalid.mapM toSeedTest
  let r ← NondetSeeding.resetGuard.mapM toSeedTest
  pure { absent := a, absentGenerates := NondetSeeding.absentGenerates, invalid := i, resetGuard := r }

open Primaite.Gen in
/-- **Gen obligation.** The seeding code has exactly the shape the theorems below are about: `if seed is None or seed == -1:
(generate or return None) elif seed < -1: raise`; `random.seed(seed)`, `np.random.seed(seed)` unconditionally and
`th.manual_seed(seed)` under the torch-present test, all with the argument `seed`, which is not re-assigned; the function
returns `seed`; `__init__` passes `(self.seed, self.generate_seed_value)` read from the episode-0 `game` options,
unconditionally; `reset` passes `(seed, self.generate_seed_value)` under the single test `seed is not None`. -/
theorem C03_gen_seed_shape :
    genShape = some codeShape ∧
    NondetSeeding.absentElseReturnsNone = true ∧ NondetSeeding.invalidRaises = true ∧ NondetSeeding.returnsSeed = true ∧
    NondetSeeding.seedReassigned = [] ∧
    NondetSeeding.seedCalls = [("py", "seed", []), ("np", "seed", []), ("torch", "seed", ["sys.modules['torch']"])] ∧
    NondetSeeding.initSeedArgs = ["self.seed", "self.generate_seed_value"] ∧ NondetSeeding.initGuard = [] ∧
    NondetSeeding.initSeedSource = "self.episode_scheduler(0).get('game', {}).get('seed')" ∧
    NondetSeeding.initGenerateSource = "self.episode_scheduler(0).get('game', {}).get('generate_seed_value')" ∧
    NondetSeeding.resetSeedArgs = ["seed", "self.generate_seed_value"] := by decide

open Primaite.Gen in
/-- **Gen obligation.** In `__init__` and in `reset` there is exactly one `set_random_seed` call and exactly one
`PrimaiteGame.from_config` call, and the seeding call comes first (every draw of the construction follows the seeding);
`reset` then runs `setup_for_episode`, `update_agents`, `_get_obs` in this order. -/
theorem C03_gen_seed_before_build :
    (NondetSeeding.initCalls.count "set_random_seed" = 1 ∧ NondetSeeding.initCalls.count "PrimaiteGame.from_config" = 1 ∧
      NondetSeeding.initCalls.idxOf "set_random_seed" < NondetSeeding.initCalls.idxOf "PrimaiteGame.from_config") ∧
    (NondetSeeding.resetCalls.count "set_random_seed" = 1 ∧ NondetSeeding.resetCalls.count "PrimaiteGame.from_config" = 1 ∧
      NondetSeeding.resetCalls.idxOf "set_random_seed" < NondetSeeding.resetCalls.idxOf "PrimaiteGame.from_config") ∧
    NondetSeeding.resetCalls.filter (fun c => c ∈ ["PrimaiteGame.from_config", "setup_for_episode", "update_agents", "_get_obs"]) =
      ["PrimaiteGame.from_config", "setup_for_episode", "update_agents", "_get_obs"] ∧
    NondetSeeding.rayResetSeedArgs = List.replicate NondetSeeding.rayResetCalls "seed" := by decide

open Primaite.Gen in
/-- is the family seeded by one of the calls in `set_random_seed` (with the argument `seed`)? A Generator derived from a
numpy draw is as seeded as numpy's global generator. -/
def famSeeded (f : Nondet.Fam) : Bool :=
  let has (tag : String) := NondetSeeding.seedCalls.any fun c => c.1 == tag && c.2.1 == "seed"
  match f with
  | .py => has "py"
  | .np | .derivedNp => has "np"
  | .torch => has "torch"
  | .entropy | .space => false

set_option maxRecDepth 100000 in
/-- **Gen obligation: every draw happens after seeding, from a seeded family.** Every draw site of the inventory is
evaluated when a function is called (none at import time / in a class body, i.e. none before `set_random_seed` ran), and
its generator family is one `set_random_seed` seeds — except the entropy draws inside `if generate_seed_value:`. -/
theorem C03_gen_draw_families_seeded :
    (facts.all fun f => match f with
      | .draw fam atCall guarded => (guarded && fam == .entropy) || (atCall && famSeeded fam)
      | .seedCall _ _ atCall => atCall
      | _ => true) = true ∧
    -- the model's table of seeded families is the regenerated one
    (∀ f : Fam, demoFixed.seeds f = match f with | .py => famSeeded .py | .np => famSeeded .np | .torch => famSeeded .torch | .space => famSeeded .space) := by
  refine ⟨by decide, fun f => by cases f <;> decide⟩

/-- **What `env.reset(seed=x)` does to the generators, for EVERY `x`** (with `generate_seed_value = False`): a
non-negative seed — 0 included — re-seeds with it; `None` and `-1` leave the generators alone; anything below `-1` raises. -/
theorem C03_reset_seed_spec :
    (∀ s : Nat, s < 4294967296 → codeShape.resetAct (some (s : Int)) false = .seedWith s) ∧
    codeShape.resetAct none false = .keep ∧ codeShape.resetAct (some (-1)) false = .keep ∧
    (∀ n : Int, n < -1 → codeShape.resetAct (some n) false = .raise) ∧
    (∀ s : Nat, 4294967296 ≤ s → ∀ gen, codeShape.resetAct (some (s : Int)) gen = .raiseHalfSeeded) := by
  refine ⟨fun s hs => ?_, by decide, by decide, fun n hn => ?_, fun s hs gen => ?_⟩
  · have h1 : ¬ ((s : Int) = -1) := by omega
    have h2 : ¬ ((s : Int) < -1) := by omega
    simp [codeShape, SeedShape.resetAct, SeedShape.setRandomSeed, SeedTest.eval, h1, h2, hs]
  · have h1 : ¬ (n = -1) := by omega
    simp [codeShape, SeedShape.resetAct, SeedShape.setRandomSeed, SeedTest.eval, h1, hn]
  · have h1 : ¬ ((s : Int) = -1) := by omega
    have h2 : ¬ ((s : Int) < -1) := by omega
    have h3 : ¬ (s < 4294967296) := by omega
    simp [codeShape, SeedShape.resetAct, SeedShape.setRandomSeed, SeedTest.eval, h1, h2, h3]

/-- the caller's `reset(seed=s)`, `s ≥ 0`, is the model's re-seeding reset — also for `s = 0` -/
theorem toOps_reset_some {Act : Type} (s : Nat) (hs : s < 4294967296) (cs : List (COp Act)) :
    codeShape.toOps false (.reset (some (s : Int)) :: cs) = .reset (some s) :: codeShape.toOps false cs := by
  simp only [SeedShape.toOps, SeedShape.toOp, C03_reset_seed_spec.1 s hs]

/-- the caller's `reset()` is the model's reset that leaves the generators alone -/
theorem toOps_reset_none {Act : Type} (cs : List (COp Act)) :
    codeShape.toOps false (.reset none :: cs) = .reset none :: codeShape.toOps false cs := by
  simp only [SeedShape.toOps, SeedShape.toOp, C03_reset_seed_spec.2.1]

/-- **reseed_reproduces, in the caller's vocabulary.** With the seeding code as it is (`C03_gen_seed_shape`), for EVERY seed
value `s ≥ 0` — zero included — and every later call sequence (steps, resets with any `Optional[int]`, foreign draws):
two processes in arbitrary states that are about to start the same episode index produce the same canonical trajectory
after `env.reset(seed=s)`. -/
theorem C03_code_reseed_reproduces_agree {ι ι' Cfg σ Act : Type} [DecidableEq ι] [DecidableEq ι'] (g : Fixed)
    (sim : Sim Cfg σ Act) (sched : Nat → Cfg) (ρ : Rho ι) (ρ' : Rho ι') (hv : ρ.Valid) (hv' : ρ'.Valid)
    (hs : sim.Safe g.seeds (StampLenAgree g ρ ρ')) (p p' : Proc σ) (he : p.episode = p'.episode) (s : Nat) (hs32 : s < 4294967296)
    (cs : List (COp Act)) :
    canonRun [] (runOps g ρ sim sched p (codeShape.toOps false (.reset (some (s : Int)) :: cs))) =
      canonRun [] (runOps g ρ' sim sched p' (codeShape.toOps false (.reset (some (s : Int)) :: cs))) := by
  rw [toOps_reset_some s hs32]
  exact C03_reseed_reproduces_agree g sim sched ρ ρ' hv hv' hs p p' he s _

/-- **The generators right after `reset(seed=s)` are the same in every process and after every history** (the rig's
`rng` digest on the reset line is the implementation-side reading of this). -/
theorem C03_generators_after_reseed_agree {ι ι' Cfg σ Act : Type} [DecidableEq ι] [DecidableEq ι'] (g : Fixed)
    (sim : Sim Cfg σ Act) (sched : Nat → Cfg) (ρ : Rho ι) (ρ' : Rho ι') (hv : ρ.Valid) (hv' : ρ'.Valid)
    (hs : sim.Safe g.seeds (StampLenAgree g ρ ρ')) (p p' : Proc σ) (he : p.episode = p'.episode) (s : Nat) :
    (doReset g ρ sim sched p (some s)).1.w.rng = (doReset g ρ' sim sched p' (some s)).1.w.rng ∧
    (doReset g ρ sim sched p (some s)).1.st = (doReset g ρ' sim sched p' (some s)).1.st := by
  obtain ⟨⟨_, hst, hw⟩, _⟩ := doReset_seed_rel g hv hv' sim sched hs p p' he s
  exact ⟨congrArg World.rng hw, hst⟩

/-- A simulator with one stochastic scripted agent: every step draws from family `f` and reports the draw. -/
def drawSim (f : Fam) : Sim Unit Unit Unit where
  construct _ := .ret ()
  rebuild _ := .ret ((), [])
  step _ _ := .rand f 99 fun r => .ret ((), [.val r])

theorem drawSim_safe (f : Fam) (S : Fam → Bool) (hf : S f = true) (P : Prop) : (drawSim f).Safe S P where
  construct _ := trivial
  rebuild _ := trivial
  step _ _ := ⟨hf, fun _ => trivial⟩

/-- the seeding code with the test in `reset` replaced by a truthiness test (`if seed:`) -/
def truthyShape : SeedShape := { codeShape with resetGuard := [.truthy] }

/-- **Why the test must be `is not None`.** With `if seed:` the call `reset(seed=0)` does not re-seed: two processes that
differ only in how many draws their history consumed play different episodes after `reset(seed=0)`; with the code's
shape they play the same one. -/
theorem C03_truthy_seed_test_counterexample :
    truthyShape.resetAct (some 0) false = .keep ∧
    canonRun [] (runOps demoFixed rhoMicros (drawSim .py) (fun _ => ()) { episode := 0, st := (), w := { rng := fun _ => 5 } }
        (truthyShape.toOps false [.reset (some 0), .step ()])) ≠
      canonRun [] (runOps demoFixed rhoMicros (drawSim .py) (fun _ => ()) { episode := 0, st := (), w := { rng := fun _ => 9 } }
        (truthyShape.toOps false [.reset (some 0), .step ()])) ∧
    canonRun [] (runOps demoFixed rhoMicros (drawSim .py) (fun _ => ()) { episode := 0, st := (), w := { rng := fun _ => 5 } }
        (codeShape.toOps false [.reset (some 0), .step ()])) =
      canonRun [] (runOps demoFixed rhoMicros (drawSim .py) (fun _ => ()) { episode := 0, st := (), w := { rng := fun _ => 9 } }
        (codeShape.toOps false [.reset (some 0), .step ()])) := by decide

/-- A simulator whose CONSTRUCTION draws (ProbabilisticAgent derives its generator, PeriodicAgent its first execution step
inside `from_config`) and reports the draw at the first step. -/
def buildDrawSim : Sim Unit Nat Unit where
  construct _ := .rand .np 99 fun r => .ret r
  rebuild _ := .rand .np 99 fun r => .ret (r, [])
  step st _ := .ret (st, [.val st])

/-- **Why seeding must precede the construction of the game.** If `reset` built the game first and seeded afterwards, the
draws of the construction would come from the inherited generator state: after `reset(seed=3)` two processes with different
histories report different values; with the code's order (`doReset`) they agree. -/
theorem C03_build_before_seed_counterexample :
    (doResetLate demoFixed rhoMicros buildDrawSim (fun _ => ()) { episode := 0, st := 0, w := { rng := fun _ => 5 } } (some 3)).1.st ≠
      (doResetLate demoFixed rhoMicros buildDrawSim (fun _ => ()) { episode := 0, st := 0, w := { rng := fun _ => 9 } } (some 3)).1.st ∧
    (doReset demoFixed rhoMicros buildDrawSim (fun _ => ()) { episode := 0, st := 0, w := { rng := fun _ => 5 } } (some 3)).1.st =
      (doReset demoFixed rhoMicros buildDrawSim (fun _ => ()) { episode := 0, st := 0, w := { rng := fun _ => 9 } } (some 3)).1.st := by
  decide

def rhoEntropy7 : Rho Nat := { uuid := id, stamp := fun _ => 1, perm := fun _ l => l, entropy := fun k => 7 + k }
theorem rhoEntropy7_valid : rhoEntropy7.Valid := ⟨fun _ _ h => h, fun _ _ => List.Perm.refl _⟩

/-- **Why every family drawn from must be seeded (finding F-C03-1, repaired).** `RandomAgent.get_action` sampled from
gymnasium's per-space generator, which nobody seeds: under two valid environments that differ only in what the OS hands out,
the same seed and actions give different trajectories. The same simulator drawing from a seeded family is independent. -/
theorem C03_unseeded_family_counterexample :
    run demoFixed (drawSim .space) (fun _ => ()) 0 [.step ()] rhoMicros ≠
      run demoFixed (drawSim .space) (fun _ => ()) 0 [.step ()] rhoEntropy7 ∧
    run demoFixed (drawSim .np) (fun _ => ()) 0 [.step ()] rhoMicros =
      run demoFixed (drawSim .np) (fun _ => ()) 0 [.step ()] rhoEntropy7 := by
  refine ⟨by decide, ?_⟩
  exact C03_run_indep_of_env_agree demoFixed _ _ _ _ _ _ rhoMicros_valid rhoEntropy7_valid (drawSim_safe _ _ rfl _)

/-- **About the operations WITHOUT the decorator (the code before the F-11 repair; `runOps` alone):** "nothing else consumes the
global generators" was a hypothesis, not a consequence. A foreign draw (another environment instance, the training loop) between
`reset(seed=s)` and a step changes the episode; foreign draws BEFORE the re-seeding do not (`C03_reseed_reproduces_agree` quantifies over
arbitrary earlier generator states). Since the repair the hypothesis is gone: `C03_foreign_draw_harmless_since_repair`,
`C03_run_indep_of_env_and_foreign_activity`. -/
theorem C03_foreign_draw_counterexample :
    canonRun [] (runOps demoFixed rhoMicros (drawSim .py) (fun _ => ()) { episode := 0, st := (), w := {} }
        [.reset (some 3), .step ()]) ≠
      canonRun [] (runOps demoFixed rhoMicros (drawSim .py) (fun _ => ()) { episode := 0, st := (), w := {} }
        [.reset (some 3), .foreign .py, .step ()]) ∧
    canonRun [] (runOps demoFixed rhoMicros (drawSim .py) (fun _ => ()) { episode := 0, st := (), w := {} }
        [.foreign .py, .reset (some 3), .step ()]) =
      [[]] ++ canonRun [] (runOps demoFixed rhoMicros (drawSim .py) (fun _ => ()) { episode := 0, st := (), w := {} }
        [.reset (some 3), .step ()]) := by decide

/-- non-vacuity of `C03_code_reseed_reproduces_agree`: the two episodes really are re-seeded, and a different seed gives a different one -/
example : canonRun [] (runOps demoFixed rhoMicros (drawSim .py) (fun _ => ()) { episode := 0, st := (), w := { rng := fun _ => 5 } }
      (codeShape.toOps false [.reset (some 0), .step ()])) = [[], [.val 3]] ∧
    canonRun [] (runOps demoFixed rhoMicros (drawSim .py) (fun _ => ()) { episode := 0, st := (), w := { rng := fun _ => 5 } }
      (codeShape.toOps false [.reset (some 1), .step ()])) = [[], [.val 31]] ∧
    canonRun [] (runOps demoFixed rhoMicros (drawSim .py) (fun _ => ()) { episode := 0, st := (), w := { rng := fun _ => 5 } }
      (codeShape.toOps false [.reset none, .step ()])) = [[], [.val 38]] := by decide


/-! ## process-global state that survives between games of one interpreter

The process model builds every game from the episode's configuration alone (`Sim.construct : Cfg → Prog σ`): nothing of an
earlier game — of the same environment or of another one that ran earlier in the process — is an input.  What ties that to
the code is (a) the shared-state inventory `Gen/SharedState.lean` (C04's extractor, imported read-only): every class-level /
module-level object that is WRITTEN AT RUN TIME, with its writers, (b) the committed discharge below, and (c) the rig's
process-history workers (other games are built, played and closed in the interpreter before the case). -/

/-- why a run-time written process-global cannot carry anything from an earlier game into the trajectory -/
inductive GlobalDischarge where
  /-- `PrimaiteGame.from_config` assigns it UNCONDITIONALLY (a top-level statement, before any `return`) in every build, and both
  `__init__` and `reset` go through `from_config` (`C03_gen_seed_before_build`): whatever an earlier game left is overwritten
  before the new game reads it (that no reader runs before the assignment inside `from_config` is C04's `C04_gen_write_order`) -/
  | rewrittenAtEveryBuild
  /-- only read to decide where / whether log files and tables are written (by reading; C04's role table marks every reader a sink) -/
  | sinkOnly
  /-- written only while the module is imported or by the command-line tools, never by an operation of an environment (by reading) -/
  | notWrittenByAnOperation
  deriving DecidableEq, Repr

/-- a build whose process-global part is assigned unconditionally from the configuration -/
def buildUncond {Cfg G R : Type} (write : Cfg → G) (rest : G → Cfg → R) (_old : G) (c : Cfg) : R × G := (rest (write c) c, write c)

/-- a build that assigns the process-global only when the configuration has the (optional) section -/
def buildCond {Cfg G R : Type} (has : Cfg → Bool) (write : Cfg → G) (rest : G → Cfg → R) (old : G) (c : Cfg) : R × G :=
  let g := if has c then write c else old
  (rest g c, g)

/-- **Lemma for the kind `rewrittenAtEveryBuild`.** An unconditional assignment makes the build a function of the configuration
alone: whatever the process did before (`old`, `old'` arbitrary), the game built and the global left behind are the same. -/
theorem C03_unconditional_global_write_forgets_history {Cfg G R : Type} (write : Cfg → G) (rest : G → Cfg → R) (old old' : G) (c : Cfg) :
    buildUncond write rest old c = buildUncond write rest old' c := rfl

/-- **Why the assignment must be unconditional (seeded change C03-c / C04-b).** With "assign only if the scenario has a
non-empty section", a scenario WITHOUT the section builds a different game in a warm interpreter (an earlier game switched
capture on) than in a fresh one. -/
theorem C03_conditional_global_write_counterexample :
    buildCond (fun c : Option Bool => c.isSome) (fun c => c.getD false) (fun g _ => g) true none ≠
      buildCond (fun c : Option Bool => c.isSome) (fun c => c.getD false) (fun g _ => g) false none := by decide

open Primaite.Gen.SharedState in
/-- site ↦ reason for every process-global the shared-state inventory shows written at run time -/
def globalsTable : List (String × GlobalDischarge) := [
  ("primaite:PRIMAITE_CONFIG", .notWrittenByAnOperation),
  ("simulator.network.airspace:AirSpaceFrequency._registry", .notWrittenByAnOperation),
  ("simulator.system.core.packet_capture:PacketCapture._logger_instances", .sinkOnly),
  ("simulator:SIM_OUTPUT", .sinkOnly) ]

open Primaite.Gen.SharedState in
/-- **Gen obligation (inventory kind "module / class-level mutable state written at run time").** The run-time written
process-globals are exactly the committed four (six before the F-10 repair c95c025 made the two NMNE settings per-network state: no function assigns them any more, C04_gen_nmne_per_game; the kind `rewrittenAtEveryBuild`, its lemma and its counterexample stay for any future entry), each with exactly the committed writer functions (a new global, or a new
function writing one, breaks this); and every global discharged `rewrittenAtEveryBuild` has `PrimaiteGame.from_config` among its
UNCONDITIONAL writers — an assignment moved under an `if` (only when the scenario has the section) breaks it. -/
theorem C03_process_globals_discharged :
    ((entries.filter fun e => !e.writers.isEmpty).map fun e => (e.name, e.writers.map fun i => fns.getD i "?")) =
      [ ("primaite:PRIMAITE_CONFIG", ["utils.cli.dev_cli:config_callback", "utils.cli.dev_cli:disable", "utils.cli.dev_cli:enable",
                                      "utils.cli.dev_cli:path"]),
        ("simulator.network.airspace:AirSpaceFrequency._registry", ["simulator.network.airspace:AirSpaceFrequency.__init__"]),
        ("simulator.system.core.packet_capture:PacketCapture._logger_instances",
          ["simulator.system.core.packet_capture:PacketCapture.clear", "simulator.system.core.packet_capture:PacketCapture.setup_logger"]),
        ("simulator:SIM_OUTPUT", ["session.io:PrimaiteIO.__init__", "simulator.network.networks:network_simulator_demo_example"]) ] ∧
    (entries.filter fun e => !e.writers.isEmpty).map (·.name) = globalsTable.map (·.1) ∧
    (globalsTable.all fun t => t.2 != .rewrittenAtEveryBuild ||
      (entries.any fun e => e.name == t.1 && (e.uncondWriters.map fun i => fns.getD i "?").contains "game.game:PrimaiteGame.from_config")) = true := by
  decide +kernel

/-! ## full strength: after the F-9 repair the text of every reading has a constant width

`g.FixedWidth` is a property of the CODE's text-length function (tied to the source by `C03_gen_fixed_width_readings`), not of
the environments: no hypothesis on the clock or on secrets remains. `sim.Safe g.seeds True`: frame sizes MAY be computed from
readings. The `_agree` theorems above are the general lemmas (any text-length function, environments that agree). -/

theorem Sim.Safe.of_fixedWidth {Cfg σ Act : Type} {sim : Sim Cfg σ Act} {g : Fixed} (hw : g.FixedWidth) (hs : sim.Safe g.seeds True)
    {ι ι' : Type} (ρ : Rho ι) (ρ' : Rho ι') : sim.Safe g.seeds (StampLenAgree g ρ ρ') :=
  ⟨fun c => (hs.construct c).mono fun _ _ _ => hw _ _, fun c => (hs.rebuild c).mono fun _ _ _ => hw _ _,
   fun s a => (hs.step s a).mono fun _ _ _ => hw _ _⟩

/-- **run_indep_of_env, FULL.** For every simulator over the interface, schedule, seed, operation list and every two valid
environments (any clock readings, any identifiers, any set orders, any entropy): the same canonical trajectory. -/
theorem C03_run_indep_of_env {ι ι' Cfg σ Act : Type} [DecidableEq ι] [DecidableEq ι'] (g : Fixed) (hw : g.FixedWidth)
    (sim : Sim Cfg σ Act) (sched : Nat → Cfg) (seed : Nat) (ops : List (Op Act)) (ρ : Rho ι) (ρ' : Rho ι')
    (hv : ρ.Valid) (hv' : ρ'.Valid) (hs : sim.Safe g.seeds True) :
    run g sim sched seed ops ρ = run g sim sched seed ops ρ' :=
  C03_run_indep_of_env_agree g sim sched seed ops ρ ρ' hv hv' (hs.of_fixedWidth hw ρ ρ')

/-- **reseed_reproduces, FULL.** -/
theorem C03_reseed_reproduces {ι ι' Cfg σ Act : Type} [DecidableEq ι] [DecidableEq ι'] (g : Fixed) (hw : g.FixedWidth)
    (sim : Sim Cfg σ Act) (sched : Nat → Cfg) (ρ : Rho ι) (ρ' : Rho ι') (hv : ρ.Valid) (hv' : ρ'.Valid)
    (hs : sim.Safe g.seeds True) (p p' : Proc σ) (he : p.episode = p'.episode) (s : Nat) (ops : List (Op Act)) :
    canonRun [] (runOps g ρ sim sched p (.reset (some s) :: ops)) =
      canonRun [] (runOps g ρ' sim sched p' (.reset (some s) :: ops)) :=
  C03_reseed_reproduces_agree g sim sched ρ ρ' hv hv' (hs.of_fixedWidth hw ρ ρ') p p' he s ops

/-- **reseed_reproduces in the caller's vocabulary, FULL** (every seed value `0 ≤ s ≤ 2³²−1` — all that numpy accepts —, zero included). -/
theorem C03_code_reseed_reproduces {ι ι' Cfg σ Act : Type} [DecidableEq ι] [DecidableEq ι'] (g : Fixed) (hw : g.FixedWidth)
    (sim : Sim Cfg σ Act) (sched : Nat → Cfg) (ρ : Rho ι) (ρ' : Rho ι') (hv : ρ.Valid) (hv' : ρ'.Valid)
    (hs : sim.Safe g.seeds True) (p p' : Proc σ) (he : p.episode = p'.episode) (s : Nat) (hs32 : s < 4294967296)
    (cs : List (COp Act)) :
    canonRun [] (runOps g ρ sim sched p (codeShape.toOps false (.reset (some (s : Int)) :: cs))) =
      canonRun [] (runOps g ρ' sim sched p' (codeShape.toOps false (.reset (some (s : Int)) :: cs))) :=
  C03_code_reseed_reproduces_agree g sim sched ρ ρ' hv hv' (hs.of_fixedWidth hw ρ ρ') p p' he s hs32 cs

/-- **generators after re-seeding, FULL.** -/
theorem C03_generators_after_reseed {ι ι' Cfg σ Act : Type} [DecidableEq ι] [DecidableEq ι'] (g : Fixed) (hw : g.FixedWidth)
    (sim : Sim Cfg σ Act) (sched : Nat → Cfg) (ρ : Rho ι) (ρ' : Rho ι') (hv : ρ.Valid) (hv' : ρ'.Valid)
    (hs : sim.Safe g.seeds True) (p p' : Proc σ) (he : p.episode = p'.episode) (s : Nat) :
    (doReset g ρ sim sched p (some s)).1.w.rng = (doReset g ρ' sim sched p' (some s)).1.w.rng ∧
    (doReset g ρ sim sched p (some s)).1.st = (doReset g ρ' sim sched p' (some s)).1.st :=
  C03_generators_after_reseed_agree g sim sched ρ ρ' hv hv' (hs.of_fixedWidth hw ρ ρ') p p' he s

/-- the repaired code's text length: 26 characters for every clock reading (5 for every identifier: `Justified .fixedWidthReading`) -/
def repairedFixed : Fixed := { demoFixed with textLen := fun _ => 26 }
theorem repairedFixed_fixedWidth : repairedFixed.FixedWidth := fun _ _ => rfl

/-- non-vacuity: the pair of environments that refutes the variable-width statement (`C03_full_counterexample`: one clock on a whole
second, one not) is harmless for the repaired text length, on the very link that told them apart -/
example : run repairedFixed (linkSim 520) (fun _ => ()) 0 [.step (), .reset (some 3), .step ()] rhoWholeSecond =
    run repairedFixed (linkSim 520) (fun _ => ()) 0 [.step (), .reset (some 3), .step ()] rhoMicros :=
  C03_run_indep_of_env repairedFixed repairedFixed_fixedWidth _ _ _ _ _ _ rhoWholeSecond_valid rhoMicros_valid
    (linkSim_safe 520 _ True trivial)

/-! ## the environment's OWN generator state (F-11 repaired): nothing else in the process can move a draw

Until the F-11 repair "nothing else consumes the global generators between two calls" was a HYPOTHESIS of every theorem above
(`C03_foreign_draw_counterexample`). The code now wraps `__init__` / `reset` / `step` in `own_generator_state`; the model of that is
`ownedOpStep` (Lemmas/NoninterfOwnState.lean) and the hypothesis is gone: the statements below quantify over ARBITRARY foreign activity. -/

/-- **run_indep_of_env with arbitrary foreign activity, FULL.** Two runs of the same scenario, seed and environment operations - in two
processes with any valid environments `ρ`, `ρ'`, and with ANY, DIFFERENT use of the process-wide generators by others (other environment
instances, the training loop) anywhere between the operations - produce the same canonical trajectory. -/
theorem C03_run_indep_of_env_and_foreign_activity {ι ι' Cfg σ Act : Type} [DecidableEq ι] [DecidableEq ι'] (g : Fixed) (hw : g.FixedWidth)
    (sim : Sim Cfg σ Act) (sched : Nat → Cfg) (seed : Nat) (ops ops' : List (Op Act)) (hops : dropForeign ops = dropForeign ops')
    (ρ : Rho ι) (ρ' : Rho ι') (hv : ρ.Valid) (hv' : ρ'.Valid) (hs : sim.Safe g.seeds True) :
    runOwnedFrom g sim sched seed ops ρ = runOwnedFrom g sim sched seed ops' ρ' := by
  rw [runOwnedFrom_eq_run, runOwnedFrom_eq_run, hops]
  exact C03_run_indep_of_env g hw sim sched seed _ ρ ρ' hv hv' hs

/-- **reseed_reproduces with arbitrary foreign activity, FULL**: after `reset(seed = s)` the episode is a function of (schedule, episode
index, s, the environment's later operations) - whatever the two processes did before, whatever state the process-wide generators AND the
environment's saved state are in, and whatever others draw in between. -/
theorem C03_reseed_reproduces_and_foreign_activity {ι ι' Cfg σ Act : Type} [DecidableEq ι] [DecidableEq ι'] (g : Fixed) (hw : g.FixedWidth)
    (sim : Sim Cfg σ Act) (sched : Nat → Cfg) (ρ : Rho ι) (ρ' : Rho ι') (hv : ρ.Valid) (hv' : ρ'.Valid)
    (hs : sim.Safe g.seeds True) (q q' : OProc σ) (he : q.p.episode = q'.p.episode) (s : Nat) (ops ops' : List (Op Act))
    (hops : dropForeign ops = dropForeign ops') :
    canonRun [] (runOwned g ρ sim sched q (.reset (some s) :: ops)) =
      canonRun [] (runOwned g ρ' sim sched q' (.reset (some s) :: ops')) := by
  rw [runOwned_eq_runOps, runOwned_eq_runOps]
  have h1 : dropForeign (Op.reset (some s) :: ops) = Op.reset (some s) :: dropForeign ops := by
    simp [dropForeign, Op.isForeign]
  have h2 : dropForeign (Op.reset (some s) :: ops') = Op.reset (some s) :: dropForeign ops' := by
    simp [dropForeign, Op.isForeign]
  rw [h1, h2, hops]
  exact C03_reseed_reproduces g hw sim sched ρ ρ' hv hv' hs q.install q'.install he s _

/-- the witness of `C03_foreign_draw_counterexample` (a foreign draw between `reset(seed=3)` and a step), on the code as it is NOW: the
foreign draw no longer moves the episode; and the draws are real (another seed gives another value) -/
theorem C03_foreign_draw_harmless_since_repair :
    runOwned demoFixed rhoMicros (drawSim .py) (fun _ => ()) { p := { episode := 0, st := (), w := {} }, own := fun _ => 0 }
        [.reset (some 3), .foreign .py, .step ()] =
      runOwned demoFixed rhoMicros (drawSim .py) (fun _ => ()) { p := { episode := 0, st := (), w := {} }, own := fun _ => 0 }
        [.reset (some 3), .step ()] ∧
    runOwned demoFixed rhoMicros (drawSim .py) (fun _ => ()) { p := { episode := 0, st := (), w := {} }, own := fun _ => 0 }
        [.reset (some 3), .foreign .py, .step ()] ≠
      runOwned demoFixed rhoMicros (drawSim .py) (fun _ => ()) { p := { episode := 0, st := (), w := {} }, own := fun _ => 0 }
        [.reset (some 4), .foreign .py, .step ()] := by decide

open Primaite.Gen.OwnGeneratorState in
/-- **Gen obligation: the code IS `ownedOpStep`.** The decorator `own_generator_state` reads the environment's saved state first, puts it
back into BOTH seeded process-wide generators (`random`, `numpy.random`) when there is one, only then runs the wrapped operation (once,
inside the `try`), and records both states under the SAME key in the `finally`; it has no other statement and draws nothing; nothing else
in the package touches the key; `__init__`, `reset`, `step` of `PrimaiteGymEnv` and `PrimaiteRayMARLEnv` carry it (`PrimaiteRayEnv`
delegates to a `PrimaiteGymEnv`), and no decorated method calls a decorated method of the same object (a nested wrapper would rewind the
running operation's draws). The four `getstate` / `setstate` sites of the inventory are the ones of this wrapper
(`C03_facts_support_discharges`: `stateAccess … inWrapper`). -/
theorem C03_gen_own_generator_state :
    stateKey = savedUnder ∧ stateKey ≠ "" ∧ ownReadFirst = true ∧ restoreGuard = "isNotNone"
    ∧ restoreCalls.map (·.1) = ["random.setstate", "numpy.random.set_state"]
    ∧ savedValue = ["random.getstate", "numpy.random.get_state"]
    ∧ restoreCalls.map (·.2) = ["own[0]", "own[1]"]
    ∧ operationCalls.length = 1 ∧ operationAfterRestore = true ∧ operationInTry = true
    ∧ drawsInWrapper = [] ∧ otherStatements = [] ∧ stateKeyMentions = [] ∧ nestedOwned = []
    ∧ (["PrimaiteGymEnv", "PrimaiteRayMARLEnv"].all fun c => ["__init__", "reset", "step"].all fun m =>
        decorated.any fun d => d.1 == c && d.2.1 == m && d.2.2 == ["own_generator_state"]) = true
    ∧ ((table.filter fun e => e.2 == .ownGeneratorState).map fun e => (e.1.scope, e.1.detail)) =
        [ ("own_generator_state.wrapper", "np.random.get_state()"), ("own_generator_state.wrapper", "np.random.set_state(own[1])"),
          ("own_generator_state.wrapper", "random.getstate()"), ("own_generator_state.wrapper", "random.setstate(own[0])") ] := by decide

/-! ## output settings must not decide WHEN a draw happens ("with logging fully on or fully off")

The model has no output-setting input: a `Sim` cannot look at `save_agent_logs`.  The hole that leaves: a draw made LAZILY (inside a
`cached_property` / `computed_field`, evaluated when somebody first looks) moves to another position of the seeded stream if the
somebody is a statement that runs only when logs are saved (seeded change C03-d: `logger.debug(f"… {self!r}")` under
`SIM_OUTPUT.save_agent_logs`; pydantic's repr evaluates the computed field `PeriodicAgent.start_node`). -/

/-- Two scripted agents. Agent A draws its start node LAZILY (at first use, in the first step) - unless `loud`, when the construction
logs `repr(agent)` and so forces the draw; agent B draws at construction. The first step reports both draws. -/
def lazySim (loud : Bool) : Sim Unit (Option Nat × Nat) Unit where
  construct _ :=
    if loud then .rand .py 99 fun a => .rand .py 99 fun b => .ret (some a, b)
    else .rand .py 99 fun b => .ret (none, b)
  rebuild _ :=
    if loud then .rand .py 99 fun a => .rand .py 99 fun b => .ret ((some a, b), [])
    else .rand .py 99 fun b => .ret ((none, b), [])
  step st _ :=
    match st.1 with
    | some a => .ret (st, [.val a, .val st.2])
    | none => .rand .py 99 fun a => .ret ((some a, st.2), [.val a, .val st.2])

/-- **Why no output-guarded code path may reach a draw.** Same seed, same actions, same environment: with logging on the lazy draw is
made at construction (before agent B's), with logging off at the first step (after it) - the two agents swap their values. -/
theorem C03_output_forced_draw_counterexample :
    run demoFixed (lazySim true) (fun _ => ()) 0 [.step ()] rhoMicros ≠ run demoFixed (lazySim false) (fun _ => ()) 0 [.step ()] rhoMicros := by
  decide

open Primaite.Gen.NondetOutput in
/-- **Gen obligation: output settings cannot move a draw.** (a) The draw sites inside lazily evaluated functions are exactly
`PeriodicAgent.start_node` (`computed_field` + `cached_property`); (b) NO function containing a draw site is reachable by name through
calls from output-guarded code (`if …save_* / write_*_to_terminal / *log_level…`); (c) the non-constant expressions that output-guarded
code FORMATS (f-string fields, `repr()`, `str()`, `%`) are exactly the committed ones - plain strings, levels, host / agent names, the
chosen action's name - none of them a model whose repr evaluates a computed field; (d) the only logger call with lazily formatted
arguments is the committed one (its argument is an f-string). A guarded `repr(agent)`, a guarded call of `get_action`, a new lazy draw
or a new lazily formatted object breaks this. -/
theorem C03_gen_output_cannot_move_draws :
    lazyDraws = [("game/agent/scripted_agents/random_agent.py", "PeriodicAgent.start_node", ["cached_property", "computed_field"])] ∧
    guardedReach = [] ∧
    guardedFormats =
      [ ("game/agent/agent_log.py", "AgentLog._write_to_terminal", "level"),
        ("game/agent/agent_log.py", "AgentLog._write_to_terminal", "msg"),
        ("game/agent/agent_log.py", "AgentLog._write_to_terminal", "self.agent_name"),
        ("game/agent/agent_log.py", "AgentLog._write_to_terminal", "self.timestep"),
        ("game/game.py", "PrimaiteGame.apply_agent_actions", "action_choice"),
        ("simulator/system/core/sys_log.py", "SysLog._write_to_terminal", "level"),
        ("simulator/system/core/sys_log.py", "SysLog._write_to_terminal", "msg"),
        ("simulator/system/core/sys_log.py", "SysLog._write_to_terminal", "self.hostname"),
        ("simulator/system/core/sys_log.py", "SysLog.setup_logger", "self.hostname"),
        ("utils/cli/dev_cli.py", "config_callback", "ctx.params.get('agent_log_level')"),
        ("utils/cli/dev_cli.py", "config_callback", "ctx.params.get('sys_log_level')") ] ∧
    lazyFormatArgs.map (fun x => (x.1, x.2.1)) = [("game/agent/rewards.py", "WebpageUnavailablePenalty.calculate")] := by decide

/-! ## the translator tie: every site of the regenerated inventory is discharged -/

set_option maxRecDepth 100000 in
/-- The regenerated inventory is, site for site and in order, the committed table: no new, moved, renamed or vanished
site. A change of the source that adds `for x in some_set`, a `uuid4()`, a `datetime.now()`, a `random.*` … breaks this. -/
theorem C03_inventory_discharged : sites = table.map (·.1) := by decide

/-- Every reason used in the table is backed by its lemma (or is marked `byReading`). -/
theorem C03_discharges_justified : ∀ e ∈ table, e.2.Justified := fun e _ => Discharge.justified e.2

/-- Every set iteration rests on a lemma (one of them, the never-written set, on a mechanical fact + lemma) except the two
int-hashed port sets (trusted CPython fact); the cycle check is discharged by C10's theorem since this round. -/
theorem C03_set_iterations_by_lemma :
    ((table.filter fun e => e.1.kind == .setIter && (e.2.basis == .lemma || e.2.basis == .mechanical)).length,
     (table.filter fun e => e.1.kind == .setIter && e.2.basis == .trusted).map (·.2)) =
    (11, [.setIntHash, .setIntHash]) := by decide

/-- How the 78 discharges split: by lemma / by a mechanical Gen fact + kind lemma / mechanical fact + trusted runtime fact /
attributed to the open finding. (74 before the F-11 repair: its four `getstate` / `setstate` sites are discharged by a mechanical fact +
the lemma `runOwned_eq_runOps`, not by a trusted list.) -/
theorem C03_discharge_counts :
    (table.length, (table.filter fun e => e.2.basis == .lemma).length, (table.filter fun e => e.2.basis == .mechanical).length,
     (table.filter fun e => e.2.basis == .trusted).length, (table.filter fun e => e.2.basis == .openFinding).length) =
    (78, 9, 62, 7, 0) := by
  decide

set_option maxRecDepth 100000 in
/-- **The mechanical premises hold on the current source**: for every site, the regenerated FACT supports the reason the
table gives (constant secret length, reading sinks ⊆ {path, show, log}, draw from a seeded family at call time, seeding call
with argument `seed`, entropy draw only under `generate_seed_value`, `hash()` only as `__hash__`, module outside the runtime
import closure, `exclude=` of `model_dump`, int-valued set elements, uses of a declared set listed, `==`-only text use). -/
theorem C03_facts_support_discharges :
    facts.length = table.length ∧ ((table.zip facts).all fun e => e.1.2.supportedBy e.2) = true := by decide

set_option maxRecDepth 100000 in
/-- Every iteration / escape of a declared set name (indices listed by the extractor) is a site with a discharge of its own. -/
theorem C03_decl_uses_discharged :
    ((table.zip facts).all fun e =>
      match e.1.2, e.2 with
      | .setDeclCovered, .declUses idx => idx.all fun i =>
          match table[i]? with
          | some (s, d) => (s.kind == .setIter || s.kind == .setEscape) && d != .setDeclCovered
          | none => false
      | _, _ => true) = true := by decide

set_option maxRecDepth 100000 in
/-- No identifier is ordered, and the only uses of an identifier's TEXT are the two `==`-only ones. -/
theorem C03_identifier_uses :
    ((sites.filter fun s => s.kind == .idOrder).length, (table.filter fun e => e.1.kind == .idText).map (·.2)) =
    (0, [.idTextEqOnly, .idTextEqOnly]) := by decide

open Primaite.Gen.Nondet in
/-- **Gen obligation: an order that is "irrelevant for X" is consumed only by X.** The discharge of the neighbour-set iteration in
`topological_sort` (`setTopo`) says: every dependencies-first order computes the same REWARDS (`evalRewards_order_indep`,
`C10_graph_order_irrelevant`). That discharges the site only if the order it produces — `PrimaiteGame._reward_calculation_order`, the
one attribute assigned from a function with a set-iteration site — is read by the reward loop of `update_agents` and by nothing else,
neither directly nor through a helper that returns / yields it. A second consumer (e.g. the loop in which the agents ACT, hence draw
from the seeded generators) breaks this. -/
theorem C03_gen_order_consumers :
    orderUses = [ ("_reward_calculation_order", "topological_sort", [("game/game.py", "PrimaiteGame.update_agents")]) ] := by decide

open Primaite.Gen.Nondet in
/-- **Gen obligation (F-9 repair).** The datetime-typed model fields of the tree are exactly these five; the three that are part of a
frame's JSON (`Frame.sent_timestamp`, `Frame.received_timestamp`, `NTPReply.ntp_datetime`) have a JSON serialiser that returns
`isoformat(timespec='microseconds')` (constant 26 characters); the other two (`NTPClient.time`, `TerminalClientConnection.time`) are
service state, never inside a frame. A new datetime field, or a removed / altered serialiser, breaks this; the identifier range is
pinned by `C03_facts_support_discharges` (`boundedSecret 10000 65535`). -/
theorem C03_gen_fixed_width_readings :
    datetimeFields =
      [ ("simulator/network/protocols/ntp.py", "NTPReply", "ntp_datetime", true),
        ("simulator/network/transmission/data_link_layer.py", "Frame", "sent_timestamp", true),
        ("simulator/network/transmission/data_link_layer.py", "Frame", "received_timestamp", true),
        ("simulator/system/services/ntp/ntp_client.py", "NTPClient", "time", false),
        ("simulator/system/services/terminal/terminal.py", "TerminalClientConnection", "time", false) ] ∧
    (frameDatetimeFields.all serialisedFixedWidth) = true := by decide

/-- Exactly the sites whose reading's TEXT reaches Frame.size (finding F-9, repaired: fixed width). -/
theorem C03_fixed_width_sites : (table.filter fun e => e.2 == .fixedWidthReading).map (fun e => (e.1.file, e.1.scope)) =
    [("simulator/network/protocols/icmp.py", "ICMPPacket.__init__"),
     ("simulator/network/transmission/data_link_layer.py", "Frame.set_received_timestamp"),
     ("simulator/network/transmission/data_link_layer.py", "Frame.set_sent_timestamp"),
     ("simulator/system/services/ntp/ntp_server.py", "NTPServer.receive")] := by decide

end Primaite.Noninterf
