/-
C08, part 3 — software is handed a unicast frame only on the node that owns its destination address, in every run of the
forwarding model (`Model/Forward.lean`), and the ARP caches stay sound through every processing step.
Invariant machinery: `Lemmas/ForwardInv.lean` (mutual induction over all fifteen functions of the interpreter).
-/
import PrimaiteModel.Lemmas.ForwardInv
namespace Primaite.Forward

/-! ### the theorems -/

/-- Misdelivery is impossible, UNCONDITIONALLY (no assumption on topology, routes, caches, MAC uniqueness or fuel):
every hand-over of a unicast frame (destination MAC not the broadcast address) to software
(`SoftwareManager.receive_payload_from_session_manager`) recorded during a `ping` — with all its nested ARP exchanges,
floods, router hops and replies — happens on a node that owns the frame's destination IP address.
(Hosts: repaired `NIC.receive_frame`; routers: `check_send_frame_to_session_manager`.) -/
theorem C08_unicast_only_addressee (fuel : Nat) (st : St) (n : Nat) (dst : Ip) (pings : Nat)
    (hlog : ∀ m fid ip, Ev.sw m fid ip false ∈ st.log → Owns (cfgOf st) m ip) (m fid : Nat) (ip : Ip)
    (hev : Ev.sw m fid ip false ∈ (ping fuel st n dst pings).1.log) : Owns (cfgOf st) m ip :=
  (G_ping (spec_true (cfgOf st)) fuel st n dst pings ⟨rfl, fun _ _ _ _ _ => trivial, hlog⟩).log m fid ip hev

/-- the same for the service exchange (`NTPClient.request_time` and the server's answer). -/
theorem C08_unicast_only_addressee_service (fuel : Nat) (st : St) (n : Nat) (server : Ip)
    (hlog : ∀ m fid ip, Ev.sw m fid ip false ∈ st.log → Owns (cfgOf st) m ip) (m fid : Nat) (ip : Ip)
    (hev : Ev.sw m fid ip false ∈ (requestService fuel st n server).1.log) : Owns (cfgOf st) m ip := by
  have hG : G (cfgOf st) (fun _ _ => True) st := ⟨rfl, fun _ _ _ _ _ => trivial, hlog⟩
  have h1 := hG.modOther n (fun nd => { nd with served := false }) (fun _ => rfl) (fun _ => rfl)
  have h2 := (gAt (spec_true (cfgOf st)) fuel).icmp _ n server .dataReq h1 trivial
  unfold requestService at hev
  simp only at hev
  split at hev
  · exact h1.log m fid ip hev
  · split at hev <;> exact h2.log m fid ip hev

/-- the same for ANY application exchange identified by its (port, protocol) key — DNS, database, HTTP, FTP …: the request, the
look-up of the receiving software (`SoftwareManager.receive_payload_from_session_manager`) on whichever node accepts the frame,
the answer sent back to the request's source, and every ARP exchange, flood and hop on the way: software is handed a unicast
frame only on a node that owns its destination address.  Unconditional. -/
theorem C08_unicast_only_addressee_app (fuel : Nat) (st : St) (n : Nat) (server : Ip) (svc : Nat) (reply : Bool)
    (hlog : ∀ m fid ip, Ev.sw m fid ip false ∈ st.log → Owns (cfgOf st) m ip) (m fid : Nat) (ip : Ip)
    (hev : Ev.sw m fid ip false ∈ (requestApp fuel st n server svc reply).1.log) : Owns (cfgOf st) m ip := by
  have hG : G (cfgOf st) (fun _ _ => True) st := ⟨rfl, fun _ _ _ _ _ => trivial, hlog⟩
  have h2 := (gAt (spec_true (cfgOf st)) fuel).icmp st n server (.appReq svc reply) hG trivial
  unfold requestApp at hev
  simp only at hev
  split at hev
  · exact hG.log m fid ip hev
  · split at hev <;> exact h2.log m fid ip hev

/-- … and the interpreter never changes the configuration (interfaces, addresses, gateways, routes), so "owns" means the
same before and after. -/
theorem C08_config_static (fuel : Nat) (st : St) (n : Nat) (dst : Ip) (pings : Nat)
    (hlog : ∀ m fid ip, Ev.sw m fid ip false ∈ st.log → Owns (cfgOf st) m ip) :
    cfgOf (ping fuel st n dst pings).1 = cfgOf st :=
  (G_ping (spec_true (cfgOf st)) fuel st n dst pings ⟨rfl, fun _ _ _ _ _ => trivial, hlog⟩).cfg

/-- the same for a frame entering at any interface (the building block). -/
theorem C08_unicast_only_addressee_frame (fuel : Nat) (st : St) (n i : Nat) (f : Frame)
    (hlog : ∀ m fid ip, Ev.sw m fid ip false ∈ st.log → Owns (cfgOf st) m ip) (m fid : Nat) (ip : Ip)
    (hev : Ev.sw m fid ip false ∈ (sendFrame fuel st n i f).1.log) : Owns (cfgOf st) m ip :=
  ((gAt (spec_true (cfgOf st)) fuel).send st n i f ⟨rfl, fun _ _ _ _ _ => trivial, hlog⟩
    ⟨trivial, Or.inr (Or.inr trivial), by cases f.pl <;> simp [PlOk]⟩).1.log m fid ip hev

/-- `ArpSound` is preserved by every processing step: from a state whose caches are sound (every entry `ip ↦ mac` names
an interface carrying `ip`, or a router interface — routers and hosts learn `src_ip ↦ src_mac` from routed frames, so
remote addresses map to the last router) and whose configuration is good (unique, real MACs; gateways and route next hops
are router addresses), a whole `ping` ends in a state with sound caches; and every frame any router forwarded on the way
was addressed (layer 2) to the owner of its destination address or to a router. For every fuel, topology, source,
destination and count. -/
theorem C08_arp_sound_preserved {c : List NodeCfg} (hg : GoodCfg c) (fuel : Nat) (st : St) (n : Nat) (dst : Ip) (pings : Nat)
    (hG : G c (SoundPair c) st) : G c (SoundPair c) (ping fuel st n dst pings).1 :=
  G_ping (spec_sound hg) fuel st n dst pings hG

/-- sound frames stay sound along their whole journey (source pair genuine or a router's, destination MAC that of the
destination's owner or of a router, ARP payload pairs genuine). -/
theorem C08_frames_stay_sound {c : List NodeCfg} (hg : GoodCfg c) (fuel : Nat) (st : St) (n i : Nat) (f : Frame)
    (hG : G c (SoundPair c) st) (hF : FrameOk (SoundPair c) f) :
    G c (SoundPair c) (sendFrame fuel st n i f).1 ∧ FrameOk (SoundPair c) (sendFrame fuel st n i f).2 :=
  (gAt (spec_sound hg) fuel).send st n i f hG hF

/-- a state with empty caches and an empty log satisfies the invariant for its own configuration. -/
theorem G_cold (st : St) (harp : ∀ k nd, st.node? k = some nd → nd.arp = []) (hlog : st.log = []) :
    G (cfgOf st) (SoundPair (cfgOf st)) st := by
  refine ⟨rfl, ?_, ?_⟩
  · intro k nd e hk he; rw [harp k nd hk] at he; cases he
  · intro m fid ip h; rw [hlog] at h; cases h

/-! ### a decidable check of the hypotheses (run by the driver on every generated topology) -/

def allIfaces (c : List NodeCfg) : List (Nat × Nat × Kind × Iface) :=
  c.zipIdx.flatMap (fun x => x.1.ifaces.zipIdx.map (fun y => (x.2, y.2, x.1.kind, y.1)))

theorem mem_allIfaces {c : List NodeCfg} {m j : Nat} {nc : NodeCfg} {b : Iface} (h1 : c[m]? = some nc)
    (h2 : nc.ifaces[j]? = some b) : (m, j, nc.kind, b) ∈ allIfaces c := by
  unfold allIfaces
  rw [List.mem_flatMap]
  refine ⟨(nc, m), List.mem_zipIdx_iff_getElem?.2 h1, ?_⟩
  rw [List.mem_map]
  exact ⟨(b, j), List.mem_zipIdx_iff_getElem?.2 h2, rfl⟩

def nextHops (nc : NodeCfg) : List Ip :=
  nc.gateway.toList ++ nc.routes.default.toList ++ nc.routes.routes.map (·.nextHop)

theorem mem_nextHops {nc : NodeCfg} {t : Ip} (h : IsNextHop nc t) : t ∈ nextHops nc := by
  unfold nextHops
  rcases h with h | h | ⟨r, hr, rfl⟩
  · simp [h]
  · simp [h]
  · simp only [List.mem_append, List.mem_map]; right; exact ⟨r, hr, rfl⟩

def goodCfgB (c : List NodeCfg) : Bool :=
  (allIfaces c).all (fun a => (allIfaces c).all (fun b => a.2.2.2.mac != b.2.2.2.mac || (a.1 == b.1 && a.2.1 == b.2.1))) &&
  (allIfaces c).all (fun a => a.2.2.2.mac != noMac) &&
  c.all (fun nc => (nextHops nc).all (fun t => (allIfaces c).all (fun b => b.2.2.2.ip != t || b.2.2.1 == .router)))

theorem goodCfg_of_check (c : List NodeCfg) (h : goodCfgB c = true) : GoodCfg c := by
  unfold goodCfgB at h
  simp only [Bool.and_eq_true, List.all_eq_true, Bool.or_eq_true, bne_iff_ne, ne_eq, beq_iff_eq] at h
  obtain ⟨⟨h1, h2⟩, h3⟩ := h
  constructor
  · intro n m i j nc mc a b hn ha hm hb hab
    have := h1 _ (mem_allIfaces hn ha) _ (mem_allIfaces hm hb)
    rcases this with h | h
    · exact absurd hab h
    · exact h
  · intro n i nc a hn ha
    exact h2 _ (mem_allIfaces hn ha)
  · intro n nc t hn ht m j mc b hm hb hbt
    have := h3 nc (List.mem_of_getElem? hn) t (mem_nextHops ht) _ (mem_allIfaces hm hb)
    rcases this with h | h
    · exact absurd hbt h
    · exact h

/-- cold caches, empty log, checked configuration: the hypotheses of the theorems, decidably. -/
def goodStateB (st : St) : Bool := goodCfgB (cfgOf st) && st.nodes.all (fun nd => nd.arp.isEmpty) && st.log.isEmpty

/-- END-TO-END statement for checked start states: the caches are sound after any run. -/
theorem C08_arp_sound_checked (st : St) (h : goodStateB st = true) (fuel n : Nat) (dst : Ip) (pings : Nat)
    (k : Nat) (nd : Node) (e : ArpEntry) (hk : (ping fuel st n dst pings).1.node? k = some nd) (he : e ∈ nd.arp) :
    SoundPair (cfgOf st) e.ip e.mac := by
  unfold goodStateB at h
  simp only [Bool.and_eq_true, List.all_eq_true, List.isEmpty_iff] at h
  obtain ⟨⟨h1, h2⟩, h3⟩ := h
  refine (C08_arp_sound_preserved (goodCfg_of_check _ h1) fuel st n dst pings (G_cold st ?_ h3)).arp k nd e hk he
  intro k nd hk
  exact h2 nd (List.mem_of_getElem? hk)

/-! ### non-vacuity: a routed network (host — router — host) satisfies the hypotheses, and software does get frames -/

def exNet : St :=
  { nodes := [
      { kind := .host, gateway := some 0xC0A80101#32,
        ifaces := [{ mac := 1, ip := 0xC0A80102#32, plen := 24, enabled := true, peer := some (1, 0) }] },
      { kind := .router,
        ifaces := [{ mac := 2, ip := 0xC0A80101#32, plen := 24, enabled := true, peer := some (0, 0) },
                   { mac := 3, ip := 0xC0A80201#32, plen := 24, enabled := true, peer := some (2, 0) }] },
      { kind := .host, gateway := some 0xC0A80201#32,
        ifaces := [{ mac := 4, ip := 0xC0A80202#32, plen := 24, enabled := true, peer := some (1, 1) }] } ] }

example : goodStateB exNet = true := by decide
/-- the routed ping succeeds in the model and hands four frames to software (2 ARP exchanges aside): not vacuous. -/
example : (ping 60 exNet 0 0xC0A80202#32 1).2 = true := by decide +kernel
example : ((ping 60 exNet 0 0xC0A80202#32 1).1.log.filter (fun e => match e with | .sw _ _ _ false => true | _ => false)).length ≥ 2 := by
  decide +kernel

end Primaite.Forward
