/-
C11 — the step around the mask, tied to the source (Gen/RequestCallers.lean, regenerated).

* `C11_gen_mask_and_step_form_same_request`: the request the mask checks for action number `i` and the request the step executes
  for it are BOTH `ActionManager.form_request(identifier, options)` of the pair `action_map[i]`, and that function is a pure function
  of the pair (registry look-up, `ConfigSchema(**options)`, the action class's `form_request(config)` — every one of those a
  class-level function of `config` alone).  This is what entitles `C11_masked_number_iff_reaches` to use ONE `form`.
* `C11_gen_pretimestep_disjoint_from_rules`: nothing `pre_timestep` assigns (anywhere in the simulator, helpers one level deep) is a
  field a permission rule reads: between the mask a user holds and the agent's action in the next `step`, no rule changes its
  truth because of `pre_timestep`.
-/
import PrimaiteModel.Props.C11
import PrimaiteModel.Gen.RequestCallers
namespace Primaite.Mask
open Primaite.Gen.RequestCallers Primaite.Gen.ActionMask

/-- the request the mask checks for number `i` / the request the step executes for number `i`, as the source computes them:
look the pair up BY KEY, hand identifier and options to the one `form_request` -/
def maskRequest {α ρ} (form : α → ρ) (amap : List (Nat × α)) (i : Nat) : Option ρ := (actionOf amap i).map form
def stepRequest {α ρ} (getAction : Nat → Option α) (formatRequest : α → ρ) (i : Nat) : Option ρ := (getAction i).map formatRequest

theorem C11_gen_mask_and_step_form_same_request :
    -- the mask: `form_request(action[0], action[1])` of the entry it is looking at
    maskFormCalls = ["agent.action_manager.form_request(action_identifier=action[0], action_options=action[1])"] ∧
    -- the step: get_action → format_request → apply_request, the SAME request object recorded with the response
    stepSteps = ["for (_, agent) in self.agents.items()", "obs = agent.observation_manager.current_observation",
                 "action_choice, parameters = agent.get_action(obs, timestep=self.step_counter)",
                 "request = agent.format_request(action_choice, parameters)",
                 "response = self.simulation.apply_request(request)",
                 "agent.process_action_response(timestep=self.step_counter, action=action_choice, parameters=parameters, request=request, response=response, observation=obs)"] ∧
    -- format_request IS form_request of the same manager with the same two arguments
    formatRequestBody = ["return self.action_manager.form_request(action_identifier=action, action_options=options)"] ∧
    -- form_request reads nothing but its two arguments and the class registry
    formRequestBody = ["act_class = AbstractAction._registry[action_identifier]", "config = act_class.ConfigSchema(**action_options)",
                       "return act_class.form_request(config=config)"] ∧
    -- nobody overrides format_request; every action's form_request is a class-level function of `config` alone
    formOverrides = [] ∧
    -- (from Gen/ActionMask) the proxy agent's get_action is `action_map[number]`, by key
    getActionByKey = true ∧ stepLooksUpByNumber = true ∧
    -- hence, on the model: for every map and number the two requests are the same
    (∀ {α ρ : Type} (form : α → ρ) (amap : List (Nat × α)) (i : Nat),
      maskRequest form amap i = stepRequest (actionOf amap) form i) := by
  refine ⟨by decide +kernel, by decide +kernel, by decide +kernel, by decide +kernel, by decide, by decide, by decide, ?_⟩
  intro α ρ form amap i; rfl

/-- is attribute `w` read by a permission rule? -/
def ruleField (w : String) : Bool := ruleReads.contains w

/-- **`pre_timestep` writes no field a rule reads** — for every class of the simulator that defines it, helpers included.  The two
helper calls it makes are the reviewed ones.  (The rule fields: operating_state, enabled, folders / deleted_folders, files /
deleted_files, deleted, and the constructor arguments state / allowed_groups.)  What DOES move rule fields between two masks is
`apply_timestep` (countdowns) — before the mask is computed — and other agents acting earlier in the same tick: the rig's
countdown-boundary family and its `others-acted` bookkeeping are about those. -/
theorem C11_gen_pretimestep_disjoint_from_rules :
    (preTimestepWrites.all (fun cw => cw.2.all (fun w => !ruleField w))) = true ∧
    ruleReads = ["allowed_groups", "deleted", "deleted_files", "deleted_folders", "enabled", "files", "folders", "operating_state", "state"] ∧
    (preTimestepCalls.filter (fun cc => !cc.2.isEmpty)) =
      [("Network", ["self.airspace.reset_bandwidth_load"]), ("UserSessionManager", ["self._timeout_session"])] ∧
    preTimestepWrites.length = 14 := by decide +kernel

end Primaite.Mask

/-! ### a route registered with a component's bound `apply_request` instead of its manager (seeded C11-h)

`check_valid` descends only into routes whose `func` IS a `RequestManager`; a bound method is a leaf for it, while `__call__` invokes
it and so runs the component's own manager.  The two traversals then walk DIFFERENT trees and `C11_mask_iff_reaches` (one tree)
says nothing.  That every dynamic edge leads to the component's manager is the Gen tie of the schema (`RequestSchema` refuses any
other shape at an `add_request` site; `Inst` in Props/C05Inst) and, on the live tree after run-time creations, the rig's shape
oracle. -/
namespace Primaite.Request

/-- what `__call__` effectively walks: the application `c2-beacon` (installed at run time, still INSTALLING) with its own manager,
rule 1 = "application is RUNNING" on `scan` -/
def execView : Kids := [("application", 0, .node [("c2-beacon", 2, .node [("scan", 1, .leaf 0)])])]
/-- what `check_valid` walks when that route's func is the bound method: a leaf at the application's name -/
def maskView : Kids := [("application", 0, .node [("c2-beacon", 2, .leaf 9)])]
def installingEnv : Env := fun v _ => v != 1

theorem C11_forwarding_route_counterexample :
    checkValidK installingEnv maskView ["application", "c2-beacon", "scan"] = true ∧
    dispatchK installingEnv execView ["application", "c2-beacon", "scan"] 0 = .failure 2 1 ∧
    -- with the route registered as the manager both walk `execView` and agree
    checkValidK installingEnv execView ["application", "c2-beacon", "scan"] = false := by decide

end Primaite.Request

