/-
C08, part 5 — "handling any packet always terminates", as a theorem about the whole interpreter.

`Model/Forward.lean` bounds the Python call nesting by `fuel`; running out of fuel sets `oof` (the model's `RecursionError`).
Here: an A-PRIORI bound.  For every state whose configuration is good (`GoodCfg`: unique MACs, next hops / gateways are
addresses that only routers carry) and every fuel ≥ `fuelBound` (a constant that depends only on the initial TTL), no function
of the interpreter runs out of fuel — for every topology, every cache / table content, every frame, every nesting of ARP
exchanges, floods, hops and replies.

Ranking argument (lexicographic, flattened into explicit budgets):
  * a frame in flight spends ≤ 4 nesting levels per TTL unit (send → receive → switch → flood → send; or
    send → receive → router → process → send with two decrements);
  * what a frame can START while it is handled depends on its class, and the classes are well ordered:
      P  (ARP reply, addressed to the genuine pair of the requester)   starts nothing;
      Q1 (ARP request for a configured next hop: only routers own it)   starts P  (routers resolve their outbound port without ARP);
      Q0 (any other ARP request)                                        starts Q1 (a host asks for its gateway before it answers) and P;
      R  (echo reply / service reply)                                   starts Q0, Q1 at every router it crosses;
      E  (echo request / service request)                               starts the same and, at its addressee, R;
  * every ARP look-up re-attempts at most twice (flag rank ≤ 3);
  * a flood does not nest: its branches run one after the other at the same depth, sharing one TTL.
The cycle "ARP request → look-up → ARP request" is cut by the repaired code in three places: the router never forwards a
broadcast (F-33), a host resolves its gateway without ARP (F-57), a firewall drops a broadcast on its DMZ port before its
look-ups (F-C08-r3-1, found by this proof: before that repair the statement below was false under `GoodCfg`).
-/
import PrimaiteModel.Lemmas.ForwardInv
import PrimaiteModel.Props.C08Forward
import PrimaiteModel.Props.C08FuelMono
import PrimaiteModel.Props.C08Addressee
namespace Primaite.Forward
open Primaite.Route (findBestRoute Table)

/-! ### vocabulary -/

/-- `(ip, mac)` is the address pair of one interface of the configuration. -/
def Genuine (c : List NodeCfg) (ip : Ip) (mac : Mac) : Prop :=
  ∃ (m j : Nat) (nc : NodeCfg) (b : Iface), c[m]? = some nc ∧ nc.ifaces[j]? = some b ∧ b.ip = ip ∧ b.mac = mac

/-- `t` is a configured next hop (gateway, route next hop, default route) of some node. -/
def NH (c : List NodeCfg) (t : Ip) : Prop := ∃ (n : Nat) (nc : NodeCfg), c[n]? = some nc ∧ IsNextHop nc t

def IsHost (c : List NodeCfg) (n : Nat) : Prop := ∃ nc, c[n]? = some nc ∧ nc.kind = .host

/-- `t` is a next hop the node itself asks ARP for: a host's gateway, a router's route / default-route next hop or gateway. -/
def OwnHop (nc : NodeCfg) (t : Ip) : Prop :=
  (nc.kind = .host ∧ nc.gateway = some t) ∨ (nc.kind = .router ∧ IsNextHop nc t)

def OwnHopAt (c : List NodeCfg) (n : Nat) (t : Ip) : Prop := ∀ nc, c[n]? = some nc → OwnHop nc t

/-- `resolve_outbound_network_interface` of node `n` for `dst` makes no nested call: routers and switches never do, a
host does not for its own gateway (repair F-57) or without a gateway. -/
def CheapOut (c : List NodeCfg) (n : Nat) (dst : Ip) : Prop :=
  ∀ nc, c[n]? = some nc → nc.kind = .router ∨ nc.kind = .switch ∨ nc.gateway = none ∨ nc.gateway = some dst

/-- a request (echo request, service request, application request) / a reply. -/
def IsRequest : Pl → Prop
  | .echoReq _ => True
  | .dataReq => True
  | .appReq _ _ => True
  | _ => False
def IsReply : Pl → Prop
  | .echoRep _ => True
  | .dataRep => True
  | .appRep _ => True
  | _ => False

/-- the classes of frames, ordered by what their handling can start. -/
inductive Cls | p | q1 | q0 | r | e
deriving DecidableEq, Repr

def ClsOk (c : List NodeCfg) : Cls → Frame → Prop
  | .p, f => (∃ a b t m, f.pl = .arpRep a b t m) ∧ Genuine c f.dstIp f.dstMac
  | .q1, f => (∃ s m, f.pl = .arpReq s m f.dstIp ∧ Genuine c s m) ∧ f.dstMac = bcastMac ∧ NH c f.dstIp
  | .q0, f => (∃ s m, f.pl = .arpReq s m f.dstIp ∧ Genuine c s m) ∧ f.dstMac = bcastMac
  | .r, f => IsReply f.pl
  | .e, f => IsRequest f.pl

/-- what the handling of a frame of the class may need beyond its own transit (nesting levels). -/
def Hc : Cls → Nat
  | .p => 1
  | .q1 => 264
  | .q0 => 534
  | .r => 800
  | .e => 1062

/-- remaining TTL budget of a frame. -/
def tt (f : Frame) : Nat := f.ttl.toNat

/-- nesting needed to send a fresh frame (TTL 64) of the class. -/
def Sc (k : Cls) : Nat := 260 + Hc k

/-- `send_arp_request` for an own next hop / an arbitrary address; `resolve_outbound_network_interface`; one ARP look-up
(cache read, ≤ 2 requests); `resolve_outbound_transmission_details`. -/
local notation "RQ1" => 526
local notation "RO" => 531
local notation "RQ0" => 796
local notation "LK" => 800
local notation "RD" => 801

/-- THE BOUND: with this much fuel nothing ever runs out of it (depends only on the initial TTL 64). -/
def fuelBound : Nat := 1323

/-- state part of the statement: the (static) configuration, and the interpreter has not run out of fuel. -/
structure T (c : List NodeCfg) (st : St) : Prop where
  cfg : cfgOf st = c
  ok : st.oof = false

theorem T.emit {c : List NodeCfg} {st : St} (h : T c st) (e : Ev) : T c (st.emit e) := ⟨h.cfg, h.ok⟩
theorem T.nextId {c : List NodeCfg} {st : St} (h : T c st) (k : Nat) : T c { st with nextId := k } := ⟨h.cfg, h.ok⟩
theorem T.mod {c : List NodeCfg} {st : St} (h : T c st) (n : Nat) (f : Node → Node) (hf : ∀ nd, (f nd).cfg = nd.cfg) :
    T c (st.modNode n f) := ⟨by rw [cfgOf_modNode st n f hf]; exact h.cfg, h.ok⟩
theorem T.addArp {c : List NodeCfg} {st : St} (h : T c st) (n i : Nat) (ip : Ip) (mac : Mac) :
    T c (st.modNode n (fun nd => nd.addArp ip mac i)) := h.mod n _ (fun nd => addArp_cfg nd ip mac i)
theorem T.learnMac {c : List NodeCfg} {st : St} (h : T c st) (n p : Nat) (m : Mac) :
    T c (st.modNode n (fun nd => nd.learnMac m p)) := h.mod n _ (fun nd => (learnMac_cfg nd m p).1)

/-! ### frames -/

theorem tt_dec (f : Frame) (h : ¬ f.dec.ttl < 1) : tt f.dec + 1 = tt f := by
  unfold tt Frame.dec at *
  simp only at *
  omega

theorem tt_dec_le (f : Frame) : tt f.dec ≤ tt f := by
  unfold tt Frame.dec
  simp only
  omega

@[simp] theorem tt_stamp (f : Frame) (a b : Mac) : tt (f.stamp a b) = tt f := rfl

theorem ClsOk.dec {c : List NodeCfg} {k : Cls} {f : Frame} (h : ClsOk c k f) : ClsOk c k f.dec := by
  cases k <;> exact h

/-- the router's rewrite keeps the class of the frames a router does forward. -/
theorem ClsOk.stamp {c : List NodeCfg} {k : Cls} {f : Frame} (h : ClsOk c k f) (hk : k = .r ∨ k = .e) (a b : Mac) :
    ClsOk c k (f.stamp a b) := by
  rcases hk with rfl | rfl <;> exact h

theorem clsOk_arpReq {c : List NodeCfg} {k : Cls} {f : Frame} {s : Ip} {m : Mac} {t : Ip} (hp : f.pl = .arpReq s m t)
    (h : ClsOk c k f) : (k = .q1 ∨ k = .q0) ∧ t = f.dstIp ∧ f.dstMac = bcastMac ∧ Genuine c s m ∧ (k = .q1 → NH c t) := by
  cases k
  · obtain ⟨⟨a, b, t', m', h1⟩, _⟩ := h; rw [hp] at h1; cases h1
  · obtain ⟨⟨s', m', h1, h2⟩, h3, h4⟩ := h
    rw [hp] at h1; cases h1
    exact ⟨Or.inl rfl, rfl, h3, h2, fun _ => h4⟩
  · obtain ⟨⟨s', m', h1, h2⟩, h3⟩ := h
    rw [hp] at h1; cases h1
    exact ⟨Or.inr rfl, rfl, h3, h2, fun hk => by cases hk⟩
  · have h' : IsReply f.pl := h
    rw [hp] at h'; exact h'.elim
  · have h' : IsRequest f.pl := h
    rw [hp] at h'; exact h'.elim

theorem clsOk_arpRep {c : List NodeCfg} {k : Cls} {f : Frame} {s : Ip} {m : Mac} {t : Ip} {tm : Mac}
    (hp : f.pl = .arpRep s m t tm) (h : ClsOk c k f) : k = .p ∧ Genuine c f.dstIp f.dstMac := by
  cases k
  · exact ⟨rfl, h.2⟩
  · obtain ⟨⟨s', m', h1, _⟩, _⟩ := h; rw [hp] at h1; cases h1
  · obtain ⟨⟨s', m', h1, _⟩, _⟩ := h; rw [hp] at h1; cases h1
  · have h' : IsReply f.pl := h
    rw [hp] at h'; exact h'.elim
  · have h' : IsRequest f.pl := h
    rw [hp] at h'; exact h'.elim

theorem clsOk_request {c : List NodeCfg} {k : Cls} {f : Frame} (hp : IsRequest f.pl) (h : ClsOk c k f) : k = .e := by
  cases k
  · obtain ⟨⟨a, b, t', m', h1⟩, _⟩ := h; rw [h1] at hp; exact hp.elim
  · obtain ⟨⟨s', m', h1, _⟩, _⟩ := h; rw [h1] at hp; exact hp.elim
  · obtain ⟨⟨s', m', h1, _⟩, _⟩ := h; rw [h1] at hp; exact hp.elim
  · have h' : IsReply f.pl := h
    cases hpl : f.pl <;> rw [hpl] at hp h' <;> first | exact hp.elim | exact h'.elim
  · rfl

theorem clsOk_reply {c : List NodeCfg} {k : Cls} {f : Frame} (hp : IsReply f.pl) (h : ClsOk c k f) : k = .r := by
  cases k
  · obtain ⟨⟨a, b, t', m', h1⟩, _⟩ := h; rw [h1] at hp; exact hp.elim
  · obtain ⟨⟨s', m', h1, _⟩, _⟩ := h; rw [h1] at hp; exact hp.elim
  · obtain ⟨⟨s', m', h1, _⟩, _⟩ := h; rw [h1] at hp; exact hp.elim
  · rfl
  · have h' : IsRequest f.pl := h
    cases hpl : f.pl <;> rw [hpl] at hp h' <;> first | exact hp.elim | exact h'.elim

/-- the frame `receive_payload_from_software_manager` builds for an ARP packet is of class `k`. -/
def PktOk (c : List NodeCfg) (k : Cls) (pl : Pl) (dstIp : Ip) : Prop :=
  ∀ (id : Nat) (sm : Mac) (si : Ip),
    ClsOk c k { id := id, srcMac := sm, dstMac := plDstMac pl, srcIp := si, dstIp := dstIp, ttl := initTtl, pl := pl }

/-- … and for an ICMP / service payload (only the payload decides the class). -/
def PlCls (k : Cls) (pl : Pl) : Prop :=
  (k = .r ∧ IsReply pl) ∨ (k = .e ∧ IsRequest pl)

theorem PlCls.ok {c : List NodeCfg} {k : Cls} {pl : Pl} (h : PlCls k pl) (f : Frame) (hf : f.pl = pl) : ClsOk c k f := by
  subst hf
  rcases h with ⟨rfl, h⟩ | ⟨rfl, h⟩ <;> exact h

theorem PlCls.re {k : Cls} {pl : Pl} (h : PlCls k pl) : k = .r ∨ k = .e := by
  rcases h with ⟨rfl, _⟩ | ⟨rfl, _⟩
  · exact Or.inl rfl
  · exact Or.inr rfl

/-! ### configuration facts -/

theorem genuine_of_iface {c : List NodeCfg} {st : St} (hc : cfgOf st = c) {n i : Nat} {ifc : Iface}
    (h : st.iface? n i = some ifc) : Genuine c ifc.ip ifc.mac := by
  obtain ⟨nc, h1, h2⟩ := iface?_cfg hc h
  exact ⟨n, i, nc, ifc, h1, h2, rfl, rfl⟩

theorem isHost_of {c : List NodeCfg} {st : St} (hc : cfgOf st = c) {n : Nat} {nd : Node} (hn : st.node? n = some nd)
    (hk : nd.kind = .host) : IsHost c n := ⟨nd.cfg, node?_cfg hc hn, hk⟩

theorem isRouter_of {c : List NodeCfg} {st : St} (hc : cfgOf st = c) {n : Nat} {nd : Node} (hn : st.node? n = some nd)
    (hk : nd.kind = .router) : IsRouter c n := ⟨nd.cfg, node?_cfg hc hn, hk⟩

theorem iface_of_node {st : St} {n i : Nat} {nd : Node} {ifc : Iface} (hn : st.node? n = some nd)
    (hi : st.iface? n i = some ifc) : nd.ifaces[i]? = some ifc := by
  unfold St.iface? at hi
  unfold St.node? at hn
  rw [hn] at hi
  exact hi

/-- a host carries no configured next-hop address (`GoodCfg.hopsAreRouters`). -/
theorem host_not_hop {c : List NodeCfg} (hg : GoodCfg c) {st : St} (hc : cfgOf st = c) {n i : Nat} {nd : Node} {ifc : Iface}
    (hn : st.node? n = some nd) (hi : st.iface? n i = some ifc) (hk : nd.kind = .host) (hnh : NH c ifc.ip) : False := by
  obtain ⟨m, nc, hm, hh⟩ := hnh
  have := hg.hopsAreRouters m nc ifc.ip hm hh n i nd.cfg ifc (node?_cfg hc hn) (iface_of_node hn hi) rfl
  have hk' : nd.cfg.kind = .host := hk
  rw [hk'] at this
  cases this

/-- a frame addressed to the genuine pair of an interface, arriving at an interface with that MAC (unique MACs), is for an
own address of the receiving node. -/
theorem genuine_own {c : List NodeCfg} (hg : GoodCfg c) {st : St} (hc : cfgOf st = c) {n i : Nat} {nd : Node} {ifc : Iface}
    (hn : st.node? n = some nd) (hi : st.iface? n i = some ifc) {ip : Ip} (hgen : Genuine c ip ifc.mac) :
    (ifaceWithIp nd.ifaces ip).isSome = true := by
  obtain ⟨m, j, nc, b, h1, h2, h3, h4⟩ := hgen
  have hi' := iface_of_node hn hi
  obtain ⟨rfl, rfl⟩ := hg.uniqueMacs n m i j nd.cfg nc ifc b (node?_cfg hc hn) hi' h1 h2 h4.symm
  rw [node?_cfg hc hn] at h1
  have : nc = nd.cfg := by simpa using h1.symm
  subst this
  have hb : b = ifc := by
    have : nd.cfg.ifaces = nd.ifaces := rfl
    rw [this, hi'] at h2
    simpa using h2.symm
  subst hb
  unfold ifaceWithIp
  rw [List.find?_isSome]
  exact ⟨b, List.mem_of_getElem? hi', by simp [h3]⟩

theorem ownHop_nh {c : List NodeCfg} {n : Nat} {nc : NodeCfg} (hn : c[n]? = some nc) {t : Ip} (h : OwnHop nc t) : NH c t := by
  rcases h with ⟨_, h⟩ | ⟨_, h⟩
  · exact ⟨n, nc, hn, Or.inl h⟩
  · exact ⟨n, nc, hn, h⟩

/-- an ARP look-up for an own next hop only ever moves on to an own next hop. -/
theorem arpNext_ownHop (nd : Node) (ip t : Ip) (re gw b re' gw' : Bool) (ho : OwnHop nd.cfg ip)
    (h : arpNext nd ip re gw b = .go t re' gw') : OwnHop nd.cfg t := by
  rcases arpNext_target nd ip t re gw b re' gw' h with rfl | ht
  · exact ho
  · unfold arpNext at h
    split at h
    · rename_i hk
      left
      refine ⟨hk, ?_⟩
      rcases hostArpNext_target nd ip t re gw re' gw' h with rfl | _
      · rcases ho with ⟨_, ho⟩ | ⟨hr, _⟩
        · exact ho
        · have : nd.cfg.kind = .host := hk
          rw [this] at hr; cases hr
      · unfold hostArpNext at h
        simp only at h
        split at h
        · simp only [ArpNext.go.injEq] at h
          rcases ho with ⟨_, ho⟩ | ⟨hr, _⟩
          · rw [← h.1]; exact ho
          · have : nd.cfg.kind = .host := hk
            rw [this] at hr; cases hr
        · split at h
          · rename_i g hgw
            split at h
            · simp only [ArpNext.go.injEq] at h
              rw [← h.1]; exact hgw
            · cases h
          · cases h
    · rename_i hk
      exact Or.inr ⟨hk, ht⟩
    · cases h

theorem arpNext_rank (nd : Node) (ip t : Ip) (re gw b re' gw' : Bool) (h : arpNext nd ip re gw b = .go t re' gw') :
    flagRank re' gw' < flagRank re gw := by
  unfold arpNext at h
  split at h
  · exact C08_arp_host_rank nd ip t re gw re' gw' h
  · exact C08_arp_router_rank nd ip t re gw re' gw' b h
  · cases h

/-! ### the statement for every function of the interpreter at one fuel level -/

structure TAt (c : List NodeCfg) (fuel : Nat) : Prop where
  send : ∀ k st n i f, T c st → ClsOk c k f → 4 * tt f + Hc k + 4 ≤ fuel →
    T c (sendFrame fuel st n i f).1 ∧ ClsOk c k (sendFrame fuel st n i f).2 ∧ tt (sendFrame fuel st n i f).2 ≤ tt f
  recv : ∀ k st n i f, T c st → ClsOk c k f → 4 * tt f + Hc k + 3 ≤ fuel →
    T c (ifaceRecv fuel st n i f).1 ∧ ClsOk c k (ifaceRecv fuel st n i f).2 ∧ tt (ifaceRecv fuel st n i f).2 ≤ tt f
  sw : ∀ k st n i f, T c st → ClsOk c k f → 4 * tt f + Hc k + 6 ≤ fuel →
    T c (switchRecv fuel st n i f).1 ∧ ClsOk c k (switchRecv fuel st n i f).2 ∧ tt (switchRecv fuel st n i f).2 ≤ tt f
  flood : ∀ k st n i f ports, T c st → ClsOk c k f → 4 * tt f + Hc k + 5 ≤ fuel →
    T c (floodPorts fuel st n i f ports).1 ∧ ClsOk c k (floodPorts fuel st n i f ports).2 ∧
      tt (floodPorts fuel st n i f ports).2 ≤ tt f
  host : ∀ k st n i f, T c st → ClsOk c k f → IsHost c n → Hc k ≤ fuel →
    T c (hostRecv fuel st n i f).1 ∧ (hostRecv fuel st n i f).2 = f
  router : ∀ k st n i f, T c st → ClsOk c k f → IsRouter c n →
    (∀ ifc, st.iface? n i = some ifc → routerAccepts ifc f = true) → 4 * tt f + Hc k + 6 ≤ fuel →
    T c (routerRecv fuel st n i f).1 ∧ ClsOk c k (routerRecv fuel st n i f).2 ∧ tt (routerRecv fuel st n i f).2 ≤ tt f
  process : ∀ k st n i f, T c st → ClsOk c k f → (f.dstMac = bcastMac ∨ k = .r ∨ k = .e) → 4 * tt f + Hc k + 5 ≤ fuel →
    T c (routerProcess fuel st n i f).1 ∧ ClsOk c k (routerProcess fuel st n i f).2 ∧ tt (routerProcess fuel st n i f).2 ≤ tt f
  arpReplyC : ∀ st n pl, T c st → (∀ t, targetOf pl = some t → PktOk c .p pl t ∧ CheapOut c n t) → Sc .p + 2 ≤ fuel →
    T c (sendArpReply fuel st n pl)
  arpReply : ∀ st n pl, T c st → (∀ t, targetOf pl = some t → PktOk c .p pl t) → RO + 2 ≤ fuel → T c (sendArpReply fuel st n pl)
  arpPktC : ∀ k st n pl dstIp, T c st → PktOk c k pl dstIp → (∀ t, targetOf pl = some t → CheapOut c n t) → Sc k + 1 ≤ fuel →
    T c (sendArpPkt fuel st n pl dstIp)
  arpPkt : ∀ k st n pl dstIp, T c st → PktOk c k pl dstIp → RO + 1 ≤ fuel → Sc k + 1 ≤ fuel → T c (sendArpPkt fuel st n pl dstIp)
  icmp : ∀ k st n dst pl, T c st → PlCls k pl → Sc k + 1 ≤ fuel → T c (sendIcmp fuel st n dst pl)
  details : ∀ st n dst, T c st → RD ≤ fuel → T c (resolveDetails fuel st n dst).1
  outC : ∀ st n dst, T c st → CheapOut c n dst → 1 ≤ fuel → T c (resolveOut fuel st n dst).1
  out : ∀ st n dst, T c st → RO ≤ fuel → T c (resolveOut fuel st n dst).1
  mac : ∀ st n ip re gw, T c st → RQ0 + 1 + flagRank re gw ≤ fuel → T c (arpMac fuel st n ip re gw).1
  ifc : ∀ st n ip re gw, T c st → RQ0 + 1 + flagRank re gw ≤ fuel → T c (arpIfc fuel st n ip re gw).1
  ifc1 : ∀ st n ip re gw, T c st → OwnHopAt c n ip → RQ1 + 1 + flagRank re gw ≤ fuel → T c (arpIfc fuel st n ip re gw).1
  req1 : ∀ st n t, T c st → OwnHopAt c n t → RQ1 ≤ fuel → T c (sendArpReq fuel st n t)
  req : ∀ st n t, T c st → RQ0 ≤ fuel → T c (sendArpReq fuel st n t)

theorem hc_pos (k : Cls) : 1 ≤ Hc k := by cases k <;> simp [Hc]

theorem tAt_zero (c : List NodeCfg) : TAt c 0 := by
  constructor
  all_goals intros
  all_goals first
    | omega
    | (have := hc_pos ‹Cls›; omega)
    | (have := hc_pos ‹Cls›; unfold Sc at *; omega)
    | (simp only [Sc, Hc] at *; omega)

/-- budgets: unfold the class constants, then linear arithmetic. -/
macro "bud" : tactic => `(tactic| first
  | omega
  | (simp only [Sc, Hc, flagRank] at *; omega)
  | (simp only [Sc, Hc, flagRank] at *; split <;> omega))

section succ
variable {c : List NodeCfg} (hg : GoodCfg c) {fuel : Nat} (ih : TAt c fuel)
include ih

theorem t_send (k : Cls) (st : St) (n i : Nat) (f : Frame) (hT : T c st) (hC : ClsOk c k f) (hb : 4 * tt f + Hc k + 4 ≤ fuel + 1) :
    T c (sendFrame (fuel + 1) st n i f).1 ∧ ClsOk c k (sendFrame (fuel + 1) st n i f).2 ∧
      tt (sendFrame (fuel + 1) st n i f).2 ≤ tt f := by
  simp only [sendFrame]
  repeat' split
  all_goals first
    | exact ⟨hT, hC, Nat.le_refl _⟩
    | exact ih.recv k _ _ _ _ hT hC (by omega)

theorem t_flood (k : Cls) (st : St) (n i : Nat) (f : Frame) (ports : List Nat) (hT : T c st) (hC : ClsOk c k f)
    (hb : 4 * tt f + Hc k + 5 ≤ fuel + 1) :
    T c (floodPorts (fuel + 1) st n i f ports).1 ∧ ClsOk c k (floodPorts (fuel + 1) st n i f ports).2 ∧
      tt (floodPorts (fuel + 1) st n i f ports).2 ≤ tt f := by
  simp only [floodPorts]
  suffices h : ∀ (st : St) (g : Frame), T c st → ClsOk c k g → tt g ≤ tt f →
      T c (ports.foldl (fun (acc : St × Frame) p =>
        match acc.1.iface? n p with
        | some pif => if pif.enabled && p != i then sendFrame fuel acc.1 n p acc.2 else acc
        | none => acc) (st, g)).1 ∧
      ClsOk c k (ports.foldl (fun (acc : St × Frame) p =>
        match acc.1.iface? n p with
        | some pif => if pif.enabled && p != i then sendFrame fuel acc.1 n p acc.2 else acc
        | none => acc) (st, g)).2 ∧
      tt (ports.foldl (fun (acc : St × Frame) p =>
        match acc.1.iface? n p with
        | some pif => if pif.enabled && p != i then sendFrame fuel acc.1 n p acc.2 else acc
        | none => acc) (st, g)).2 ≤ tt f from h st f hT hC (Nat.le_refl _)
  induction ports with
  | nil => intro st g h1 h2 h3; exact ⟨h1, h2, h3⟩
  | cons p ps ihp =>
    intro st g h1 h2 h3
    simp only [List.foldl_cons]
    split
    · split
      · have hr := ih.send k st n p g h1 h2 (by omega)
        generalize sendFrame fuel st n p g = r at hr ⊢
        obtain ⟨st', g'⟩ := r
        exact ihp st' g' hr.1 hr.2.1 (Nat.le_trans hr.2.2 h3)
      · exact ihp st g h1 h2 h3
    · exact ihp st g h1 h2 h3

theorem t_sw (k : Cls) (st : St) (n i : Nat) (f : Frame) (hT : T c st) (hC : ClsOk c k f) (hb : 4 * tt f + Hc k + 6 ≤ fuel + 1) :
    T c (switchRecv (fuel + 1) st n i f).1 ∧ ClsOk c k (switchRecv (fuel + 1) st n i f).2 ∧
      tt (switchRecv (fuel + 1) st n i f).2 ≤ tt f := by
  simp only [switchRecv]
  have hT' := hT.learnMac n i f.srcMac
  repeat' split
  all_goals first
    | exact ⟨hT', hC, Nat.le_refl _⟩
    | exact ih.send k _ _ _ _ hT' hC (by omega)
    | exact ih.flood k _ _ _ _ _ hT' hC (by omega)

theorem t_recv (k : Cls) (st : St) (n i : Nat) (f : Frame) (hT : T c st) (hC : ClsOk c k f) (hb : 4 * tt f + Hc k + 3 ≤ fuel + 1) :
    T c (ifaceRecv (fuel + 1) st n i f).1 ∧ ClsOk c k (ifaceRecv (fuel + 1) st n i f).2 ∧
      tt (ifaceRecv (fuel + 1) st n i f).2 ≤ tt f := by
  simp only [ifaceRecv]
  split
  · rename_i nd ifc hn hi
    have hT' := hT.emit (.rx n i f.id f.ttl)
    split
    · exact ⟨hT', hC.dec, tt_dec_le f⟩
    · rename_i httl
      have h1 := tt_dec f httl
      split
      · rename_i hk
        split
        · have hr := ih.host k _ n i f.dec hT' hC.dec (isHost_of hT.cfg hn hk) (by omega)
          rw [hr.2]
          exact ⟨hr.1, hC.dec, tt_dec_le f⟩
        · exact ⟨hT', hC.dec, tt_dec_le f⟩
      · rename_i hk
        split
        · rename_i hacc
          have hr := ih.router k _ n i f.dec hT' hC.dec (isRouter_of hT.cfg hn hk)
            (by intro ifc' hi'; rw [iface?_emit, hi] at hi'; cases hi'; exact hacc) (by omega)
          exact ⟨hr.1, hr.2.1, Nat.le_trans hr.2.2 (tt_dec_le f)⟩
        · exact ⟨hT', hC.dec, tt_dec_le f⟩
      · have hr := ih.sw k _ n i f.dec hT' hC.dec (by omega)
        exact ⟨hr.1, hr.2.1, Nat.le_trans hr.2.2 (tt_dec_le f)⟩
  · exact ⟨hT, hC, Nat.le_refl _⟩

theorem t_outC (st : St) (n : Nat) (dst : Ip) (hT : T c st) (hc : CheapOut c n dst) :
    T c (resolveOut (fuel + 1) st n dst).1 := by
  simp only [resolveOut]
  split
  · exact hT
  · rename_i nd hn
    have hcn := hc nd.cfg (node?_cfg hT.cfg hn)
    split
    · exact hT
    · split
      · rename_i hk
        split
        · rename_i g hgw
          split
          · exact hT
          · rename_i hne
            exfalso
            rcases hcn with h | h | h | h
            · have : nd.kind = .router := h
              rw [hk] at this; cases this
            · have : nd.kind = .switch := h
              rw [hk] at this; cases this
            · have : nd.gateway = none := h
              rw [hgw] at this; cases this
            · have : nd.gateway = some dst := h
              rw [hgw] at this
              simp only [Option.some.injEq] at this
              exact hne (by simp [this])
        · exact hT
      · split <;> exact hT
      · exact hT

theorem t_out (st : St) (n : Nat) (dst : Ip) (hT : T c st) (hb : RO ≤ fuel + 1) : T c (resolveOut (fuel + 1) st n dst).1 := by
  simp only [resolveOut]
  split
  · exact hT
  · rename_i nd hn
    split
    · exact hT
    · split
      · rename_i hk
        split
        · rename_i g hgw
          split
          · exact hT
          · split
            · refine ih.ifc1 st n g false false hT ?_ (by bud)
              intro nc hnc
              rw [node?_cfg hT.cfg hn] at hnc
              cases hnc
              exact Or.inl ⟨hk, hgw⟩
            · exact hT
        · exact hT
      · split <;> exact hT
      · exact hT

theorem t_arpPktC (k : Cls) (st : St) (n : Nat) (pl : Pl) (dstIp : Ip) (hT : T c st) (hP : PktOk c k pl dstIp)
    (hc : ∀ t, targetOf pl = some t → CheapOut c n t) (hb : Sc k + 1 ≤ fuel + 1) : T c (sendArpPkt (fuel + 1) st n pl dstIp) := by
  simp only [sendArpPkt]
  split
  · exact hT
  · rename_i t ht
    have h1 := ih.outC st n t hT (hc t ht) (by have := hc_pos k; unfold Sc at hb; omega)
    split
    · exact h1
    · split
      · exact h1
      · exact (ih.send k _ _ _ _ (h1.nextId _) (hP _ _ _) (by unfold Sc at hb; simp only [tt, initTtl]; omega)).1

theorem t_arpPkt (k : Cls) (st : St) (n : Nat) (pl : Pl) (dstIp : Ip) (hT : T c st) (hP : PktOk c k pl dstIp)
    (hb1 : RO + 1 ≤ fuel + 1) (hb : Sc k + 1 ≤ fuel + 1) : T c (sendArpPkt (fuel + 1) st n pl dstIp) := by
  simp only [sendArpPkt]
  split
  · exact hT
  · rename_i t ht
    have h1 := ih.out st n t hT (by omega)
    split
    · exact h1
    · split
      · exact h1
      · exact (ih.send k _ _ _ _ (h1.nextId _) (hP _ _ _) (by unfold Sc at hb; simp only [tt, initTtl]; omega)).1

theorem t_arpReplyC (st : St) (n : Nat) (pl : Pl) (hT : T c st)
    (hP : ∀ t, targetOf pl = some t → PktOk c .p pl t ∧ CheapOut c n t) (hb : Sc .p + 2 ≤ fuel + 1) :
    T c (sendArpReply (fuel + 1) st n pl) := by
  simp only [sendArpReply]
  split
  · exact hT
  · rename_i t ht
    have h1 := ih.outC st n t hT (hP t ht).2 (by bud)
    split
    · exact h1
    · refine ih.arpPktC .p _ n pl t h1 (hP t ht).1 ?_ (by bud)
      intro t' ht'
      rw [ht] at ht'; cases ht'
      exact (hP t ht).2

theorem t_arpReply (st : St) (n : Nat) (pl : Pl) (hT : T c st)
    (hP : ∀ t, targetOf pl = some t → PktOk c .p pl t) (hb : RO + 2 ≤ fuel + 1) : T c (sendArpReply (fuel + 1) st n pl) := by
  simp only [sendArpReply]
  split
  · exact hT
  · rename_i t ht
    have h1 := ih.out st n t hT (by omega)
    split
    · exact h1
    · exact ih.arpPkt .p _ n pl t h1 (hP t ht) (by omega) (by bud)

theorem t_req1 (st : St) (n : Nat) (t : Ip) (hT : T c st) (ho : OwnHopAt c n t) (hb : RQ1 ≤ fuel + 1) :
    T c (sendArpReq (fuel + 1) st n t) := by
  simp only [sendArpReq]
  split
  · exact hT
  · rename_i nd hn
    have hnc := node?_cfg hT.cfg hn
    have hown := ho nd.cfg hnc
    split
    · exact hT
    · split
      · exact hT
      · rename_i target htg
        -- the address actually asked for is an own next hop, and resolving the outbound interface for it is cheap
        have htarget : OwnHop nd.cfg target := by
          split at htg
          · simp only [Option.some.injEq] at htg; rw [← htg]; exact hown
          · rcases hown with ⟨hk, hgw⟩ | ⟨hk, _⟩
            · have hgw' : nd.gateway = some t := hgw
              rw [hgw'] at htg
              simp only [Option.some.injEq] at htg
              rw [← htg]; exact Or.inl ⟨hk, hgw⟩
            · exact Or.inr ⟨hk, Or.inl htg⟩
        have hcheap : CheapOut c n target := by
          intro nc hnc'
          rw [hnc] at hnc'; cases hnc'
          rcases htarget with ⟨_, hgw⟩ | ⟨hk, _⟩
          · exact Or.inr (Or.inr (Or.inr hgw))
          · exact Or.inl hk
        have h1 := ih.outC st n target hT hcheap (by omega)
        split
        · exact h1
        · split
          · exact h1
          · rename_i o _ oif ho'
            split
            · exact h1
            · refine ih.arpPktC .q1 _ n _ target h1 ?_ ?_ (by bud)
              · intro id sm si
                exact ⟨⟨oif.ip, oif.mac, rfl, genuine_of_iface h1.cfg ho'⟩, rfl, ownHop_nh hnc htarget⟩
              · intro t' ht'
                simp only [targetOf, Option.some.injEq] at ht'
                rw [← ht']; exact hcheap

theorem t_req (st : St) (n : Nat) (t : Ip) (hT : T c st) (hb : RQ0 ≤ fuel + 1) : T c (sendArpReq (fuel + 1) st n t) := by
  simp only [sendArpReq]
  split
  · exact hT
  · split
    · exact hT
    · split
      · exact hT
      · rename_i target htg
        have h1 := ih.out st n target hT (by omega)
        split
        · exact h1
        · split
          · exact h1
          · rename_i o _ oif ho'
            split
            · exact h1
            · refine ih.arpPkt .q0 _ n _ target h1 ?_ (by omega) (by bud)
              intro id sm si
              exact ⟨⟨oif.ip, oif.mac, rfl, genuine_of_iface h1.cfg ho'⟩, rfl⟩

theorem t_ifc1 (st : St) (n : Nat) (ip : Ip) (re gw : Bool) (hT : T c st) (ho : OwnHopAt c n ip)
    (hb : RQ1 + 1 + flagRank re gw ≤ fuel + 1) : T c (arpIfc (fuel + 1) st n ip re gw).1 := by
  simp only [arpIfc]
  split
  · exact hT
  · rename_i nd hn
    have hnc := node?_cfg hT.cfg hn
    split
    · exact hT
    · split
      · exact hT
      · split
        · exact hT
        · exact hT.emit _
        · rename_i t re' gw' hnext
          have hrank := arpNext_rank nd ip t re gw false re' gw' hnext
          have hown : OwnHopAt c n t := by
            intro nc hnc'
            rw [hnc] at hnc'; cases hnc'
            exact arpNext_ownHop nd ip t re gw false re' gw' (ho nd.cfg hnc) hnext
          have h1 := ih.req1 st n t hT hown (by omega)
          exact ih.ifc1 _ n t re' gw' h1 hown (by omega)

theorem t_ifc (st : St) (n : Nat) (ip : Ip) (re gw : Bool) (hT : T c st)
    (hb : RQ0 + 1 + flagRank re gw ≤ fuel + 1) : T c (arpIfc (fuel + 1) st n ip re gw).1 := by
  simp only [arpIfc]
  split
  · exact hT
  · rename_i nd hn
    split
    · exact hT
    · split
      · exact hT
      · split
        · exact hT
        · exact hT.emit _
        · rename_i t re' gw' hnext
          have hrank := arpNext_rank nd ip t re gw false re' gw' hnext
          have h1 := ih.req st n t hT (by omega)
          exact ih.ifc _ n t re' gw' h1 (by omega)

theorem t_mac (st : St) (n : Nat) (ip : Ip) (re gw : Bool) (hT : T c st)
    (hb : RQ0 + 1 + flagRank re gw ≤ fuel + 1) : T c (arpMac (fuel + 1) st n ip re gw).1 := by
  simp only [arpMac]
  split
  · exact hT
  · rename_i nd hn
    split
    · exact hT
    · split
      · exact hT
      · exact hT.emit _
      · rename_i t re' gw' hnext
        have hrank := arpNext_rank nd ip t re gw true re' gw' hnext
        have h1 := ih.req st n t hT (by omega)
        exact ih.mac _ n t re' gw' h1 (by omega)

theorem t_icmp (k : Cls) (st : St) (n : Nat) (dst : Ip) (pl : Pl) (hT : T c st) (hP : PlCls k pl) (hb : Sc k + 1 ≤ fuel + 1) :
    T c (sendIcmp (fuel + 1) st n dst pl) := by
  simp only [sendIcmp]
  have hd := ih.details st n dst hT (by rcases hP.re with rfl | rfl <;> bud)
  split
  · split
    · exact hd
    · exact (ih.send k _ _ _ _ (hd.nextId _) (hP.ok _ rfl) (by unfold Sc at hb; simp only [tt, initTtl]; omega)).1
  · exact hd

theorem t_details (st : St) (n : Nat) (dst : Ip) (hT : T c st) (hb : RD ≤ fuel + 1) :
    T c (resolveDetails (fuel + 1) st n dst).1 := by
  have hl : RQ0 + 1 + flagRank false false ≤ fuel := by have : flagRank false false = 3 := rfl; omega
  simp only [resolveDetails]
  split
  · exact hT
  · rename_i nd hn
    cases hfe : firstEnabledIn nd.ifaces dst 0 with
    | none =>
      simp only []
      repeat' split
      all_goals first
        | exact hT
        | exact hT.emit _
        | exact ih.mac _ _ _ _ _ hT hl
        | exact ih.ifc _ _ _ _ _ (ih.mac _ _ _ _ _ hT hl) hl
    | some k0 =>
      simp only []
      have hm := ih.mac st n dst false false hT hl
      repeat' split
      all_goals first
        | exact hm
        | exact hm.emit _
        | exact ih.ifc _ _ _ _ _ hm hl
        | exact ih.mac _ _ _ _ _ hm hl
        | exact ih.ifc _ _ _ _ _ (ih.mac _ _ _ _ _ hm hl) hl

theorem send_stamp (k : Cls) (X : St) (n o : Nat) (f : Frame) (a b : Mac) (hX : T c X) (hC : ClsOk c k f)
    (hre : k = .r ∨ k = .e) (httl : ¬ f.dec.ttl < 1) (hb : 4 * tt f + Hc k ≤ fuel) :
    T c (sendFrame fuel X n o (f.dec.stamp a b)).1 ∧ ClsOk c k (sendFrame fuel X n o (f.dec.stamp a b)).2 ∧
      tt (sendFrame fuel X n o (f.dec.stamp a b)).2 ≤ tt f := by
  have ht := tt_dec f httl
  have hr := ih.send k X n o (f.dec.stamp a b) hX ((hC.dec).stamp hre a b) (by rw [tt_stamp]; omega)
  exact ⟨hr.1, hr.2.1, by have := hr.2.2; rw [tt_stamp] at this; omega⟩

theorem t_process (k : Cls) (st : St) (n i : Nat) (f : Frame) (hT : T c st) (hC : ClsOk c k f)
    (hk : f.dstMac = bcastMac ∨ k = .r ∨ k = .e) (hb : 4 * tt f + Hc k + 5 ≤ fuel + 1) :
    T c (routerProcess (fuel + 1) st n i f).1 ∧ ClsOk c k (routerProcess (fuel + 1) st n i f).2 ∧
      tt (routerProcess (fuel + 1) st n i f).2 ≤ tt f := by
  simp only [routerProcess]
  split
  · exact ⟨hT, hC, Nat.le_refl _⟩
  · rename_i hnb
    have hre : k = .r ∨ k = .e := by
      rcases hk with h | h
      · exact absurd (by simp [h]) hnb
      · exact h
    have hH : LK ≤ Hc k := by rcases hre with rfl | rfl <;> simp [Hc]
    have hl : RQ0 + 1 + flagRank false false ≤ fuel := by have : flagRank false false = 3 := rfl; omega
    have h1 := ih.ifc st n f.dstIp false false hT hl
    have h2 := ih.mac _ n f.dstIp false false h1 hl
    split
    · split
      · exact ⟨h2, hC, Nat.le_refl _⟩
      · split
        · exact ⟨h2, hC, Nat.le_refl _⟩
        · split
          · split
            · exact ⟨h2.emit _, hC.dec, tt_dec_le f⟩
            · rename_i httl
              exact send_stamp ih k _ _ _ f _ _ (h2.emit _) hC hre httl (by omega)
          · split
            · exact ⟨h2, hC, Nat.le_refl _⟩
            · split
              · exact ⟨h2.emit _, hC, Nat.le_refl _⟩
              · split
                · exact ⟨h2, hC, Nat.le_refl _⟩
                · rename_i nh _
                  have h3 := ih.ifc _ n nh false false h2 hl
                  have h4 := ih.mac _ n nh false false h3 hl
                  split
                  · exact ⟨h4, hC, Nat.le_refl _⟩
                  · split
                    · exact ⟨h4, hC, Nat.le_refl _⟩
                    · split
                      · exact ⟨h4, hC, Nat.le_refl _⟩
                      · split
                        · exact ⟨h4.emit _, hC.dec, tt_dec_le f⟩
                        · rename_i httl
                          exact send_stamp ih k _ _ _ f _ _ (h4.emit _) hC hre httl (by omega)
    · exact ⟨h2, hC, Nat.le_refl _⟩

include hg in
theorem t_host (k : Cls) (st : St) (n i : Nat) (f : Frame) (hT : T c st) (hC : ClsOk c k f) (hH : IsHost c n)
    (hb : Hc k ≤ fuel + 1) : T c (hostRecv (fuel + 1) st n i f).1 ∧ (hostRecv (fuel + 1) st n i f).2 = f := by
  simp only [hostRecv]
  split
  · rename_i nd ifc hn hi
    have hkind : nd.kind = .host := by
      obtain ⟨nc, h1, h2⟩ := hH
      rw [node?_cfg hT.cfg hn] at h1
      cases h1
      exact h2
    generalize hX : St.emit _ (Ev.sw n f.id f.dstIp (f.dstMac == bcastMac)) = X
    have hTX : T c X := by
      subst hX
      split
      · exact (hT.addArp _ _ _ _).emit _
      · exact hT.emit _
    split
    · refine ⟨?_, rfl⟩
      split
      · exact hT.addArp _ _ _ _
      · exact hT
    split
    · rename_i sIp sMac tIp hpl
      obtain ⟨hk', htd, hbc, hgen, hnh⟩ := clsOk_arpReq hpl hC
      split
      · exact ⟨hTX, rfl⟩
      · split
        · exact ⟨hTX, rfl⟩
        · rename_i hne
          have hip : tIp = ifc.ip := by simpa using hne
          rcases hk' with rfl | rfl
          · exfalso
            exact host_not_hop hg hT.cfg hn hi hkind (hip ▸ hnh rfl)
          · refine ⟨ih.arpReply _ n _ hTX ?_ (by bud), rfl⟩
            intro t ht
            simp only [targetOf, Option.some.injEq] at ht
            subst ht
            intro id sm si
            exact ⟨⟨_, _, _, _, rfl⟩, hgen⟩
    · split
      · exact ⟨hTX, rfl⟩
      · exact ⟨hTX.addArp _ _ _ _, rfl⟩
    · rename_i ident hpl
      have hke := clsOk_request (by rw [hpl]; trivial) hC
      subst hke
      split
      · exact ⟨hTX, rfl⟩
      · have h1 := ih.out X n f.srcIp hTX (by bud)
        split
        · exact ⟨h1, rfl⟩
        · exact ⟨ih.icmp .r _ n _ _ h1 (Or.inl ⟨rfl, trivial⟩) (by bud), rfl⟩
    · exact ⟨hTX.mod _ _ (fun _ => rfl), rfl⟩
    · rename_i hpl
      have hke := clsOk_request (by rw [hpl]; trivial) hC
      subst hke
      split
      · exact ⟨ih.icmp .r _ n _ _ hTX (Or.inl ⟨rfl, trivial⟩) (by bud), rfl⟩
      · exact ⟨hTX.emit _, rfl⟩
    · split
      · exact ⟨hTX.emit _, rfl⟩
      · exact ⟨hTX.mod _ _ (fun _ => rfl), rfl⟩
    · rename_i svc reply hpl
      have hke := clsOk_request (by rw [hpl]; trivial) hC
      subst hke
      split
      · split
        · exact ⟨ih.icmp .r _ n _ _ (hTX.mod _ _ (fun _ => rfl)) (Or.inl ⟨rfl, trivial⟩) (by bud), rfl⟩
        · exact ⟨hTX.mod _ _ (fun _ => rfl), rfl⟩
      · exact ⟨hTX, rfl⟩
    · exact ⟨hTX.mod _ _ (fun _ => rfl), rfl⟩
  · exact ⟨hT, rfl⟩

include hg in
theorem t_router (k : Cls) (st : St) (n i : Nat) (f : Frame) (hT : T c st) (hC : ClsOk c k f) (hR : IsRouter c n)
    (hacc : ∀ ifc, st.iface? n i = some ifc → routerAccepts ifc f = true) (hb : 4 * tt f + Hc k + 6 ≤ fuel + 1) :
    T c (routerRecv (fuel + 1) st n i f).1 ∧ ClsOk c k (routerRecv (fuel + 1) st n i f).2 ∧
      tt (routerRecv (fuel + 1) st n i f).2 ≤ tt f := by
  simp only [routerRecv]
  split
  · rename_i nd ifc hn hi
    have hcheap : ∀ t, CheapOut c n t := by
      intro t nc hnc
      obtain ⟨nc', h1, h2⟩ := hR
      rw [h1] at hnc; cases hnc
      exact Or.inl h2
    split
    · exact ⟨hT, hC, Nat.le_refl _⟩
    · split
      · exact ⟨hT, hC, Nat.le_refl _⟩
      · have hT1 := hT.addArp n i f.srcIp f.srcMac
        split
        · -- an own address: `check_send_frame_to_session_manager`
          rename_i own hown
          split
          · exact ⟨hT1, hC, Nat.le_refl _⟩
          · have hT2 := hT1.emit (.sw n f.id f.dstIp (f.dstMac == bcastMac))
            split
            · rename_i sIp sMac tIp hpl
              obtain ⟨hk', htd, hbc, hgen, hnh⟩ := clsOk_arpReq hpl hC
              split
              · refine ⟨ih.arpReplyC _ n _ hT2 ?_ (by rcases hk' with rfl | rfl <;> bud), hC, Nat.le_refl _⟩
                intro t ht
                simp only [targetOf, Option.some.injEq] at ht
                subst ht
                refine ⟨?_, hcheap _⟩
                intro id sm si
                exact ⟨⟨_, _, _, _, rfl⟩, hgen⟩
              · exact ⟨hT2, hC, Nat.le_refl _⟩
            · split
              · exact ⟨hT2.addArp _ _ _ _, hC, Nat.le_refl _⟩
              · exact ⟨hT2, hC, Nat.le_refl _⟩
            · rename_i ident hpl
              have hke := clsOk_request (by rw [hpl]; trivial) hC
              subst hke
              split
              · exact ⟨hT2, hC, Nat.le_refl _⟩
              · have h1 := ih.outC _ n f.srcIp hT2 (hcheap _) (by bud)
                split
                · exact ⟨h1, hC, Nat.le_refl _⟩
                · exact ⟨ih.icmp .r _ n _ _ h1 (Or.inl ⟨rfl, trivial⟩) (by bud), hC, Nat.le_refl _⟩
            · split
              · exact ⟨hT2, hC, Nat.le_refl _⟩
              · exact ⟨hT2.mod _ _ (fun _ => rfl), hC, Nat.le_refl _⟩
            · exact ⟨hT2, hC, Nat.le_refl _⟩
            · exact ⟨hT2, hC, Nat.le_refl _⟩
            · exact ⟨hT2, hC, Nat.le_refl _⟩
            · exact ⟨hT2, hC, Nat.le_refl _⟩
        · -- not an own address: what reaches `process_frame` is a broadcast (dropped there) or a data frame
          rename_i hnone
          have hpre : f.dstMac = bcastMac ∨ k = .r ∨ k = .e := by
            cases k
            · have ha := hacc ifc hi
              unfold routerAccepts at ha
              simp only [Bool.or_eq_true, beq_iff_eq] at ha
              rcases ha with ha | ha
              · exfalso
                have := genuine_own hg hT.cfg hn hi (ip := f.dstIp) (ha ▸ hC.2)
                rw [hnone] at this
                cases this
              · exact Or.inl ha
            · exact Or.inl hC.2.1
            · exact Or.inl hC.2
            · exact Or.inr (Or.inl rfl)
            · exact Or.inr (Or.inr rfl)
          split
          · exact ih.process k _ n i f hT1 hC hpre (by omega)
          · rename_i acl _
            split
            · split
              · exact ⟨hT1, hC, Nat.le_refl _⟩
              · rename_i hnb
                have hre : k = .r ∨ k = .e := by
                  rcases hpre with h | h
                  · exact absurd (by simp [h]) hnb
                  · exact h
                have hH : LK ≤ Hc k := by rcases hre with rfl | rfl <;> simp [Hc]
                have hl : RQ0 + 1 + flagRank false false ≤ fuel := by have : flagRank false false = 3 := rfl; omega
                have h1 := ih.ifc _ n f.dstIp false false hT1 hl
                have hr2 : ∀ r2 : St × Option Nat, T c r2.1 →
                    T c (match r2.2.bind dmzSecondList with
                      | some l => if fwPermits acl l f.pl then routerProcess fuel r2.1 n i f else (r2.1, f)
                      | none => (r2.1, f)).1 ∧
                    ClsOk c k (match r2.2.bind dmzSecondList with
                      | some l => if fwPermits acl l f.pl then routerProcess fuel r2.1 n i f else (r2.1, f)
                      | none => (r2.1, f)).2 ∧
                    tt (match r2.2.bind dmzSecondList with
                      | some l => if fwPermits acl l f.pl then routerProcess fuel r2.1 n i f else (r2.1, f)
                      | none => (r2.1, f)).2 ≤ tt f := by
                  intro r2 hr
                  split
                  · split
                    · exact ih.process k _ n i f hr hC hpre (by omega)
                    · exact ⟨hr, hC, Nat.le_refl _⟩
                  · exact ⟨hr, hC, Nat.le_refl _⟩
                apply hr2
                split
                · exact h1
                · split
                  · exact h1.emit _
                  · split
                    · exact ih.ifc _ _ _ _ _ h1 hl
                    · exact h1
            · split
              · exact ih.process k _ n i f hT1 hC hpre (by omega)
              · exact ⟨hT1, hC, Nat.le_refl _⟩
  · exact ⟨hT, hC, Nat.le_refl _⟩

end succ

theorem tAt_succ {c : List NodeCfg} (hg : GoodCfg c) (fuel : Nat) (ih : TAt c fuel) : TAt c (fuel + 1) :=
  ⟨t_send ih, t_recv ih, t_sw ih, t_flood ih, t_host hg ih, t_router hg ih, t_process ih, t_arpReplyC ih, t_arpReply ih,
    t_arpPktC ih, t_arpPkt ih, t_icmp ih, t_details ih, fun st n dst hT hc _ => t_outC ih st n dst hT hc, t_out ih, t_mac ih, t_ifc ih,
    t_ifc1 ih, t_req1 ih, t_req ih⟩

theorem tAt {c : List NodeCfg} (hg : GoodCfg c) (fuel : Nat) : TAt c fuel := by
  induction fuel with
  | zero => exact tAt_zero c
  | succ k ih => exact tAt_succ hg k ih

/-! ### the theorems: no function of the interpreter runs out of fuel -/

/-- any frame of one of the five classes, handed to any interface of any network with a good configuration, in any state
(caches, tables, power, log): with `4·TTL + 1066` levels of nesting the whole cascade it starts — floods, hops, every ARP
exchange and look-up, the answer of the addressee and the cascades of those frames — ends. -/
theorem C08_frame_handling_terminates {c : List NodeCfg} (hg : GoodCfg c) (k : Cls) (st : St) (n i : Nat) (f : Frame)
    (hc : cfgOf st = c) (hok : st.oof = false) (hC : ClsOk c k f) (fuel : Nat) (hb : 4 * tt f + 1066 ≤ fuel) :
    (sendFrame fuel st n i f).1.oof = false :=
  ((tAt hg fuel).send k st n i f ⟨hc, hok⟩ hC (by cases k <;> simp only [Hc] <;> omega)).1.ok

theorem T_ping {c : List NodeCfg} (hg : GoodCfg c) (fuel : Nat) (hb : fuelBound ≤ fuel) (st : St) (n : Nat) (target : Ip)
    (pings : Nat) (hT : T c st) : T c (ping fuel st n target pings).1 := by
  have ih := tAt hg fuel
  unfold fuelBound at hb
  unfold ping
  split
  · exact hT
  · split
    · exact hT
    · split
      · exact hT
      · simp only
        have hfold := foldl_inv (fun (acc : St × Bool) => T c acc.1)
          (fun (acc : St × Bool) (_ : Nat) =>
            if !acc.2 then acc else
            match (resolveOut fuel acc.1 n target).2 with
            | none => ((resolveOut fuel acc.1 n target).1, false)
            | some _ => (sendIcmp fuel (resolveOut fuel acc.1 n target).1 n target (.echoReq st.nextId), true))
          (by
            intro a _ ha
            split
            · exact ha
            · split
              · exact ih.out _ _ _ ha (by omega)
              · exact ih.icmp .e _ _ _ _ (ih.out _ _ _ ha (by omega)) (Or.inr ⟨rfl, trivial⟩) (by bud))
          (List.range pings) ({ st with nextId := st.nextId + 1 }, true) (hT.nextId _)
        split
        · exact hfold
        · exact hfold

theorem T_requestService {c : List NodeCfg} (hg : GoodCfg c) (fuel : Nat) (hb : fuelBound ≤ fuel) (st : St) (n : Nat) (server : Ip)
    (hT : T c st) : T c (requestService fuel st n server).1 := by
  have ih := tAt hg fuel
  unfold fuelBound at hb
  have h1 : T c (st.modNode n (fun nd => { nd with served := false })) := hT.mod n _ (fun _ => rfl)
  have h2 := ih.icmp .e _ n server .dataReq h1 (Or.inr ⟨rfl, trivial⟩) (by bud)
  unfold requestService
  simp only
  split
  · exact h1
  · split <;> exact h2

theorem T_requestApp {c : List NodeCfg} (hg : GoodCfg c) (fuel : Nat) (hb : fuelBound ≤ fuel) (st : St) (n : Nat) (server : Ip)
    (svc : Nat) (reply : Bool) (hT : T c st) : T c (requestApp fuel st n server svc reply).1 := by
  have ih := tAt hg fuel
  unfold fuelBound at hb
  have h2 := ih.icmp .e st n server (.appReq svc reply) hT (Or.inr ⟨rfl, trivial⟩) (by bud)
  unfold requestApp
  simp only
  split
  · exact hT
  · split <;> exact h2

/-! ### the configuration check survives interface and power toggles -/

/-- what `GoodCfg` reads of a node: everything but the `enabled` flags, prefix lengths and peers. -/
def NodeCfg.addr (nc : NodeCfg) : Kind × Option Ip × Table × List (Mac × Ip) :=
  (nc.kind, nc.gateway, nc.routes, nc.ifaces.map (fun a => (a.mac, a.ip)))

theorem addr_iface {nc nc' : NodeCfg} (h : nc.addr = nc'.addr) {i : Nat} {a' : Iface} (ha : nc'.ifaces[i]? = some a') :
    ∃ a, nc.ifaces[i]? = some a ∧ a.mac = a'.mac ∧ a.ip = a'.ip := by
  have hm : (nc.ifaces.map (fun a => (a.mac, a.ip)))[i]? = (nc'.ifaces.map (fun a => (a.mac, a.ip)))[i]? := by
    have := congrArg (fun x => x.2.2.2) h
    simp only [NodeCfg.addr] at this
    rw [this]
  simp only [List.getElem?_map, ha, Option.map_some] at hm
  cases hx : nc.ifaces[i]? with
  | none => rw [hx] at hm; cases hm
  | some a =>
    rw [hx] at hm
    simp only [Option.map_some, Option.some.injEq, Prod.mk.injEq] at hm
    exact ⟨a, rfl, hm.1, hm.2⟩

theorem addr_hop {nc nc' : NodeCfg} (h : nc.addr = nc'.addr) {t : Ip} (ht : IsNextHop nc' t) : IsNextHop nc t := by
  have h1 : nc.gateway = nc'.gateway := congrArg (fun x => x.2.1) h
  have h2 : nc.routes = nc'.routes := congrArg (fun x => x.2.2.1) h
  unfold IsNextHop at *
  rw [h1, h2]; exact ht

theorem goodCfg_congr {c c' : List NodeCfg}
    (h : ∀ (n : Nat) (nc' : NodeCfg), c'[n]? = some nc' → ∃ nc : NodeCfg, c[n]? = some nc ∧ nc.addr = nc'.addr)
    (hg : GoodCfg c) : GoodCfg c' := by
  constructor
  · intro n m i j nc' mc' a' b' hn ha hm hb hab
    obtain ⟨nc, hn1, hn2⟩ := h n nc' hn
    obtain ⟨mc, hm1, hm2⟩ := h m mc' hm
    obtain ⟨a, ha1, ha2, _⟩ := addr_iface hn2 ha
    obtain ⟨b, hb1, hb2, _⟩ := addr_iface hm2 hb
    exact hg.uniqueMacs n m i j nc mc a b hn1 ha1 hm1 hb1 (by rw [ha2, hb2]; exact hab)
  · intro n i nc' a' hn ha
    obtain ⟨nc, hn1, hn2⟩ := h n nc' hn
    obtain ⟨a, ha1, ha2, _⟩ := addr_iface hn2 ha
    rw [← ha2]
    exact hg.realMacs n i nc a hn1 ha1
  · intro n nc' t hn ht m j mc' b' hm hb hbt
    obtain ⟨nc, hn1, hn2⟩ := h n nc' hn
    obtain ⟨mc, hm1, hm2⟩ := h m mc' hm
    obtain ⟨b, hb1, _, hb3⟩ := addr_iface hm2 hb
    have hk : mc.kind = mc'.kind := congrArg (fun x => x.1) hm2
    rw [← hk]
    exact hg.hopsAreRouters n nc t hn1 (addr_hop hn2 ht) m j mc b hm1 hb1 (by rw [hb3]; exact hbt)

/-- a change of one node that leaves its addresses alone keeps the configuration good. -/
theorem goodCfg_modNode (st : St) (n : Nat) (f : Node → Node) (hf : ∀ nd, (f nd).cfg.addr = nd.cfg.addr)
    (hg : GoodCfg (cfgOf st)) : GoodCfg (cfgOf (st.modNode n f)) := by
  refine goodCfg_congr ?_ hg
  intro k nc' hk
  unfold cfgOf St.modNode at hk
  simp only [List.getElem?_map, List.getElem?_modify] at hk
  unfold cfgOf
  simp only [List.getElem?_map]
  cases hx : st.nodes[k]? with
  | none => rw [hx] at hk; simp at hk
  | some nd =>
    rw [hx] at hk
    refine ⟨nd.cfg, rfl, ?_⟩
    split at hk
    · have hk' : (f nd).cfg = nc' := by simpa using hk
      rw [← hk']; exact (hf nd).symm
    · have hk' : nd.cfg = nc' := by simpa using hk
      rw [← hk']

theorem ifaces_modify_addr (l : List Iface) (i : Nat) (b : Bool) :
    (l.modify i (fun x => { x with enabled := b })).map (fun a => (a.mac, a.ip)) = l.map (fun a => (a.mac, a.ip)) := by
  apply List.ext_getElem?
  intro k
  simp only [List.getElem?_map, List.getElem?_modify]
  split
  · cases l[k]? <;> rfl
  · cases l[k]? <;> rfl

/-! ### the theorem for whole runs -/

/-- what a run keeps: the configuration passes the check and the interpreter has never run out of fuel. -/
def Live (st : St) : Prop := GoodCfg (cfgOf st) ∧ st.oof = false

theorem live_enableIface (fuel : Nat) (hb : fuelBound ≤ fuel) (st : St) (n i : Nat) (h : Live st) :
    Live (enableIface fuel st n i) := by
  unfold fuelBound at hb
  rw [enableIface_eq]
  split
  · rename_i nd ifc hn hi
    have hX : Live (enableSt st n i nd ifc) := by
      unfold enableSt
      split
      · exact ⟨goodCfg_modNode st n _ (fun nd => by
          simp only [Node.cfg, NodeCfg.addr, ifaces_modify_addr]) h.1, h.2⟩
      · exact h
    generalize enableSt st n i nd ifc = X at hX
    unfold helloGw
    split
    · rename_i g _ _
      split
      · have := (tAt hX.1 fuel).mac X n g false false ⟨rfl, hX.2⟩ (by have : flagRank false false = 3 := rfl; omega)
        exact ⟨this.cfg ▸ hX.1, this.ok⟩
      · exact hX
    · exact hX
  · exact h

theorem live_runOp (fuel : Nat) (hb : fuelBound ≤ fuel) (st : St) (op : NetOp) (h : Live st) : Live (runOp fuel st op).1 := by
  cases op with
  | ping n dst k =>
    have := T_ping h.1 fuel hb st n dst k ⟨rfl, h.2⟩
    exact ⟨this.cfg ▸ h.1, this.ok⟩
  | service n srv =>
    have := T_requestService h.1 fuel hb st n srv ⟨rfl, h.2⟩
    exact ⟨this.cfg ▸ h.1, this.ok⟩
  | enable n i => exact live_enableIface fuel hb st n i h
  | disable n i =>
    exact ⟨goodCfg_modNode st n _ (fun nd => by simp only [Node.cfg, NodeCfg.addr, ifaces_modify_addr]) h.1, h.2⟩
  | arpclear n => exact ⟨goodCfg_modNode st n _ (fun nd => rfl) h.1, h.2⟩
  | app n srv svc reply =>
    have := T_requestApp h.1 fuel hb st n srv svc reply ⟨rfl, h.2⟩
    exact ⟨this.cfg ▸ h.1, this.ok⟩
  | power n on =>
    cases on
    · refine ⟨goodCfg_modNode st n _ (fun nd => ?_) h.1, h.2⟩
      simp only [Node.cfg, NodeCfg.addr, List.map_map]
      rfl
    · simp only [runOp, powerOn]
      split
      · exact h
      · refine foldl_inv Live (fun acc i => enableIface fuel acc n i) (fun a x ha => live_enableIface fuel hb a n x ha) _ _ ?_
        exact ⟨goodCfg_modNode st n _ (fun nd => rfl) h.1, h.2⟩

/-- a run: the operations one after the other, each with nesting budget `fuel`; the results in order. -/
def runOps (fuel : Nat) : St → List NetOp → St × List Bool
  | st, [] => (st, [])
  | st, op :: ops =>
    let r := runOp fuel st op
    let rs := runOps fuel r.1 ops
    (rs.1, r.2 :: rs.2)

/-- **"Handling any packet always terminates"** — for whole runs, with an a-priori bound.
From any state whose configuration passes the check (`GoodCfg`: unique, real MACs; gateways and route next hops are addresses
that only routers carry — decidable, `goodCfgB`) and that has not run out of fuel, ANY sequence of operations (pings of any
count to any address, service requests, interface enable / disable, power off / on, cache clears) executed with ANY nesting
budget `fuel ≥ fuelBound = 1323` (a constant: it depends only on the initial TTL 64, not even on the size of the topology)
  * never runs out of fuel — every cascade of floods, hops, ARP look-ups, requests, replies and answers ends, whatever the
    caches and tables contain, and
  * computes exactly what it computes with budget `fuelBound`: results, final state, the whole log (fuel independence). -/
theorem C08_handling_terminates (st : St) (h : Live st) (ops : List NetOp) (fuel : Nat) (hb : fuelBound ≤ fuel) :
    Live (runOps fuel st ops).1 ∧ runOps fuel st ops = runOps fuelBound st ops := by
  induction ops generalizing st with
  | nil => exact ⟨h, rfl⟩
  | cons op ops ihops =>
    simp only [runOps]
    have h1 := live_runOp fuelBound (Nat.le_refl _) st op h
    have heq : runOp fuel st op = runOp fuelBound st op := by
      obtain ⟨k, rfl⟩ := Nat.exists_eq_add_of_le hb
      exact C08_fuel_independent fuelBound st op h1.2 k
    rw [heq]
    have h2 := ihops (runOp fuelBound st op).1 h1
    exact ⟨h2.1, by rw [h2.2]⟩

/-- the same for one operation, spelled out. -/
theorem C08_operation_terminates (st : St) (hg : GoodCfg (cfgOf st)) (hok : st.oof = false) (op : NetOp) (fuel : Nat)
    (hb : fuelBound ≤ fuel) : (runOp fuel st op).1.oof = false ∧ runOp fuel st op = runOp fuelBound st op := by
  have h1 := live_runOp fuelBound (Nat.le_refl _) st op ⟨hg, hok⟩
  obtain ⟨k, rfl⟩ := Nat.exists_eq_add_of_le hb
  have := C08_fuel_independent fuelBound st op h1.2 k
  exact ⟨by rw [this]; exact h1.2, this⟩

/-- END-TO-END for checked start states (what the driver evaluates on every generated topology). -/
theorem C08_handling_terminates_checked (st : St) (hchk : goodCfgB (cfgOf st) = true) (hok : st.oof = false)
    (ops : List NetOp) (fuel : Nat) (hb : fuelBound ≤ fuel) :
    (runOps fuel st ops).1.oof = false ∧ runOps fuel st ops = runOps fuelBound st ops :=
  let h := C08_handling_terminates st ⟨goodCfg_of_check _ hchk, hok⟩ ops fuel hb
  ⟨h.1.2, h.2⟩

/-! ### Gen obligations: what the ranking argument rests on, regenerated from the source on every run -/

theorem C08_gen_termination :
    Gen.Forward.dmzOutboundDropsBroadcastFirst = true ∧ Gen.Forward.routerResolvesOutboundWithoutArp = true ∧
    Gen.Forward.repliesStartNothing = true ∧ Gen.Forward.arpPairsGenuine = true ∧ Gen.Forward.gatewayNotViaGateway = true ∧
    Gen.Forward.processDropsBroadcast = true ∧ Gen.Forward.defaultTtl = initTtl ∧ 4 * initTtl.toNat + 1066 ≤ fuelBound := by decide

/-! ### non-vacuity -/

/-- the routed network of `C08Addressee.lean` (host — router — host, cold caches) satisfies the hypothesis … -/
example : Live exNet := ⟨goodCfg_of_check _ (by decide), rfl⟩
/-- … and a run on it at exactly `fuelBound` does real work: cold routed ping (two ARP cascades), a ping while the router is
off, power on again (hello to nobody), a ping to an absent address, a service request to a host without the server. -/
example : (runOps fuelBound exNet [.ping 0 0xC0A80202#32 2, .power 1 false, .ping 0 0xC0A80202#32 1, .power 1 true,
    .ping 2 0xC0A80102#32 1, .ping 0 0xC0A80263#32 1, .arpclear 0, .disable 2 0, .ping 0 0xC0A80202#32 1, .enable 2 0,
    .ping 0 0xC0A80202#32 1]).2 = [true, true, false, true, true, false, true, true, false, true, true] := by decide +kernel
example : (runOps fuelBound exNet [.ping 0 0xC0A80202#32 2]).1.oof = false := by decide +kernel
/-- application exchanges across the router: answered when the server runs the service, its port is open on both hosts and the
router permits it; not answered when the router has no rule for it; ignored (no hand-over) when the port is closed. -/
def exApp (routerPermits : Bool) (clientPort : Bool) : St :=
  { exNet with nodes := exNet.nodes.zipIdx.map (fun (nd, k) =>
      if k == 2 then { nd with serves := [53], ports := [53] }
      else if k == 1 then { nd with serves := if routerPermits then [53] else [] }
      else { nd with ports := if clientPort then [53] else [] }) }
example : (runOps fuelBound (exApp true true) [.app 0 0xC0A80202#32 53 true, .app 0 0xC0A80202#32 53 false, .app 0 0xC0A80202#32 80 true]).2 =
    [true, false, false] := by decide +kernel
example : (runOps fuelBound (exApp false true) [.app 0 0xC0A80202#32 53 true]).2 = [false] := by decide +kernel
example : (runOps fuelBound (exApp true false) [.app 0 0xC0A80202#32 53 true]).2 = [false] := by decide +kernel

/-- every class is inhabited: frames the interpreter builds on `exNet`. -/
def exP : Frame :=
  { id := 0, srcMac := 2, dstMac := 1, srcIp := 0xC0A80101#32, dstIp := 0xC0A80102#32, ttl := 64,
    pl := .arpRep 0xC0A80101#32 2 0xC0A80102#32 1 }
def exQ1 : Frame :=
  { id := 0, srcMac := 1, dstMac := bcastMac, srcIp := 0xC0A80102#32, dstIp := 0xC0A80101#32, ttl := 64,
    pl := .arpReq 0xC0A80102#32 1 0xC0A80101#32 }
def exE : Frame :=
  { id := 0, srcMac := 1, dstMac := 2, srcIp := 0xC0A80102#32, dstIp := 0xC0A80202#32, ttl := 64, pl := .echoReq 7 }
example : ClsOk (cfgOf exNet) .p exP := ⟨⟨_, _, _, _, rfl⟩, 0, 0, _, _, rfl, rfl, rfl, rfl⟩
example : ClsOk (cfgOf exNet) .q1 exQ1 := ⟨⟨_, _, rfl, 0, 0, _, _, rfl, rfl, rfl, rfl⟩, rfl, 0, _, rfl, Or.inl rfl⟩
example : ClsOk (cfgOf exNet) .e exE := trivial

end Primaite.Forward
