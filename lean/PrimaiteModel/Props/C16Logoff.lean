/-
Props.C16Logoff — the client logoff whose message reaches a target whose user-session-manager is not running, at REQUEST level
(the item left open in addendum 4): the target drops its connection object, the session stays listed until its time-out.
-/
import PrimaiteModel.Props.C16Ends
import PrimaiteModel.Props.C16Conn
namespace Primaite.Session

/-- the disconnect chain only shrinks, and it never removes a session of a node whose session manager cannot act -/
def KR (y : Nat) (n m : Net) : Prop :=
  n.Shr m ∧ ∀ b, n.node y = some b → b.canUsm = false → ∃ b', m.node y = some b' ∧ b'.rem = b.rem

theorem KR.refl (y : Nat) (n : Net) : KR y n n := ⟨Net.Shr.refl n, fun b hb _ => ⟨b, hb, rfl⟩⟩

theorem KR.trans {y : Nat} {n m k : Net} (h1 : KR y n m) (h2 : KR y m k) : KR y n k := by
  refine ⟨h1.1.trans h2.1, fun b hb hc => ?_⟩
  obtain ⟨b', hb', hr⟩ := h1.2 b hb hc
  obtain ⟨b'', hb'', hs⟩ := h1.1.node y b hb
  rw [hb'] at hb''; cases hb''
  obtain ⟨c, hc', hr'⟩ := h2.2 b' hb' (by rw [hs.canUsm]; exact hc)
  exact ⟨c, hc', hr'.trans hr⟩

theorem kr_upd (y : Nat) (n : Net) (i : Nat) (f : Node → Node) (hf : ∀ a : Node, a.Shr (f a)) (hr : ∀ a : Node, (f a).rem = a.rem) :
    KR y n (n.upd i f) := by
  refine ⟨shr_upd n i f hf, fun b hb _ => ?_⟩
  by_cases hij : i = y
  · subst hij; exact ⟨f b, by simp [hb], hr b⟩
  · exact ⟨b, by simp [hij, hb], rfl⟩

theorem kr_chain (y : Nat) (f : Nat) : ∀ (h : Hop) (n : Net) (i cid : Nat), KR y n (chain f h n i cid) := by
  induction f with
  | zero => intro h n i cid; unfold chain; exact ⟨shr_stuck n, fun b hb _ => ⟨b, hb, rfl⟩⟩
  | succ f ih =>
    intro h n i cid
    cases h with
    | disconnect =>
      unfold chain
      split
      · exact KR.refl y n
      · split
        · exact KR.refl y n
        · have h1 : KR y n (n.upd i (Node.dropConn cid)) := kr_upd y n i _ (shr_dropConn cid) (fun _ => rfl)
          split
          · exact h1.trans (kr_upd y _ i _ shr_localLogout (fun a => by unfold Node.localLogout; split <;> rfl))
          · split
            · exact h1.trans (ih _ _ _ _)
            · exact h1
    | onDisconnect =>
      unfold chain
      split
      · exact KR.refl y n
      · split
        · split
          · exact (ih .disconnect n i cid).trans (ih _ _ _ _)
          · exact KR.refl y n
        · exact ih .disconnect n i cid
    | remoteLogout =>
      unfold chain
      split
      · exact KR.refl y n
      · rename_i nd hnd
        split
        · rename_i hcu
          have h0 := ih .disconnect n i cid
          refine ⟨h0.1.trans (shr_upd _ i _ (shr_dropSession cid)), fun b hb hc => ?_⟩
          by_cases hiy : i = y
          · subst hiy; rw [hnd] at hb; cases hb; rw [hcu] at hc; cases hc
          · obtain ⟨b', hb', hr⟩ := h0.2 b hb hc
            exact ⟨b', by simp [hiy, hb'], hr⟩
        · exact KR.refl y n

/-- `_disconnect` of an id the node holds removes it from that node (any positive fuel) -/
theorem chain_disconnect_drops (f : Nat) (n : Net) (x cid : Nat) (a : Node) (c : Conn) (ha : n.node x = some a)
    (hc : a.conns.find? (fun d => d.id == cid) = some c) :
    (n.upd x (Node.dropConn cid)).Shr (chain (f + 1) .disconnect n x cid) := by
  unfold chain
  simp only [ha, hc]
  split
  · exact shr_upd _ x _ shr_localLogout
  · split
    · exact shr_chain _ _ _ _ _
    · exact Net.Shr.refl _

theorem find_id_of_hasConn {a : Node} {cid : Nat} (h : a.hasConn cid = true) :
    ∃ c, a.conns.find? (fun d => d.id == cid) = some c := by
  unfold Node.hasConn at h
  have : (a.conns.find? (fun d => d.id == cid)).isSome = true := by
    rw [List.find?_isSome]
    obtain ⟨c, hc, hcc⟩ := List.any_eq_true.mp h
    exact ⟨c, hc, hcc⟩
  exact Option.isSome_iff_exists.mp this

/-- **C16, client logoff reaching a target whose session manager is down (request level).** Node `x` (ON) logs off from `y`; the
connection it finds has an id under which `x`'s dictionary holds a connection towards `y` (in reachable states: the very same
object), the message gets through, and the target lists the session and holds its server-side connection — but its
user-session-manager cannot act (not RUNNING, or the node not ON).  Then the request answers `success`, the target's connection
object with that id is GONE (no command is accepted on that id any more: `C16_command_runs_only_live` needs `hasConn`), and the
target's session list is exactly what it was: the session stays listed, counts against the limit, and ends by its time-out
(`C16_session_ends_at_timeout`, which needs no service). -/
theorem C16_client_logoff_target_manager_down (n : Net) (x y : Nat) (a b : Node) (cn c0 : Conn)
    (ha : n.node x = some a) (hb : n.node y = some b) (hxy : x ≠ y) (hon : a.isOn = true)
    (hcn : a.conns.find? (fun c => c.peer == some y) = some cn)
    (hc0 : a.conns.find? (fun d => d.id == cn.id) = some c0) (hp0 : c0.peer = some y)
    (hpath : canDeliver n x y = true)
    (hs : b.hasSession cn.id = true) (hc : b.hasConn cn.id = true) (hdown : b.canUsm = false) :
    (step n (.req x (.remoteLogoff y))).2 = .success ∧
    ∃ b', (step n (.req x (.remoteLogoff y))).1.node y = some b' ∧ b'.hasConn cn.id = false ∧ b'.rem = b.rem := by
  have hres : step n (.req x (.remoteLogoff y)) = (disconnect n.fuel n x cn.id, .success) := by
    simp only [step, execCmd, opRemoteLogoff, ha, hon, hcn, Bool.not_true, Bool.false_eq_true, if_false]
  rw [hres]
  refine ⟨rfl, ?_⟩
  -- the network after x dropped its own connection
  have hn1y : (n.upd x (Node.dropConn cn.id)).node y = some b := by simp [hxy, hb]
  have hdel : canDeliver (n.upd x (Node.dropConn cn.id)) x y = true := by
    rw [canDeliver_shr (shr_upd n x _ (shr_dropConn cn.id))]; exact hpath
  have hf : n.fuel = ((3 * n.totalConns + 1) + 1 + 1) + 1 := rfl
  -- hop 1: `_disconnect` on x, the message travels to y
  have hop1 : disconnect n.fuel n x cn.id =
      chain ((3 * n.totalConns + 1) + 1 + 1) .onDisconnect (n.upd x (Node.dropConn cn.id)) y cn.id := by
    unfold disconnect
    rw [hf]
    conv => lhs; unfold chain
    simp only [ha, hc0, hp0, hdel, if_true]
  -- hop 2: y validates the id (session listed, connection held): `_disconnect` on y, then `remote_logout`
  have hop2 : chain ((3 * n.totalConns + 1) + 1 + 1) .onDisconnect (n.upd x (Node.dropConn cn.id)) y cn.id =
      chain ((3 * n.totalConns + 1) + 1) .remoteLogout
        (chain ((3 * n.totalConns + 1) + 1) .disconnect (n.upd x (Node.dropConn cn.id)) y cn.id) y cn.id := by
    conv => lhs; unfold chain
    simp only [hn1y, hs, hc, if_true]
  rw [hop1, hop2]
  obtain ⟨c', hc'⟩ := find_id_of_hasConn hc
  have hdrop := chain_disconnect_drops (3 * n.totalConns + 1) (n.upd x (Node.dropConn cn.id)) y cn.id b c' hn1y hc'
  have hkr := kr_chain y ((3 * n.totalConns + 1) + 1) .disconnect (n.upd x (Node.dropConn cn.id)) y cn.id
  obtain ⟨bm, hbm, hrem⟩ := hkr.2 b hn1y hdown
  -- y's node after its own `_disconnect`: connection gone, manager still down
  have hn2y : ((n.upd x (Node.dropConn cn.id)).upd y (Node.dropConn cn.id)).node y = some (b.dropConn cn.id) := by
    simp [hn1y]
  obtain ⟨bm', hbm', hshr⟩ := hdrop.node y _ hn2y
  rw [hbm] at hbm'; cases hbm'
  have hcu : bm.canUsm = false := by rw [hshr.canUsm]; exact hdown
  rw [C16_remote_logout_hop_needs_manager (3 * n.totalConns + 1) _ y cn.id bm hbm hcu]
  exact ⟨bm, hbm, noConn_of_shr hshr cn.id (dropConn_noConn b cn.id), hrem⟩

-- non-vacuity: login 0 -> 1, the target's session manager stopped, logoff: answered success, the session is still listed, the
-- target's connection is gone
example : (let n := run demoLong [.req 0 (.remoteLogin 1 "admin" "admin"), .req 1 (.svc .sessionManager .stop)]
           let r := step n (.req 0 (.remoteLogoff 1))
           (r.2, (r.1.node 1).map (fun b => (b.rem.length, b.conns.length)))) = (.success, some (1, 0)) := by decide

end Primaite.Session
