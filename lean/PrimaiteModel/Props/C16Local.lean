/-
C16 — the local command path: the credentials supplied WITH a local command / a local login are the credential check, every time.

`Terminal.send_local_command`, `Terminal.login`, `Node.local_login` and the action `node-send-local-command` all go through
`UserSessionManager._login(local=True)`, whose result is the only credential check a local command gets.  In the code (and in the
model, `localLogin`) `_login` authenticates BEFORE it looks at the current local session, so "that user is already logged in" never
replaces the password check (seeded change C16-d moved the "already logged in" case in front of `authenticate_user`).

* `C16_local_command_refused_without_credentials`, `C16_local_login_refused_without_credentials`: in EVERY state — whoever is logged
  in locally, whatever happened before — a local command / login whose (user, password) is not the current password of an existing,
  enabled account of that node (node ON, both managers RUNNING) changes NOTHING on any node.
* `C16_local_command_executes_iff`: the carried command is executed iff the node is ON, the credentials are valid and the terminal
  is RUNNING.
* the three situations of the brief as corollaries: while that user is logged in locally (`…_while_logged_in`), after the account
  was disabled (`…_after_disable`, and `C16_disabled_stays_disabled`: over every operation sequence without `enable_user` for that
  account), after its password changed (`…_after_password_change`).
* `C16_local_command_needs_credentials_run`: the run-level form.
-/
import PrimaiteModel.Props.C16Admin
namespace Primaite.Session

/-! ### translator tie -/

set_option maxRecDepth 8192 in
/-- **C16, the local command path as written.** `send_local_command` hands the credentials of THIS request to
`_process_local_login`, executes only `if local_connection`; `_process_local_login` = `local_login` then `if connection_uuid` (a
connection is created only from a successful login); `Node.local_login`, `UserSessionManager.local_login` and `Terminal.login`
delegate without a check of their own; inside `_login`, `authenticate_user` is called and `if not user: return None` comes BEFORE the
first read of `self.local_session` (model: `localLogin` tests `loginOk` first; the class of seeded change C16-d), and `_login` returns
nothing but `None` or `session_id`. -/
theorem C16_gen_local_path :
    Gen.Session.localCommandHandler =
      ["command: str = request[2]['command']",
       "local_connection = self._process_local_login(username=request[0], password=request[1])",
       "if local_connection: outcome = local_connection.execute(command); if outcome: return RequestResponse(status='success', data={'reason': outcome})"] ∧
    Gen.Session.processLocalLogin =
      ["connection_uuid = self.parent.user_session_manager.local_login(username=username, password=password)",
       "if connection_uuid: return self._create_local_connection(connection_uuid=connection_uuid, session_id='Local_Connection') else: return None"] ∧
    Gen.Session.nodeLocalLogin = ["return self.user_session_manager.local_login(username, password)"] ∧
    Gen.Session.usmLocalLogin = ["return self._login(username=username, password=password, local=True)"] ∧
    Gen.Session.terminalLogin =
      ["if self.operating_state != ServiceOperatingState.RUNNING: return None",
       "if ip_address: return self._send_remote_login(username=username, password=password, ip_address=ip_address) else: return self._process_local_login(username=username, password=password)"] ∧
    Gen.Session.loginAuthenticatesBeforeLookingAtTheLocalSession = true ∧
    Gen.Session.loginReturnValues = ["None", "session_id"] := by
  decide

/-! ### refused without the current credentials, in every state -/

theorem localLogin_refused {n : Net} {y : Nat} {u p : String} {b : Node} (hb : n.node y = some b) (h : ¬ AuthOK b u p) :
    localLogin n y u p = (n, none) := by
  have hok : b.loginOk u p = false := by
    cases hk : b.loginOk u p with
    | false => rfl
    | true => exact (h ((loginOk_iff _ _ _).mp hk)).elim
  simp [localLogin, hb, hok]

/-- **C16, local command (refusal).** In every state: a local terminal command whose credentials are not the current password of an
existing, enabled account of the node (or whose node / managers are not up) changes nothing anywhere — no session, no connection, no
effect of the carried command — whether or not that user (or anybody) is logged in locally at that moment.  (The request is still
answered "success": the handler says so whatever happened; `C16_local_command_executes_iff` is about the effect.) -/
theorem C16_local_command_refused_without_credentials (n : Net) (y : Nat) (u p : String) (c : Cmd) (b : Node)
    (hb : n.node y = some b) (h : ¬ AuthOK b u p) : (step n (.req y (.localCmd u p c))).1 = n := by
  simp only [step, execCmd, opLocalCmdK, hb]
  split
  · rfl
  · rw [localLogin_refused hb h]

/-- **C16, local login (refusal).** The same for `Node.local_login`: answer failure, nothing changes. -/
theorem C16_local_login_refused_without_credentials (n : Net) (y : Nat) (u p : String) (b : Node)
    (hb : n.node y = some b) (h : ¬ AuthOK b u p) : step n (.localLogin y u p) = (n, .failure) := by
  simp only [step, opLocalLogin, hb, localLogin_refused hb h]
  rfl

/-- **C16, local command (both directions).** The command carried by a local terminal command is executed — the operation is
`Carried` — iff the node is ON, the credentials supplied with THIS command pass `_login` (existing enabled account, current password,
both managers RUNNING) and the terminal is RUNNING. -/
theorem C16_local_command_executes_iff (n : Net) (y : Nat) (u p : String) (c : Cmd) (b : Node) (hb : n.node y = some b) :
    Carried n (.req y (.localCmd u p c)) ↔ (b.isOn = true ∧ AuthOK b u p ∧ b.term.running = true) := by
  constructor
  · intro h
    cases h with
    | remote x z c' a' b' cn hop => cases hop
    | «local» y' u' p' c' nd id hop hnd hon hok hrun hid heq =>
      cases hop
      rw [hb] at hnd; cases hnd
      exact ⟨hon, (loginOk_iff _ _ _).mp hok, hrun⟩
  · rintro ⟨hon, hauth, hrun⟩
    have hok := (loginOk_iff _ _ _).mpr hauth
    obtain ⟨id, hid⟩ : ∃ id, (localLogin n y u p).2 = some id := by
      simp [localLogin, hb, hok]
    refine Carried.local y u p c b id rfl hb hon hok hrun hid ?_
    simp only [step, execCmd, opLocalCmdK, hb, hon, hid, hrun, Bool.not_true, Bool.false_eq_true, if_false, if_true]

/-! ### the three situations -/

/-- … while that very user is logged in locally: a wrong password is refused, and the local session is the identical record. -/
theorem C16_local_command_refused_while_logged_in (n : Net) (y : Nat) (u p : String) (c : Cmd) (b : Node) (w : User) (l : LSession)
    (hb : n.node y = some b) (_hl : b.loc = some l) (_hu : l.user = u) (hw : b.findUser u = some w) (hp : w.password ≠ p) :
    (step n (.req y (.localCmd u p c))).1 = n ∧ step n (.localLogin y u p) = (n, .failure) := by
  have h : ¬ AuthOK b u p := by
    rintro ⟨_, _, _, w', hw', _, hp'⟩
    rw [hw] at hw'; cases hw'; exact hp hp'
  exact ⟨C16_local_command_refused_without_credentials n y u p c b hb h, C16_local_login_refused_without_credentials n y u p b hb h⟩

theorem C16_local_command_refused_wrong_password (n : Net) (y : Nat) (u p : String) (c : Cmd) (b : Node) (w : User)
    (hb : n.node y = some b) (hw : b.findUser u = some w) (hp : w.password ≠ p) :
    (step n (.req y (.localCmd u p c))).1 = n ∧ step n (.localLogin y u p) = (n, .failure) := by
  have h : ¬ AuthOK b u p := by
    rintro ⟨_, _, _, w', hw', _, hp'⟩
    rw [hw] at hw'; cases hw'; exact hp hp'
  exact ⟨C16_local_command_refused_without_credentials n y u p c b hb h, C16_local_login_refused_without_credentials n y u p b hb h⟩

/-- … for a disabled account, whatever password is supplied and whoever is logged in. -/
theorem C16_local_command_refused_when_disabled (n : Net) (y : Nat) (u p : String) (c : Cmd) (b : Node) (w : User)
    (hb : n.node y = some b) (hw : b.findUser u = some w) (hd : w.disabled = true) :
    (step n (.req y (.localCmd u p c))).1 = n ∧ step n (.localLogin y u p) = (n, .failure) := by
  have h : ¬ AuthOK b u p := by
    rintro ⟨_, _, _, w', hw', hd', _⟩
    rw [hw] at hw'; cases hw'; rw [hd] at hd'; cases hd'
  exact ⟨C16_local_command_refused_without_credentials n y u p c b hb h, C16_local_login_refused_without_credentials n y u p b hb h⟩

theorem find_updUser (l : List User) (u : String) (f : User → User) (hf : ∀ v, (f v).name = v.name) :
    (updUser l u f).find? (fun w => w.name == u) = (l.find? (fun w => w.name == u)).map f := by
  induction l with
  | nil => rfl
  | cons v t ih =>
    unfold updUser
    by_cases hv : (v.name == u) = true
    · simp [hv, hf]
    · simp only [hv, Bool.false_eq_true, if_false, List.find?_cons, ih]

theorem find_updUser_other (l : List User) (u u' : String) (f : User → User) (hn : ∀ v, (f v).name = v.name) (hne : u' ≠ u) :
    (updUser l u' f).find? (fun w => w.name == u) = l.find? (fun w => w.name == u) := by
  induction l with
  | nil => rfl
  | cons v t ih =>
    unfold updUser
    by_cases hv : (v.name == u') = true
    · have hvu : (v.name == u) = false := by
        have : v.name = u' := by simpa using hv
        simp [this, hne]
      simp [hv, hn, hvu]
    · simp only [hv, Bool.false_eq_true, if_false, List.find?_cons, ih]

theorem opDisableUser_success {n : Net} {y : Nat} {u : String} (h : (opDisableUser n y u).2 = .success) :
    ∃ nd w, n.node y = some nd ∧ nd.findUser u = some w ∧ (opDisableUser n y u).1 = n.upd y (Node.setDisabled u) := by
  unfold opDisableUser at h ⊢
  split at h
  · cases h
  · rename_i nd hnd
    split at h
    · cases h
    · split at h
      · cases h
      · split at h
        · cases h
        · rename_i w hw
          split at h
          · cases h
          · split at h
            · cases h
            · rename_i h0 h1 _ h3 h4
              exact ⟨nd, w, hnd, hw, by simp only [h0, h1, h3, h4, Bool.false_eq_true, if_false]⟩

/-- … right after a successful `disable_user` (sent directly; through a terminal it is the carried request of its own): the next
local command / login for that account is refused with any password. -/
theorem C16_local_command_refused_after_disable (n : Net) (y : Nat) (u p : String) (c : Cmd)
    (h : (step n (.req y (.disableUser u))).2 = .success) :
    (step (step n (.req y (.disableUser u))).1 (.req y (.localCmd u p c))).1 = (step n (.req y (.disableUser u))).1 ∧
    step (step n (.req y (.disableUser u))).1 (.localLogin y u p) = ((step n (.req y (.disableUser u))).1, .failure) := by
  have hs : ∀ m, step m (.req y (.disableUser u)) = opDisableUser m y u := fun _ => rfl
  rw [hs] at h ⊢
  obtain ⟨nd, w, hnd, hw, h0⟩ := opDisableUser_success h
  rw [h0]
  have hb : (n.upd y (Node.setDisabled u)).node y = some (nd.setDisabled u) := by simp [hnd]
  have hw' : (nd.setDisabled u).findUser u = some { w with disabled := true } := by
    unfold Node.findUser at hw ⊢
    show (updUser nd.users u (fun v => { v with disabled := true })).find? _ = _
    rw [find_updUser nd.users u (fun v => { v with disabled := true }) (fun _ => rfl), hw]; rfl
  exact C16_local_command_refused_when_disabled _ y u p c _ _ hb hw' rfl

/-- … right after a successful password change: the OLD password no longer runs a local command (the user's local session was
ended by the change; a fresh login needs the new password). -/
theorem C16_local_command_refused_after_password_change (n : Net) (y : Nat) (u old new : String) (c : Cmd) (hne : new ≠ old)
    (h : (step n (.req y (.changePassword u old new))).2 = .success) :
    (step (step n (.req y (.changePassword u old new))).1 (.req y (.localCmd u old c))).1 = (step n (.req y (.changePassword u old new))).1 ∧
    step (step n (.req y (.changePassword u old new))).1 (.localLogin y u old) = ((step n (.req y (.changePassword u old new))).1, .failure) := by
  have hs : ∀ m, step m (.req y (.changePassword u old new)) = opChangePassword m y u old new := fun _ => rfl
  rw [hs] at h ⊢
  rcases opChangePassword_cases n y u old new with ⟨_, h0⟩ | ⟨nd, w, hnd, _, _, hw, _, h0, _⟩
  · exact (h0 h).elim
  · rw [h0]
    have hb0 : (n.upd y (Node.setPassword u new)).node y = some (nd.setPassword u new) := by simp [hnd]
    obtain ⟨b, hb, hshr⟩ := (shr_logoutUser (n.upd y (Node.setPassword u new)) y u).node y _ hb0
    have hw' : b.findUser u = some { w with password := new } := by
      unfold Node.findUser
      rw [hshr.users]
      show (updUser nd.users u (fun v => { v with password := new })).find? _ = _
      unfold Node.findUser at hw
      rw [find_updUser nd.users u (fun v => { v with password := new }) (fun _ => rfl), hw]; rfl
    exact C16_local_command_refused_wrong_password _ y u old c b _ hb hw' hne

/-! ### run level -/

/-- the account `u` of node `y` exists and is disabled -/
def DisabledAt (y : Nat) (u : String) (n : Net) : Prop := ∀ b, n.node y = some b → ∃ w, b.findUser u = some w ∧ w.disabled = true

/-- node `j`: if it is node `y`, a disabled account `u` is still there and disabled -/
def KeepDisabled (y : Nat) (u : String) : Nat → Node → Node → Prop := fun j a b =>
  j = y → (∃ w, a.findUser u = some w ∧ w.disabled = true) → ∃ w, b.findUser u = some w ∧ w.disabled = true

theorem keepDisabled_frame (y : Nat) (u : String) : Frame (KeepDisabled y u) :=
  { refl := fun _ _ _ h => h, trans := fun _ _ _ _ h1 h2 hj h => h2 hj (h1 hj h),
    shr := fun _ a b h _ hw => by unfold Node.findUser at hw ⊢; rw [h.users]; exact hw,
    data := fun _ a b h _ hw => by unfold Node.findUser at hw ⊢; rw [data_users h]; exact hw }

theorem find_append_of_some {l : List User} {q : User → Bool} {w : User} (h : l.find? q = some w) (t : List User) :
    (l ++ t).find? q = some w := by
  rw [List.find?_append, h]; rfl

theorem keepDisabled_upd (y : Nat) (u u' : String) (f : User → User) (hn : ∀ v, (f v).name = v.name)
    (hd : u' = u → ∀ v, v.disabled = true → (f v).disabled = true) (j : Nat) (a a' : Node) (ha' : a'.users = updUser a.users u' f) :
    KeepDisabled y u j a a' := by
  rintro _ ⟨w, hw, hdis⟩
  unfold Node.findUser at hw ⊢
  rw [ha']
  by_cases huu : u' = u
  · subst huu
    exact ⟨f w, by rw [find_updUser _ _ _ hn, hw]; rfl, hd rfl w hdis⟩
  · exact ⟨w, by rw [find_updUser_other _ _ _ _ hn huu]; exact hw, hdis⟩

/-- **C16, disabled stays disabled.** Over every operation sequence that contains no `enable_user` for that very account (the only
writer of `disabled = False`, Python API only), a disabled account stays disabled — so by
`C16_local_command_refused_when_disabled` no local command / login for it is accepted at any later time, whatever password is
supplied and whoever is logged in locally (and by `C16_remote_login_ok_iff` / `C16_usm_login_ok_iff` no remote login either). -/
theorem C16_disabled_stays_disabled (ops : List Op) (n : Net) (y : Nat) (u : String) (hno : Op.enableUser y u ∉ ops)
    (h : DisabledAt y u n) : DisabledAt y u (run n ops) := by
  induction ops generalizing n with
  | nil => exact h
  | cons op ops ih =>
    refine ih _ (fun hm => hno (List.mem_cons_of_mem _ hm)) ?_
    have hop : op ≠ .enableUser y u := fun he => hno (he ▸ List.mem_cons_self ..)
    have F := keepDisabled_frame y u
    have E : Edits (KeepDisabled y u) :=
      ⟨fun j a w _ hw => by
          obtain ⟨w0, hw0, hd0⟩ := hw
          exact ⟨w0, by unfold Node.findUser at hw0 ⊢; exact find_append_of_some hw0 _, hd0⟩,
       fun j a u' p => keepDisabled_upd y u u' (fun v => { v with password := p }) (fun _ => rfl) (fun _ _ hd => hd) j a _ rfl,
       fun _ _ _ _ hw => hw, fun _ _ _ _ _ hw => hw⟩
    have key : Net.Rel (KeepDisabled y u) n (step n op).1 := by
      cases op with
      | enableUser y' u' =>
        rcases opEnableUser_cases n y' u' with h0 | h0 <;> simp only [step] <;> rw [h0]
        · exact F.rel_refl n
        · refine rel_upd n y' _ F.refl (fun a _ => ?_)
          intro hj hw
          have hne : u' ≠ u := by
            intro he; subst he; subst hj; exact hop rfl
          exact keepDisabled_upd y u u' (fun v => { v with disabled := false }) (fun _ => rfl) (fun he => (hne he).elim) y' a _ rfl hj hw
      | req y' c =>
        exact F.exec E (fun n y' u' => F.toPre.disableUser n y' u' (fun a => keepDisabled_upd y u u' (fun v => { v with disabled := true }) (fun _ => rfl) (fun _ _ _ => rfl) y' a _ rfl))
          c (fun _ n y' u' p => F.toPre.localLogin n y' u' p (fun _ _ _ hw => hw)) (fun _ _ _ _ _ hw => hw) (fun _ _ _ _ _ hw => hw) n y'
      | addUserBypass y' u' p adm => exact F.toPre.addUserBypass n y' u' p adm (E.addUser y')
      | localLogin y' u' p => simp only [step]; rw [opLocalLogin_fst]; exact F.toPre.localLogin n y' u' p (fun _ _ _ hw => hw)
      | localLogout y' => exact F.localLogout n y'
      | tick => exact F.tick n
      | setBlock x' y' on => exact rel_setBlock F.refl n x' y' on
    intro b hb
    obtain ⟨a, ha, hab⟩ := Net.Rel.back_of_len key hb
    exact hab rfl (h a ha)

/-- **C16, local commands (run level).** For every operation sequence `ops` from any state: in the state reached, a local command
for account `u` is executed only if the credentials supplied with that command are, in THAT state, the current password of an
existing enabled account (node ON, both managers and the terminal RUNNING) — otherwise nothing changes. -/
theorem C16_local_command_needs_credentials_run (ops : List Op) (n : Net) (y : Nat) (u p : String) (c : Cmd) (b : Node)
    (hb : (run n ops).node y = some b) :
    (Carried (run n ops) (.req y (.localCmd u p c)) → AuthOK b u p) ∧
    (¬ AuthOK b u p → (step (run n ops) (.req y (.localCmd u p c))).1 = run n ops) :=
  ⟨fun h => ((C16_local_command_executes_iff _ y u p c b hb).mp h).2.1,
   C16_local_command_refused_without_credentials _ y u p c b hb⟩

/-! ### non-vacuity: the situations of seeded change C16-d on the model -/

def llogin1 : Op := .localLogin 1 "admin" "admin"
def lcmd1 (p : String) (k : Nat) : Op := .req 1 (.localCmd "admin" p (.file k))

-- logged in locally as admin; a local command / login with a wrong password does nothing, with the right one it runs
example : ((run demoNet [llogin1, lcmd1 "nope" 1]).node 1).map (·.files) = some [] := by decide
example : (step (run demoNet [llogin1]) (.localLogin 1 "admin" "nope")).2 = .failure := by decide
example : ((run demoNet [llogin1, lcmd1 "admin" 1]).node 1).map (·.files) = some [1] := by decide
-- … after the account was disabled (a second administrator exists), also with the right password and while still logged in
example : ((run demoNet [.req 1 (.addUser "adm2" "pw2" true), llogin1, .req 1 (.disableUser "admin"), lcmd1 "admin" 1]).node 1).map
    (fun b => (b.files, b.loc.isSome)) = some ([], true) := by decide
-- … after a password change: old password refused, new one accepted
example : ((run demoNet [llogin1, chpw1, lcmd1 "admin" 1, lcmd1 "pw1" 2]).node 1).map (·.files) = some [2] := by decide
-- hypotheses of C16_disabled_stays_disabled
example : ((run demoNet [.req 1 (.addUser "adm2" "pw2" true), .req 1 (.disableUser "adm2")]).node 1).map
    (fun b => (b.findUser "adm2").map (·.disabled)) = some (some true) := by decide

end Primaite.Session
