/-
C17, round 4 — the CLIENT side.  `DatabaseClient.receive`, the re-attempt halves of `_connect` / `_query`, the guards of
`DatabaseClientConnection.query` / `.disconnect`, `_disconnect`, `get_new_connection`, `query`, `check_connection`, `execute`
are translated from applications/database_client.py on every run (Gen/DatabaseClientTr.lean) and tied to the model's client
functions; "a query is sent only over a connection id the server issued to THIS client" is proved for the client's public
API (handles and the native connection) along every run.
-/
import PrimaiteModel.Props.C17
import PrimaiteModel.Gen.DatabaseClientTr
namespace Primaite.Database
open Primaite.Gen

/-! ### the translated decisions -/

/-- The answer handler creates a connection object exactly for a `connect_response` whose `response` is True (= status 200),
while the application can act; `get_new_connection` then returns that connection, and nothing otherwise. -/
theorem C17_tr_client_connect_decision (canAct : Bool) (a : Nat × Option Nat) :
    DatabaseClientTr.getNewConnection canAct true (DatabaseClientTr.connectReattempt (DatabaseClientTr.recv canAct (connectAnswer a)))
      = if canAct && a.1 == 200 then a.2 else none := by
  unfold DatabaseClientTr.getNewConnection DatabaseClientTr.connectReattempt DatabaseClientTr.recv connectAnswer
  cases canAct <;> cases h : (a.1 == 200) <;> cases h2 : a.2 <;> simp [h, h2]

/-- A query returns True exactly when the answer that arrives is a 200 carrying the query's own uuid. -/
theorem C17_tr_client_query_decision (canAct : Bool) (a : Nat × Option Nat) :
    DatabaseClientTr.queryReattempt (DatabaseClientTr.recv canAct (sqlAnswer a)) = (canAct && a.1 == 200) := by
  unfold DatabaseClientTr.queryReattempt DatabaseClientTr.recv sqlAnswer
  cases canAct <;> cases h : (a.1 == 200) <;> simp [h]

/-- no answer, or an answer the client does not recognise: nothing is created, no success recorded -/
theorem C17_tr_client_ignores (canAct : Bool) (a : Ans) (h : a.isDict = false ∨ a.type = none ∨ a.type = some .other) :
    DatabaseClientTr.recv canAct a = {} := by
  unfold DatabaseClientTr.recv
  rcases h with h | h | h <;> cases canAct <;> simp [h]

/-- what the model's `get_new_connection` decides = the translated decision on the answer the client application sees -/
theorem C17_tr_client_get_new_connection (st : State) (i : Nat) (c : Client) (hc : st.client? i = some c) :
    (st.getNewConnection i).2.2.isSome =
      (match (st.send i (.connect c.serverPw)).2.2 with
       | some a => (DatabaseClientTr.getNewConnection c.canAct true
                      (DatabaseClientTr.connectReattempt (DatabaseClientTr.recv c.canAct (connectAnswer a)))).isSome
       | none => false) := by
  unfold State.getNewConnection
  simp only [hc, C17_tr_client_connect_decision]
  generalize st.send i (.connect c.serverPw) = r
  obtain ⟨st1, status, seen⟩ := r
  by_cases hca : c.canAct = true
  · simp only [hca, Bool.not_true, Bool.false_eq_true, if_false, Bool.true_and]
    cases seen with
    | none => rfl
    | some a =>
      obtain ⟨code, oid⟩ := a
      by_cases h200 : code = 200
      · subst h200
        cases oid <;> rfl
      · have h' : (code == 200) = false := by simpa using h200
        simp only [h', Bool.false_eq_true, if_false, Option.isSome_none]
        split
        · rename_i heq; simp only [Option.some.injEq, Prod.mk.injEq] at heq; exact absurd heq.1 h200
        · rfl
  · have hca' : c.canAct = false := by simpa using hca
    simp only [hca', Bool.not_false, if_true, Bool.false_and, Bool.false_eq_true, if_false, Option.isSome_none]
    cases seen <;> rfl

/-- the model's `_query` result = the translated decision on the answer that is seen (the model's `send` already hides an
answer from a client application that cannot act) -/
theorem C17_tr_client_raw_query (st : State) (i : Nat) (cid : Option Nat) (q : Sql) :
    (st.rawQuery i cid q).2.2 =
      (match (st.send i (.sql cid q)).2.2 with
       | some a => DatabaseClientTr.queryReattempt (DatabaseClientTr.recv true (sqlAnswer a))
       | none => false) := by
  unfold State.rawQuery
  simp only [C17_tr_client_query_decision]
  generalize st.send i (.sql cid q) = r
  obtain ⟨st1, status, seen⟩ := r
  cases seen with
  | none => rfl
  | some a =>
    obtain ⟨code, oid⟩ := a
    by_cases h200 : code = 200
    · subst h200; rfl
    · have h' : (code == 200) = false := by simpa using h200
      simp only [h', Bool.true_and]
      split
      · rename_i heq; simp only [Option.some.injEq, Prod.mk.injEq] at heq; exact absurd heq.1 h200
      · rfl

/-- a handle sends iff the translated guard says so - and then it sends ITS OWN connection id from ITS OWN host -/
theorem C17_tr_client_handle_query (st : State) (h : Nat) (hd : Handle) (q : Sql) (hh : st.handles[h]? = some hd) :
    st.handleQuery h q =
      if DatabaseClientTr.handleQuerySends hd.active (st.clientInstalled hd.host) then st.rawQuery hd.host (some hd.id) q
      else (st, none, false) := by
  unfold State.handleQuery DatabaseClientTr.handleQuerySends
  simp [hh]

/-- `_disconnect` sends the disconnect payload (and pops the connection) iff the translated guards say so -/
theorem C17_tr_client_disconnect (st : State) (i id : Nat) (c : Client) (hc : st.client? i = some c) :
    ((st.clientDisconnect i id).2.2 = true ↔
      DatabaseClientTr.disconnectSends c.canAct c.conns.length (c.conns.contains id) = true) := by
  unfold State.clientDisconnect DatabaseClientTr.disconnectSends
  simp only [hc]
  by_cases hca : c.canAct = true
  · by_cases hin : c.conns.contains id = true
    · have hne : (c.conns.length == 0) = false := by
        cases hl : c.conns with
        | nil => rw [hl] at hin; simp at hin
        | cons x xs => simp
      simp only [hca, hin, hne, Bool.not_true, Bool.false_eq_true, if_false]
    · have hin' : c.conns.contains id = false := by simpa using hin
      simp only [hca, hin', Bool.not_true, Bool.not_false, Bool.false_eq_true, if_false, if_true]
      split <;> simp
  · have hca' : c.canAct = false := by simpa using hca
    simp [hca']

/-- `DatabaseClient.query` (native connection) -/
theorem C17_tr_client_native_query (st : State) (i : Nat) (q : Sql) (c : Client) (hc : st.client? i = some c) :
    (st.nativeQuery i q).2.2 =
      DatabaseClientTr.nativeQuery c.canAct c.native.isSome
        (match c.native with | some h => (st.handleQuery h q).2.2 | none => false) := by
  unfold State.nativeQuery DatabaseClientTr.nativeQuery
  simp only [hc]
  cases c.canAct <;> cases c.native <;> simp

end Primaite.Database

namespace Primaite.Database

/-! ### the client side along every run: handles carry only ids the server issued to their own host -/

/-- Every handle (`DatabaseClientConnection` object) carries an id the server has issued, and whenever that id is live in the
server's table, the connection belongs to the handle's own host. -/
def State.HandlesOwn (st : State) : Prop :=
  st.srv.WF ∧ ∀ h ∈ st.handles, h.id < st.srv.nextId ∧ ∀ c ∈ st.srv.conns, c.id = h.id → c.owner = h.host

theorem own_of_eq {st st' : State} (h1 : st'.srv = st.srv) (h2 : st'.handles = st.handles) (h : st.HandlesOwn) : st'.HandlesOwn := by
  unfold State.HandlesOwn at h ⊢; rw [h1, h2]; exact h

/-- a server event never hands an issued id to somebody else -/
theorem own_apply (st : State) (e : SrvEv) (h : st.HandlesOwn) : ({ st with srv := e.apply st.srv } : State).HandlesOwn := by
  refine ⟨apply_WF st.srv e h.1, ?_⟩
  intro hd hm
  have h0 := h.2 hd hm
  refine ⟨Nat.lt_of_lt_of_le h0.1 (apply_nextId_mono st.srv e), ?_⟩
  intro c hc hid
  rcases C17_table_grows_only_by_authorised_connect st.srv e c hc with hold | ⟨hnew, _⟩
  · exact h0.2 c hold hid
  · omega

theorem own_send (st : State) (i : Nat) (p : Payload) (h : st.HandlesOwn) : (st.send i p).1.HandlesOwn := by
  unfold State.send
  split
  · exact h
  · dsimp only
    have := own_apply st (.recv i p) h
    split <;> exact this

theorem own_setClient (st : State) (i : Nat) (c : Client) (h : st.HandlesOwn) : (st.setClient i c).HandlesOwn :=
  own_of_eq rfl rfl h

theorem own_updClient (st : State) (i : Nat) (f : Client → Client) (h : st.HandlesOwn) : (st.updClient i f).HandlesOwn := by
  unfold State.updClient; split
  · exact own_setClient _ _ _ h
  · exact h

/-- what the client application sees of an answer came from the server's `receive` in this very exchange -/
theorem send_seen_srv (st : State) (i : Nat) (p : Payload) (a : Nat × Option Nat) (h : (st.send i p).2.2 = some a) :
    (st.send i p).1.srv = (st.srv.receive i p).1 ∧ (st.send i p).1.handles = st.handles := by
  unfold State.send at h ⊢
  split
  · rename_i hc; simp [hc] at h
  · dsimp only
    split <;> exact ⟨rfl, rfl⟩

theorem own_getNewConnection (st : State) (i : Nat) (h : st.HandlesOwn) : (st.getNewConnection i).1.HandlesOwn := by
  unfold State.getNewConnection
  split
  · exact h
  · rename_i c hc
    split
    · exact h
    · dsimp only
      have hs := own_send st i (.connect c.serverPw) h
      split
      · rename_i id heq
        -- the answer (200, id) was given by the server in this exchange: id is the fresh id, issued to `i`
        have hrecv := send_seen st i _ _ heq
        have hsrv := send_seen_srv st i _ _ heq
        have hk := C17_connect_only_if st.srv i c.serverPw (some id) hrecv
        have hid : id = st.srv.nextId := Option.some.inj hk.2.2.2.2
        have h200 : (processConnect st.srv i c.serverPw).2.1 = 200 := by
          have hca : st.srv.canAct = true := (C17_canAct_iff st.srv).mpr ⟨hk.1, hk.2.1⟩
          simp only [Server.receive, hca, Bool.not_true, Bool.false_eq_true, if_false] at hrecv
          have := congrArg (fun o => o.map (·.1)) hrecv; simpa using this
        have hfresh := (C17_connect_ok_adds_fresh st.srv i c.serverPw).1 h200
        have hca : st.srv.canAct = true := (C17_canAct_iff st.srv).mpr ⟨hk.1, hk.2.1⟩
        have hconns : (st.send i (.connect c.serverPw)).1.srv.conns = st.srv.conns ++ [{ id := st.srv.nextId, owner := i }] := by
          rw [hsrv.1]; simp only [Server.receive, hca, Bool.not_true, Bool.false_eq_true, if_false]; exact hfresh.1
        apply own_updClient
        refine ⟨hs.1, ?_⟩
        intro hd hm
        rcases List.mem_append.mp hm with hm | hm
        · exact hs.2 hd hm
        · simp only [List.mem_singleton] at hm
          subst hm
          dsimp only
          refine ⟨?_, ?_⟩
          · -- the counter moved past the issued id
            have hnext : (st.send i (.connect c.serverPw)).1.srv.nextId = st.srv.nextId + 1 := by
              rw [hsrv.1]; simp only [Server.receive, hca, Bool.not_true, Bool.false_eq_true, if_false]
              unfold processConnect
              have hkk := (C17_connect_ok_iff st.srv i c.serverPw).mp h200
              have h4 : ¬ st.srv.maxSessions ≤ st.srv.conns.length := by omega
              simp [hkk.1, hkk.2.1, hkk.2.2.1, h4]
            rw [hid, hnext]; omega
          · intro cc hcc hcid
            rw [hconns] at hcc
            rcases List.mem_append.mp hcc with hcc | hcc
            · have := h.1.1 cc hcc; rw [hcid, hid] at this; omega
            · simp only [List.mem_singleton] at hcc; subst hcc; rfl
      · exact hs

theorem own_rawQuery (st : State) (i : Nat) (cid : Option Nat) (q : Sql) (h : st.HandlesOwn) : (st.rawQuery i cid q).1.HandlesOwn := by
  unfold State.rawQuery; exact own_send _ _ _ h

theorem own_handleQuery (st : State) (hd : Nat) (q : Sql) (h : st.HandlesOwn) : (st.handleQuery hd q).1.HandlesOwn := by
  unfold State.handleQuery
  split
  · exact h
  · split
    · exact own_rawQuery _ _ _ _ h
    · exact h

theorem own_mapActive (st : State) (f : Handle → Handle) (hf : ∀ x, (f x).id = x.id ∧ (f x).host = x.host) (h : st.HandlesOwn) :
    ({ st with handles := st.handles.map f } : State).HandlesOwn := by
  refine ⟨h.1, ?_⟩
  intro hd hm
  obtain ⟨x, hx, rfl⟩ := List.mem_map.mp hm
  have := h.2 x hx
  rw [(hf x).1, (hf x).2]; exact this

theorem own_clientDisconnect (st : State) (i id : Nat) (h : st.HandlesOwn) : (st.clientDisconnect i id).1.HandlesOwn := by
  unfold State.clientDisconnect
  split
  · exact h
  · split
    · exact h
    · split
      · exact h
      · dsimp only
        apply own_mapActive
        · intro x; split <;> exact ⟨rfl, rfl⟩
        · exact own_updClient _ _ _ (own_send _ _ _ h)

theorem own_handleDisconnect (st : State) (hd : Nat) (h : st.HandlesOwn) : (st.handleDisconnect hd).1.HandlesOwn := by
  unfold State.handleDisconnect
  split
  · exact h
  · split
    · exact own_clientDisconnect _ _ _ h
    · exact h

theorem own_nativeConnect (st : State) (i : Nat) (h : st.HandlesOwn) : (st.nativeConnect i).1.HandlesOwn := by
  unfold State.nativeConnect
  split
  · exact h
  · split
    · exact h
    · dsimp only
      split
      · exact own_updClient _ _ _ (own_getNewConnection _ _ h)
      · exact own_getNewConnection _ _ h

theorem own_nativeQuery (st : State) (i : Nat) (q : Sql) (h : st.HandlesOwn) : (st.nativeQuery i q).1.HandlesOwn := by
  unfold State.nativeQuery
  split
  · exact h
  · split
    · exact h
    · split
      · exact h
      · exact own_handleQuery _ _ _ h

theorem own_nativeDisconnect (st : State) (i : Nat) (h : st.HandlesOwn) : (st.nativeDisconnect i).1.HandlesOwn := by
  unfold State.nativeDisconnect
  split
  · exact h
  · split
    · exact h
    · dsimp only
      apply own_updClient
      split
      · exact own_clientDisconnect _ _ _ h
      · exact h

theorem own_ensureNative (st : State) (i : Nat) (c : Client) (h : st.HandlesOwn) : (st.ensureNative i c).1.HandlesOwn := by
  unfold State.ensureNative
  split
  · exact h
  · exact own_nativeConnect _ _ h

theorem own_execute (st : State) (i : Nat) (h : st.HandlesOwn) : (st.execute i).1.HandlesOwn := by
  unfold State.execute
  split
  · exact h
  · split
    · exact h
    · dsimp only
      split
      · exact own_ensureNative _ _ _ h
      · split
        · exact own_ensureNative _ _ _ h
        · exact own_rawQuery _ _ _ _ (own_ensureNative _ _ _ h)

theorem own_uninstall_fold (i : Nat) (ids : List Nat) (acc : State × List (Option Nat)) (h : acc.1.HandlesOwn) :
    (ids.foldl (uninstallStep i) acc).1.HandlesOwn := by
  induction ids generalizing acc with
  | nil => exact h
  | cons id rest ih =>
    simp only [List.foldl_cons]
    exact ih _ (own_clientDisconnect _ _ _ h)

theorem own_uninstall (st : State) (i : Nat) (h : st.HandlesOwn) : (st.uninstall i).1.HandlesOwn := by
  unfold State.uninstall
  split
  · exact h
  · split
    · exact h
    · dsimp only
      exact own_updClient _ _ _ (own_uninstall_fold i _ (st, []) h)

theorem own_ransomConnect (st : State) (i : Nat) (c : Client) (h : st.HandlesOwn) : (st.ransomConnect i c).1.HandlesOwn := by
  unfold State.ransomConnect
  split
  · exact h
  · exact own_updClient _ _ _ (own_getNewConnection _ _ h)

theorem own_ransom (st : State) (i : Nat) (q : Sql) (h : st.HandlesOwn) : (st.ransom i q).1.HandlesOwn := by
  unfold State.ransom
  split
  · exact h
  · split
    · exact h
    · dsimp only
      split
      · exact own_setClient _ _ _ h
      · split
        · exact own_setClient _ _ _ h
        · split
          · apply own_ransomConnect; apply own_setClient; apply own_setClient; exact h
          · apply own_handleQuery; apply own_ransomConnect; apply own_setClient; apply own_setClient; exact h

theorem own_dmConnect (st : State) (i : Nat) (c : Client) (h : st.HandlesOwn) : (st.dmConnect i c).1.HandlesOwn := by
  unfold State.dmConnect
  split
  · exact h
  · exact own_updClient _ _ _ (own_getNewConnection _ _ h)

theorem own_dmAttack (st : State) (i : Nat) (q : Sql) (scan atk : Bool) (h : st.HandlesOwn) : (st.dmAttack i q scan atk).1.HandlesOwn := by
  unfold State.dmAttack
  split
  · exact h
  · split
    · exact h
    · dsimp only
      split
      · exact own_setClient _ _ _ h
      · split
        · exact own_setClient _ _ _ (own_setClient _ _ _ h)
        · split
          · exact own_updClient _ _ _ (own_setClient _ _ _ (own_setClient _ _ _ h))
          · split
            · apply own_updClient; apply own_dmConnect; apply own_setClient; apply own_setClient; exact h
            · apply own_updClient; apply own_handleQuery; apply own_dmConnect; apply own_setClient; apply own_setClient; exact h

theorem own_srv_event (st : State) (s' : Server) (e : SrvEv) (hs : s' = e.apply st.srv) (h : st.HandlesOwn) :
    ({ st with srv := s' } : State).HandlesOwn := by subst hs; exact own_apply st e h

theorem own_tick (st : State) (big d k : Bool) (h : st.HandlesOwn) : (st.tick big d k).HandlesOwn := by
  have : (st.tick big d k).srv = (SrvEv.tick st.bk (st.t + 1) (st.bk.node.isOn && !st.blockFtpReq)
      (st.bk.node.isOn && !st.blockFtpResp && d) big k).apply st.srv := tick_srv st big d k
  have h1 := own_apply st (SrvEv.tick st.bk (st.t + 1) (st.bk.node.isOn && !st.blockFtpReq)
      (st.bk.node.isOn && !st.blockFtpResp && d) big k) h
  exact own_of_eq (st' := st.tick big d k) this rfl h1

/-- every operation keeps the invariant -/
theorem own_step (st : State) (op : Op) (h : st.HandlesOwn) : (step st op).1.HandlesOwn := by
  cases op with
  | connect i => exact own_getNewConnection st i h
  | rawQuery i cid q => simp only [step]; split <;> first | exact own_rawQuery _ _ _ _ h | exact h
  | rawDisconnect i cid => simp only [step]; split <;> first | exact own_send _ _ _ h | exact h
  | rawJunk i k => simp only [step]; split <;> first | exact own_send _ _ _ h | exact h
  | hQuery hd q => simp only [step]; split <;> first | exact own_handleQuery _ _ _ h | exact h
  | hDisconnect hd => simp only [step]; split <;> first | exact own_handleDisconnect _ _ h | exact h
  | nConnect i => simp only [step]; split <;> first | exact own_nativeConnect _ _ h | exact h
  | nQuery i q => simp only [step]; split <;> first | exact own_nativeQuery _ _ _ h | exact h
  | nDisconnect i => simp only [step]; split <;> first | exact own_nativeDisconnect _ _ h | exact h
  | execute i =>
    simp only [step]; split
    · exact h
    · split
      · exact h
      · exact own_execute _ _ h
  | uninstall i => exact own_uninstall st i h
  | install i =>
    show (st.install i).HandlesOwn
    unfold State.install; split
    · exact h
    · split
      · exact h
      · exact own_setClient _ _ _ h
  | appRun i => simp only [step]; (repeat' split) <;> first | exact own_setClient _ _ _ h | exact h
  | appClose i => simp only [step]; (repeat' split) <;> first | exact own_setClient _ _ _ h | exact h
  | clientPw i pw => simp only [step]; (repeat' split) <;> first | exact own_setClient _ _ _ h | exact h
  | ransom i q => exact own_ransom st i q h
  | svc r => exact own_apply st (.req r) h
  | setPw pw => exact own_apply st (.setPw pw) h
  | backup big =>
    simp only [step]; split
    · exact h
    · have := own_apply st (.backup st.bk st.ftpReq big) h
      exact own_of_eq (st := { st with srv := _ }) rfl rfl this
  | restore d k =>
    simp only [step]; split
    · exact h
    · exact own_apply st (.restore st.bk st.ftpReq (st.ftpResp && d) k) h
  | folderDelete => exact own_apply st .folderDelete h
  | admin a => exact own_apply st (.admin a) h
  | dl a => exact own_apply st (.dl a) h
  | fsr db a => exact own_apply st (.fsr db a) h
  | svcInstall cfg =>
    simp only [step]
    split
    · have := own_apply st (.reinstall cfg) h
      exact own_of_eq (st := { st with srv := _ }) rfl rfl this
    · exact h
    · exact h
  | co k => simp only [step]; (repeat' split) <;> exact h
  | bkDelete => simp only [step]; split <;> first | exact h | exact own_of_eq rfl rfl h
  | dm i q scan atk via =>
    simp only [step]; split
    · exact h
    · split
      · exact h
      · split
        · exact h
        · exact own_dmAttack _ _ _ _ _ h
  | ransomReq i q =>
    simp only [step]; split
    · exact h
    · split
      · exact h
      · exact own_ransom _ _ _ h
  | fileDelete => exact own_apply st .fileDelete h
  | fileCorrupt => exact own_apply st .fileCorrupt h
  | fileRepair => exact own_apply st .fileRepair h
  | power who on =>
    simp only [step]
    split
    · split
      · exact own_apply st .powerOn h
      · exact own_apply st .powerOff h
    · split
      · split <;> exact own_of_eq rfl rfl h
      · split
        · exact h
        · split <;> exact own_setClient _ _ _ h
  | ftps b => simp only [step]; (repeat' split) <;> first | exact h | exact own_of_eq rfl rfl h
  | block w on => simp only [step]; (repeat' split) <;> first | exact h | exact own_of_eq rfl rfl h
  | tick big d k => exact own_tick st big d k h

/-- **Client side, every run.**  From a state in which every handle carries an id issued to its own host (e.g. the initial
state: no handles), along EVERY operation sequence - connects by any client, red applications, uninstalls, re-installs of the
service, power cycles ... - every `DatabaseClientConnection` ever created carries an id that the server issued, and whenever
that id is live in the server's table it is a connection of the handle's OWN host. -/
theorem C17_client_handles_own_run (st : State) (ops : List Op) (h : st.HandlesOwn) : (run st ops).HandlesOwn := by
  induction ops generalizing st with
  | nil => exact h
  | cons o os ih => unfold run; exact ih _ (own_step st o h)

/-- **A query is sent only over a connection id the server issued to THIS client** (the client's public API: a handle's
`query`, hence also the native connection's): what a handle sends is the payload `sql` with ITS OWN id from ITS OWN host, and
if the server runs it (the id is live), the server's table says that connection was opened by that very host. -/
theorem C17_client_queries_own_connection (st : State) (ops : List Op) (h : st.HandlesOwn) (k : Nat) (hd : Handle) (q : Sql)
    (hk : (run st ops).handles[k]? = some hd) :
    (run st ops).handleQuery k q =
      (if hd.active && (run st ops).clientInstalled hd.host then (run st ops).rawQuery hd.host (some hd.id) q
       else (run st ops, none, false)) ∧
    hd.id < (run st ops).srv.nextId ∧
    ∀ c ∈ (run st ops).srv.conns, c.id = hd.id → c.owner = hd.host := by
  have hinv := C17_client_handles_own_run st ops h
  have hm : hd ∈ (run st ops).handles := List.mem_of_getElem? hk
  refine ⟨?_, (hinv.2 hd hm).1, (hinv.2 hd hm).2⟩
  unfold State.handleQuery
  simp [hk]

example : ({ clients := [{}, {}] } : State).HandlesOwn := by
  refine ⟨⟨?_, List.nodup_nil⟩, ?_⟩
  · intro c hc; cases hc
  · intro h hh; cases hh
example : (run ({ clients := [{}, {}] } : State) [.connect 0, .connect 1, .hDisconnect 0, .connect 1]).handles.map (fun h => (h.id, h.host))
    = [(0, 0), (1, 1), (2, 1)] := by decide

end Primaite.Database
