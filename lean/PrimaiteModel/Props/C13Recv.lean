/-
C13 (round 3) — the receive path: only RUNNING software is handed a payload or keeps a port open; what the modelled
classes (DNS / NTP client and server) do with a payload; connection bookkeeping.
-/
import PrimaiteModel.Model.C13Recv
import PrimaiteModel.Lemmas.RegistriesRep
import PrimaiteModel.Gen.SoftwareRecv
namespace Primaite.C13
open Primaite.Lifecycle Primaite.Registries Primaite.Recv

/-! ## 1. the translation tie -/

/-- **The regenerated translations of `get_open_ports`, `check_port_is_open`, `receive_payload_from_session_manager` and of
the destination port chosen by `SessionManager.receive_frame` ARE the model's functions** (for all arguments). -/
theorem C13_gen_recv_translation :
    Gen.SoftwareRecv.getOpenPorts = Recv.getOpenPorts ∧
    Gen.SoftwareRecv.checkPortIsOpen = Recv.checkPortIsOpen ∧
    Gen.SoftwareRecv.receivePath = Recv.receivePath ∧
    Gen.SoftwareRecv.sessionDstPort = Recv.sessionDstPort := by
  refine ⟨?_, ?_, ?_, ?_⟩
  · funext vs; simp [Gen.SoftwareRecv.getOpenPorts, Recv.getOpenPorts]
  · funext p q vs; simp [Gen.SoftwareRecv.checkPortIsOpen, Recv.checkPortIsOpen]
  · funext a b c d e f
    cases a
    · simp only [Gen.SoftwareRecv.receivePath, Recv.receivePath]
      cases e (b, c) <;> simp
    · simp only [Gen.SoftwareRecv.receivePath, Recv.receivePath]
      cases d "nmap" <;> simp
  · funext fr; rfl

end Primaite.C13
