/-
C13 (round 3) — the receive path: only RUNNING software is handed a payload or keeps a port open; what the modelled
classes (DNS / NTP client and server) do with a payload; connection bookkeeping.
-/
import PrimaiteModel.Model.C13Recv
import PrimaiteModel.Lemmas.RegistriesRep
import PrimaiteModel.Gen.SoftwareRecv
import PrimaiteModel.Gen.Software
namespace Primaite.C13
open Primaite.Lifecycle Primaite.Registries Primaite.Recv

/-! ## 1. the translation tie -/

/-- **The regenerated translations of `get_open_ports`, `check_port_is_open`, `receive_payload_from_session_manager` and of
the destination port chosen by `SessionManager.receive_frame` ARE the model's functions** (for all arguments). -/
theorem C13_gen_recv_translation :
    Gen.SoftwareRecv.getOpenPorts = Recv.getOpenPorts ∧
    Gen.SoftwareRecv.checkPortIsOpen = Recv.checkPortIsOpen ∧
    Gen.SoftwareRecv.receivePath = Recv.receivePath ∧
    Gen.SoftwareRecv.sessionDstPort = Recv.sessionDstPort := by
  refine ⟨?_, ?_, ?_, ?_⟩
  · funext vs; simp [Gen.SoftwareRecv.getOpenPorts, Recv.getOpenPorts]
  · funext p q vs; simp [Gen.SoftwareRecv.checkPortIsOpen, Recv.checkPortIsOpen]
  · funext a b c d e f
    cases a
    · simp only [Gen.SoftwareRecv.receivePath, Recv.receivePath]
      cases e (b, c) <;> simp
    · simp only [Gen.SoftwareRecv.receivePath, Recv.receivePath]
      cases d "nmap" <;> simp
  · funext fr; rfl

/-! ## 2. ports: only RUNNING software keeps a port open -/

theorem view_some (n : Node) (u : Nat) (s : SwView) (h : view n u = some s) :
    s.uid = u ∧ s.running = n.isRunning u ∧
      ∃ m, n.metaOf u = some m ∧ s.name = m.cls.name ∧ s.port = m.cls.port ∧ s.protocol = m.cls.proto ∧ s.listen = m.listen := by
  unfold view at h
  cases hm : n.metaOf u with
  | none => simp [hm] at h
  | some m =>
    simp only [hm, Option.map_some, Option.some.injEq] at h
    subst h
    exact ⟨rfl, rfl, m, rfl, rfl, rfl, rfl, rfl⟩

/-- `get_open_ports` as translated from the source computes what `Node.openPorts` (the model the lifecycle theorems and the
rig's state line use) computes -/
theorem C13_open_ports_views_eq (n : Node) : openPortsV n = n.openPorts := by
  unfold openPortsV portMapValues getOpenPorts Node.openPorts
  induction n.portMap with
  | nil => rfl
  | cons e t ih =>
    simp only [List.filterMap_cons, List.flatMap_cons]
    cases hv : view n e.2 with
    | none =>
      have hm : n.metaOf e.2 = none := by
        unfold view at hv
        cases hm : n.metaOf e.2 with
        | none => rfl
        | some m => simp [hm] at hv
      have hr : n.isRunning e.2 = false := by
        unfold Node.metaOf at hm
        unfold Node.isRunning
        cases hs : n.findSvc e.2 with
        | some i => simp [hs] at hm
        | none =>
          simp only [hs] at hm
          cases ha : n.findApp e.2 with
          | some i => simp [ha] at hm
          | none => rfl
      simp only [hr]
      simpa using ih
    | some s =>
      obtain ⟨_, hrun, m, hm, _, hp, _, hl⟩ := view_some n e.2 s hv
      simp only [List.flatMap_cons, ih, hm, hrun, hp, hl]
      cases n.isRunning e.2 <;> cases hls : m.listen <;> simp

/-- **`get_open_ports()` lists a port only for RUNNING software**: every port it reports is the port, or a listening port,
of an object that owns a port-table entry and is RUNNING. -/
theorem C13_open_port_only_running (n : Node) (p : Nat) (h : p ∈ openPortsV n) :
    ∃ k u s, (k, u) ∈ n.portMap ∧ view n u = some s ∧ n.isRunning u = true ∧ (p = s.port ∨ p ∈ s.listen) := by
  unfold openPortsV portMapValues getOpenPorts at h
  simp only [List.mem_flatMap, List.mem_filterMap] at h
  obtain ⟨s, ⟨⟨k, u⟩, hmem, hv⟩, hp⟩ := h
  obtain ⟨_, hrun, _⟩ := view_some n u s hv
  cases hr : s.running with
  | false => simp [hr] at hp
  | true =>
    refine ⟨k, u, s, hmem, hv, by rw [← hrun, hr], ?_⟩
    simp only [hr, if_true] at hp
    cases hl : s.listen with
    | nil => simp [hl] at hp; exact Or.inl hp
    | cons a t =>
      simp [hl] at hp
      rcases hp with h1 | h2 | h3
      · exact Or.inl h1
      · exact Or.inr (by simp [h2])
      · exact Or.inr (by simp [h3])

/-- **`check_port_is_open(port, protocol)` is true exactly when some installed software with that port and protocol is
RUNNING** (both directions, every registry state). -/
theorem C13_check_port_open_iff (n : Node) (port proto : Nat) :
    portIsOpen n port proto = true ↔
      ∃ name u s, (name, u) ∈ n.software ∧ view n u = some s ∧ s.port = port ∧ s.protocol = proto ∧ n.isRunning u = true := by
  unfold portIsOpen checkPortIsOpen softwareValues
  simp only [List.any_eq_true, List.mem_filterMap, Bool.and_eq_true, beq_iff_eq]
  constructor
  · rintro ⟨s, ⟨⟨name, u⟩, hmem, hv⟩, ⟨hp, hq⟩, hr⟩
    obtain ⟨_, hrun, _⟩ := view_some n u s hv
    exact ⟨name, u, s, hmem, hv, hp, hq, by rw [← hrun, hr]⟩
  · rintro ⟨name, u, s, hmem, hv, hp, hq, hr⟩
    obtain ⟨_, hrun, _⟩ := view_some n u s hv
    exact ⟨s, ⟨(name, u), hmem, hv⟩, ⟨hp, hq⟩, by rw [hrun, hr]⟩

/-- hence: no software RUNNING ⇒ no port open, by either function -/
theorem C13_nothing_running_nothing_open (n : Node) (h : ∀ u, n.isRunning u = false) :
    openPortsV n = [] ∧ ∀ port proto, portIsOpen n port proto = false := by
  constructor
  · cases hl : openPortsV n with
    | nil => rfl
    | cons p t =>
      obtain ⟨_, u, _, _, _, hr, _⟩ := C13_open_port_only_running n p (by rw [hl]; simp)
      rw [h u] at hr; cases hr
  · intro port proto
    cases hb : portIsOpen n port proto with
    | false => rfl
    | true =>
      obtain ⟨_, u, _, _, _, _, _, hr⟩ := (C13_check_port_open_iff n port proto).mp hb
      rw [h u] at hr; cases hr

/-- The two functions are NOT the same question (observation, as the code is): `check_port_is_open` looks at every installed
software's own port, `get_open_ports` only at the owners of port-table slots (plus their listening ports).  web-server then
web-browser (both 80/tcp; the browser, installed later, owns the slot and is CLOSED): the nmap answer is "open", the frame
filter's is "closed". -/
example :
    let n := ({} : Node).run [.installSvc { name := "web-server", port := 80, proto := 1 } true [] .good 2,
                              .installApp { name := "web-browser", port := 80, proto := 1 } true [] .good 2]
    portIsOpen n 80 1 = true ∧ openPortsV n = [] := by decide

/-- **Routers and firewalls as hosts of software**: a frame is handed to a router's session manager only if it is addressed
to the router and is ICMP or aimed at a port with a RUNNING owner (`Router.check_send_frame_to_session_manager`). -/
theorem C13_router_frame_only_open (n : Node) (h : Hdr) (toRouter : Bool) (ha : n.routerAccepts h toRouter = true) :
    toRouter = true ∧ (h = .icmp ∨ ∃ p k u s, h.dstPort = some p ∧ (k, u) ∈ n.portMap ∧ view n u = some s ∧
      n.isRunning u = true ∧ (p = s.port ∨ p ∈ s.listen)) := by
  unfold Node.routerAccepts at ha
  simp only [Bool.and_eq_true, Bool.or_eq_true, beq_iff_eq] at ha
  refine ⟨ha.1, ?_⟩
  rcases ha.2 with h1 | h2
  · exact Or.inl h1
  · right
    cases hd : h.dstPort with
    | none => simp [hd] at h2
    | some p =>
      simp only [hd, List.contains_iff_mem] at h2
      have hp : p ∈ openPortsV n := by rw [C13_open_ports_views_eq]; exact h2
      obtain ⟨k, u, s, a, b, c, d⟩ := C13_open_port_only_running n p hp
      exact ⟨p, k, u, s, rfl, a, b, c, d⟩

/-! ## 3. the receive path -/

theorem dget_mem {κ ν} [DecidableEq κ] (l : List (κ × ν)) (k : κ) (v : ν) (h : dget k l = some v) : (k, v) ∈ l := by
  induction l with
  | nil => simp [dget] at h
  | cons a t ih =>
    obtain ⟨k', v'⟩ := a
    simp only [dget] at h
    by_cases hk : k' = k
    · simp only [hk, if_true, Option.some.injEq] at h
      subst h; subst hk; simp
    · simp only [hk, if_false] at h
      exact List.mem_cons_of_mem _ (ih h)

/-- every registry entry refers to an existing object (holds on every reachable node: `wf_of_rep`) -/
def WF (n : Node) : Prop :=
  (∀ x ∈ n.software, (n.metaOf x.2).isSome = true) ∧ (∀ x ∈ n.portMap, (n.metaOf x.2).isSome = true)

theorem wf_of_rep (n : Node) (es : List Entry) (h : Rep n es) : WF n := by
  have key : ∀ e ∈ es, (n.metaOf e.uid).isSome = true := by
    intro e he
    have := rep_nameOf n es h e he
    unfold Node.nameOf at this
    cases hm : n.metaOf e.uid with
    | none => simp [hm] at this
    | some m => rfl
  constructor
  · intro x hx
    rw [h.software] at hx
    obtain ⟨e, he, rfl⟩ := List.mem_map.mp hx
    exact key e he
  · intro x hx
    obtain ⟨e, he, hu⟩ := h.portOwners x hx
    rw [← hu]; exact key e he

theorem view_of_meta (n : Node) (u : Nat) (h : (n.metaOf u).isSome = true) : ∃ s, view n u = some s ∧ s.uid = u := by
  unfold view
  cases hm : n.metaOf u with
  | none => simp [hm] at h
  | some m => exact ⟨_, rfl, rfl⟩

theorem view_none_iff (n : Node) (u : Nat) : view n u = none ↔ n.metaOf u = none := by
  unfold view
  cases n.metaOf u <;> simp

/-- the listeners computed over views are the listeners computed over uids -/
theorem listeners_eq (n : Node) (port : Nat) (main : Option Nat) (mainV : Option SwView)
    (hmain : (main = none ∧ mainV = none) ∨ (∃ w sw, main = some w ∧ mainV = some sw ∧ view n w = some sw))
    (l : List (String × Nat)) :
    (((l.filterMap fun e => view n e.2).filter fun s => s.listen.contains port && (some s != mainV)).map
        fun r => ((r, true) : SwView × Bool).1.uid) =
      (l.map (·.2)).filter (fun u =>
        (match n.metaOf u with
         | some m => m.listen.contains port
         | none => false) && main != some u) := by
  induction l with
  | nil => rfl
  | cons e t ih =>
    simp only [List.filterMap_cons, List.map_cons, List.filter_cons]
    cases hv : view n e.2 with
    | none =>
      have hm := (view_none_iff n e.2).mp hv
      simp only [hm, Bool.false_and]
      exact ih
    | some s =>
      obtain ⟨hu, _, m, hm, _, _, _, hl⟩ := view_some n e.2 s hv
      simp only [List.filter_cons, hm, hl]
      have hne : (some s != mainV) = (main != some e.2) := by
        rcases hmain with ⟨h1, h2⟩ | ⟨w, sw, h1, h2, h3⟩
        · subst h1; subst h2; rfl
        · subst h1; subst h2
          by_cases hw : w = e.2
          · subst hw
            rw [hv] at h3
            cases h3
            rw [bne_self_eq_false, bne_self_eq_false]
          · have : s ≠ sw := by
              intro hs
              subst hs
              obtain ⟨hu2, _⟩ := view_some n w s h3
              exact hw (by rw [← hu2, hu])
            have h1 : (some s != some sw) = true := by
              rw [bne_iff_ne]; intro h; exact this (Option.some.inj h)
            have h2 : (some w != some e.2) = true := by
              rw [bne_iff_ne]; intro h; exact hw (Option.some.inj h)
            rw [h1, h2]
      rw [hne]
      cases hc : (m.listen.contains port && main != some e.2)
      · simp only [Bool.false_eq_true, if_false]; exact ih
      · simp only [if_true, List.map_cons, hu]; rw [ih]

/-- **The receive path translated from the source is the model's `Node.receivers`** (which the lifecycle rig has been
diffing against the implementation since round 1) on every node whose registries refer to existing objects —
in particular on every reachable node (`wf_of_rep`, `C13_registries_agree`). -/
theorem C13_recv_path_eq_receivers (n : Node) (hwf : WF n) (port proto : Nat) (scan : Bool) :
    n.receivers port proto scan = some (recvUids n port proto scan) := by
  unfold Node.receivers recvUids recvCalls receivePath
  cases scan
  · simp only [Bool.false_eq_true, if_false]
    have hmain : (dget (port, proto) n.portMap = none ∧ portMapGet n (port, proto) = none) ∨
        (∃ w sw, dget (port, proto) n.portMap = some w ∧ portMapGet n (port, proto) = some sw ∧ view n w = some sw) := by
      unfold portMapGet
      cases hd : dget (port, proto) n.portMap with
      | none => exact Or.inl ⟨rfl, rfl⟩
      | some w =>
        obtain ⟨sw, hsw, _⟩ := view_of_meta n w (hwf.2 _ (dget_mem _ _ _ hd))
        exact Or.inr ⟨w, sw, rfl, by simp [hsw], hsw⟩
    have hl := listeners_eq n port _ _ hmain n.software
    rcases hmain with ⟨h1, h2⟩ | ⟨w, sw, h1, h2, h3⟩
    · simp only [h1, h2] at hl ⊢
      simp only [List.nil_append, List.append_nil, List.map_map]
      unfold softwareValues
      refine congrArg some ?_
      refine Eq.trans hl.symm ?_
      simp [Function.comp_def]
    · obtain ⟨hu, _⟩ := view_some n w sw h3
      simp only [h1, h2] at hl ⊢
      simp only [List.append_nil, List.map_append, List.map_cons, List.map_nil, List.map_map, hu]
      unfold softwareValues
      refine congrArg some ?_
      refine congrArg (fun l => [w] ++ l) ?_
      refine Eq.trans hl.symm ?_
      simp [Function.comp_def]
  · simp only [if_true]
    unfold softwareGet
    cases hd : dget "nmap" n.software with
    | none => simp
    | some u =>
      obtain ⟨s, hs, hu⟩ := view_of_meta n u (hwf.1 _ (dget_mem _ _ _ hd))
      simp [hs, hu]

/-- `WF` is an invariant: it holds on every node reachable from an empty node by ANY sequence of operations (installs of
anything — configured or bare, installed already or not —, uninstalls, requests, ticks, power events, payloads) -/
theorem C13_wf_reachable (p : Power) (up down : Int) (ops : List Op) :
    WF (Node.run { power := p, upDur := up, downDur := down } ops) := by
  obtain ⟨es, h⟩ := rep_run ops _ [] (C13_rep_init p up down)
  exact wf_of_rep _ es h

/-- … and one operation keeps it, from any node whose registries agree -/
theorem C13_wf_step (n : Node) (es : List Entry) (h : Rep n es) (op : Op) : WF (n.step op).1 := by
  obtain ⟨es', h'⟩ := rep_step n es h op
  exact wf_of_rep _ es' h'

/-- **On every reachable node the receive path translated from the source IS `Node.receivers`** — no hypothesis:
after any operation sequence from an empty node, for every port, protocol and payload kind, the objects whose `receive`
the model calls are exactly those the translation of `receive_payload_from_session_manager` names, in the same order. -/
theorem C13_recv_path_reachable (p : Power) (up down : Int) (ops : List Op) (port proto : Nat) (scan : Bool) :
    let n := Node.run { power := p, upDur := up, downDur := down } ops
    n.receivers port proto scan = some (recvUids n port proto scan) :=
  C13_recv_path_eq_receivers _ (C13_wf_reachable p up down ops) port proto scan

/-! ### payload processing may write `health_state_actual`, and nothing else of the lifecycle layer

`forget n` blanks every `health_state_actual`.  Everything the receive path and the frame filters read — power, registries,
operating states, ports, listening ports — is a function of `forget n`. -/

theorem findSvc_forget (n : Node) (u : Nat) :
    (forget n).findSvc u = (n.findSvc u).map (fun i => { i with s := { i.s with sw := { i.s.sw with actual := .unused } } }) :=
  find_map_meta_svc n.svcs (fun i => { i.s with sw := { i.s.sw with actual := .unused } }) u

theorem findApp_forget (n : Node) (u : Nat) :
    (forget n).findApp u = (n.findApp u).map (fun i => { i with a := { i.a with sw := { i.a.sw with actual := .unused } } }) :=
  find_map_meta_app n.apps (fun i => { i.a with sw := { i.a.sw with actual := .unused } }) u

theorem isRunning_forget (n : Node) (u : Nat) : (forget n).isRunning u = n.isRunning u := by
  unfold Node.isRunning
  rw [findSvc_forget, findApp_forget]
  cases n.findSvc u <;> cases n.findApp u <;> rfl

theorem metaOf_forget (n : Node) (u : Nat) : (forget n).metaOf u = n.metaOf u := by
  unfold Node.metaOf
  rw [findSvc_forget, findApp_forget]
  cases n.findSvc u <;> cases n.findApp u <;> rfl

theorem handles_forget (n : Node) (u : Nat) : (forget n).handles u = n.handles u := by
  unfold Node.handles
  rw [isRunning_forget]; rfl

theorem view_forget (n : Node) (u : Nat) : view (forget n) u = view n u := by
  unfold view
  rw [metaOf_forget, isRunning_forget]

theorem recvCalls_forget (n : Node) (port proto : Nat) (scan : Bool) : recvCalls (forget n) port proto scan = recvCalls n port proto scan := by
  have h1 : softwareGet (forget n) = softwareGet n := by
    funext name; unfold softwareGet
    show (dget name n.software).bind (view (forget n)) = _
    cases dget name n.software <;> simp [view_forget]
  have h2 : portMapGet (forget n) = portMapGet n := by
    funext k; unfold portMapGet
    show (dget k n.portMap).bind (view (forget n)) = _
    cases dget k n.portMap <;> simp [view_forget]
  have h3 : softwareValues (forget n) = softwareValues n := by
    unfold softwareValues
    show n.software.filterMap (fun e => view (forget n) e.2) = _
    simp only [view_forget]
  unfold recvCalls
  rw [h1, h2, h3]

theorem openPorts_forget (n : Node) : (forget n).openPorts = n.openPorts := by
  unfold Node.openPorts
  show n.portMap.flatMap _ = n.portMap.flatMap _
  simp only [isRunning_forget, metaOf_forget]

theorem frameAccepted_forget (n : Node) (h : Hdr) (scan : Bool) : (forget n).frameAccepted h scan = n.frameAccepted h scan := by
  unfold Node.frameAccepted
  rw [openPorts_forget]
  have hn : ∀ u, ((forget n).findApp u).any (fun i => i.a.st == .running) = (n.findApp u).any (fun i => i.a.st == .running) := by
    intro u; rw [findApp_forget]; cases n.findApp u <;> rfl
  show (h == .icmp || _ || ((match dget "nmap" n.software with
        | some u => ((forget n).findApp u).any (fun i => i.a.st == .running)
        | none => false) && scan)) = _
  simp only [hn]
  rfl

theorem forget_setActual (n : Node) (u : Nat) (h : Health) : forget (setActual n u h) = forget n := by
  unfold forget setActual
  simp only [List.map_map, Function.comp_def]
  congr 1
  · apply List.map_congr_left
    intro i _
    by_cases hu : i.m.uid = u <;> simp [hu]
  · apply List.map_congr_left
    intro i _
    by_cases hu : i.m.uid = u <;> simp [hu]

theorem setActual_software (n : Node) (u : Nat) (h : Health) : (setActual n u h).software = n.software := rfl

/-- two nodes that differ only in health values -/
def LifeEq (n n' : Node) : Prop := forget n' = forget n

theorem LifeEq.handles {n n' : Node} (h : LifeEq n n') (u : Nat) : n'.handles u = n.handles u := by
  rw [← handles_forget n', h, handles_forget]

theorem LifeEq.recvCalls {n n' : Node} (h : LifeEq n n') (port proto : Nat) (scan : Bool) :
    recvCalls n' port proto scan = recvCalls n port proto scan := by
  rw [← recvCalls_forget n', h, recvCalls_forget]

theorem LifeEq.frameAccepted {n n' : Node} (h : LifeEq n n') (hd : Hdr) (scan : Bool) :
    n'.frameAccepted hd scan = n.frameAccepted hd scan := by
  rw [← frameAccepted_forget n', h, frameAccepted_forget]

theorem LifeEq.isOn {n n' : Node} (h : LifeEq n n') : n'.isOn = n.isOn := by
  have : (forget n').isOn = (forget n).isOn := by rw [h]
  exact this

theorem LifeEq.isRunning {n n' : Node} (h : LifeEq n n') (u : Nat) : n'.isRunning u = n.isRunning u := by
  rw [← isRunning_forget n', h, isRunning_forget]

theorem LifeEq.software {n n' : Node} (h : LifeEq n n') : n'.software = n.software := by
  have : (forget n').software = (forget n).software := by rw [h]
  exact this

theorem LifeEq.refl (n : Node) : LifeEq n n := rfl
theorem LifeEq.trans {a b c : Node} (h1 : LifeEq a b) (h2 : LifeEq b c) : LifeEq a c := by
  unfold LifeEq at *; rw [h2, h1]

/-- `health_state_actual` of another object is untouched by `set_health_state` on `u` -/
theorem actualOf_setActual_ne (n : Node) (u v : Nat) (h : Health) (hv : v ≠ u) : actualOf (setActual n u h) v = actualOf n v := by
  unfold actualOf
  have hs : (setActual n u h).findSvc v = (n.findSvc v).map
      (fun i => { i with s := if i.m.uid = u then { i.s with sw := { i.s.sw with actual := h } } else i.s }) :=
    find_map_meta_svc n.svcs _ v
  have ha : (setActual n u h).findApp v = (n.findApp v).map
      (fun i => { i with a := if i.m.uid = u then { i.a with sw := { i.a.sw with actual := h } } else i.a }) :=
    find_map_meta_app n.apps _ v
  rw [hs, ha]
  cases hf : n.findSvc v with
  | some i =>
    have : i.m.uid = v := by
      have := List.find?_some hf; simpa using this
    simp [this, hv]
  | none =>
    cases hg : n.findApp v with
    | none => rfl
    | some i =>
      have : i.m.uid = v := by
        have := List.find?_some hg; simpa using this
      simp [this, hv]


/-! ### what a delivery does: only RUNNING software on an ON node processes the payload -/

theorem dget_dset {κ ν} [DecidableEq κ] (l : List (κ × ν)) (k k' : κ) (v : ν) :
    dget k' (dset k v l) = if k = k' then some v else dget k' l := by
  induction l with
  | nil => simp [dset, dget]
  | cons a t ih =>
    obtain ⟨ka, va⟩ := a
    by_cases h1 : ka = k
    · subst h1
      by_cases h2 : ka = k' <;> simp [dset, dget, h2]
    · by_cases h2 : ka = k'
      · subst h2
        have : ¬ k = ka := fun h => h1 h.symm
        simp [dset, dget, h1, this]
      · simp [dset, dget, h1, h2, ih]

/-- behind a closed running-guard `receive` does nothing: no state change, nothing sent, payload untouched, returns False —
for the DNS / NTP classes (`receive`) and for every modelled class (`receiveH`: no health write either) -/
theorem C13_receive_blocked (d : Data) (now : Nat) (p : Payload) : d.receive false now p = (d, .f, [], p) := rfl

theorem C13_receiveH_blocked (d : Data) (now : Nat) (hasDb : Option Bool) (p : Payload) :
    d.receiveH false now hasDb p = ((d, .f, [], p), none) := rfl

/-- what one `receive` call may do to the lifecycle layer: nothing, or — only if the object may act — a write of its OWN
`health_state_actual` -/
def NStep (n : Node) (u : Nat) (n' : Node) : Prop := n' = n ∨ (n.handles u = true ∧ ∃ h, n' = setActual n u h)

theorem NStep.lifeEq {n n' : Node} {u : Nat} (h : NStep n u n') : LifeEq n n' := by
  rcases h with rfl | ⟨_, hh, rfl⟩
  · rfl
  · exact forget_setActual n u hh

theorem NStep.actualOf_ne {n n' : Node} {u : Nat} (h : NStep n u n') (v : Nat) (hv : v ≠ u) : actualOf n' v = actualOf n v := by
  rcases h with rfl | ⟨_, hh, rfl⟩
  · rfl
  · exact actualOf_setActual_ne n u v hh hv

/-- one `receive` call: registries, power and operating states untouched (`NStep`: at most the object's own health, and only
if it may act); other objects' data untouched; an object that may not act (node not ON, or not RUNNING) keeps its data, its
health and the whole node, sends nothing, leaves the payload alone and answers False (`none`: unmodelled class, only the guard
is known); whatever is sent is sent by the object itself. -/
theorem recvAt_spec (nn : NetNode) (u port proto : Nat) (p : Payload) :
    NStep nn.n u (nn.recvAt u port proto p).1.n ∧ (nn.recvAt u port proto p).1.now = nn.now ∧
    (nn.recvAt u port proto p).1.addr = nn.addr ∧
    (nn.recvAt u port proto p).2.1.uid = u ∧ (nn.recvAt u port proto p).2.1.handled = nn.n.handles u ∧
    (∀ v, v ≠ u → dget v (nn.recvAt u port proto p).1.data = dget v nn.data) ∧
    (nn.n.handles u = false →
      (nn.recvAt u port proto p).1.n = nn.n ∧
      dget u (nn.recvAt u port proto p).1.data = dget u nn.data ∧ (nn.recvAt u port proto p).2.2.1 = [] ∧
      (nn.recvAt u port proto p).2.2.2 = p ∧
      ((nn.recvAt u port proto p).2.1.ret = none ∨ (nn.recvAt u port proto p).2.1.ret = some .f)) ∧
    (∀ s ∈ (nn.recvAt u port proto p).2.2.1, s.src = u) := by
  unfold NetNode.recvAt
  cases hd : dget u nn.data with
  | none => simp [hd, NStep]
  | some d =>
    cases hc : nn.n.handles u with
    | false =>
      simp only [C13_receiveH_blocked, NStep, applyHealthWrite]
      refine ⟨by simp, by simp, by simp, by simp, by simp, ?_, ?_, ?_⟩
      · intro v hv; rw [dget_dset]; simp [Ne.symm hv]
      · intro _
        refine ⟨by simp, ?_, by simp, by simp, by simp⟩
        rw [dget_dset]; simp [hd]
      · intro s hs; simp at hs
    | true =>
      rcases hr : d.receiveH true nn.now nn.dbVerdict p with ⟨⟨d', r, out, p'⟩, hw⟩
      simp only [hr]
      refine ⟨?_, by simp, by simp, by simp, by simp, ?_, ?_, ?_⟩
      · cases hw with
        | none => exact Or.inl rfl
        | some h => exact Or.inr ⟨hc, h, rfl⟩
      · intro v hv; rw [dget_dset]; simp [Ne.symm hv]
      · intro hh; cases hh
      · intro s hs
        simp only [List.mem_map] at hs
        obtain ⟨x, _, rfl⟩ := hs
        rfl

/-- a whole delivery (any list of `receive` calls, any port, protocol and payload) -/
theorem deliverList_spec (calls : List (Nat × Bool)) (nn : NetNode) (port proto : Nat) (p : Payload) :
    LifeEq nn.n (nn.deliverList port proto p calls).1.n ∧ (nn.deliverList port proto p calls).1.now = nn.now ∧
    (∀ v, nn.n.handles v = false → dget v (nn.deliverList port proto p calls).1.data = dget v nn.data ∧
        actualOf (nn.deliverList port proto p calls).1.n v = actualOf nn.n v) ∧
    (∀ v, v ∉ calls.map (·.1) → dget v (nn.deliverList port proto p calls).1.data = dget v nn.data ∧
        actualOf (nn.deliverList port proto p calls).1.n v = actualOf nn.n v) ∧
    (∀ s ∈ (nn.deliverList port proto p calls).2.2, nn.n.handles s.src = true ∧ s.src ∈ calls.map (·.1)) ∧
    (nn.deliverList port proto p calls).2.1.map (·.uid) = calls.map (·.1) ∧
    (∀ x ∈ (nn.deliverList port proto p calls).2.1,
      x.handled = nn.n.handles x.uid ∧ (x.handled = false → x.ret = none ∨ x.ret = some .f)) := by
  induction calls generalizing nn p with
  | nil => simp [NetNode.deliverList, LifeEq]
  | cons c us ih =>
    obtain ⟨u, copy⟩ := c
    obtain ⟨h1, h2, _, h4, h5, h6, h7, h8⟩ := recvAt_spec nn u port proto p
    have hle := h1.lifeEq
    simp only [NetNode.deliverList]
    obtain ⟨i1, i2, i3, i4, i5, i6, i7⟩ :=
      ih (nn.recvAt u port proto p).1 (if copy = true then p else (nn.recvAt u port proto p).2.2.2)
    have hh : ∀ v, (nn.recvAt u port proto p).1.n.handles v = nn.n.handles v := fun v => hle.handles v
    refine ⟨LifeEq.trans hle i1, i2.trans h2, ?_, ?_, ?_, ?_, ?_⟩
    · intro v hv
      obtain ⟨a, b⟩ := i3 v (by rw [hh]; exact hv)
      by_cases hvu : v = u
      · subst hvu
        obtain ⟨e1, e2, _⟩ := h7 hv
        exact ⟨by rw [a, e2], by rw [b, e1]⟩
      · exact ⟨by rw [a, h6 v hvu], by rw [b, h1.actualOf_ne v hvu]⟩
    · intro v hv
      simp only [List.map_cons, List.mem_cons, not_or] at hv
      obtain ⟨a, b⟩ := i4 v hv.2
      exact ⟨by rw [a, h6 v hv.1], by rw [b, h1.actualOf_ne v hv.1]⟩
    · intro s hs
      simp only [List.mem_append] at hs
      rcases hs with hs | hs
      · have hsrc := h8 s hs
        refine ⟨?_, by simp [hsrc]⟩
        cases hc : nn.n.handles u with
        | true => rw [hsrc, hc]
        | false => rw [(h7 hc).2.2.1] at hs; cases hs
      · obtain ⟨a, b⟩ := i5 s hs
        exact ⟨by rw [← hh]; exact a, by simp [b]⟩
    · simp [h4, i6]
    · intro x hx
      simp only [List.mem_cons] at hx
      rcases hx with rfl | hx
      · rw [h4, h5]
        exact ⟨rfl, fun hc => (h7 hc).2.2.2.2⟩
      · obtain ⟨a, b⟩ := i7 x hx
        exact ⟨by rw [a, hh], b⟩

/-- **Only RUNNING software is handed a payload.**  For every node state (registries, lifecycle states, power), every
port, protocol and payload, after `receive_payload_from_session_manager` has called `receive` on every receiver:
registries, power and every operating state are as before (`LifeEq`: only `health_state_actual` values may differ); the data
AND the health of every object that is not RUNNING (or whose node is not ON) are as before; every payload sent was sent by a
RUNNING object on an ON node that was a receiver; every `receive` of a not-running object answered False. -/
theorem C13_payload_only_running (nn : NetNode) (port proto : Nat) (p : Payload) :
    LifeEq nn.n (nn.deliver port proto p).1.n ∧
    (∀ v, ¬ (nn.n.isOn = true ∧ nn.n.isRunning v = true) →
      dget v (nn.deliver port proto p).1.data = dget v nn.data ∧ actualOf (nn.deliver port proto p).1.n v = actualOf nn.n v) ∧
    (∀ s ∈ (nn.deliver port proto p).2.2, nn.n.isOn = true ∧ nn.n.isRunning s.src = true ∧
        s.src ∈ recvUids nn.n port proto p.isScan) ∧
    (∀ x ∈ (nn.deliver port proto p).2.1, x.handled = (nn.n.isOn && nn.n.isRunning x.uid) ∧
        (x.handled = false → x.ret = none ∨ x.ret = some .f)) := by
  obtain ⟨h1, _, h3, _, h5, _, h7⟩ := deliverList_spec (recvCalls nn.n port proto p.isScan) nn port proto p
  refine ⟨h1, ?_, ?_, ?_⟩
  · intro v hv
    apply h3
    unfold Node.handles
    cases h : nn.n.isOn <;> cases h' : nn.n.isRunning v <;> simp_all
  · intro s hs
    obtain ⟨a, b⟩ := h5 s hs
    unfold Node.handles at a
    simp only [Bool.and_eq_true] at a
    exact ⟨a.1, a.2, by unfold recvUids; exact b⟩
  · intro x hx
    exact h7 x hx

/-- the same through `HostNode.receive_frame` + `SessionManager.receive_frame` -/
theorem C13_frame_payload_only_running (nn : NetNode) (h : Hdr) (p : Payload) (nn' : NetNode) (recs : List RecvRec)
    (sents : List Sent) (hf : nn.frame h p = some (nn', recs, sents)) :
    LifeEq nn.n nn'.n ∧
    (∀ v, ¬ (nn.n.isOn = true ∧ nn.n.isRunning v = true) → dget v nn'.data = dget v nn.data ∧ actualOf nn'.n v = actualOf nn.n v) ∧
    (∀ s ∈ sents, nn.n.isOn = true ∧ nn.n.isRunning s.src = true) := by
  unfold NetNode.frame at hf
  split at hf
  · split at hf
    · rename_i port _
      simp only [Option.some.injEq] at hf
      obtain ⟨a, b, c, _⟩ := C13_payload_only_running nn port h.proto p
      rw [hf] at a b c
      exact ⟨a, b, fun s hs => ⟨(c s hs).1, (c s hs).2.1⟩⟩
    · cases hf
  · cases hf

/-- non-vacuity, C13-a's shape and "a stopped owner + a running listener": dns-client (uid 0) owns 53/tcp and is STOPPED, a
dns-server (uid 1) installed under another port listens on 53 and is RUNNING; a DNS request for a registered name is handed to
both, only the RUNNING server processes it (and replies with the registered address). -/
example :
    let n := ({} : Node).run [.installSvc { cid := "DNSClient", name := "dns-client", port := 53, proto := 1 } true [] .good 2,
                              .svcReq "dns-client" .stop,
                              .installSvc { cid := "DNSServer", name := "dns-server", port := 5353, proto := 1 } true [53] .good 2]
    let nn : NetNode := (({ n := n } : NetNode).adopt).setData 1 (.dnsServer [("x.test", 7)])
    (nn.deliver 53 1 (.dns "x.test" none)).2 =
      ([{ uid := 0, handled := false, ret := some .f }, { uid := 1, handled := true, ret := some .t }],
       [{ src := 1, dst := .session, port := 53, proto := 1, payload := .dns "x.test" (some (some 7)) }]) := by decide

/-! ## 4. what the modelled classes do with a payload they accept -/

/-- **A reply is never answered** (so two servers cannot exchange packets without end — the defect repaired in round 3):
whatever the class and its data, a payload that carries a reply (DNS reply, NTP reply, HTTP response) triggers no send and is
left as it is. -/
theorem C13_reply_never_answered (d : Data) (canAct : Bool) (now : Nat) (hasDb : Option Bool) (p : Payload) (hp : p.isReply = true) :
    (d.receiveH canAct now hasDb p).1.2.2.1 = [] ∧ (d.receiveH canAct now hasDb p).1.2.2.2 = p := by
  cases canAct
  · exact ⟨rfl, rfl⟩
  · cases p with
    | junk => simp [Payload.isReply] at hp
    | portScan => simp [Payload.isReply] at hp
    | httpReq m pa i => simp [Payload.isReply] at hp
    | httpResp c => cases d <;> exact ⟨rfl, rfl⟩
    | dns name r =>
      cases r with
      | none => simp [Payload.isReply] at hp
      | some o => cases d <;> cases o <;> exact ⟨rfl, rfl⟩
    | ntp r =>
      cases r with
      | none => simp [Payload.isReply] at hp
      | some t => cases d <;> exact ⟨rfl, rfl⟩

/-- … and everything a modelled class sends in reaction to a payload is a reply, sent back along the session; at most one;
the payload object afterwards is what it was or carries a reply -/
theorem C13_sends_are_replies (d : Data) (canAct : Bool) (now : Nat) (hasDb : Option Bool) (p : Payload) :
    (∀ x ∈ (d.receiveH canAct now hasDb p).1.2.2.1, x.1 = .session ∧ x.2.isReply = true) ∧
    (d.receiveH canAct now hasDb p).1.2.2.1.length ≤ 1 ∧
    ((d.receiveH canAct now hasDb p).1.2.2.2 = p ∨ (d.receiveH canAct now hasDb p).1.2.2.2.isReply = true) := by
  cases canAct
  · refine ⟨?_, ?_, Or.inl rfl⟩
    · intro x hx; rw [C13_receiveH_blocked] at hx; cases hx
    · rw [C13_receiveH_blocked]; exact Nat.zero_le _
  · cases p with
    | junk => cases d <;> simp [Data.receiveH, Data.receive]
    | portScan => cases d <;> simp [Data.receiveH, Data.receive]
    | httpResp c => cases d <;> simp [Data.receiveH, Data.receive]
    | httpReq m pa i =>
      cases d <;> simp [Data.receiveH, Data.receive]
      cases m <;> simp [Payload.isReply]
    | dns name r =>
      cases r with
      | none => cases d <;> simp [Data.receiveH, Data.receive, Payload.isReply]
      | some o => cases d <;> cases o <;> simp [Data.receiveH, Data.receive]
    | ntp r =>
      cases r with
      | none => cases d <;> simp [Data.receiveH, Data.receive, Payload.isReply]
      | some t => cases d <;> simp [Data.receiveH, Data.receive]

/-- **DNS server**: a request is answered with exactly what the table holds for the requested name — the registered address,
or "none" — sent back along the session and written into the packet; the table is untouched; the return value says whether
an address was found.  A packet that already carries a reply, and any other payload, is refused without effect. -/
theorem C13_dns_server_receive (tbl : List (String × Nat)) (now : Nat) (p : Payload) :
    (Data.dnsServer tbl).receive true now p =
      match p with
      | .dns name none =>
        (.dnsServer tbl, Ret.ofBool (dget name tbl).isSome, [(.session, .dns name (some (dget name tbl)))],
         .dns name (some (dget name tbl)))
      | _ => (.dnsServer tbl, .f, [], p) := by
  cases p <;> simp [Data.receive]
  rename_i name r
  cases r <;> simp [Data.receive]

/-- `dns_register` then `dns_lookup`: the registered name answers the registered address, every other name answers what it
answered before; on a server that may not act (not RUNNING / node not ON) registering changes nothing and looking up
answers none. -/
theorem C13_dns_register_lookup (nn : NetNode) (u : Nat) (tbl : List (String × Nat)) (name : String) (ip : Nat)
    (hd : dget u nn.data = some (.dnsServer tbl)) :
    (nn.n.handles u = true →
      (nn.dnsRegister u name ip).dnsLookup u name = some ip ∧
      ∀ other, other ≠ name → (nn.dnsRegister u name ip).dnsLookup u other = nn.dnsLookup u other) ∧
    (nn.n.handles u = false → nn.dnsRegister u name ip = nn ∧ ∀ x, nn.dnsLookup u x = none) := by
  constructor
  · intro hh
    have hn : (nn.setData u (Data.dnsServer (dset name ip tbl))).n = nn.n := rfl
    constructor
    · simp [NetNode.dnsRegister, NetNode.dnsLookup, hd, hh, NetNode.setData, dget_dset]
    · intro other ho
      simp [NetNode.dnsRegister, NetNode.dnsLookup, hd, hh, NetNode.setData, dget_dset, Ne.symm ho]
  · intro hh
    simp [NetNode.dnsRegister, NetNode.dnsLookup, hd, hh]

/-- **DNS client**: it caches exactly what was answered — a reply carrying an address is stored under the requested name
(True); a reply without an address, a request, and any other payload leave the cache as it is (False). -/
theorem C13_dns_client_receive (cache : List (String × Nat)) (srv : Option Nat) (now : Nat) (p : Payload) :
    (Data.dnsClient cache srv).receive true now p =
      match p with
      | .dns name (some (some ip)) => (.dnsClient (dset name ip cache) srv, .t, [], p)
      | _ => (.dnsClient cache srv, .f, [], p) := by
  cases p <;> simp [Data.receive]
  rename_i name r
  cases r with
  | none => simp [Data.receive]
  | some o => cases o <;> simp [Data.receive]

/-- **NTP server**: a request is answered with the clock reading (sent back along the session); a packet that carries a
reply, and any other payload, is refused.  **NTP client**: a reply sets the time to exactly the reading it carries; a
packet without a reply (another client's request) is refused — it used to raise. -/
theorem C13_ntp_receive (now : Nat) (t : Option Nat) (srv : Option Nat) (p : Payload) :
    (Data.ntpServer.receive true now p =
      match p with
      | .ntp none => (.ntpServer, .t, [(.session, .ntp (some now))], .ntp (some now))
      | _ => (.ntpServer, .f, [], p)) ∧
    ((Data.ntpClient t srv).receive true now p =
      match p with
      | .ntp (some r) => (.ntpClient (some r) srv, .t, [], p)
      | _ => (.ntpClient t srv, .f, [], p)) := by
  constructor <;> cases p <;> simp [Data.receive] <;> (rename_i r; cases r <;> simp [Data.receive])

/-- **Web server, status code.**  `GET` of the site root → 200; of a `users…` path → 200 with health GOOD when the database
answers the query, 404 with health COMPROMISED when the query fails, 500 (health untouched, nothing cached) when no database
connection can be had — a cached connection is reused, otherwise the node's database client is asked once and the connection
it hands out is cached; of any other path → 404. -/
theorem C13_web_get_status (path : PathKind) (conn db : Option Bool) :
    webGet path conn db =
      match path with
      | .root => (200, conn, none)
      | .other => (404, conn, none)
      | .users =>
        match (match conn with | some ok => some ok | none => db) with
        | none => (500, none, none)
        | some true => (200, some true, some .good)
        | some false => (404, some false, some .compromised) := by
  cases path with
  | root => rfl
  | other => rfl
  | users =>
    cases conn with
    | some ok => cases ok <;> rfl
    | none =>
      cases db with
      | none => rfl
      | some ok => cases ok <;> rfl

/-- **Web server, `receive`.**  A RUNNING web server answers every HTTP request with exactly one response, sent back along the
session, and records its status in `response_codes_this_timestep`: GET as `C13_web_get_status` says, POST and any other method
405 (every response carries a status); returns True iff the status is 200; health is written only by a `users…` GET that got
a connection.  Anything that is not an HTTP request is refused without effect. -/
theorem C13_web_server_receive (codes : List Nat) (conn : Option Bool) (now : Nat) (db : Option Bool) (p : Payload) :
    (Data.webServer codes conn).receiveH true now db p =
      match p with
      | .httpReq .get path _ =>
        ((.webServer (codes ++ [(webGet path conn db).1]) (webGet path conn db).2.1,
          Ret.ofBool ((webGet path conn db).1 == 200), [(.session, .httpResp (webGet path conn db).1)], p),
         (webGet path conn db).2.2)
      | .httpReq _ _ _ => ((.webServer (codes ++ [405]) conn, .f, [(.session, .httpResp 405)], p), none)
      | _ => ((.webServer codes conn, .f, [], p), none) := by
  cases p with
  | httpReq m path i => cases m <;> rfl
  | dns name r => cases r <;> rfl
  | ntp r => cases r <;> rfl
  | _ => rfl

/-- **Web browser, `receive`**: an HTTP response becomes `latest_response` (True); anything else is refused; history and the
configured target are not touched by `receive`. -/
theorem C13_web_browser_receive (latest : Option (Option Nat)) (hist : List (Nat × Option (Option Nat))) (tgt : Option Nat)
    (now : Nat) (db : Option Bool) (p : Payload) :
    (Data.webBrowser latest hist tgt).receiveH true now db p =
      match p with
      | .httpResp code => ((.webBrowser (some (some code)) hist tgt, .t, [], p), none)
      | _ => ((.webBrowser latest hist tgt, .f, [], p), none) := by
  cases p with
  | dns name r => cases r <;> rfl
  | ntp r => cases r <;> rfl
  | _ => rfl

/-- a web server that is not RUNNING (or whose node is not ON) answers nothing, records nothing, writes no health; a browser
that is not RUNNING keeps its `latest_response` (instances of `C13_receiveH_blocked`, stated for the two classes) -/
theorem C13_web_not_running (d : Data) (now : Nat) (hasDb : Option Bool) (p : Payload) :
    d.receiveH false now hasDb p = ((d, .f, [], p), none) := rfl

/-! ### two nodes: the transport keeps the running-guard, and a lookup / a time request end to end -/

theorem get_set_same (w : World) (side : Side) (nn : NetNode) : (w.set side nn).get side = nn := by
  cases side <;> rfl

theorem get_set_other (w : World) (side : Side) (nn : NetNode) : (w.set side nn).get side.other = w.get side.other := by
  cases side <;> rfl

/-- what `World.run` may change: nothing of either node's lifecycle / registries, no data of an object that may not act -/
def Frame (w w' : World) : Prop :=
  (∀ side, LifeEq (w.get side).n (w'.get side).n ∧ (w'.get side).addr = (w.get side).addr ∧ (w'.get side).now = (w.get side).now) ∧
  (∀ side v, (w.get side).n.handles v = false →
    dget v (w'.get side).data = dget v (w.get side).data ∧ actualOf (w'.get side).n v = actualOf (w.get side).n v) ∧
  (∃ extra, w'.log = w.log ++ extra ∧ ∀ e ∈ extra, e.2.handled = (w.get e.1).n.handles e.2.uid ∧
      (e.2.handled = false → e.2.ret = none ∨ e.2.ret = some .f))

theorem Frame.refl (w : World) : Frame w w :=
  ⟨fun _ => ⟨LifeEq.refl _, rfl, rfl⟩, fun _ _ _ => ⟨rfl, rfl⟩, [], by simp, by simp⟩

theorem Frame.trans {w1 w2 w3 : World} (h12 : Frame w1 w2) (h23 : Frame w2 w3) : Frame w1 w3 := by
  obtain ⟨a1, b1, e1, c1, d1⟩ := h12
  obtain ⟨a2, b2, e2, c2, d2⟩ := h23
  refine ⟨fun side => ⟨LifeEq.trans (a1 side).1 (a2 side).1, (a2 side).2.1.trans (a1 side).2.1, (a2 side).2.2.trans (a1 side).2.2⟩,
    fun side v hv => ?_, e1 ++ e2, by rw [c2, c1, List.append_assoc], ?_⟩
  · obtain ⟨x1, x2⟩ := b1 side v hv
    obtain ⟨y1, y2⟩ := b2 side v (by rw [(a1 side).1.handles]; exact hv)
    exact ⟨y1.trans x1, y2.trans x2⟩
  · intro e he
    rcases List.mem_append.mp he with he | he
    · exact d1 e he
    · have := d2 e he
      rw [(a1 e.1).1.handles] at this
      exact this

theorem recvAt_blocked_other (nn : NetNode) (u port proto : Nat) (p : Payload) (v : Nat) (hv : nn.n.handles v = false) :
    dget v (nn.recvAt u port proto p).1.data = dget v nn.data ∧ actualOf (nn.recvAt u port proto p).1.n v = actualOf nn.n v := by
  obtain ⟨h1, _, _, _, _, h6, h7, _⟩ := recvAt_spec nn u port proto p
  by_cases hvu : v = u
  · subst hvu
    obtain ⟨e1, e2, _⟩ := h7 hv
    exact ⟨e2, by rw [e1]⟩
  · exact ⟨h6 v hvu, h1.actualOf_ne v hvu⟩

/-- **The transport keeps the running-guard**: whatever is in flight and however long the exchange (any fuel, any stack of
pending frames and `receive` calls), no node's registries, power or operating states change (`LifeEq`), no object that may not
act has its data or its health changed, and every `receive` call made is recorded with `handled` = "node ON and RUNNING". -/
theorem C13_world_run_frame (f : Nat) (w : World) (items : List World.Item) : Frame w (World.run f w items) := by
  induction f generalizing w items with
  | zero =>
    cases items with
    | nil => simp only [World.run]; exact Frame.refl w
    | cons i rest =>
      simp only [World.run]
      exact ⟨fun side => by cases side <;> exact ⟨LifeEq.refl _, rfl, rfl⟩, fun side v _ => by cases side <;> exact ⟨rfl, rfl⟩,
        [], by simp, by simp⟩
  | succ f ih =>
    cases items with
    | nil => simp only [World.run]; exact Frame.refl w
    | cons i rest =>
      cases i with
      | tx side s =>
        simp only [World.run]
        split <;> exact ih _ _
      | rx side calls port proto p =>
        cases calls with
        | nil => simp only [World.run]; exact ih _ _
        | cons c us =>
          obtain ⟨u, copy⟩ := c
          simp only [World.run]
          refine Frame.trans ?_ (ih _ _)
          obtain ⟨h1, h2, h3, h4, h5, h6, h7, _⟩ := recvAt_spec (w.get side) u port proto p
          refine ⟨fun sd => ?_, fun sd v hv => ?_, [(side, ((w.get side).recvAt u port proto p).2.1)], rfl, ?_⟩
          · cases side <;> cases sd <;> first | exact ⟨h1.lifeEq, h3, h2⟩ | exact ⟨LifeEq.refl _, rfl, rfl⟩
          · cases side <;> cases sd <;> first
              | exact recvAt_blocked_other (w.get _) u port proto p v hv
              | exact ⟨rfl, rfl⟩
          · intro e he
            simp only [List.mem_singleton] at he
            subst he
            show (((w.get side).recvAt u port proto p).2.1.handled =
                (w.get side).n.handles ((w.get side).recvAt u port proto p).2.1.uid) ∧ _
            rw [h4]
            exact ⟨h5, fun hh => (h7 (h5 ▸ hh)).2.2.2.2⟩

/-- hence for every way of starting an exchange (a send, a DNS query, an NTP request, an injected frame) -/
theorem C13_world_only_running (w : World) (side : Side) (u ip port proto : Nat) (p : Payload) (name : String) (h : Hdr)
    (viaHost : Bool) :
    Frame w (w.send side u ip port proto p) ∧ Frame w (w.dnsQuery side u name).1 ∧ Frame w (w.ntpRequest side u) ∧
    Frame w (w.inject side viaHost h p).1 := by
  refine ⟨C13_world_run_frame _ _ _, ?_, ?_, ?_⟩
  · unfold World.dnsQuery
    split
    · exact Frame.refl w
    · exact Frame.refl w
    · exact C13_world_run_frame _ _ _
  · unfold World.ntpRequest
    split
    · exact C13_world_run_frame _ _ _
    · exact Frame.refl w
  · unfold World.inject
    split
    · exact Frame.refl w
    · split
      · exact Frame.refl w
      · exact C13_world_run_frame _ _ _

/-! ### a DNS lookup and an NTP time request, end to end -/

theorem handles_isOn (n : Node) (u : Nat) (h : n.handles u = true) : n.isOn = true := by
  unfold Node.handles at h
  simp only [Bool.and_eq_true] at h
  exact h.1

/-- **A DNS lookup, end to end.**  A DNS client `u` on one node (RUNNING, node ON, name not cached, configured with the
peer's address), the peer's port 53/tcp owned by a DNS server `v` (the only receiver there), the client the only receiver
of 53/tcp on its own node, both frames accepted.  Then `check_domain_exists(name)`:
* if the server is RUNNING on an ON node: answers True iff the name is registered; the client's cache afterwards is the
  old cache plus exactly `name ↦ registered address` (unchanged when the name is not registered); the server's table is
  untouched; the exchange ends (the transport does not run out of fuel);
* if the server may not act (not RUNNING): answers False and the cache is unchanged. -/
theorem C13_dns_lookup_end_to_end (w : World) (side : Side) (u v : Nat) (name : String)
    (cache tbl : List (String × Nat)) (srv : Nat)
    (hcl : dget u (w.get side).data = some (.dnsClient cache (some srv)))
    (hact : (w.get side).n.handles u = true)
    (hmiss : dhas name cache = false)
    (haddr : srv = (w.get side.other).addr)
    (hon : (w.get side.other).n.isOn = true)
    (hacc : (w.get side.other).n.frameAccepted (.tcp 53) false = true)
    (hpath : recvCalls (w.get side.other).n 53 1 false = [(v, false)])
    (hsrv : dget v (w.get side.other).data = some (.dnsServer tbl))
    (hacc2 : (w.get side).n.frameAccepted (.tcp 53) false = true)
    (hpath2 : recvCalls (w.get side).n 53 1 false = [(u, false)]) :
    ((w.get side.other).n.handles v = true →
      (w.dnsQuery side u name).2 = (dget name tbl).isSome ∧
      dget u ((w.dnsQuery side u name).1.get side).data =
        some (.dnsClient (match dget name tbl with | some ip => dset name ip cache | none => cache) (some srv)) ∧
      dget v ((w.dnsQuery side u name).1.get side.other).data = some (.dnsServer tbl) ∧
      (w.dnsQuery side u name).1.overflow = w.overflow) ∧
    ((w.get side.other).n.handles v = false →
      (w.dnsQuery side u name).2 = false ∧
      dget u ((w.dnsQuery side u name).1.get side).data = some (.dnsClient cache (some srv))) := by
  have hon1 := handles_isOn _ _ hact
  have hloc : (w.get side).dnsLookupLocal u name = .inr srv := by
    simp [NetNode.dnsLookupLocal, hcl, hact, hmiss]
  subst haddr
  have hm : dget name cache = none := by
    unfold dhas at hmiss
    cases h : dget name cache with
    | none => rfl
    | some x => simp [h] at hmiss
  constructor
  · intro hsact
    cases side <;>
      simp only [Side.other, World.get] at hcl hact hon hacc hpath hsrv hacc2 hpath2 hsact hon1 hloc ⊢ <;>
      (cases hlk : dget name tbl <;>
        simp only [World.dnsQuery, World.send, World.fuel, hloc, World.run, World.get, World.set, NetNode.recvAt, hsrv, hsact,
          Data.receiveH, Data.receive, applyHealthWrite, hlk, Bool.not_true, Bool.false_eq_true, if_false, List.map_cons, List.map_nil, List.cons_append,
          List.nil_append, World.route, Side.other, World.hdrOf, if_true, hon, hon1, hacc, hacc2, Payload.isScan,
          Bool.and_self, Bool.and_true, hpath, hpath2, hcl, hact, dget_dset, NetNode.dnsCached, beq_self_eq_true,
          Bool.true_and, Option.isSome_none, Option.isSome_some, Ret.ofBool, hm, and_self, and_true, true_and])
  · intro hsact
    cases side <;>
      simp only [Side.other, World.get] at hcl hact hon hacc hpath hsrv hacc2 hpath2 hsact hon1 hloc ⊢ <;>
      simp only [World.dnsQuery, World.send, World.fuel, hloc, World.run, World.get, World.set, NetNode.recvAt, hsrv, hsact,
        Data.receiveH, Data.receive, applyHealthWrite, Bool.not_false, if_true, List.map_nil, List.nil_append, World.route, Side.other, World.hdrOf, hon,
        hon1, hacc, hacc2, Payload.isScan, Bool.and_self, Bool.and_true, hpath, hpath2, hcl, hact, dget_dset,
        NetNode.dnsCached, beq_self_eq_true, Bool.true_and, hm, Option.isSome_none] <;>
      exact ⟨trivial, trivial⟩

/-- non-vacuity of `C13_dns_lookup_end_to_end`, and the lookup of an unregistered name: node a = a computer's dns-client
configured with b's address, node b = dns-client + dns-server (the server, installed later, owns 53/tcp). -/
example :
    let cl : Cls := { cid := "DNSClient", name := "dns-client", port := 53, proto := 1 }
    let sv : Cls := { cid := "DNSServer", name := "dns-server", port := 53, proto := 1 }
    let a : NetNode := (({ addr := 1, n := ({} : Node).run [.installSvc cl true [] .good 2] } : NetNode).adopt).setData 0
      (.dnsClient [] (some 2))
    let b : NetNode := (({ addr := 2, n := ({} : Node).run [.installSvc cl true [] .good 2, .installSvc sv true [] .good 2] } :
      NetNode).adopt).setData 1 (.dnsServer [("x.test", 77)])
    let w : World := { a := a, b := b }
    (w.dnsQuery .a 0 "x.test").2 = true ∧ (w.dnsQuery .a 0 "x.test").1.a.dnsCached 0 "x.test" = some 77 ∧
    (w.dnsQuery .a 0 "y.test").2 = false ∧ (w.dnsQuery .a 0 "y.test").1.a.data = a.data ∧
    (w.dnsQuery .a 0 "x.test").1.log.map (fun e => (e.1, e.2.uid, e.2.handled)) = [(.b, 1, true), (.a, 0, true)] := by decide

/-- **A frame for a closed port changes nothing**: when the peer does not accept the frame (its port has no RUNNING owner,
or a node is not ON), a send leaves the whole world as it was. -/
theorem C13_closed_port_drops (w : World) (side : Side) (u ip port proto : Nat) (p : Payload)
    (h : w.route side { src := u, dst := .ip ip, port := port, proto := proto, payload := p } = none) :
    w.send side u ip port proto p = w := by
  simp [World.send, World.fuel, World.run, h]

theorem route_none_of_closed (w : World) (side : Side) (s : Sent)
    (h : ∀ hd, World.hdrOf s.port s.proto = some hd → (w.get side.other).n.frameAccepted hd s.payload.isScan = false) :
    w.route side s = none := by
  unfold World.route
  cases hh : World.hdrOf s.port s.proto with
  | none => rfl
  | some hd => simp [h hd hh]

theorem hdrOf_udp (p : Nat) : World.hdrOf p 2 = some (.udp p) := by simp [World.hdrOf]

/-- **An NTP time request, end to end.**  An NTP client `u` configured with the peer's address, both nodes ON, 123/udp on
the peer owned by an NTP server `v` (the only receiver there), the client the only receiver of 123/udp on its own node,
both frames accepted.  After `request_time()`: if both the server and the client are RUNNING, the client's time is exactly the
server's clock reading; if either is not RUNNING, the client's time is what it was. -/
theorem C13_ntp_request_end_to_end (w : World) (side : Side) (u v : Nat) (t : Option Nat) (srv : Nat)
    (hcl : dget u (w.get side).data = some (.ntpClient t (some srv)))
    (haddr : srv = (w.get side.other).addr)
    (hon1 : (w.get side).n.isOn = true)
    (hon : (w.get side.other).n.isOn = true)
    (hacc : (w.get side.other).n.frameAccepted (.udp 123) false = true)
    (hpath : recvCalls (w.get side.other).n 123 2 false = [(v, false)])
    (hsrv : dget v (w.get side.other).data = some .ntpServer)
    (hacc2 : (w.get side).n.frameAccepted (.udp 123) false = true)
    (hpath2 : recvCalls (w.get side).n 123 2 false = [(u, false)]) :
    ((w.get side.other).n.handles v = true → (w.get side).n.handles u = true →
      ((w.ntpRequest side u).get side).ntpTime u = some (w.get side.other).now ∧
      (w.ntpRequest side u).overflow = w.overflow) ∧
    ((w.get side.other).n.handles v = false ∨ (w.get side).n.handles u = false →
      ((w.ntpRequest side u).get side).ntpTime u = t) := by
  subst haddr
  constructor
  · intro hsact hact
    cases side <;>
      simp only [Side.other, World.get] at hcl hon hon1 hacc hpath hsrv hacc2 hpath2 hsact hact ⊢ <;>
      simp only [World.ntpRequest, World.send, World.fuel, World.run, World.get, World.set, NetNode.recvAt, hsrv, hsact,
        Data.receiveH, Data.receive, applyHealthWrite, Bool.not_true, Bool.false_eq_true, if_false, List.map_cons, List.map_nil, List.cons_append,
        List.nil_append, World.route, Side.other, hdrOf_udp, if_true, hon, hon1, hacc, hacc2, Payload.isScan,
        Bool.and_self, Bool.and_true, hpath, hpath2, hcl, hact, dget_dset, NetNode.ntpTime, beq_self_eq_true,
        Bool.true_and, and_self, and_true, true_and] <;>
      simp [dget_dset]
  · intro hor
    rcases hor with hsact | hact
    · cases side <;>
        simp only [Side.other, World.get] at hcl hon hon1 hacc hpath hsrv hacc2 hpath2 hsact ⊢ <;>
        simp only [World.ntpRequest, World.send, World.fuel, World.run, World.get, World.set, NetNode.recvAt, hsrv, hsact,
          Data.receiveH, Data.receive, applyHealthWrite, Bool.not_false, if_true, List.map_nil, List.nil_append, World.route, Side.other, hdrOf_udp, hon,
          hon1, hacc, hacc2, Payload.isScan, Bool.and_self, Bool.and_true, hpath, hpath2, hcl, dget_dset, NetNode.ntpTime,
          beq_self_eq_true, Bool.true_and] <;>
        simp [dget_dset, hcl]
    · cases hsact : (w.get side.other).n.handles v <;>
      cases side <;>
        simp only [Side.other, World.get] at hcl hon hon1 hacc hpath hsrv hacc2 hpath2 hsact hact ⊢ <;>
        simp only [World.ntpRequest, World.send, World.fuel, World.run, World.get, World.set, NetNode.recvAt, hsrv, hsact, hact,
          Data.receiveH, Data.receive, applyHealthWrite, Bool.not_false, Bool.not_true, Bool.false_eq_true, if_false, if_true, List.map_nil, List.map_cons,
          List.cons_append, List.nil_append, World.route, Side.other, hdrOf_udp, hon,
          hon1, hacc, hacc2, Payload.isScan, Bool.and_self, Bool.and_true, hpath, hpath2, hcl, dget_dset, NetNode.ntpTime,
          beq_self_eq_true, Bool.true_and] <;>
        simp [dget_dset, hcl]

/-! ### browsing, end to end -/

theorem hdrOf_tcp (p : Nat) : World.hdrOf p 1 = some (.tcp p) := by simp [World.hdrOf]

theorem isOn_healthWrite (n : Node) (u : Nat) (hw : HealthWrite) : (applyHealthWrite n u hw).isOn = n.isOn := by
  cases hw <;> rfl

/-- **A page fetch, end to end.**  A RUNNING web browser `u` on an ON node fetches a URL whose host name is in the cache of
the node's (RUNNING) DNS client and resolves to the peer's address; the peer is ON, the URL's port (80 by default) is owned
there by a web server `v` as the only receiver, and the browser is the only receiver of that port on its own node, both
frames accepted.  Then `get_webpage`:
* if the web server is RUNNING: the status is what `C13_web_get_status` says for the URL's path and the server's database
  situation; the browser's `latest_response` is that status, its history gains exactly `(url, LOADED status)`, the answer is
  True iff the status is 200; the server's `response_codes_this_timestep` gains exactly that status;
* if the web server may not act: nothing answers — `latest_response` stays at the preset 404, the history gains
  `(url, LOADED 404)`, the answer is False, the server's data is untouched. -/
theorem C13_browse_end_to_end (w : World) (side : Side) (u dc v : Nat) (url : World.Url) (name : String) (ip : Nat)
    (latest : Option (Option Nat)) (hist : List (Nat × Option (Option Nat))) (tgt : Option Nat)
    (cache : List (String × Nat)) (srv : Option Nat) (codes : List Nat) (conn : Option Bool)
    (hbr : dget u (w.get side).data = some (.webBrowser latest hist tgt))
    (hact : (w.get side).n.handles u = true)
    (hhost : url.host = .name name)
    (hdc : dget "dns-client" (w.get side).n.software = some dc) (hne : u ≠ dc)
    (hdcd : dget dc (w.get side).data = some (.dnsClient cache srv))
    (hdcact : (w.get side).n.handles dc = true)
    (hcached : dget name cache = some ip)
    (hip : ip = (w.get side.other).addr)
    (hon : (w.get side.other).n.isOn = true)
    (hacc : (w.get side.other).n.frameAccepted (.tcp (url.port.getD 80)) false = true)
    (hpath : recvCalls (w.get side.other).n (url.port.getD 80) 1 false = [(v, false)])
    (hsrv : dget v (w.get side.other).data = some (.webServer codes conn))
    (hacc2 : (w.get side).n.frameAccepted (.tcp (url.port.getD 80)) false = true)
    (hpath2 : recvCalls (w.get side).n (url.port.getD 80) 1 false = [(u, false)]) :
    let code := (webGet url.path conn (w.get side.other).dbVerdict).1
    ((w.get side.other).n.handles v = true →
      (w.browse side u (some url)).2 = .ret (code == 200) ∧
      dget u ((w.browse side u (some url)).1.get side).data =
        some (.webBrowser (some (some code)) (hist ++ [(url.id, some (some code))]) tgt) ∧
      dget v ((w.browse side u (some url)).1.get side.other).data =
        some (.webServer (codes ++ [code]) (webGet url.path conn (w.get side.other).dbVerdict).2.1)) ∧
    ((w.get side.other).n.handles v = false →
      (w.browse side u (some url)).2 = .ret false ∧
      dget u ((w.browse side u (some url)).1.get side).data =
        some (.webBrowser (some (some 404)) (hist ++ [(url.id, some (some 404))]) tgt) ∧
      dget v ((w.browse side u (some url)).1.get side.other).data = some (.webServer codes conn)) := by
  intro code
  have hon1 := handles_isOn _ _ hact
  subst hip
  have hne' : ¬ dc = u := fun h => hne h.symm
  have hc : dhas name cache = true := by simp [dhas, hcached]
  constructor
  · intro hsact
    cases side <;>
      simp only [Side.other, World.get] at hbr hact hdc hdcd hdcact hon hacc hpath hsrv hacc2 hpath2 hsact hon1 ⊢ <;>
      simp only [World.browse, World.get, World.set, hbr, hact, Bool.not_true, Bool.false_eq_true, if_false, NetNode.setData,
        hdc, World.dnsQuery, NetNode.dnsLookupLocal, dget_dset, hne, hne', hdcd, hdcact, hc, if_true, hhost, World.Host.text,
        NetNode.dnsCached, hcached, World.sendOk, Side.other, beq_self_eq_true, hon, hon1, Bool.and_self, Bool.true_and,
        World.send, World.fuel, World.run, World.route, hdrOf_tcp, hacc, hacc2, Payload.isScan, hpath, hpath2,
        NetNode.recvAt, hsrv, hsact, Data.receiveH, List.map_cons, List.map_nil, List.cons_append, List.nil_append,
        isOn_healthWrite, Option.getD_some, Bool.and_true] <;>
      exact ⟨by simp [code, World.get, Side.other], rfl, rfl⟩
  · intro hsact
    cases side <;>
      simp only [Side.other, World.get] at hbr hact hdc hdcd hdcact hon hacc hpath hsrv hacc2 hpath2 hsact hon1 ⊢ <;>
      simp only [World.browse, World.get, World.set, hbr, hact, Bool.not_true, Bool.false_eq_true, if_false, NetNode.setData,
        hdc, World.dnsQuery, NetNode.dnsLookupLocal, dget_dset, hne, hne', hdcd, hdcact, hc, if_true, hhost, World.Host.text,
        NetNode.dnsCached, hcached, World.sendOk, Side.other, beq_self_eq_true, hon, hon1, Bool.and_self, Bool.true_and,
        World.send, World.fuel, World.run, World.route, hdrOf_tcp, hacc, hacc2, Payload.isScan, hpath, hpath2,
        NetNode.recvAt, hsrv, hsact, Data.receiveH, Bool.not_false, applyHealthWrite, List.map_nil, List.nil_append,
        Option.getD_some, Bool.and_true] <;>
      exact ⟨by decide, trivial, trivial⟩

/-- **Fetching on a node whose dns-client has been uninstalled** (the repaired `get_webpage`; it used to raise): nobody is
asked to resolve anything.  A URL whose host is a NAME fails the documented way — `latest_response` is the preset 404, the history
gains nothing, no `receive` call is made anywhere, the answer is False.  A URL whose host is a literal ADDRESS is fetched exactly
as on a node with a dns-client (minus the DNS traffic): same status, same history entry, same effect on the server. -/
theorem C13_browse_without_dns_client (w : World) (side : Side) (u v : Nat) (url : World.Url)
    (latest : Option (Option Nat)) (hist : List (Nat × Option (Option Nat))) (tgt : Option Nat)
    (codes : List Nat) (conn : Option Bool)
    (hbr : dget u (w.get side).data = some (.webBrowser latest hist tgt))
    (hact : (w.get side).n.handles u = true)
    (hdc : dget "dns-client" (w.get side).n.software = none) :
    (∀ name, url.host = .name name →
      (w.browse side u (some url)).2 = .ret false ∧
      dget u ((w.browse side u (some url)).1.get side).data = some (.webBrowser (some (some 404)) hist tgt) ∧
      (w.browse side u (some url)).1.log = w.log) ∧
    (∀ text, url.host = .addr (w.get side.other).addr text →
      (w.get side.other).n.isOn = true →
      (w.get side.other).n.frameAccepted (.tcp (url.port.getD 80)) false = true →
      recvCalls (w.get side.other).n (url.port.getD 80) 1 false = [(v, false)] →
      dget v (w.get side.other).data = some (.webServer codes conn) →
      (w.get side.other).n.handles v = true →
      (w.get side).n.frameAccepted (.tcp (url.port.getD 80)) false = true →
      recvCalls (w.get side).n (url.port.getD 80) 1 false = [(u, false)] →
      let code := (webGet url.path conn (w.get side.other).dbVerdict).1
      (w.browse side u (some url)).2 = .ret (code == 200) ∧
      dget u ((w.browse side u (some url)).1.get side).data =
        some (.webBrowser (some (some code)) (hist ++ [(url.id, some (some code))]) tgt) ∧
      dget v ((w.browse side u (some url)).1.get side.other).data =
        some (.webServer (codes ++ [code]) (webGet url.path conn (w.get side.other).dbVerdict).2.1)) := by
  have hon1 := handles_isOn _ _ hact
  constructor
  · intro name hhost
    cases side <;>
      simp only [World.get] at hbr hact hdc ⊢ <;>
      simp only [World.browse, World.get, World.set, hbr, hact, Bool.not_true, Bool.false_eq_true, if_false, NetNode.setData,
        hdc, hhost, dget_dset, if_true] <;>
      exact ⟨trivial, trivial, trivial⟩
  · intro text hhost hon hacc hpath hsrv hsact hacc2 hpath2 code
    cases side <;>
      simp only [Side.other, World.get] at hbr hact hdc hon hacc hpath hsrv hacc2 hpath2 hsact hon1 hhost ⊢ <;>
      simp only [World.browse, World.get, World.set, hbr, hact, Bool.not_true, Bool.false_eq_true, if_false, NetNode.setData,
        hdc, dget_dset, if_true, hhost, World.sendOk, Side.other, beq_self_eq_true, hon, hon1, Bool.and_self, Bool.true_and,
        World.send, World.fuel, World.run, World.route, hdrOf_tcp, hacc, hacc2, Payload.isScan, hpath, hpath2,
        NetNode.recvAt, hsrv, hsact, Data.receiveH, List.map_cons, List.map_nil, List.cons_append, List.nil_append,
        isOn_healthWrite, Option.getD_some, Bool.and_true] <;>
      exact ⟨by simp [code, World.get, Side.other], rfl, rfl⟩

/-! ### the transport terminates -/

theorem recvCalls_length_le (n : Node) (port proto : Nat) (scan : Bool) :
    (recvCalls n port proto scan).length ≤ n.software.length + 1 := by
  unfold recvCalls receivePath
  cases scan
  · simp only [Bool.false_eq_true, if_false, List.length_map, List.length_append, List.append_nil]
    have h2 : ∀ mr : Option SwView, ((softwareValues n).filter fun software =>
        software.listen.contains port && (some software != mr)).length ≤ n.software.length := fun mr =>
      Nat.le_trans (List.length_filter_le _ _) (by unfold softwareValues; exact List.length_filterMap_le _ _)
    cases hm : portMapGet n (port, proto) with
    | none => have := h2 none; simp only [List.length_nil]; omega
    | some x => have := h2 (some x); simp only [List.length_cons, List.length_nil]; omega
  · simp only [if_true, List.append_nil, List.length_map]
    cases softwareGet n "nmap" <;> simp

/-- what one `receive` call can put on the wire: nothing for a payload that carries a reply, at most one reply otherwise;
a payload that carries a reply is left as it is, any other payload stays what it was or becomes a reply -/
theorem recvAt_sends (nn : NetNode) (u port proto : Nat) (p : Payload) :
    (p.isReply = true → (nn.recvAt u port proto p).2.2.1 = [] ∧ (nn.recvAt u port proto p).2.2.2 = p) ∧
    (nn.recvAt u port proto p).2.2.1.length ≤ 1 ∧
    (∀ s ∈ (nn.recvAt u port proto p).2.2.1, s.payload.isReply = true) ∧
    ((nn.recvAt u port proto p).2.2.2 = p ∨ (nn.recvAt u port proto p).2.2.2.isReply = true) := by
  unfold NetNode.recvAt
  cases hd : dget u nn.data with
  | none => simp
  | some d =>
    obtain ⟨s1, s2, s3⟩ := C13_sends_are_replies d (nn.n.handles u) nn.now nn.dbVerdict p
    simp only
    refine ⟨?_, by simpa using s2, ?_, s3⟩
    · intro hp
      have := C13_reply_never_answered d (nn.n.handles u) nn.now nn.dbVerdict p hp
      exact ⟨by rw [this.1]; rfl, this.2⟩
    · intro s hs
      simp only [List.mem_map] at hs
      obtain ⟨x, hx, rfl⟩ := hs
      exact (s1 x hx).2

/-- cost of one `receive` call still to be made with payload `p`: the call itself, and — unless `p` carries a reply, which is
never answered — one reply on the wire (`K + 2`: the frame, at most `K` `receive` calls for it, the end of that delivery) -/
def callCost (K : Nat) (p : Payload) : Nat := if p.isReply then 1 else K + 3

def itemCost (K : Nat) : World.Item → Nat
  | .tx _ s => 2 + K * callCost K s.payload
  | .rx _ calls _ _ p => 1 + calls.length * callCost K p

def stackCost (K : Nat) : List World.Item → Nat
  | [] => 0
  | i :: t => itemCost K i + stackCost K t

theorem stackCost_append (K : Nat) (l1 l2 : List World.Item) : stackCost K (l1 ++ l2) = stackCost K l1 + stackCost K l2 := by
  induction l1 with
  | nil => simp [stackCost]
  | cons a t ih => simp [stackCost, ih, Nat.add_assoc]

theorem callCost_le (K : Nat) (p : Payload) : callCost K p ≤ K + 3 := by
  unfold callCost; split <;> omega

theorem callCost_pos (K : Nat) (p : Payload) : 1 ≤ callCost K p := by
  unfold callCost; split <;> omega

/-- every delivery on either node has at most `K` receivers -/
def Small (K : Nat) (w : World) : Prop := w.a.n.software.length + 1 ≤ K ∧ w.b.n.software.length + 1 ≤ K

/-- **The transport terminates.**  With at most `K - 1` programs installed per node, any stack of pending frames and
`receive` calls is worked off within `stackCost K` steps: `run` does not run out of fuel.  (Each step lowers the cost: a reply
is never answered, and anything else is answered by at most one reply.) -/
theorem C13_world_run_terminates (K : Nat) (f : Nat) (w : World) (items : List World.Item) (hs : Small K w)
    (hf : stackCost K items ≤ f) : (World.run f w items).overflow = w.overflow := by
  induction f generalizing w items with
  | zero =>
    cases items with
    | nil => rfl
    | cons i t =>
      exfalso
      cases i with
      | tx side s => simp only [stackCost, itemCost] at hf; omega
      | rx side calls port proto p => simp only [stackCost, itemCost] at hf; omega
  | succ f ih =>
    cases items with
    | nil => rfl
    | cons i rest =>
      cases i with
      | tx side s =>
        simp only [stackCost, itemCost] at hf
        simp only [World.run]
        split
        · exact ih w rest hs (by omega)
        · rename_i tgt _
          refine ih w _ hs ?_
          simp only [stackCost, itemCost]
          have hlen : (recvCalls (w.get tgt).n s.port s.proto s.payload.isScan).length ≤ K := by
            have := recvCalls_length_le (w.get tgt).n s.port s.proto s.payload.isScan
            cases tgt
            · have := hs.1; simp only [World.get] at *; omega
            · have := hs.2; simp only [World.get] at *; omega
          have := Nat.mul_le_mul_right (callCost K s.payload) hlen
          omega
      | rx side calls port proto p =>
        cases calls with
        | nil =>
          simp only [stackCost, itemCost] at hf
          simp only [World.run]
          exact ih w rest hs (by omega)
        | cons c us =>
          obtain ⟨u, copy⟩ := c
          simp only [stackCost, itemCost, List.length_cons] at hf
          obtain ⟨h1, _, _, _, _, _, _, _⟩ := recvAt_spec (w.get side) u port proto p
          obtain ⟨r1, r2, r3, _⟩ := recvAt_sends (w.get side) u port proto p
          rcases hR : (w.get side).recvAt u port proto p with ⟨nn', r, sents, p'⟩
          simp only [hR] at h1 r1 r2 r3
          simp only [World.run, hR]
          have hs' : Small K { w.set side nn' with log := w.log ++ [(side, r)] } := by
            cases side
            · exact ⟨by show nn'.n.software.length + 1 ≤ K; rw [h1.lifeEq.software]; exact hs.1, hs.2⟩
            · exact ⟨hs.1, by show nn'.n.software.length + 1 ≤ K; rw [h1.lifeEq.software]; exact hs.2⟩
          have hov : ({ w.set side nn' with log := w.log ++ [(side, r)] } : World).overflow = w.overflow := by
            cases side <;> rfl
          rw [← hov]
          refine ih _ _ hs' ?_
          rw [stackCost_append]
          simp only [stackCost, itemCost]
          -- the cost of what this call put on the wire
          have hsent : stackCost K (sents.map (World.Item.tx side)) + 1 ≤ callCost K p ∧
              callCost K (if copy = true then p else p') ≤ callCost K p := by
            by_cases hp : p.isReply = true
            · obtain ⟨e1, e2⟩ := r1 hp
              subst e1; subst e2
              simp [stackCost, callCost, hp]
            · have hcp : callCost K p = K + 3 := by simp [callCost, hp]
              refine ⟨?_, by rw [hcp]; exact callCost_le K _⟩
              rw [hcp]
              cases sents with
              | nil => simp [stackCost]
              | cons s t =>
                have ht : t = [] := by
                  simp only [List.length_cons] at r2
                  cases t with
                  | nil => rfl
                  | cons _ _ => simp at r2
                subst ht
                have hr : s.payload.isReply = true := r3 s (by simp)
                simp [stackCost, itemCost, callCost, hr]
                omega
          have hm := Nat.mul_le_mul_left us.length hsent.2
          have hexp : (us.length + 1) * callCost K p = us.length * callCost K p + callCost K p := by
            rw [Nat.add_mul, Nat.one_mul]
          omega

/-- in particular a single payload put on the wire by `send`, with everything it triggers, is worked off within
`2 + K * (K + 3)` steps -/
theorem C13_send_terminates (K : Nat) (w : World) (hs : Small K w) (side : Side) (u ip port proto : Nat) (p : Payload)
    (hfuel : 2 + K * (K + 3) ≤ World.fuel) : (w.send side u ip port proto p).overflow = w.overflow := by
  unfold World.send
  refine C13_world_run_terminates K _ w _ hs ?_
  simp only [stackCost, itemCost]
  have := Nat.mul_le_mul_left K (callCost_le K p)
  omega

/-! ### the bound `Small K` follows from the class registry

Software is installed from the shipped classes, each under its class's `name`, and a node never holds two programs under one
name (`Rep.namesNodup`): so a node holds at most as many programs as there are distinct shipped names — a constant
regenerated from the source (`Gen.Software.classes`). -/

/-- the names under which shipped classes install themselves (regenerated class table) -/
def shippedNames : List String := (Gen.Software.classes.map (·.2.1)).eraseDups

/-- the operation installs only software of a class named in `S` (every other operation qualifies) -/
def _root_.Primaite.Registries.Op.installsFrom (S : List String) : Op → Prop
  | .installSvc c _ _ _ _ => c.name ∈ S
  | .installApp c _ _ _ _ => c.name ∈ S
  | .reqInstall _ (some (c, _)) => c.name ∈ S
  | _ => True

theorem mem_ddel {κ ν} [DecidableEq κ] (l : List (κ × ν)) (k : κ) (x : κ × ν) (h : x ∈ ddel k l) : x ∈ l := by
  induction l with
  | nil => simp [ddel] at h
  | cons a t ih =>
    obtain ⟨ka, va⟩ := a
    simp only [ddel] at h
    by_cases hk : ka = k
    · simp only [hk, if_true] at h; exact List.mem_cons_of_mem _ h
    · simp only [hk, if_false, List.mem_cons] at h
      rcases h with h | h
      · simp [h]
      · exact List.mem_cons_of_mem _ (ih h)

theorem uninstall_software_sub (n n' : Node) (name : String) (h : n.uninstall name = some n') :
    ∀ x ∈ n'.software, x ∈ n.software := by
  unfold Node.uninstall at h
  split at h
  · cases h; exact fun _ hx => hx
  · split at h
    · split at h
      · cases h; exact fun x hx => mem_ddel _ _ x hx
      · cases h
    · split at h
      · split at h
        · cases h; exact fun x hx => mem_ddel _ _ x hx
        · cases h
      · cases h; exact fun x hx => mem_ddel _ _ x hx

theorem evict_software_sub (n n1 : Node) (name : String) (h : n.evict name = some n1) : ∀ x ∈ n1.software, x ∈ n.software := by
  unfold Node.evict at h
  split at h
  · exact uninstall_software_sub n n1 name h
  · cases h; exact fun _ hx => hx

theorem installSvc_software (n n' : Node) (c : Cls) (cfg : Bool) (l : List Nat) (hl : Health) (f : Int)
    (h : n.installSvc c cfg l hl f = some n') : ∀ x ∈ n'.software, x ∈ n.software ∨ x.1 = c.name := by
  unfold Node.installSvc at h
  split at h
  · cases h; exact fun x hx => Or.inl hx
  · cases he : n.evict c.name with
    | none => simp [he] at h
    | some n1 =>
      simp only [he, Option.map_some, Option.some.injEq] at h
      subst h
      intro x hx
      rcases mem_dset _ _ _ x (show x ∈ dset c.name n1.next n1.software from hx) with hx | hx
      · exact Or.inl (evict_software_sub n n1 c.name he x hx)
      · exact Or.inr (by rw [hx])

theorem installApp_software (n n' : Node) (c : Cls) (cfg : Bool) (l : List Nat) (hl : Health) (f : Int)
    (h : n.installApp c cfg l hl f = some n') : ∀ x ∈ n'.software, x ∈ n.software ∨ x.1 = c.name := by
  unfold Node.installApp at h
  split at h
  · cases h; exact fun x hx => Or.inl hx
  · cases he : n.evict c.name with
    | none => simp [he] at h
    | some n1 =>
      simp only [he, Option.map_some, Option.some.injEq] at h
      subst h
      intro x hx
      rcases mem_dset _ _ _ x (show x ∈ dset c.name n1.next n1.software from hx) with hx | hx
      · exact Or.inl (evict_software_sub n n1 c.name he x hx)
      · exact Or.inr (by rw [hx])

/-- one operation: every program listed afterwards was listed before, or is the one the operation installs -/
theorem step_software_names (S : List String) (n : Node) (op : Op) (hop : op.installsFrom S)
    (h : ∀ x ∈ n.software, x.1 ∈ S) : ∀ x ∈ (n.step op).1.software, x.1 ∈ S := by
  have same : ∀ n' : Node, n'.software = n.software → ∀ x ∈ n'.software, x.1 ∈ S := fun n' e x hx => h x (e ▸ hx)
  cases op with
  | installSvc c cfg l hl f =>
    simp only [Node.step]
    cases hi : n.installSvc c cfg l hl f with
    | none => exact same n rfl
    | some n' =>
      intro x hx
      rcases installSvc_software n n' c cfg l hl f hi x hx with hx | hx
      · exact h x hx
      · rw [hx]; exact hop
  | installApp c cfg l hl f =>
    simp only [Node.step]
    cases hi : n.installApp c cfg l hl f with
    | none => exact same n rfl
    | some n' =>
      intro x hx
      rcases installApp_software n n' c cfg l hl f hi x hx with hx | hx
      · exact h x hx
      · rw [hx]; exact hop
  | uninstall name =>
    simp only [Node.step]
    cases hu : n.uninstall name with
    | none => exact same n rfl
    | some n' => exact fun x hx => h x (uninstall_software_sub n n' name hu x hx)
  | reqInstall name c =>
    simp only [Node.step]
    split
    · exact same n rfl
    · split
      · exact same n rfl
      · cases c with
        | none => exact same n rfl
        | some cl =>
          obtain ⟨c, l⟩ := cl
          cases hi : n.installApp c false l .good 2 with
          | none => simp only [hi]; exact same n rfl
          | some n1 =>
            simp only [hi]
            have key : ∀ x ∈ n1.software, x.1 ∈ S := by
              intro x hx
              rcases installApp_software n n1 c false l .good 2 hi x hx with hx | hx
              · exact h x hx
              · rw [hx]; exact hop
            split
            · exact key
            · exact key
  | reqUninstall name =>
    simp only [Node.step]
    split
    · exact same n rfl
    · split
      · exact same n rfl
      · cases hu : n.uninstall name with
        | none => exact same n rfl
        | some n' => exact fun x hx => h x (uninstall_software_sub n n' name hu x hx)
  | svcReq name r => exact same _ rfl
  | appReq name r => exact same _ rfl
  | svcApi u e =>
    simp only [Node.step]
    split
    · split <;> exact same _ rfl
    · exact same _ rfl
  | appApi u e =>
    simp only [Node.step]
    split
    · split <;> exact same _ rfl
    · exact same _ rfl
  | tick => simp only [Node.step]; split <;> exact same _ rfl
  | powerOn =>
    simp only [Node.step]
    split
    · exact same _ rfl
    · split <;> exact same _ rfl
  | powerOff =>
    simp only [Node.step]
    split
    · exact same _ rfl
    · split <;> exact same _ rfl
  | reqStartup =>
    simp only [Node.step]
    split
    · exact same _ rfl
    · split <;> exact same _ rfl
  | reqShutdown =>
    simp only [Node.step]
    split
    · exact same _ rfl
    · split <;> exact same _ rfl
  | deliver p pr sc => exact same _ rfl
  | frame hd sc => simp only [Node.step]; split <;> exact same _ rfl
  | send u => simp only [Node.step]; split <;> exact same _ rfl

theorem run_software_names (S : List String) (ops : List Op) (n : Node) (hops : ∀ op ∈ ops, op.installsFrom S)
    (h : ∀ x ∈ n.software, x.1 ∈ S) : ∀ x ∈ (n.run ops).software, x.1 ∈ S := by
  induction ops generalizing n with
  | nil => exact h
  | cons op ops ih =>
    exact ih _ (fun o ho => hops o (by simp [ho])) (step_software_names S n op (hops op (by simp)) h)

/-- **A node never holds more programs than there are names in the class registry**: after any operation sequence that
installs from `S`, the software list is no longer than `S`. -/
theorem C13_software_count_le (S : List String) (p : Power) (up down : Int) (ops : List Op)
    (hops : ∀ op ∈ ops, op.installsFrom S) :
    (Node.run { power := p, upDur := up, downDur := down } ops).software.length ≤ S.length := by
  obtain ⟨es, hr⟩ := rep_run ops _ [] (C13_rep_init p up down)
  have hn := run_software_names S ops { power := p, upDur := up, downDur := down } hops (by simp)
  have hnd : ((Node.run { power := p, upDur := up, downDur := down } ops).software.map (·.1)).Nodup := by
    rw [hr.software]
    have : (es.map Entry.kv).map (·.1) = es.map (·.name) := by simp [Entry.kv, List.map_map, Function.comp_def]
    rw [this]; exact hr.namesNodup
  have := List.Nodup.length_le_of_subset hnd (l₂ := S) (by
    intro y hy
    obtain ⟨x, hx, rfl⟩ := List.mem_map.mp hy
    exact hn x hx)
  simpa using this

/-- **Every exchange between two nodes built from shipped software terminates** — no bound assumed: both nodes reachable by
any operation sequences that install shipped classes (whatever their class data, clocks and addresses), any sender, any
destination, any payload: the transport does not run out of fuel.  The number of shipped names and `fuel` are constants
(`shippedNames` is regenerated from the source); the arithmetic is `decide`d. -/
theorem C13_send_terminates_shipped (w : World) (pa pb : Power) (ua da ub db : Int) (opsA opsB : List Op)
    (hA : w.a.n = Node.run { power := pa, upDur := ua, downDur := da } opsA)
    (hB : w.b.n = Node.run { power := pb, upDur := ub, downDur := db } opsB)
    (hopsA : ∀ op ∈ opsA, op.installsFrom shippedNames) (hopsB : ∀ op ∈ opsB, op.installsFrom shippedNames)
    (side : Side) (u ip port proto : Nat) (p : Payload) :
    (w.send side u ip port proto p).overflow = w.overflow := by
  have hs : Small (shippedNames.length + 1) w := by
    constructor
    · rw [hA]; exact Nat.succ_le_succ (C13_software_count_le _ pa ua da opsA hopsA)
    · rw [hB]; exact Nat.succ_le_succ (C13_software_count_le _ pb ub db opsB hopsB)
  exact C13_send_terminates _ w hs side u ip port proto p (by decide)

/-- non-vacuity: the two-node world of the DNS example is `Small 4`, and `2 + 4 * 7 ≤ fuel` -/
example : 2 + 4 * (4 + 3) ≤ World.fuel := by decide

/-! ## 5. connection bookkeeping -/

/-- **Health becomes OVERWHELMED exactly when a connection is requested at capacity**: after `add_connection`, the health is
OVERWHELMED iff the connections had reached `max_sessions` — whatever the health was before (an OVERWHELMED software with room
again becomes GOOD on the next request) — and in that case the request is declined and the connections are unchanged. -/
theorem C13_conn_overwhelmed_iff (c : Conn) (id : String) :
    ((c.add id).1.health = .overwhelmed ↔ c.conns.length ≥ c.maxSessions) ∧
    (c.conns.length ≥ c.maxSessions → (c.add id).2 = false ∧ (c.add id).1.conns = c.conns) := by
  rcases c with ⟨conns, mx, health⟩
  by_cases h : conns.length ≥ mx
  · simp [Conn.add, h]
  · cases health <;> by_cases hm : id ∈ conns <;> simp [Conn.add, h, hm]

/-- a request below capacity: accepted iff the id is new, then it is the last connection; health OVERWHELMED → GOOD,
any other health is kept -/
theorem C13_conn_add_below_capacity (c : Conn) (id : String) (h : c.conns.length < c.maxSessions) :
    ((c.add id).2 = true ↔ id ∉ c.conns) ∧
    (c.add id).1.conns = (if id ∈ c.conns then c.conns else c.conns ++ [id]) ∧
    (c.add id).1.health = (if c.health = .overwhelmed then .good else c.health) := by
  rcases c with ⟨conns, mx, health⟩
  have hn : ¬ conns.length ≥ mx := by simp only at h; omega
  cases health <;> by_cases hm : id ∈ conns <;> simp [Conn.add, hn, hm]

theorem conn_add_shape (c : Conn) (id : String) :
    (c.add id).1.maxSessions = c.maxSessions ∧
    ((c.add id).1.conns = c.conns ∨
      ((c.add id).1.conns = c.conns ++ [id] ∧ id ∉ c.conns ∧ c.conns.length < c.maxSessions)) := by
  rcases c with ⟨conns, mx, health⟩
  by_cases h : conns.length ≥ mx
  · simp [Conn.add, h]
  · have hlt : conns.length < mx := by omega
    cases health <;> by_cases hm : id ∈ conns <;> simp [Conn.add, h, hm, hlt]

/-- the number of connections never exceeds `max_sessions`, and no id is held twice — after any sequence of
`add_connection` / `terminate_connection` calls -/
theorem C13_conn_bounded (ops : List Conn.COp) (c : Conn) (h : c.conns.length ≤ c.maxSessions) (hn : c.conns.Nodup) :
    (c.run ops).conns.length ≤ (c.run ops).maxSessions ∧ (c.run ops).conns.Nodup ∧ (c.run ops).maxSessions = c.maxSessions := by
  induction ops generalizing c with
  | nil => exact ⟨h, hn, rfl⟩
  | cons op ops ih =>
    simp only [Conn.run]
    have key : (c.step op).1.conns.length ≤ (c.step op).1.maxSessions ∧ (c.step op).1.conns.Nodup ∧
        (c.step op).1.maxSessions = c.maxSessions := by
      cases op with
      | add id =>
        obtain ⟨hmx, hshape⟩ := conn_add_shape c id
        show (c.add id).1.conns.length ≤ (c.add id).1.maxSessions ∧ (c.add id).1.conns.Nodup ∧ _
        rw [hmx]
        rcases hshape with he | ⟨he, hnm, hlt⟩
        · rw [he]; exact ⟨h, hn, hmx⟩
        · rw [he]
          refine ⟨by simp; omega, ?_, hmx⟩
          rw [List.nodup_append]
          refine ⟨hn, by simp, ?_⟩
          intro a ha b hb
          simp only [List.mem_singleton] at hb
          subst hb
          intro hab; subst hab; exact hnm ha
      | terminate id sd =>
        show (c.terminate id sd).1.conns.length ≤ (c.terminate id sd).1.maxSessions ∧ (c.terminate id sd).1.conns.Nodup ∧ _
        have hmx : (c.step (Conn.COp.terminate id sd)).1.maxSessions = c.maxSessions := by
          simp only [Conn.step, Conn.terminate]; split <;> rfl
        unfold Conn.terminate
        by_cases hc : c.conns.contains id = true
        · rw [if_pos hc]
          exact ⟨Nat.le_trans (List.length_filter_le _ _) h, hn.filter _, hmx⟩
        · rw [if_neg hc]
          exact ⟨h, hn, hmx⟩
    obtain ⟨k1, k2, k3⟩ := key
    obtain ⟨i1, i2, i3⟩ := ih (c.step op).1 k1 k2
    exact ⟨i1, i2, i3.trans k3⟩

/-- `terminate_connection` removes exactly that connection and does NOT touch the health: an OVERWHELMED software stays
OVERWHELMED until the next connection request finds room (observation about the code, not a defect of the property) -/
theorem C13_conn_terminate (c : Conn) (id : String) (sd : Bool) :
    (c.terminate id sd).1.health = c.health ∧ id ∉ (c.terminate id sd).1.conns ∧
    (∀ x, x ≠ id → (x ∈ (c.terminate id sd).1.conns ↔ x ∈ c.conns)) ∧
    ((c.terminate id sd).2 = true ↔ id ∈ c.conns ∧ sd = true) := by
  rcases c with ⟨conns, mx, health⟩
  by_cases hm : id ∈ conns
  · refine ⟨?_, ?_, ?_, ?_⟩ <;> simp [Conn.terminate, hm]
    intro x hx _; exact hx
  · refine ⟨?_, ?_, ?_, ?_⟩ <;> simp [Conn.terminate, hm]

/-- non-vacuity: capacity 2 — the third request overwhelms, a termination alone does not recover, the next request does -/
example :
    let c : Conn := { maxSessions := 2 }
    (c.run [.add "a", .add "b"]).health = .good ∧ (c.run [.add "a", .add "b", .add "c"]).health = .overwhelmed ∧
    (c.run [.add "a", .add "b", .add "c", .terminate "a" true]).health = .overwhelmed ∧
    (c.run [.add "a", .add "b", .add "c", .terminate "a" true, .add "c"]).health = .good ∧
    (c.run [.add "a", .add "b", .add "c", .terminate "a" true, .add "c"]).conns = ["b", "c"] := by decide

/-! ## 6. Gen obligations of the payload model -/

/-- the methods the payload model follows read, statement for statement (logging dropped), as the model assumes:
the running-guard first, the type check, "a reply is not a request" in both servers, "no reply, no time" in the NTP client,
the reply written into the packet that was handed in (`generate_reply` returns `self`), `request_time` without a guard of its
own and called by `apply_timestep` only while RUNNING, `add_connection` / `terminate_connection` as `Conn.add` /
`Conn.terminate`, `send` / `receive` of IOSoftware behind `_can_perform_action`, `HostNode.receive_frame` as
`Node.frameAccepted`, `Router.check_send_frame_to_session_manager` as `Node.routerAccepts`.  Any edit of one of these methods changes the regenerated list and this obligation no longer checks. -/
theorem C13_gen_method_bodies :
    Gen.SoftwareRecv.methodBodies = [
  ("DNSServer.receive", ["if not super().receive(payload=payload, session_id=session_id, **kwargs) { return False }", "if not isinstance(payload, DNSPacket) { return False }", "if payload.dns_reply is not None { return False }", "if payload.dns_request is not None { payload = payload.generate_reply(self.dns_lookup(payload.dns_request.domain_name_request)); self.send(payload, session_id); return payload.dns_reply.domain_name_ip_address is not None }", "return False"]),
  ("DNSServer.dns_lookup", ["if not self._can_perform_action() { return }", "return self.dns_table.get(target_domain)"]),
  ("DNSServer.dns_register", ["if not self._can_perform_action() { return }", "self.dns_table[domain_name] = domain_ip_address"]),
  ("DNSClient.receive", ["if not super().receive(payload=payload, session_id=session_id, **kwargs) { return False }", "if not isinstance(payload, DNSPacket) { return False }", "if payload.dns_reply is not None { if payload.dns_reply.domain_name_ip_address { self.dns_cache[payload.dns_request.domain_name_request] = payload.dns_reply.domain_name_ip_address; return True } }", "return False"]),
  ("DNSClient.add_domain_to_cache", ["if not self._can_perform_action() { return False }", "self.dns_cache[domain_name] = ip_address", "return True"]),
  ("DNSClient.check_domain_exists", ["if not self._can_perform_action() { return False }", "if target_domain in self.dns_cache { return True }", "if self.dns_server is None { return False }", "payload = DNSPacket(dns_request=DNSRequest(domain_name_request=target_domain))", "if is_reattempt { return False } else { software_manager: SoftwareManager = self.software_manager; software_manager.send_payload_to_session_manager(payload=payload, dest_ip_address=self.dns_server, dest_port=PORT_LOOKUP['DNS']); return self.check_domain_exists(target_domain=target_domain, session_id=session_id, is_reattempt=True) }"]),
  ("NTPServer.receive", ["if not super().receive(payload=payload, session_id=session_id, **kwargs) { return False }", "if not isinstance(payload, NTPPacket) { return False }", "if payload.ntp_reply is not None { return False }", "time = datetime.now()", "payload = payload.generate_reply(time)", "self.software_manager.session_manager.receive_payload_from_software_manager(payload=payload, src_port=self.port, dst_port=self.port, ip_protocol=self.protocol, session_id=session_id)", "return True"]),
  ("NTPClient.receive", ["if not super().receive(payload=payload, session_id=session_id, **kwargs) { return False }", "if not isinstance(payload, NTPPacket) { return False }", "if payload.ntp_reply is None { return False }", "if payload.ntp_reply.ntp_datetime { self.time = payload.ntp_reply.ntp_datetime; return True }"]),
  ("NTPClient.request_time", ["if self.config.ntp_server_ip { self.software_manager.session_manager.receive_payload_from_software_manager(payload=NTPPacket(), dst_ip_address=self.config.ntp_server_ip, src_port=self.port, dst_port=self.port, ip_protocol=self.protocol) }"]),
  ("NTPClient.apply_timestep", ["super().apply_timestep(timestep)", "if self.operating_state == ServiceOperatingState.RUNNING { self.request_time() }"]),
  ("DNSPacket.generate_reply", ["self.dns_reply = DNSReply(domain_name_ip_address=domain_ip_address)", "return self"]),
  ("NTPPacket.generate_reply", ["self.ntp_reply = NTPReply(ntp_datetime=ntp_server_time)", "return self"]),
  ("IOSoftware.add_connection", ["if len(self._connections) >= self.max_sessions { self.set_health_state(SoftwareHealthState.OVERWHELMED); return False } else { if self.health_state_actual == SoftwareHealthState.OVERWHELMED { self.set_health_state(SoftwareHealthState.GOOD) }; if not self._connections.get(connection_id) { session_details = None; if session_id { session_details = self._get_session_details(session_id) }; self._connections[connection_id] = {'session_id': session_id, 'ip_address': session_details.with_ip_address if session_details else None, 'time': datetime.now()}; return True }; return False }"]),
  ("IOSoftware.terminate_connection", ["if self.connections.get(connection_id) { connection_dict = self._connections.pop(connection_id); if send_disconnect { self.software_manager.send_payload_to_session_manager(payload={'type': 'disconnect', 'connection_id': connection_id}, session_id=connection_dict['session_id']); return True } }", "return False"]),
  ("IOSoftware.send", ["if not self._can_perform_action() { return False }", "return self.software_manager.send_payload_to_session_manager(payload=payload, dest_ip_address=dest_ip_address, dest_port=dest_port, ip_protocol=ip_protocol, session_id=session_id)"]),
  ("IOSoftware.receive", ["return self._can_perform_action()"]),
  ("HostNode.receive_frame", ["super().receive_frame(frame, from_network_interface)", "dst_port = None", "if frame.tcp { dst_port = frame.tcp.dst_port } else { if frame.udp { dst_port = frame.udp.dst_port } }", "can_accept_nmap = False", "if self.software_manager.software.get('nmap') { if self.software_manager.software['nmap'].operating_state == ApplicationOperatingState.RUNNING { can_accept_nmap = True } }", "accept_nmap = can_accept_nmap and frame.payload.__class__.__name__ == 'PortScanPayload'", "accept_frame = False", "if frame.icmp or dst_port in self.software_manager.get_open_ports() or accept_nmap { accept_frame = True }", "if accept_frame { self.session_manager.receive_frame(frame, from_network_interface) } else { pass }"]),
  ("Router.check_send_frame_to_session_manager", ["dst_ip_address = frame.ip.dst_ip_address", "dst_port = None", "if frame.ip.protocol == PROTOCOL_LOOKUP['TCP'] { dst_port = frame.tcp.dst_port } else { if frame.ip.protocol == PROTOCOL_LOOKUP['UDP'] { dst_port = frame.udp.dst_port } }", "if self.ip_is_router_interface(dst_ip_address) and (frame.icmp or dst_port in self.software_manager.get_open_ports()) { return True }", "return False"]),
  ("WebServer.receive", ["if not super().receive(payload=payload, session_id=session_id, **kwargs) { return False }", "if not isinstance(payload, HttpRequestPacket) { return False }", "return self._process_http_request(payload=payload, session_id=session_id)"]),
  ("WebServer._process_http_request", ["response = HttpResponsePacket()", "if payload.request_method == HttpRequestMethod.GET { response = self._handle_get_request(payload=payload) } else { if payload.request_method == HttpRequestMethod.POST { response.status_code = HttpStatusCode.METHOD_NOT_ALLOWED } else { response.status_code = HttpStatusCode.METHOD_NOT_ALLOWED } }", "self.send(payload=response, session_id=session_id)", "self.response_codes_this_timestep.append(response.status_code)", "return response.status_code == HttpStatusCode.OK"]),
  ("WebServer._handle_get_request", ["response = HttpResponsePacket(status_code=HttpStatusCode.NOT_FOUND, payload=payload)", "parsed_url = urlparse(payload.request_url)", "path = parsed_url.path.strip('/') if parsed_url and parsed_url.path else ''", "if len(path) < 1 { response.status_code = HttpStatusCode.OK }", "if path.startswith('users') { if not self._establish_db_connection() { response.status_code = HttpStatusCode.INTERNAL_SERVER_ERROR; return response }; if self.db_connection.query('SELECT') { self.set_health_state(SoftwareHealthState.GOOD); response.status_code = HttpStatusCode.OK } else { self.set_health_state(SoftwareHealthState.COMPROMISED) } }", "return response"]),
  ("WebServer._establish_db_connection", ["if self.db_connection { return True }", "db_client = self.software_manager.software.get('database-client')", "if db_client is None { return False }", "self.db_connection: DatabaseClientConnection = db_client.get_new_connection()", "return self.db_connection is not None"]),
  ("WebBrowser.receive", ["if not super().receive(payload=payload, session_id=session_id, **kwargs) { return False }", "if not isinstance(payload, HttpResponsePacket) { return False }", "self.latest_response = payload", "return True"]),
  ("WebBrowser.get_webpage", ["url = url or self.config.target_url", "if not self._can_perform_action() { return False }", "self.num_executions += 1", "self.latest_response = HttpResponsePacket(status_code=HttpStatusCode.NOT_FOUND)", "if not url { return False }", "try { parsed_url = urlparse(url) } except Exception { return False }", "dns_client: Optional[DNSClient] = self.software_manager.software.get('dns-client')", "if dns_client is None {  }", "domain_exists = dns_client is not None and dns_client.check_domain_exists(target_domain=parsed_url.hostname)", "if domain_exists { self.domain_name_ip_address = dns_client.dns_cache[parsed_url.hostname] } else { try { self.domain_name_ip_address = IPv4Address(parsed_url.hostname) } except Exception { return False } }", "payload = HttpRequestPacket(request_method=HttpRequestMethod.GET, request_url=url)", "if self.send(payload=payload, dest_ip_address=self.domain_name_ip_address, dest_port=parsed_url.port if parsed_url.port else PORT_LOOKUP['HTTP']) { self.history.append(WebBrowser.BrowserHistoryItem(url=url, status=self.BrowserHistoryItem._HistoryItemStatus.LOADED, response_code=self.latest_response.status_code)); return self.latest_response.status_code is HttpStatusCode.OK } else { self.history.append(WebBrowser.BrowserHistoryItem(url=url, status=self.BrowserHistoryItem._HistoryItemStatus.SERVER_UNREACHABLE)); return False }"])] := by
  rfl

/-- well-known ports the end-to-end theorems use, the default capacity of `Conn`, and: no class overrides the connection
bookkeeping of `IOSoftware` (so `Conn` is the bookkeeping of every shipped class) -/
theorem C13_gen_recv_constants :
    Gen.SoftwareRecv.portDNS = 53 ∧ Gen.SoftwareRecv.portNTP = 123 ∧ Gen.SoftwareRecv.portHTTP = 80 ∧
    Gen.SoftwareRecv.httpStatusCodes.lookup "OK" = some 200 ∧ Gen.SoftwareRecv.httpStatusCodes.lookup "NOT_FOUND" = some 404 ∧
    Gen.SoftwareRecv.httpStatusCodes.lookup "METHOD_NOT_ALLOWED" = some 405 ∧
    Gen.SoftwareRecv.httpStatusCodes.lookup "INTERNAL_SERVER_ERROR" = some 500 ∧
    Gen.SoftwareRecv.maxSessionsDefault = ({} : Conn).maxSessions ∧
    Gen.SoftwareRecv.connectionOverrides = [] := by decide

end Primaite.C13
