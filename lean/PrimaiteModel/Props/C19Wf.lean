/-
C19, part 11 (round 7b): the hypothesis `Resp.wf` of `C19_tap3_validated_never_raises` discharged as far as the agent's own
code allows.

`Resp.wf` asked of EVERY response: failure ⇒ `data["reason"]`, success ⇒ login data.  The simulator does not promise the
first half (`Terminal._remote_login` answers a failed login with `data={}`).  It is not needed: TAP003 reads
`data["reason"]` only in the PLANNING exception of `get_action`, and whenever the agent is in PLANNING at an execution slot
the action it looks back at is a do-nothing (`HL`, proved below: PLANNING is entered, and stayed in, only by slots that
chose do-nothing) — and the simulation answers do-nothing with success.  So what is left to assume of the simulator is

  `SimOk a r`:  (1) a do-nothing action is answered `success`;
                (2) a SUCCESSFUL `node-session-remote-login` carries `data["ip_address"]`, `data["username"]`.

Both are properties of two construction sites of `RequestResponse` (sim_container.py: the `do-nothing` request;
terminal.py: `_remote_login`), extracted by harness/extract/agents.py and checked by `C19_gen_resp_wf_sites`.
-/
import PrimaiteModel.Props.C19NoRaise
namespace Primaite.Agents
namespace Tap3

/-- What the theorem assumes of the response `r` the simulator gives to the action `a`. -/
def SimOk (a : Act) (r : Resp) : Prop :=
  (a.kind = .doNothing → r.ok = true) ∧ (a.kind = .remoteLogin → r.ok = true → r.hasLoginData = true)

/-- every do-nothing of the history was answered with success -/
def AllDN (s : St) : Prop := ∀ h ∈ s.hist, h.kind = .doNothing → h.resp.ok = true

/-- one history item per tick, and in PLANNING the item the return handler looks back at is a do-nothing -/
def HL (s : St) (t : Int) : Prop :=
  (s.hist.length : Int) = t ∧ (s.cur = .planning → ∀ h, pyIndex s.hist s.curT = some h → h.kind = .doNothing)

theorem reasonOk_of_HL (c : Cfg) (s : St) (t : Int) (hl : HL s t) (hdn : AllDN s) : ReasonOk c s := by
  intro x hx hp hok
  exfalso
  have hpl : s.cur = .planning := by
    unfold passes returnHandler at hp
    split at hp
    · simp [hok] at hp
    · simpa [hok] using hp
  unfold lookBack at hx
  split at hx
  · cases hx; cases hok
  · have hk := hl.2 hpl x hx
    have := hdn x (pyIndex_mem _ _ _ hx) hk
    rw [this] at hok; cases hok

theorem pyIndex_append_lt {α} (l : List α) (a : α) (i : Int) (h0 : 0 ≤ i) (hlt : i < l.length) :
    pyIndex (l ++ [a]) i = pyIndex l i := by
  unfold pyIndex
  rw [if_pos h0, if_pos h0]
  have : i.toNat < l.length := by omega
  rw [List.getElem?_append_left this]

theorem pyIndex_append_eq {α} (l : List α) (a : α) (i : Int) (he : i = l.length) : pyIndex (l ++ [a]) i = some a := by
  unfold pyIndex
  rw [if_pos (by omega)]
  have : i.toNat = l.length := by omega
  rw [this]
  simp

/-- The stage methods leave the agent in PLANNING only with do-nothing chosen. -/
theorem bodies_planning_nothing (c : Cfg) (i : In) (s : St) (h : NR c s) (hp : (bodies c i s).cur = .planning) :
    (bodies c i s).chosen = Act.nothing := by
  have hnx : s.cur ≠ .failed → s.nxt = s.cur.succ := fun hne => by
    rcases h.stage with e | e
    · exact absurd e hne
    · exact e
  have hres : ∀ x : Stage, x.chain = true → s.cur = x → x ≠ .reconnaissance → x ≠ .planning → False := by
    intro x hx hc h1 h2
    have hn := hnx (by rw [hc]; intro e; rw [e] at hx; cases hx)
    rw [hc] at hn
    have := bodies_chain c i x hx s hc hn
    rcases this with ⟨e, _⟩ | ⟨e, _⟩ | e
    · rw [hp] at e; exact h2 e.symm
    · rw [hp] at e; cases x <;> first | exact (h1 rfl).elim | (simp [Stage.succ] at e)
    · rw [hp] at e; cases e
  cases hc : s.cur with
  | notStarted => have := (bodies_notStarted c i s hc).1; rw [hp] at this; cases this
  | succeeded => rw [bodies_terminal c i s (Or.inl hc)] at hp; rw [hc] at hp; cases hp
  | failed => rw [bodies_terminal c i s (Or.inr hc)] at hp; rw [hc] at hp; cases hp
  | embed => rw [bodies_eq, applyDown_skip c i 5 s (by rw [hc]; simp [rank])] at hp; rw [hc] at hp; cases hp
  | conceal => rw [bodies_eq, applyDown_skip c i 5 s (by rw [hc]; simp [rank])] at hp; rw [hc] at hp; cases hp
  | extract => rw [bodies_eq, applyDown_skip c i 5 s (by rw [hc]; simp [rank])] at hp; rw [hc] at hp; cases hp
  | erase => rw [bodies_eq, applyDown_skip c i 5 s (by rw [hc]; simp [rank])] at hp; rw [hc] at hp; cases hp
  | access => exact (hres .access rfl hc (by decide) (by decide)).elim
  | manipulation => exact (hres .manipulation rfl hc (by decide) (by decide)).elim
  | exploit => exact (hres .exploit rfl hc (by decide) (by decide)).elim
  | reconnaissance =>
    have hn := hnx (by rw [hc]; simp); rw [hc] at hn
    rw [bodies_is_bodyAt c i .reconnaissance rfl s hc hn]
    show (reconnaissance s).chosen = Act.nothing
    unfold reconnaissance
    rw [if_neg (by simp [hc])]
    have := progress_eq { s with chosen := Act.nothing } .reconnaissance rfl hc hn
    rw [this]
  | planning =>
    have hn := hnx (by rw [hc]; simp); rw [hc] at hn
    rw [bodies_is_bodyAt c i .planning rfl s hc hn] at hp ⊢
    change (planning c i s).cur = .planning at hp
    show (planning c i s).chosen = Act.nothing
    unfold planning at hp ⊢
    rw [if_neg (by simp [hc])] at hp ⊢
    split
    · rename_i htr
      rw [if_pos htr] at hp
      have := progress_spec (if s.planned then s else { s with creds := c.creds0, planned := true }) .planning rfl
        (by split <;> exact hn) (by split <;> exact hc)
      rw [this.1] at hp; cases hp
    · unfold failStage; split <;> rfl

theorem chosen_setNext (c : Cfg) (s : St) (b d : Int) : (setNext c s b d).cur = s.cur := (setNext_fields c s b d).1

/-- An execution slot: `current_timestep` becomes the slot's timestep, the action returned is the chosen action, and a
slot that ends in PLANNING chose do-nothing. -/
theorem core_slot (c : Cfg) (s : St) (t : Int) (i : In) (ht : 0 ≤ t) (hn : NR c s) (hrs : ReasonOk c s)
    (hex : executes s t = true) :
    (getActionCore c s t i).1.curT = t ∧
    ((getActionCore c s t i).1.cur = .planning → (getActionCore c s t i).2 = Act.nothing) := by
  obtain ⟨x, hx⟩ := lookBack_some s hn.curT
  have hr2 := hrs x hx
  have hr := nr_returnHandler c x s hn
  unfold getActionCore
  rw [if_neg (by simp [hex])]
  simp only [hx]
  generalize returnHandler c x s = s1 at hr hr2 ⊢
  split
  · rename_i hpass
    have hn2 := nr_outcomeHandler c _ (nr_setNext c _ (t + c.frequency) i.d1 (nr_curT c _ t ht (nr_reasonCheck c x s1 (hr2 hpass) hr)))
    dsimp only
    refine ⟨by unfold mainPath; simp only [ct_bodies, ct_outcomeHandler, ct_setNext], ?_⟩
    unfold mainPath
    exact bodies_planning_nothing c i _ hn2
  · rename_i hnp
    dsimp only
    refine ⟨by unfold failPath; simp only [ct_outcomeHandler, ct_setNext], fun hpl => ?_⟩
    exfalso
    unfold failPath at hpl
    have hs := setNext_fields c { s1 with curT := t } (t + c.frequency) i.d1
    generalize setNext c { s1 with curT := t } (t + c.frequency) i.d1 = s2 at hs hpl
    have : s2.cur = .planning := by
      unfold outcomeHandler at hpl
      split at hpl
      · split at hpl
        · exact hpl
        · split at hpl
          · cases hpl
          · exact hpl
      · exact hpl
    rw [hs.1] at this
    have this' : s1.cur = .planning := this
    simp [passes, this'] at hnp

/-- One tick keeps `HL` (given the tick counter is the history length, `WF`, and the invariant). -/
theorem hl_step (c : Cfg) (s : St) (t : Int) (i : In) (hw : WF c s t) (hn : NR c s) (hl : HL s t) (hrs : ReasonOk c s)
    (hi : Hist.loginOk { act := (getAction c s t i).2, resp := i.resp }) (hd : s.dead = false) :
    HL (step c s t i).1 (t + 1) := by
  obtain ⟨_, _, _, hh, hcur, hct⟩ := nr_step c s t i hw.tpos hrs hi hd hn
  refine ⟨by rw [hh, List.length_append]; have := hl.1; simp; omega, ?_⟩
  rw [hh, hcur, hct]
  intro hpl x hx
  cases hex : executes s t with
  | false =>
    rw [getAction_idle c s t i hex] at hpl hx
    dsimp only at hpl hx
    rw [(preGuard_fields c s).1] at hpl
    rw [ct_preGuard] at hx
    have hlt : s.curT < t := by
      rcases hw.curT_lt with e | e
      · exact e
      · rw [e] at hpl; cases hpl
    rw [pyIndex_append_lt _ _ _ hw.curT (by rw [hl.1]; exact hlt)] at hx
    exact hl.2 hpl x hx
  | true =>
    have hcs := core_slot c (preGuardHandlers c s) t i hw.tpos (nr_preGuard c s hn) (reasonOk_preGuard c s hrs)
      (by rw [executes_preGuard]; exact hex)
    unfold getAction at hpl hx
    rw [hcs.1] at hx
    rw [pyIndex_append_eq _ _ _ hl.1.symm] at hx
    cases hx
    show (getActionCore c (preGuardHandlers c s) t i).2.kind = .doNothing
    rw [hcs.2 hpl]; rfl

/-- The responses of a run are what the simulator promises for the actions the agent actually returned. -/
def RunSimOk (c : Cfg) : St → Int → List In → Prop
  | _, _, [] => True
  | s, t, i :: is => SimOk (getAction c s t i).2 i.resp ∧ RunSimOk c (step c s t i).1 (t + 1) is

theorem run_sim (c : Cfg) : ∀ (ins : List In) (s : St) (t : Int), RunSimOk c s t ins → s.dead = false → NR c s → WF c s t →
    HL s t → AllDN s →
    (NR c (after c s t ins) ∧ (after c s t ins).dead = false) ∧ ∀ o ∈ runOut c s t ins, o.2 ≠ .raised := by
  intro ins
  induction ins with
  | nil => intro s t _ hd h _ _ _; exact ⟨⟨h, hd⟩, fun o ho => (by cases ho)⟩
  | cons i is ih =>
    intro s t hsim hd h hw hl hdn
    have hrs := reasonOk_of_HL c s t hl hdn
    have hi : Hist.loginOk { act := (getAction c s t i).2, resp := i.resp } := fun hk hok => hsim.1.2 hk hok
    obtain ⟨h1, hd1, ho1, hh1, _, _⟩ := nr_step c s t i hw.tpos hrs hi hd h
    have hl1 := hl_step c s t i hw h hl hrs hi hd
    have hdn1 : AllDN (step c s t i).1 := by
      intro x hx
      rw [hh1] at hx
      rcases List.mem_append.1 hx with hx | hx
      · exact hdn x hx
      · simp only [List.mem_singleton] at hx
        rw [hx]; exact hsim.1.1
    obtain ⟨ha, hr⟩ := ih (step c s t i).1 (t + 1) hsim.2 hd1 h1 (wf_step c s t i hw) hl1 hdn1
    refine ⟨by simpa [after] using ha, fun o ho => ?_⟩
    simp only [runOut, List.mem_cons] at ho
    rcases ho with ho | ho
    · rw [ho, ho1]; exact fun e => (by cases e)
    · exact hr o ho

instance (a : Act) (r : Resp) : Decidable (SimOk a r) := by unfold SimOk; infer_instance

instance decRunSimOk (c : Cfg) : ∀ (ins : List In) (s : St) (t : Int), Decidable (RunSimOk c s t ins)
  | [], _, _ => isTrue trivial
  | i :: is, s, t => by
    unfold RunSimOk
    exact @instDecidableAnd _ _ inferInstance (decRunSimOk c is _ _)

/-- **A validated TAP003 never raises in the simulation.**  Same statement as `C19_tap3_validated_never_raises`, with the
hypothesis on the responses reduced to what the simulator's two construction sites give (`SimOk`, per action actually
returned): do-nothing is answered success; a successful remote login carries its data.  No assumption on failed responses. -/
theorem C19_tap3_validated_never_raises_sim (c : Cfg) (d0 : Int) (k : Nat) (s0 : St) (ins : List In)
    (h0 : init c d0 k = some s0) (hsim : RunSimOk c s0 0 ins) :
    (∀ o ∈ runOut c s0 0 ins, o.2 ≠ .raised) ∧ (after c s0 0 ins).dead = false ∧ NR c (after c s0 0 ins) := by
  have hinit : s0.dead = false ∧ s0.hist = [] ∧ s0.cur = .notStarted := by
    unfold init at h0; split at h0
    · cases h0; exact ⟨rfl, rfl, rfl⟩
    · cases h0
  have hl : HL s0 0 := ⟨by rw [hinit.2.1]; rfl, fun hp => by rw [hinit.2.2] at hp; cases hp⟩
  have hdn : AllDN s0 := by intro x hx; rw [hinit.2.1] at hx; cases hx
  obtain ⟨⟨hn, hdd⟩, ho⟩ := run_sim c ins s0 0 hsim hinit.1 (nr_init c d0 k s0 h0) (wf_init c d0 k s0 h0) hl hdn
  exact ⟨ho, hdd, hn⟩

/-- Non-vacuity and necessity of (1): a run whose responses are all failures WITHOUT a reason but which answers
do-nothing with success cannot be built — the first action is a do-nothing; conversely a failed, reason-less answer to
the do-nothing of RECONNAISSANCE makes the PLANNING slot raise. -/
example : ∃ s0, init exCfg 0 0 = some s0 ∧
    (runOut exCfg s0 0 (List.replicate 2 exIn ++ List.replicate 4 { exIn with resp := { ok := false, hasReason := false } })).any
      (fun o => o.2 == .raised) = true := by
  refine ⟨_, rfl, by decide⟩

/-- … while failed logins without a reason (what `Terminal._remote_login` really answers) are harmless: `SimOk` holds
and nothing raises. -/
example : ∃ s0, init exCfg 0 0 = some s0 ∧
    RunSimOk exCfg s0 0 (List.replicate 5 exIn ++ List.replicate 6 { exIn with resp := { ok := false, hasReason := false } }) := by
  refine ⟨_, rfl, ?_⟩
  decide

end Tap3
end Primaite.Agents
