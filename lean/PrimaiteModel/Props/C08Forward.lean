/-
C08, part 2 — forwarding: TTL, ARP look-ups, host next hop, addressee (model: `Model/Forward.lean`).
-/
import PrimaiteModel.Model.Forward
import PrimaiteModel.Gen.Forward
namespace Primaite.Forward
open Primaite.Route (findBestRoute)

/-! ### translator tie -/

/-- The update test, the initial loop variables and the fallback of `find_best_route` as regenerated from the source are
the ones of the model. -/
theorem C08_gen_route_loop :
    (∀ p l m lo, Gen.Forward.better p l m lo = Route.betterCond p l m lo) ∧
    Gen.Forward.initLongest = ({} : Route.Acc).longest ∧ ({} : Route.Acc).lowest = none ∧ ({} : Route.Acc).best = none ∧
    Gen.Forward.defaultOnlyWithoutBest = true := by
  refine ⟨?_, rfl, rfl, rfl, rfl⟩
  intro p l m lo
  have h : decide (p = l) = (p == l) := by
    by_cases hpl : p = l <;> simp [hpl]
  cases lo <;> simp [Gen.Forward.better, Route.betterCond, Gen.Forward.ltInf, Route.ltLowest, h]

/-- TTL constants and the decrement / test / forward order of every `receive_frame` and routing hop, and the broadcast
guard of `process_frame`, as regenerated from the source, are the ones the model uses. -/
theorem C08_gen_ttl :
    Gen.Forward.defaultTtl = initTtl ∧ Gen.Forward.decrementBy = 1 ∧
    Gen.Forward.rxDropBelow = [("NIC", 1), ("RouterInterface", 1), ("SwitchPort", 1)] ∧
    Gen.Forward.hopDropBelow = [("process_frame", 1), ("route_frame", 1)] ∧
    Gen.Forward.processDropsBroadcast = true := by decide

/-! ### TTL: every receive and every routing hop lowers it by one; exhausted frames are not processed -/

/-- potential of a frame: times it was accepted for processing so far + what its TTL still allows. -/
def pot (f : Frame) : Int := (f.fwd : Int) + max 0 f.ttl

/-- `f'` is a later state of the frame object `f`: same identity, addresses and payload, potential not increased. -/
def Thr (f f' : Frame) : Prop :=
  pot f' ≤ pot f ∧ f'.id = f.id ∧ f'.srcIp = f.srcIp ∧ f'.dstIp = f.dstIp ∧ f'.pl = f.pl

theorem Thr.refl (f : Frame) : Thr f f := ⟨Int.le_refl _, rfl, rfl, rfl, rfl⟩

theorem Thr.trans {a b c : Frame} (h1 : Thr a b) (h2 : Thr b c) : Thr a c :=
  ⟨Int.le_trans h2.1 h1.1, h2.2.1.trans h1.2.1, h2.2.2.1.trans h1.2.2.1, h2.2.2.2.1.trans h1.2.2.2.1,
    h2.2.2.2.2.trans h1.2.2.2.2⟩

theorem thr_dec (f : Frame) : Thr f f.dec := by
  refine ⟨?_, rfl, rfl, rfl, rfl⟩
  unfold pot Frame.dec
  simp only
  split <;> omega

theorem thr_stamp (f : Frame) (a b : Mac) : Thr f (f.stamp a b) := ⟨Int.le_refl _, rfl, rfl, rfl, rfl⟩

end Primaite.Forward
