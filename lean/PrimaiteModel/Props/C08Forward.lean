/-
C08, part 2 — forwarding: TTL, ARP look-ups, host next hop, addressee (model: `Model/Forward.lean`).
-/
import PrimaiteModel.Model.Forward
import PrimaiteModel.Model.Filter
import PrimaiteModel.Gen.Forward
import PrimaiteModel.Gen.Filter
namespace Primaite.Forward
open Primaite.Route (findBestRoute)

/-! ### translator tie -/

/-- The update test, the initial loop variables and the fallback of `find_best_route` as regenerated from the source are
the ones of the model. -/
theorem C08_gen_route_loop :
    (∀ p l m lo, Gen.Forward.better p l m lo = Route.betterCond p l m lo) ∧
    Gen.Forward.initLongest = ({} : Route.Acc).longest ∧ ({} : Route.Acc).lowest = none ∧ ({} : Route.Acc).best = none ∧
    Gen.Forward.defaultOnlyWithoutBest = true := by
  refine ⟨?_, rfl, rfl, rfl, rfl⟩
  intro p l m lo
  have h : decide (p = l) = (p == l) := by
    by_cases hpl : p = l <;> simp [hpl]
  cases lo <;> simp [Gen.Forward.better, Route.betterCond, Gen.Forward.ltInf, Route.ltLowest, h]

/-- TTL constants and the decrement / test / forward order of every `receive_frame` and routing hop, and the broadcast
guard of `process_frame`, as regenerated from the source, are the ones the model uses. -/
theorem C08_gen_ttl :
    Gen.Forward.defaultTtl = initTtl ∧ Gen.Forward.decrementBy = 1 ∧
    Gen.Forward.rxDropBelow = [("NIC", 1), ("RouterInterface", 1), ("SwitchPort", 1)] ∧
    Gen.Forward.hopDropBelow = [("process_frame", 1), ("route_frame", 1)] ∧
    Gen.Forward.processDropsBroadcast = true := by decide

/-- The acceptance tests of host NICs (with the destination-IP test of the repaired code) and the order of guards in
`Router.receive_frame`, as regenerated from the source, are the ones the model implements (`hostAccepts`, `routerRecv`). -/
theorem C08_gen_accept :
    Gen.Forward.nicUnicastNeedsNodeIp = true ∧
    Gen.Forward.routerReceiveOrder = ["on", "acl", "deny-return", "learn", "software-if-own-else-process"] := by decide

/-- The wireless access point's `receive_frame` has the shape and the acceptance test of a router interface (so the model
treats it as one), and the host's outbound-interface resolution carries the repair of F-57 (`resolveOut`, host branch:
`if dst == g then none`). -/
theorem C08_gen_wireless_and_gateway :
    Gen.Forward.wapDropBelow = 1 ∧ Gen.Forward.wapAcceptsLikeRouterInterface = true ∧
    Gen.Forward.airTransmitToOtherEnabled = true ∧ Gen.Forward.gatewayNotViaGateway = true := by decide

/-- The firewall's arrival-port dispatch, the calls of each entry point in source order, "verdict first" and the missing
operating-state test, as regenerated from firewall.py by C06's extractor, are what `routerRecv` implements for `fw = some _`
(ports 1 / 2 / 3 of the source are interfaces 0 / 1 / 2 of the model: `ingressList`). -/
theorem C08_gen_firewall :
    Gen.Filter.portDispatch = [(1, "extIn"), (2, "intOut"), (3, "dmzOut")] ∧
    Gen.Filter.entryCalls = [("extIn", ["learn", "session", "entry:dmzIn", "entry:intIn"]), ("extOut", ["process"]),
      ("intIn", ["process"]), ("intOut", ["learn", "session", "entry:dmzIn", "entry:extOut"]), ("dmzIn", ["process"]),
      ("dmzOut", ["learn", "session", "lookup", "lookup", "entry:extOut", "entry:intIn"])] ∧
    Gen.Filter.verdictFirst = true ∧
    Gen.Filter.powerGuard = [("router", true), ("firewall", false), ("switch", false), ("host", false)] ∧
    ingressList 0 = some 0 ∧ ingressList 1 = some 3 ∧ ingressList 2 = some 5 ∧ ingressList 3 = none := by decide

/-! ### TTL: every receive and every routing hop lowers it by one; exhausted frames are not processed -/

/-- potential of a frame: times it was accepted for processing so far + what its TTL still allows. -/
def pot (f : Frame) : Int := (f.fwd : Int) + max 0 f.ttl

/-- `f'` is a later state of the frame object `f`: same identity, addresses and payload, potential not increased. -/
def Thr (f f' : Frame) : Prop :=
  pot f' ≤ pot f ∧ f'.id = f.id ∧ f'.srcIp = f.srcIp ∧ f'.dstIp = f.dstIp ∧ f'.pl = f.pl

theorem Thr.refl (f : Frame) : Thr f f := ⟨Int.le_refl _, rfl, rfl, rfl, rfl⟩

theorem Thr.trans {a b c : Frame} (h1 : Thr a b) (h2 : Thr b c) : Thr a c :=
  ⟨Int.le_trans h2.1 h1.1, h2.2.1.trans h1.2.1, h2.2.2.1.trans h1.2.2.1, h2.2.2.2.1.trans h1.2.2.2.1,
    h2.2.2.2.2.trans h1.2.2.2.2⟩

theorem thr_dec (f : Frame) : Thr f f.dec := by
  refine ⟨?_, rfl, rfl, rfl, rfl⟩
  unfold pot Frame.dec
  simp only
  split <;> omega

theorem thr_stamp (f : Frame) (a b : Mac) : Thr f (f.stamp a b) := ⟨Int.le_refl _, rfl, rfl, rfl, rfl⟩


/-- the seven frame-threading functions of the interpreter, at one fuel level. -/
structure ThrAt (fuel : Nat) : Prop where
  send : ∀ st n i f, Thr f (sendFrame fuel st n i f).2
  recv : ∀ st n i f, Thr f (ifaceRecv fuel st n i f).2
  sw : ∀ st n i f, Thr f (switchRecv fuel st n i f).2
  flood : ∀ st n i f ports, Thr f (floodPorts fuel st n i f ports).2
  host : ∀ st n i f, Thr f (hostRecv fuel st n i f).2
  router : ∀ st n i f, Thr f (routerRecv fuel st n i f).2
  process : ∀ st n i f, Thr f (routerProcess fuel st n i f).2

theorem thrAt_zero : ThrAt 0 := by
  constructor <;> intros <;> simp only [sendFrame, ifaceRecv, switchRecv, floodPorts, hostRecv, routerRecv, routerProcess] <;>
    exact Thr.refl _

theorem flood_fold (fuel : Nat) (ih : ThrAt fuel) (n i : Nat) (ports : List Nat) :
    ∀ (st : St) (f g : Frame), Thr f g →
      Thr f (ports.foldl (fun (acc : St × Frame) p =>
        match acc.1.iface? n p with
        | some pif => if pif.enabled && p != i then sendFrame fuel acc.1 n p acc.2 else acc
        | none => acc) (st, g)).2 := by
  induction ports with
  | nil => intro st f g h; simpa using h
  | cons p ps ihp =>
    intro st f g h
    simp only [List.foldl_cons]
    split
    · split
      · have := ih.send st n p g
        generalize sendFrame fuel st n p g = r at this ⊢
        obtain ⟨st', g'⟩ := r
        exact ihp st' f g' (h.trans this)
      · exact ihp st f g h
    · exact ihp st f g h


macro "thr_close" ih:ident : tactic => `(tactic| with_reducible first
  | exact Thr.refl _
  | exact thr_dec _
  | exact ($ih).send _ _ _ _
  | exact ($ih).recv _ _ _ _
  | exact ($ih).flood _ _ _ _ _
  | exact ($ih).process _ _ _ _
  | exact (thr_dec _).trans (($ih).host _ _ _ _)
  | exact (thr_dec _).trans (($ih).router _ _ _ _)
  | exact (thr_dec _).trans (($ih).sw _ _ _ _)
  | exact (thr_dec _).trans ((thr_stamp _ _ _).trans (($ih).send _ _ _ _)))

theorem thrAt_succ (fuel : Nat) (ih : ThrAt fuel) : ThrAt (fuel + 1) := by
  constructor
  · intro st n i f
    simp only [sendFrame]
    repeat' split
    all_goals thr_close ih
  · intro st n i f
    simp only [ifaceRecv]
    repeat' split
    all_goals thr_close ih
  · intro st n i f
    simp only [switchRecv]
    repeat' split
    all_goals thr_close ih
  · intro st n i f ports
    simp only [floodPorts]
    exact flood_fold fuel ih n i ports st f f (Thr.refl f)
  · intro st n i f
    simp only [hostRecv]
    repeat' split
    all_goals thr_close ih
  · intro st n i f
    simp only [routerRecv]
    repeat' split
    all_goals thr_close ih
  · intro st n i f
    simp only [routerProcess]
    repeat' split
    all_goals thr_close ih

theorem thrAt (fuel : Nat) : ThrAt fuel := by
  induction fuel with
  | zero => exact thrAt_zero
  | succ k ih => exact thrAt_succ k ih


/-! #### the TTL statements -/

/-- `decrement_ttl` lowers the TTL by exactly one, and the frame counts as accepted for processing exactly when the
test `ttl < 1` that follows every decrement fails. -/
theorem C08_ttl_strict (f : Frame) :
    f.dec.ttl = f.ttl - 1 ∧ (f.dec.fwd = f.fwd + 1 ↔ ¬ f.dec.ttl < 1) ∧ (f.dec.fwd = f.fwd ↔ f.dec.ttl < 1) := by
  unfold Frame.dec
  refine ⟨rfl, ?_, ?_⟩ <;> simp only <;> split <;> omega

/-- A frame whose TTL is exhausted by the decrement is dropped by the receiving interface (host NIC, router interface
or switch port) before ANY processing: the only trace is the log entry; no table is touched, nothing is sent. -/
theorem C08_exhausted_dropped_on_receive (fuel : Nat) (st : St) (n i : Nat) (f : Frame) (nd : Node) (ifc : Iface)
    (hn : st.node? n = some nd) (hi : st.iface? n i = some ifc) (ht : f.ttl ≤ 1) :
    ifaceRecv (fuel + 1) st n i f = (st.emit (.rx n i f.id f.ttl), f.dec) := by
  have hd : f.dec.ttl < 1 := by unfold Frame.dec; simp only; omega
  simp only [ifaceRecv, hn, hi, hd, if_true]

/-- Whatever happens to a frame object handed to an interface — every nested delivery, every branch of every flood,
every router hop, at any nesting depth — it stays the same object (identity, IP addresses, payload) and its potential
`accepted-so-far + max 0 ttl` never increases. -/
theorem C08_ttl_potential (fuel : Nat) (st : St) (n i : Nat) (f : Frame) :
    Thr f (sendFrame fuel st n i f).2 := (thrAt fuel).send st n i f

/-- Forwarding of one frame ends: the number of times a frame object is accepted for processing (receives that pass
the TTL test + router hops that pass it), summed over ALL branches of all floods it takes part in, is at most its TTL. -/
theorem C08_hops_le_ttl (fuel : Nat) (st : St) (n i : Nat) (f : Frame) (h0 : f.fwd = 0) :
    ((sendFrame fuel st n i f).2.fwd : Int) ≤ max 0 f.ttl := by
  have h := (C08_ttl_potential fuel st n i f).1
  unfold pot at h
  rw [h0] at h
  have : (0 : Int) ≤ max 0 (sendFrame fuel st n i f).2.ttl := Int.le_max_left _ _
  omega

/-- the same bound for a frame as the session manager builds it (TTL 64): one flood shares one frame object, so the
total over all its branches is bounded by the initial TTL. -/
theorem C08_flood_total_le_ttl (fuel : Nat) (st : St) (n i : Nat) (f : Frame) (h0 : f.fwd = 0) (ht : f.ttl = initTtl) :
    (sendFrame fuel st n i f).2.fwd ≤ 64 := by
  have h := C08_hops_le_ttl fuel st n i f h0
  rw [ht] at h
  unfold initTtl at h
  omega

/-- the same statements for a frame entering at a receiving interface and for the router's forwarding step. -/
theorem C08_ttl_potential_recv (fuel : Nat) (st : St) (n i : Nat) (f : Frame) :
    Thr f (ifaceRecv fuel st n i f).2 ∧ Thr f (routerProcess fuel st n i f).2 ∧
      ∀ ports, Thr f (floodPorts fuel st n i f ports).2 :=
  ⟨(thrAt fuel).recv st n i f, (thrAt fuel).process st n i f, (thrAt fuel).flood st n i f⟩

example : ∃ f : Frame, f.fwd = 0 ∧ f.ttl = initTtl :=
  ⟨{ id := 0, srcMac := 1, dstMac := 2, srcIp := 0, dstIp := 1, ttl := 64, pl := .echoReq 7 }, rfl, rfl⟩

/-! ### ARP look-ups re-attempt at most twice -/

/-- rank of the two flags `is_reattempt`, `is_default_gateway_attempt` / `is_default_route_attempt`. -/
def flagRank (re gw : Bool) : Nat := (if re then 0 else 2) + (if gw then 0 else 1)

/-- every self-call of `HostARP._get_arp_cache_mac_address / _network_interface` strictly lowers the rank. -/
theorem C08_arp_host_rank (nd : Node) (ip t : Ip) (re gw re' gw' : Bool)
    (h : hostArpNext nd ip re gw = .go t re' gw') : flagRank re' gw' < flagRank re gw := by
  unfold hostArpNext at h
  cases re <;> cases gw <;> cases hg : nd.gateway <;> simp [hg] at h <;>
    (try split at h) <;> (try simp at h) <;> (try (obtain ⟨_, rfl, rfl⟩ := h)) <;> simp [flagRank]

/-- every self-call of `RouterARP._get_arp_cache_mac_address / _network_interface` strictly lowers the rank. -/
theorem C08_arp_router_rank (nd : Node) (ip t : Ip) (re gw re' gw' b : Bool)
    (h : routerArpNext nd ip re gw b = .go t re' gw') : flagRank re' gw' < flagRank re gw := by
  unfold routerArpNext at h
  cases re <;> cases gw <;> simp at h <;> (repeat' split at h) <;> (try simp at h) <;>
    (try (obtain ⟨_, rfl, rfl⟩ := h)) <;> simp [flagRank]

/-- so one look-up reads the cache at most three times and sends at most two ARP requests. -/
theorem C08_arp_depth_le_3 (re gw : Bool) : flagRank re gw ≤ 3 := by
  cases re <;> cases gw <;> simp [flagRank]


/-! ### host next hop: on-link destinations directly, everything else via the default gateway, else nothing -/

/-- the frame the session manager builds. -/
def mkFrame (st : St) (oif : Iface) (dmac : Mac) (dst : Ip) (pl : Pl) : Frame :=
  { id := st.nextId, srcMac := oif.mac, dstMac := dmac, srcIp := oif.ip, dstIp := dst, ttl := initTtl, pl := pl }

/-- Destination inside the subnet of an enabled NIC and resolved in the ARP cache: `resolve_outbound_transmission_details`
answers with the destination's own cached MAC and the interface the entry names, without sending anything. -/
theorem C08_host_resolves_direct (fuel : Nat) (st : St) (n k : Nat) (nd : Node) (dst : Ip) (e : ArpEntry)
    (hn : st.node? n = some nd) (_hk : nd.kind = .host)
    (hon : firstEnabledIn nd.ifaces dst 0 = some k) (he : nd.arpGet dst = some e) :
    resolveDetails (fuel + 2) st n dst = (st, some e.mac, some e.ifc) := by
  simp only [resolveDetails, hn, hon, arpMac, arpIfc, he]

/-- … so the frame goes DIRECTLY to the destination's cached MAC. -/
theorem C08_host_next_hop_direct (fuel : Nat) (st : St) (n k : Nat) (nd : Node) (dst : Ip) (pl : Pl) (e : ArpEntry)
    (hn : st.node? n = some nd) (hk : nd.kind = .host)
    (hon : firstEnabledIn nd.ifaces dst 0 = some k) (he : nd.arpGet dst = some e) :
    sendIcmp (fuel + 3) st n dst pl =
      match st.iface? n e.ifc with
      | none => st
      | some oif => (sendFrame (fuel + 2) { st with nextId := st.nextId + 1 } n e.ifc (mkFrame st oif e.mac dst pl)).1 := by
  simp only [sendIcmp, C08_host_resolves_direct fuel st n k nd dst e hn hk hon he, mkFrame]
  rfl

/-- Destination outside every enabled NIC's subnet, gateway configured and resolved: the answer is the GATEWAY's cached
MAC (and the interface of that entry). -/
theorem C08_host_resolves_gateway (fuel : Nat) (st : St) (n : Nat) (nd : Node) (dst g : Ip) (e : ArpEntry)
    (hn : st.node? n = some nd) (hk : nd.kind = .host)
    (hoff : firstEnabledIn nd.ifaces dst 0 = none) (hg : nd.gateway = some g) (he : nd.arpGet g = some e)
    (hen : nd.ifaces.any (·.enabled) = true) :
    resolveDetails (fuel + 2) st n dst = (st, some e.mac, some e.ifc) := by
  simp only [resolveDetails, hn, hoff, hk, hg, arpMac, arpIfc, he, hen, if_true]

/-- … so the frame keeps the destination IP address but is sent to the gateway's MAC. -/
theorem C08_host_next_hop_gateway (fuel : Nat) (st : St) (n : Nat) (nd : Node) (dst g : Ip) (pl : Pl) (e : ArpEntry)
    (hn : st.node? n = some nd) (hk : nd.kind = .host)
    (hoff : firstEnabledIn nd.ifaces dst 0 = none) (hg : nd.gateway = some g) (he : nd.arpGet g = some e)
    (hen : nd.ifaces.any (·.enabled) = true) :
    sendIcmp (fuel + 3) st n dst pl =
      match st.iface? n e.ifc with
      | none => st
      | some oif => (sendFrame (fuel + 2) { st with nextId := st.nextId + 1 } n e.ifc (mkFrame st oif e.mac dst pl)).1 := by
  simp only [sendIcmp, C08_host_resolves_gateway fuel st n nd dst g e hn hk hoff hg he hen, mkFrame]
  rfl

/-- Destination outside every enabled NIC's subnet and no default gateway: nothing is transmitted and nothing changes. -/
theorem C08_host_next_hop_none (fuel : Nat) (st : St) (n : Nat) (nd : Node) (dst : Ip) (pl : Pl)
    (hn : st.node? n = some nd) (hk : nd.kind = .host)
    (hoff : firstEnabledIn nd.ifaces dst 0 = none) (hg : nd.gateway = none) :
    sendIcmp (fuel + 2) st n dst pl = st := by
  simp only [sendIcmp, resolveDetails, hn, hoff, hk, hg]

/-- and `ping` does not even try: without a gateway an off-link destination resolves no outbound interface. -/
theorem C08_host_no_route_no_interface (fuel : Nat) (st : St) (n : Nat) (nd : Node) (dst : Ip)
    (hn : st.node? n = some nd) (hk : nd.kind = .host)
    (hoff : firstEnabledIn nd.ifaces dst 0 = none) (hg : nd.gateway = none) :
    resolveOut (fuel + 1) st n dst = (st, none) := by
  simp only [resolveOut, hn, hoff, hk, hg]

/-! ### the default gateway is never resolved through the default gateway (repair F-57) -/

/-- `resolve_outbound_network_interface` for the host's OWN DEFAULT GATEWAY answers at once, whatever the fuel, without
touching the state and without any nested look-up: an enabled interface on the gateway's network, else nothing.  Before the
repair the second case asked ARP for the gateway's interface, ARP sent a request for the gateway, which came back here —
without end (multi-homed host whose gateway-side NIC is disabled, gateway outside the host's subnets). -/
theorem C08_gateway_resolved_without_recursion (st : St) (n : Nat) (nd : Node) (g : Ip)
    (hn : st.node? n = some nd) (hk : nd.kind = .host) (hg : nd.gateway = some g) :
    ∀ fuel, resolveOut (fuel + 1) st n g = (st, firstEnabledIn nd.ifaces g 0) := by
  intro fuel
  cases hfe : firstEnabledIn nd.ifaces g 0 with
  | some i => simp only [resolveOut, hn, hfe]
  | none => simp only [resolveOut, hn, hfe, hk, hg, beq_self_eq_true, if_true]

/-- … so an ARP request for the default gateway from a host that has no enabled interface on the gateway's network sends
nothing and changes nothing, at any fuel: the cycle `send_arp_request → resolve_outbound_network_interface →
get_default_gateway_network_interface → get_arp_cache_network_interface → send_arp_request` of the call graph is cut. -/
theorem C08_gateway_request_cut (st : St) (n : Nat) (nd : Node) (g t : Ip)
    (hn : st.node? n = some nd) (hk : nd.kind = .host) (hg : nd.gateway = some g)
    (hoff : firstEnabledIn nd.ifaces g 0 = none) (ht : t = g ∨ firstIn nd.ifaces t 0 = none) :
    ∀ fuel, sendArpReq (fuel + 2) st n t = st := by
  intro fuel
  have hr := C08_gateway_resolved_without_recursion st n nd g hn hk hg fuel
  rw [hoff] at hr
  by_cases hc : (nd.arpGet t).isSome = true
  · simp only [sendArpReq, hn, hc, if_true]
  · have hc' : (nd.arpGet t).isSome = false := by simpa using hc
    rcases ht with rfl | ht
    · cases hfi : firstIn nd.ifaces t 0 with
      | some i => simp only [sendArpReq, hn, hc', hfi, Option.isSome_some, if_true, hr, Bool.false_eq_true, if_false]
      | none => simp only [sendArpReq, hn, hc', hfi, Option.isSome_none, hg, hr, Bool.false_eq_true, if_false]
    · simp only [sendArpReq, hn, hc', ht, Option.isSome_none, hg, hr, Bool.false_eq_true, if_false]

/-! ### routers forward along the route `find_best_route` selects -/

/-- A router that holds a unicast frame for an off-link destination (no cache entry, no interface subnet contains it)
forwards it to the cached MAC of the NEXT HOP OF THE ROUTE `find_best_route` RETURNS (hence, by `C08_best_longest /
_cheapest / _first_among_equals`, the longest-prefix, cheapest, earliest entry), out of the interface that entry names,
with the TTL lowered by one, source MAC rewritten, IP addresses untouched. -/
theorem C08_router_uses_best_route (fuel : Nat) (st : St) (n i : Nat) (f : Frame) (nd : Node) (r : Route.Route)
    (idx : Nat) (e : ArpEntry) (oif : Iface)
    (hn : st.node? n = some nd) (hk : nd.kind = .router) (hb : (f.dstMac == bcastMac) = false)
    (hmiss : nd.arpGet f.dstIp = none) (hoff : firstIn nd.ifaces f.dstIp 0 = none)
    (hbest : findBestRoute nd.routes f.dstIp = .route idx r)
    (he : nd.arpGet r.nextHop = some e) (hif : st.iface? n e.ifc = some oif) (hen : oif.enabled = true)
    (hnot : oif.inNet f.dstIp = false) (httl : ¬ f.dec.ttl < 1) :
    routerProcess (fuel + 3) st n i f =
      sendFrame (fuel + 2) (st.emit (.hop n f.id f.ttl)) n e.ifc (f.dec.stamp oif.mac e.mac) := by
  have hreq : ∀ k, sendArpReq (k + 1) st n r.nextHop = st := by
    intro k; simp only [sendArpReq, hn, he, Option.isSome_some, if_true]
  simp only [routerProcess, hb, Bool.false_eq_true, if_false, arpIfc, arpMac, hn, hmiss, hk, hoff, arpNext, routerArpNext,
    hbest, hreq, he, hif, hen, hnot, httl, Route.Result.nextHop?, beq_self_eq_true, if_true, Bool.not_false, Bool.not_true,
    Option.isSome_none, Bool.and_false]

/-- … and along the default route exactly when `find_best_route` answers with it (last resort, `C08_default_iff`). -/
theorem C08_router_uses_default_route (fuel : Nat) (st : St) (n i : Nat) (f : Frame) (nd : Node) (nh : Ip)
    (e : ArpEntry) (oif : Iface)
    (hn : st.node? n = some nd) (hk : nd.kind = .router) (hb : (f.dstMac == bcastMac) = false)
    (hmiss : nd.arpGet f.dstIp = none) (hoff : firstIn nd.ifaces f.dstIp 0 = none)
    (hbest : findBestRoute nd.routes f.dstIp = .default nh)
    (he : nd.arpGet nh = some e) (hif : st.iface? n e.ifc = some oif) (hen : oif.enabled = true)
    (hnot : oif.inNet f.dstIp = false) (httl : ¬ f.dec.ttl < 1) :
    routerProcess (fuel + 3) st n i f =
      sendFrame (fuel + 2) (st.emit (.hop n f.id f.ttl)) n e.ifc (f.dec.stamp oif.mac e.mac) := by
  have hreq : ∀ k, sendArpReq (k + 1) st n nh = st := by
    intro k; simp only [sendArpReq, hn, he, Option.isSome_some, if_true]
  simp only [routerProcess, hb, Bool.false_eq_true, if_false, arpIfc, arpMac, hn, hmiss, hk, hoff, arpNext, routerArpNext,
    hbest, hreq, he, hif, hen, hnot, httl, Route.Result.nextHop?, beq_self_eq_true, if_true, Bool.not_false, Bool.not_true,
    Option.isSome_none, Bool.and_false]

/-- … and drops it, touching nothing, when there is neither a matching route nor a default route. -/
theorem C08_router_no_route_drops (fuel : Nat) (st : St) (n i : Nat) (f : Frame) (nd : Node)
    (hn : st.node? n = some nd) (hk : nd.kind = .router) (hb : (f.dstMac == bcastMac) = false)
    (hmiss : nd.arpGet f.dstIp = none) (hoff : firstIn nd.ifaces f.dstIp 0 = none)
    (hbest : findBestRoute nd.routes f.dstIp = .noRoute) :
    routerProcess (fuel + 2) st n i f = (st, f) := by
  simp only [routerProcess, hb, Bool.false_eq_true, if_false, arpIfc, arpMac, hn, hmiss, hk, hoff, arpNext, routerArpNext,
    hbest, beq_self_eq_true, if_true, Bool.not_false, Option.isSome_none, Bool.and_false]

/-- with the repaired `process_frame`, a layer-2 broadcast that is not for one of the router's own addresses is never
forwarded and triggers no ARP traffic (this is what ends the mutual ARP recursion of finding F-33). -/
theorem C08_router_never_forwards_broadcast (fuel : Nat) (st : St) (n i : Nat) (f : Frame) (hb : f.dstMac = bcastMac) :
    routerProcess (fuel + 1) st n i f = (st, f) := by
  simp only [routerProcess, hb, beq_self_eq_true, if_true]

/-! ### switches: learned port, else flood -/

/-- A switch that knows the destination MAC (after learning the source) sends a unicast frame out of exactly that port. -/
theorem C08_switch_known_unicast (fuel : Nat) (st : St) (n i p : Nat) (f : Frame) (nd : Node)
    (hn : (st.modNode n (fun nd => nd.learnMac f.srcMac i)).node? n = some nd)
    (hp : nd.macPort f.dstMac = some p) (hu : (f.dstMac != bcastMac) = true) :
    switchRecv (fuel + 1) st n i f = sendFrame fuel (st.modNode n (fun nd => nd.learnMac f.srcMac i)) n p f := by
  simp only [switchRecv, hn, hp, hu, if_true]

/-- Unknown destination MAC (or a broadcast): the ONE frame object is offered to every port in port order; the flood loop
skips disabled ports and the ingress port. -/
theorem C08_switch_unknown_floods (fuel : Nat) (st : St) (n i : Nat) (f : Frame) (nd : Node)
    (hn : (st.modNode n (fun nd => nd.learnMac f.srcMac i)).node? n = some nd)
    (hp : nd.macPort f.dstMac = none) :
    switchRecv (fuel + 1) st n i f =
      floodPorts fuel (st.modNode n (fun nd => nd.learnMac f.srcMac i)) n i f (List.range nd.ifaces.length) := by
  simp only [switchRecv, hn, hp]

/-- the flood never goes back out of the ingress port and never out of a disabled port. -/
theorem C08_flood_skips (fuel : Nat) (st : St) (n i p : Nat) (f : Frame) (ps : List Nat) (pif : Iface)
    (hp : st.iface? n p = some pif) (hskip : (pif.enabled && p != i) = false) :
    floodPorts (fuel + 1) st n i f (p :: ps) = floodPorts (fuel + 1) st n i f ps := by
  simp only [floodPorts, List.foldl_cons, hp, hskip, Bool.false_eq_true, if_false]

/-! ### addressee, per hop (the run-level theorems are in `Props/C08Addressee.lean`) -/

/-- (repaired `NIC.receive_frame`) a host NIC passes a unicast frame up only if it is for the NIC's MAC address AND for an
IP address of this host; a broadcast only for the NIC's own or its subnet's broadcast address. -/
theorem C08_host_accepts_only_own_address (nd : Node) (ifc : Iface) (f : Frame) (h : hostAccepts nd ifc f = true) :
    (f.dstMac = bcastMac ∧ (f.dstIp = ifc.ip ∨ f.dstIp = ifc.bcastAddr)) ∨
    (f.dstMac ≠ bcastMac ∧ f.dstMac = ifc.mac ∧ ∃ own ∈ nd.ifaces, own.ip = f.dstIp) := by
  unfold hostAccepts at h
  by_cases hb : f.dstMac = bcastMac
  · left
    simp only [hb, beq_self_eq_true, if_true, Bool.or_eq_true, beq_iff_eq] at h
    exact ⟨hb, h⟩
  · right
    have hne : (f.dstMac == bcastMac) = false := by simpa using hb
    simp only [hne, Bool.false_eq_true, if_false, Bool.and_eq_true, beq_iff_eq] at h
    refine ⟨hb, h.1, ?_⟩
    cases hw : ifaceWithIp nd.ifaces f.dstIp with
    | none => rw [hw] at h; simp at h
    | some own =>
      unfold ifaceWithIp at hw
      exact ⟨own, List.mem_of_find?_eq_some hw, by simpa using List.find?_some hw⟩

/-- what lets a frame that is not for an own address through a router (powered on, first verdict permits) or a firewall
(first verdict of the arrival port's list permits, arrival port external or internal, the second list chosen by the
destination permits). -/
def transitOk (nd : Node) (i : Nat) (pl : Pl) (dst : Ip) : Bool :=
  match nd.fw with
  | none => nd.on && !aclDenies nd i pl
  | some acl =>
    !aclDenies nd i pl &&
      (if i == 2 then
        -- arrival on the DMZ port (`_process_dmz_outbound_frame`), warm: the destination's cache entry names the outbound port,
        -- the list of that port (external outbound / internal inbound) permits
        match nd.arpGet dst with
        | some e => (match dmzSecondList e.ifc with | some l => fwPermits acl l pl | none => false)
        | none => false
      else fwPermits acl (secondList nd i dst) pl)

/-- a router / firewall passes a frame up to its own software only for one of its own addresses
(`check_send_frame_to_session_manager`); everything else that the verdicts permit goes to `process_frame`, after the
source pair was learned. -/
theorem C08_router_transit (fuel : Nat) (st : St) (n i : Nat) (f : Frame) (nd : Node) (ifc : Iface)
    (hn : st.node? n = some nd) (hi : st.iface? n i = some ifc) (hok : transitOk nd i f.pl f.dstIp = true)
    (hnot : ifaceWithIp nd.ifaces f.dstIp = none) (hdmz : nd.fw.isSome → i = 2 → f.dstMac ≠ bcastMac ∧ 1 ≤ fuel) :
    routerRecv (fuel + 1) st n i f =
      routerProcess fuel (st.modNode n (fun nd => nd.addArp f.srcIp f.srcMac i)) n i f := by
  unfold transitOk at hok
  cases hfw : nd.fw with
  | none =>
    simp only [hfw, Bool.and_eq_true, Bool.not_eq_true'] at hok
    simp only [routerRecv, hn, hi, hfw, hok.1, hok.2, Option.isNone_none, Bool.not_true, Bool.and_false, Bool.false_eq_true,
      if_false, hnot]
  | some acl =>
    simp only [hfw, Bool.and_eq_true, Bool.not_eq_true'] at hok
    by_cases h2 : (i == 2) = true
    · -- the DMZ port: the cache hit answers the first look-up without touching the state
      obtain ⟨hb, hf1⟩ := hdmz (by rw [hfw]; rfl) (by simpa using h2)
      obtain ⟨k, rfl⟩ : ∃ k, fuel = k + 1 := ⟨fuel - 1, by omega⟩
      simp only [h2, if_true] at hok
      have hbm : (f.dstMac == bcastMac) = false := by simpa using hb
      -- the destination is cached in the node as it is AFTER the source pair was learned, too
      cases hget : nd.arpGet f.dstIp with
      | none => rw [hget] at hok; simp at hok
      | some e =>
        rw [hget] at hok
        simp only at hok
        cases hl : dmzSecondList e.ifc with
        | none => rw [hl] at hok; simp at hok
        | some l =>
          rw [hl] at hok
          have hperm : fwPermits acl l f.pl = true := by simpa using hok.2
          have hnode : (st.modNode n (fun nd => nd.addArp f.srcIp f.srcMac i)).node? n = some (nd.addArp f.srcIp f.srcMac i) := by
            unfold St.modNode St.node?
            unfold St.node? at hn
            simp [List.getElem?_modify, hn]
          have hget' : (nd.addArp f.srcIp f.srcMac i).arpGet f.dstIp = some e := by
            unfold Node.addArp
            split
            · exact hget
            · split
              · exact hget
              · unfold Node.arpGet at hget ⊢
                simp [List.find?_append, hget]
          simp only [routerRecv, hn, hi, hfw, hok.1, h2, hbm, Option.isNone_some, Bool.false_and, Bool.false_eq_true, if_false,
            hnot, if_true, arpIfc, hnode, hget', hl, Option.bind_some, hperm]
    · have h2' : (i == 2) = false := by simpa using h2
      simp only [h2', Bool.false_eq_true, if_false] at hok
      simp only [routerRecv, hn, hi, hfw, hok.1, hok.2, h2', Option.isNone_some, Bool.false_and, Bool.false_eq_true, if_false,
        hnot, if_true]

/-- the plain-router reading: powered on, the default ACL (ARP exempt, ICMP permitted, the service only with a rule). -/
theorem C08_router_software_only_own_address (fuel : Nat) (st : St) (n i : Nat) (f : Frame) (nd : Node) (ifc : Iface)
    (hn : st.node? n = some nd) (hi : st.iface? n i = some ifc) (hfw : nd.fw = none) (hon : nd.on = true)
    (hacl : ((f.pl == .dataReq || f.pl == .dataRep) && !nd.flag) = false) (happ : appDenied nd.serves f.pl = false)
    (hnot : ifaceWithIp nd.ifaces f.dstIp = none) :
    routerRecv (fuel + 1) st n i f =
      routerProcess fuel (st.modNode n (fun nd => nd.addArp f.srcIp f.srcMac i)) n i f :=
  C08_router_transit fuel st n i f nd ifc hn hi (by simp [transitOk, aclDenies, hfw, hon, hacl, happ]) hnot
    (by intro h; rw [hfw] at h; cases h)

/-- a router or firewall whose first verdict denies the frame's class drops it before anything else happens (no ARP
learning, no hand-over to software, no forwarding): "exchanges that every device on the path permits" is a real
precondition.  On a firewall this includes ARP (no exemption). -/
theorem C08_first_verdict_denies_first (fuel : Nat) (st : St) (n i : Nat) (f : Frame)
    (hden : ∀ nd, st.node? n = some nd → aclDenies nd i f.pl = true) :
    routerRecv (fuel + 1) st n i f = (st, f) := by
  simp only [routerRecv]
  split
  · rename_i nd ifc hn hi
    simp [hden nd hn]
  · rfl

theorem C08_router_acl_denies_first (fuel : Nat) (st : St) (n i : Nat) (f : Frame) (nd : Node) (_ifc : Iface)
    (hn : st.node? n = some nd) (hfw : nd.fw = none)
    (hpl : f.pl = .dataReq ∨ f.pl = .dataRep) (hflag : nd.flag = false) :
    routerRecv (fuel + 1) st n i f = (st, f) := by
  apply C08_first_verdict_denies_first
  intro nd' hn'
  rw [hn] at hn'
  have : nd' = nd := by simpa using hn'.symm
  subst this
  rcases hpl with h | h <;> simp [aclDenies, hfw, h, hflag]

/-- a firewall's second verdict (the list chosen by the destination) denies: the source pair was learned, nothing else. -/
theorem C08_firewall_second_verdict_drops (fuel : Nat) (st : St) (n i : Nat) (f : Frame) (nd : Node) (ifc : Iface)
    (acl : List (Nat × Nat)) (hn : st.node? n = some nd) (hi : st.iface? n i = some ifc) (hfw : nd.fw = some acl)
    (h1 : aclDenies nd i f.pl = false) (hi2 : (i == 2) = false)
    (h2 : fwPermits acl (secondList nd i f.dstIp) f.pl = false) (hnot : ifaceWithIp nd.ifaces f.dstIp = none) :
    routerRecv (fuel + 1) st n i f = (st.modNode n (fun nd => nd.addArp f.srcIp f.srcMac i), f) := by
  simp only [routerRecv, hn, hi, hfw, h1, h2, hi2, Option.isNone_some, Bool.false_and, Bool.false_eq_true, if_false, hnot]

/-- the port / rule-list tables of the firewall are those of C06's element model (`Model/Filter.lean`, itself tied to
the source by `Gen/Filter.lean`): arrival port ↦ entry point ↦ rule list. -/
def listOfAclId : Filter.AclId → Option Nat
  | .extIn => some 0 | .extOut => some 1 | .intIn => some 2 | .intOut => some 3 | .dmzIn => some 4 | .dmzOut => some 5
  | .router => none

theorem C08_firewall_tables_match_filter :
    (∀ i, ingressList i = (Filter.portEntry i).bind (fun e => listOfAclId (Filter.entryAcl e))) ∧
    Filter.entryCalls .extIn = [.learn, .session, .entry .dmzIn, .entry .intIn] ∧
    Filter.entryCalls .intOut = [.learn, .session, .entry .dmzIn, .entry .extOut] ∧
    Filter.entryCalls .dmzOut = [.learn, .session, .lookup, .lookup, .entry .extOut, .entry .intIn] ∧
    (∀ nd dst, secondList nd 0 dst = if inDmzNet nd dst then 4 else 2) ∧
    (∀ nd dst, secondList nd 1 dst = if inDmzNet nd dst then 4 else 1) ∧
    dmzSecondList Filter.extPort = some 1 ∧ dmzSecondList Filter.intPort = some 2 ∧ dmzSecondList Filter.dmzPort = none ∧
    Filter.powerGuard .firewall = false ∧ Filter.powerGuard .router = true := by
  refine ⟨?_, rfl, rfl, rfl, fun _ _ => rfl, fun _ _ => rfl, rfl, rfl, rfl, rfl, rfl⟩
  intro i
  unfold ingressList Filter.portEntry Filter.extPort Filter.intPort Filter.dmzPort
  by_cases h0 : i = 0
  · subst h0; rfl
  · by_cases h1 : i = 1
    · subst h1; rfl
    · by_cases h2 : i = 2
      · subst h2; rfl
      · simp [h0, h1, h2]

/-! ### non-vacuity: a concrete network (host A — host B on one link; A also has a default gateway) -/

def ipA : Ip := 0xC0A80102#32
def ipB : Ip := 0xC0A80103#32
def ipGw : Ip := 0xC0A80101#32
def ipFar : Ip := 0x08080808#32
def exA : Node :=
  { kind := .host, gateway := some ipGw,
    ifaces := [{ mac := 1, ip := ipA, plen := 24, enabled := true, peer := some (1, 0) }],
    arp := [{ ip := ipB, mac := 2, ifc := 0 }, { ip := ipGw, mac := 2, ifc := 0 }] }
def exB : Node :=
  { kind := .host, ifaces := [{ mac := 2, ip := ipB, plen := 24, enabled := true, peer := some (0, 0) }] }
def exSt : St := { nodes := [exA, exB] }

example : exSt.node? 0 = some exA ∧ exA.kind = .host ∧ firstEnabledIn exA.ifaces ipB 0 = some 0 ∧
    exA.arpGet ipB = some { ip := ipB, mac := 2, ifc := 0 } := by decide
example : firstEnabledIn exA.ifaces ipFar 0 = none ∧ exA.gateway = some ipGw ∧
    exA.arpGet ipGw = some { ip := ipGw, mac := 2, ifc := 0 } ∧ exA.ifaces.any (·.enabled) = true := by decide
example : firstEnabledIn exB.ifaces ipFar 0 = none ∧ exB.gateway = none := by decide
/-- the model really delivers: A pings B once over a cold cache of B, the reply comes back, result `True`. -/
example : (ping 40 exSt 0 ipB 1).2 = true := by decide +kernel
/-- … and an exhausted frame is dropped at B's NIC: with TTL 1 the request is logged but never reaches software. -/
example : (ifaceRecv 5 exSt 1 0 { id := 9, srcMac := 1, dstMac := 2, srcIp := ipA, dstIp := ipB, ttl := 1, pl := .echoReq 3 }).1.log =
    [.rx 1 0 9 1] := by decide +kernel
def exRoute : Route.Route := { addr := 0xAC100000#32, mask := 0xFFFF0000#32, nextHop := 0x0A000002#32, metric := 0 }
def exR : Node :=
  { kind := .router,
    ifaces := [{ mac := 10, ip := ipGw, plen := 24, enabled := true }, { mac := 11, ip := 0x0A000001#32, plen := 30, enabled := true }],
    routes := { routes := [exRoute], default := some 0x0A000002#32 },
    arp := [{ ip := 0x0A000002#32, mac := 20, ifc := 1 }] }
/-- hypotheses of `C08_router_uses_best_route` (destination 172.16.0.5) and of `C08_router_uses_default_route`
(destination 8.8.8.8) hold for a concrete router. -/
example : exR.arpGet 0xAC100005#32 = none ∧ firstIn exR.ifaces 0xAC100005#32 0 = none ∧
    findBestRoute exR.routes 0xAC100005#32 = .route 0 exRoute ∧
    exR.arpGet exRoute.nextHop = some { ip := 0x0A000002#32, mac := 20, ifc := 1 } ∧
    (exR.ifaces[1]?.map (fun o => o.enabled && !o.inNet 0xAC100005#32)) = some true ∧
    findBestRoute exR.routes ipFar = .default 0x0A000002#32 ∧
    findBestRoute { exR.routes with default := none } ipFar = .noRoute := by decide
/-- hypotheses of `C08_gateway_request_cut`: a dual-homed host whose NIC towards the gateway is disabled, the other up. -/
def exDual : Node :=
  { kind := .host, gateway := some ipGw,
    ifaces := [{ mac := 1, ip := ipA, plen := 24, enabled := false, peer := some (1, 0) },
               { mac := 3, ip := 0xC0A80205#32, plen := 24, enabled := true, peer := some (1, 1) }] }
example : exDual.kind = .host ∧ exDual.gateway = some ipGw ∧ firstEnabledIn exDual.ifaces ipGw 0 = none ∧
    firstIn exDual.ifaces ipFar 0 = none ∧ exDual.ifaces.any (·.enabled) = true := by decide
example : hostArpNext exA ipFar false false = .go ipFar true false ∧ hostArpNext exA ipFar true false = .go ipGw true true := by
  decide

end Primaite.Forward
