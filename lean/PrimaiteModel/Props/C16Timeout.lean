/-
C16 — inactivity time-out at run level, and the inactivity clock.

* `C16_clock_step`: after ANY operation every session of every node is an identical record from before (same id, user, peer and
  the same `last_active_step`) or its clock reads the step the operation ran in; the two time-out parameters never change.
* `C16_clock_moves_only_by_accepted_command`: in a state with unique ids, the clock of an existing remote session is moved only by
  an accepted terminal command (`Carried`; the acceptance sets the clock of exactly the session the command travels on,
  `touch_exactly`).  Nothing else counts as activity: not a login of the same user, not a refused command, not a local command.
* `C16_local_clock_never_moves`: the clock of a local session is never moved by anything — a local session ends
  `local_session_timeout_steps` after its LOGIN however busy it is (the code never writes `last_active_step` of a local session).
* `C16_local_timeout_exact`: the local session survives the tick to `t+1` iff `t + 1 < last + local_session_timeout_steps`
  (the remote counterpart is `C16_timeout_exact` in Props/C16.lean): each kind with ITS OWN parameter.
* `NoStale` + `C16_no_stale_step/run`: for every operation sequence from a state without stale sessions (e.g. a fresh network), in
  every state reached every listed session — remote w.r.t. `remote_session_timeout_steps`, local w.r.t.
  `local_session_timeout_steps` — has been idle for fewer steps than ITS kind's time-out, or was created / used in the current step.
* `C16_command_session_within_timeout`: hence a remote command is only ever accepted on a session that is within its time-out.
-/
import PrimaiteModel.Props.C16Transport
namespace Primaite.Session

/-! ### the clock relation -/

/-- node `b'` (after) against node `b` (before), `t` = the step the operation runs in -/
structure ClockRel (t : Nat) (b b' : Node) : Prop where
  rto : b'.remoteTimeout = b.remoteTimeout
  lto : b'.localTimeout = b.localTimeout
  rem : ∀ s' ∈ b'.rem, s' ∈ b.rem ∨ s'.last = t
  loc : ∀ l', b'.loc = some l' → b.loc = some l' ∨ l'.last = t

def ClockR (t : Nat) : Nat → Node → Node → Prop := fun _ b b' => ClockRel t b b'

theorem clock_frame (t : Nat) : Frame (ClockR t) :=
  { refl := fun _ b => ⟨rfl, rfl, fun _ h => Or.inl h, fun _ h => Or.inl h⟩,
    trans := fun _ a b c h1 h2 => ⟨h2.rto.trans h1.rto, h2.lto.trans h1.lto,
      fun s hs => by
        rcases h2.rem s hs with h | h
        · exact h1.rem s h
        · exact Or.inr h,
      fun l hl => by
        rcases h2.loc l hl with h | h
        · exact h1.loc l h
        · exact Or.inr h⟩,
    shr := fun _ a b h => ⟨h.remoteTimeout, h.localTimeout, fun s hs => Or.inl (h.rem.subset hs), fun l hl => by
      rcases h.loc with g | g
      · exact Or.inl (g ▸ hl)
      · rw [g] at hl; cases hl⟩,
    data := fun _ a b h => ⟨data_remoteTimeout h, data_localTimeout h, fun s hs => Or.inl (data_rem h ▸ hs),
      fun l hl => Or.inl (data_loc h ▸ hl)⟩ }

/-- the relation between two networks used for the induction over nested commands: same time, nodes related at that time -/
structure Clock (n m : Net) : Prop where
  time : m.time = n.time
  rel : Net.Rel (ClockR n.time) n m

theorem Clock.refl (n : Net) : Clock n n := ⟨rfl, (clock_frame n.time).rel_refl n⟩

theorem Clock.trans {n m k : Net} (h1 : Clock n m) (h2 : Clock m k) : Clock n k :=
  ⟨h2.time.trans h1.time, (clock_frame n.time).rel_trans h1.rel (by rw [← h1.time]; exact h2.rel)⟩

theorem clock_of_rel {n m : Net} (ht : m.time = n.time) (h : Net.Rel (ClockR n.time) n m) : Clock n m := ⟨ht, h⟩

theorem clock_of_shr {n m : Net} (h : n.Shr m) : Clock n m :=
  ⟨h.time, (clock_frame n.time).rel_shr (clock_frame n.time).shr ((clock_frame n.time).rel_refl n) h⟩

theorem clock_same (t : Nat) (b b' : Node) (h1 : b'.remoteTimeout = b.remoteTimeout) (h2 : b'.localTimeout = b.localTimeout)
    (h3 : b'.rem = b.rem) (h4 : b'.loc = b.loc) : ClockR t 0 b b' :=
  ⟨h1, h2, fun _ hs => Or.inl (h3 ▸ hs), fun _ hl => Or.inl (h4 ▸ hl)⟩

theorem touch_mem {b : Node} {cid t : Nat} {s' : RSession} (h : s' ∈ (b.touch cid t).rem) : s' ∈ b.rem ∨ s'.last = t := by
  unfold Node.touch at h
  obtain ⟨s, hs, heq⟩ := List.mem_map.mp h
  split at heq
  · exact Or.inr (by rw [← heq])
  · exact Or.inl (heq ▸ hs)

theorem clock_touch (n : Net) (y cid : Nat) : Clock n (n.upd y (Node.touch cid n.time)) :=
  ⟨rfl, rel_upd n y _ (clock_frame n.time).refl (fun b _ => ⟨rfl, rfl, fun _ hs => touch_mem hs, fun _ hl => Or.inl hl⟩)⟩

theorem localLogin_time (n : Net) (y : Nat) (u p : String) : (localLogin n y u p).1.time = n.time := by
  rcases localLogin_cases n y u p with h | ⟨_, _, _, h⟩ <;> rw [h] <;> rfl

theorem clock_localLogin (n : Net) (y : Nat) (u p : String) : Clock n (localLogin n y u p).1 := by
  refine ⟨localLogin_time n y u p, ?_⟩
  rcases localLogin_cases n y u p with h | ⟨nd, _, _, h⟩ <;> rw [h]
  · exact (clock_frame n.time).rel_refl n
  · refine rel_bump (rel_upd n y _ (clock_frame n.time).refl (fun b _ => ?_)) _
    rcases localLoginCore_fst b u n.time n.nextId with ⟨h1, _⟩ | ⟨h1, _⟩ <;> rw [h1]
    · exact (clock_frame n.time).refl y b
    · exact ⟨rfl, rfl, fun _ hs => Or.inl hs, fun l hl => by
        simp only [Node.setLoc, Option.some.injEq] at hl; subst hl; exact Or.inr rfl⟩

theorem clock_addConn (n : Net) (y : Nat) (c : Conn) : Clock n (n.upd y (Node.addConn c)) :=
  ⟨rfl, rel_upd n y _ (clock_frame n.time).refl (fun b _ => ⟨rfl, rfl, fun _ hs => Or.inl hs, fun _ hl => Or.inl hl⟩)⟩

theorem clock_remoteLogin (n : Net) (x y : Nat) (u p : String) : Clock n (opRemoteLogin n x y u p).1 := by
  have F := clock_frame n.time
  have hA : Clock n (afterLogin n x y u) := by
    unfold afterLogin
    refine ⟨rfl, rel_bump (rel_upd n y (fun b => (b.addSession ⟨n.nextId, u, n.time, x⟩).addConn ⟨n.nextId, some x⟩) F.refl
      (fun b _ => ⟨rfl, rfl, fun s hs => ?_, fun _ hl => Or.inl hl⟩)) _⟩
    simp only [Node.addConn, Node.addSession, List.mem_append, List.mem_singleton] at hs
    rcases hs with hs | hs
    · exact Or.inl hs
    · subst hs; exact Or.inr rfl
  rcases opRemoteLogin_cases n x y u p with ⟨h0, _⟩ | ⟨_, _, _, _, _, _, _, _, ⟨h0, _⟩ | ⟨h0, _⟩⟩ <;> rw [h0]
  · exact Clock.refl n
  · exact hA
  · exact hA.trans (by
      have := clock_addConn (afterLogin n x y u) x ⟨n.nextId, some y⟩
      exact this)

theorem clock_usmLogin (n : Net) (y : Nat) (u p : String) (peer : Nat) : Clock n (opUsmLogin n y u p peer).1 := by
  rcases opUsmLogin_cases n y u p peer with ⟨h0, _⟩ | ⟨_, _, _, _, _, h0, _⟩ <;> rw [h0]
  · exact Clock.refl n
  · refine ⟨rfl, rel_bump (rel_upd n y (Node.addSession ⟨n.nextId, u, n.time, peer⟩) (clock_frame n.time).refl
      (fun b _ => ⟨rfl, rfl, fun s hs => ?_, fun _ hl => Or.inl hl⟩)) _⟩
    simp only [Node.addSession, List.mem_append, List.mem_singleton] at hs
    rcases hs with hs | hs
    · exact Or.inl hs
    · subst hs; exact Or.inr rfl

theorem exec_time (c : Cmd) (n : Net) (y : Nat) : (execCmd c n y).1.time = n.time := by
  refine exec_induction' (fun n m => m.time = n.time) (fun _ => rfl) (fun _ _ _ h1 h2 => h2.trans h1) ?_
    (fun n y cid => (shr_disconnect _ _ _ _).time) (fun _ _ _ _ => rfl) (fun n y u p => localLogin_time n y u p)
    (fun _ _ _ => rfl) c n y
  intro c hc n y
  cases c with
  | localCmd u p c => cases hc
  | remoteCmd z c => cases hc
  | file k => rcases opFile_cases n y k with h | ⟨_, _, _, h⟩ <;> simp [execCmd, h]
  | addUser u p adm => rcases opAddUser_cases n y u p adm with h | ⟨_, _, _, _, _, h⟩ <;> simp [execCmd, h]
  | disableUser u => rcases opDisableUser_cases n y u with h | ⟨_, _, _, _, _, _, _, _, h⟩ <;> simp [execCmd, h]
  | changePassword u o nw =>
    rcases opChangePassword_cases n y u o nw with ⟨h, _⟩ | ⟨_, _, _, _, _, _, _, h, _⟩ <;> simp only [execCmd, h]
    rw [(shr_logoutUser _ _ _).time]; rfl
  | remoteLogin z u p =>
    rcases opRemoteLogin_cases n y z u p with ⟨h, _⟩ | ⟨_, _, _, _, _, _, _, _, ⟨h, _⟩ | ⟨h, _⟩⟩ <;>
      simp [execCmd, h, afterLogin]
  | remoteLogoff z =>
    rcases opRemoteLogoff_cases n y z with h | ⟨_, _, _, _, _, h, _⟩ <;> simp only [execCmd, h]
    exact (shr_disconnect _ _ _ _).time
  | usmLogin u p peer =>
    rcases opUsmLogin_cases n y u p peer with ⟨h, _⟩ | ⟨_, _, _, _, _, h, _⟩ <;> simp [execCmd, h]
  | usmLogout i =>
    rcases opUsmLogout_cases n y i with ⟨h, _⟩ | ⟨_, _, _, _, _, h⟩ <;> simp only [execCmd, h, upd_time]
    exact (shr_disconnect _ _ _ _).time
  | svc w v => rcases opSvc_cases n y w v with h | ⟨_, _, h⟩ <;> simp [execCmd, h]
  | shutdown => rcases opShutdown_cases n y with h | ⟨_, _, h⟩ <;> simp [execCmd, h]
  | startup => rcases opStartup_cases n y with h | ⟨_, _, h⟩ <;> simp [execCmd, h]
  | reset => rcases opReset_cases n y with h | ⟨_, _, h⟩ <;> simp [execCmd, h]

/-- every request, nested to any depth, keeps the clock relation -/
theorem clock_exec (c : Cmd) (n : Net) (y : Nat) : Clock n (execCmd c n y).1 := by
  refine exec_induction_now Clock Clock.refl (fun _ _ _ h1 h2 => h1.trans h2) ?_
    (fun n y cid => clock_of_shr (shr_disconnect _ _ _ _)) clock_touch clock_localLogin
    (fun n y u p id _ => (clock_localLogin n y u p).trans (clock_addConn _ _ _)) c n y
  intro c hc n y
  have F := clock_frame n.time
  have r : ∀ j (a : Node), ClockR n.time j a a := F.refl
  have ht := exec_time c n y
  cases c with
  | localCmd u p c => cases hc
  | remoteCmd z c => cases hc
  | remoteLogin z u p => exact clock_remoteLogin n y z u p
  | usmLogin u p peer => exact clock_usmLogin n y u p peer
  | file k => exact clock_of_rel ht (F.toPre.file n y k (fun a => clock_same _ a _ rfl rfl rfl rfl))
  | addUser u p adm => exact clock_of_rel ht (F.toPre.addUser n y u p adm (fun a _ => clock_same _ a _ rfl rfl rfl rfl))
  | disableUser u => exact clock_of_rel ht (F.toPre.disableUser n y u (fun a => clock_same _ a _ rfl rfl rfl rfl))
  | changePassword u o nw => exact clock_of_rel ht (F.changePassword n y u o nw (fun a => clock_same _ a _ rfl rfl rfl rfl))
  | remoteLogoff z => exact clock_of_rel ht (F.remoteLogoff n y z)
  | usmLogout i => exact clock_of_rel ht (F.usmLogout n y i)
  | svc w v => exact clock_of_rel ht (F.ofData n _ _ (opSvc_cases n _ _ _))
  | shutdown => exact clock_of_rel ht (F.ofData n _ _ (opShutdown_cases n _))
  | startup => exact clock_of_rel ht (F.ofData n _ _ (opStartup_cases n _))
  | reset => exact clock_of_rel ht (F.ofData n _ _ (opReset_cases n _))

/-- **C16, clock (any operation).** After any operation, every remote session of every node is an identical record from before the
operation (same id, user, peer and `last_active_step`) or its `last_active_step` is the step the operation ran in (it was created
or used by this operation); the same for the local session; the two time-out parameters are never changed. -/
theorem C16_clock_step (n : Net) (op : Op) : Net.Rel (ClockR n.time) n (step n op).1 := by
  have F := clock_frame n.time
  cases op with
  | req y c => exact (clock_exec c n y).rel
  | enableUser y u => exact F.toPre.enableUser n y u (fun a => clock_same _ a _ rfl rfl rfl rfl)
  | addUserBypass y u p adm => exact F.toPre.addUserBypass n y u p adm (fun a _ => clock_same _ a _ rfl rfl rfl rfl)
  | localLogin y u p => simp only [step]; rw [opLocalLogin_fst]; exact (clock_localLogin n y u p).rel
  | localLogout y => exact F.localLogout n y
  | tick => exact F.tick n
  | setBlock x y on => exact rel_setBlock F.refl n x y on

/-! ### nothing but an accepted command moves the clock of an existing session -/

/-- remote sessions (whole records) only disappear -/
def RemSame : Nat → Node → Node → Prop := fun _ a b => b.rem.Sublist a.rem

theorem remSame_frame : Frame RemSame :=
  { refl := fun _ _ => List.Sublist.refl _, trans := fun _ _ _ _ h1 h2 => List.Sublist.trans h2 h1,
    shr := fun _ _ _ h => h.rem, data := fun _ _ _ h => by unfold RemSame; rw [data_rem h]; exact List.Sublist.refl _ }

/-- a command that carries no further command and is not a login leaves every remote-session record alone (or removes it) -/
theorem atomic_remSame (c : Cmd) (hc : c.atomic = true) (hl : c.noLogin = true) (n : Net) (y : Nat) :
    Net.Rel RemSame n (execCmd c n y).1 := by
  have F := remSame_frame
  have r : ∀ j (a : Node), RemSame j a a := F.refl
  cases c with
  | localCmd u p c => cases hc
  | remoteCmd z c => cases hc
  | remoteLogin z u p => cases hl
  | usmLogin u p peer => cases hl
  | file k => exact F.toPre.file n y k (fun a => r y a)
  | addUser u p adm => exact F.toPre.addUser n y u p adm (fun a _ => r y a)
  | disableUser u => exact F.toPre.disableUser n y u (fun a => r y a)
  | changePassword u o nw => exact F.changePassword n y u o nw (fun a => r y a)
  | remoteLogoff z => exact F.remoteLogoff n y z
  | usmLogout i => exact F.usmLogout n y i
  | svc w v => exact F.ofData n _ _ (opSvc_cases n _ _ _)
  | shutdown => exact F.ofData n _ _ (opShutdown_cases n _)
  | startup => exact F.ofData n _ _ (opStartup_cases n _)
  | reset => exact F.ofData n _ _ (opReset_cases n _)

/-- the acceptance of a command sets the clock of exactly the session it travels on: every other record is untouched, and the
record with that id keeps everything but `last` -/
theorem touch_exactly (b : Node) (cid t : Nat) :
    (∀ s ∈ b.rem, s.id ≠ cid → s ∈ (b.touch cid t).rem) ∧
    (∀ s ∈ b.rem, s.id = cid → ({ s with last := t } : RSession) ∈ (b.touch cid t).rem) ∧
    (b.touch cid t).rem.length = b.rem.length := by
  unfold Node.touch
  refine ⟨fun s hs hne => ?_, fun s hs he => ?_, by simp⟩
  · exact List.mem_map.mpr ⟨s, hs, by simp [hne]⟩
  · exact List.mem_map.mpr ⟨s, hs, by simp [he]⟩

/-- **C16, clock (what counts as activity).** In a state with unique session ids (every reachable state, `C16_fresh_ids_run`): if
after an operation node `y` lists a remote session with the id of a session it listed before but not the identical record — i.e.
its clock was moved — then the operation was a terminal command that was accepted (`Carried`).  A login of the same user, a refused
or rejected command, a logoff, user-manager / service / power requests, ticks and ACL edits never move a clock. -/
theorem C16_clock_moves_only_by_accepted_command (n : Net) (hf : FreshIds n) (op : Op) (y : Nat) (b a : Node)
    (hb : n.node y = some b) (ha : (step n op).1.node y = some a) (s s' : RSession) (hs : s ∈ b.rem) (hs' : s' ∈ a.rem)
    (hid : s'.id = s.id) (hne : s' ≠ s) : Carried n op := by
  obtain ⟨hlt, hnd⟩ := hf y b hb
  have contra : Net.Rel RemSame n (step n op).1 → False := fun h => by
    obtain ⟨a', ha', hsub⟩ := h.node y b hb
    rw [ha] at ha'; cases ha'
    exact hne (eq_of_nodup_ids hnd (hsub.subset hs') hs hid)
  have appended : ∀ snew : RSession, snew.id = n.nextId → (a.rem = b.rem ++ [snew] ∨ a.rem = b.rem) → False := by
    intro snew hnew h
    have hmem : s' ∈ b.rem ∨ s' = snew := by
      rcases h with h | h <;> rw [h] at hs'
      · rcases List.mem_append.mp hs' with h1 | h1
        · exact Or.inl h1
        · exact Or.inr (by simpa using h1)
      · exact Or.inl hs'
    rcases hmem with h1 | h1
    · exact hne (eq_of_nodup_ids hnd h1 hs hid)
    · have := hlt s hs; rw [h1, hnew] at hid; omega
  have F := remSame_frame
  cases op with
  | enableUser y' u => exact (contra (F.toPre.enableUser n y' u (fun a => F.refl y' a))).elim
  | addUserBypass y' u p adm => exact (contra (F.toPre.addUserBypass n y' u p adm (fun a _ => F.refl y' a))).elim
  | localLogin y' u p =>
    refine (contra ?_).elim
    simp only [step]; rw [opLocalLogin_fst]; exact F.toPre.localLogin n y' u p (fun a _ => F.refl y' a)
  | localLogout y' => exact (contra (F.localLogout n y')).elim
  | tick => exact (contra (F.tick n)).elim
  | setBlock x' y' on => exact (contra (rel_setBlock F.refl n x' y' on)).elim
  | req x c =>
    cases c with
    | remoteCmd z c =>
      rcases C16_remote_command_outcomes n x z c with ⟨h0, _⟩ | ⟨h0, _⟩ | h0
      · rw [h0] at contra; exact (contra (F.rel_refl n)).elim
      · exact (contra (F.rel_shr F.shr (F.rel_refl n) h0)).elim
      · exact h0
    | localCmd u p c =>
      have hl : Net.Rel RemSame n (localLogin n x u p).1 := F.toPre.localLogin n x u p (fun a _ => F.refl x a)
      rcases C16_local_command_outcomes n x u p c with h0 | h0 | ⟨id, h0⟩ | h0
      · rw [h0] at contra; exact (contra (F.rel_refl n)).elim
      · rw [h0] at contra; exact (contra hl).elim
      · rw [h0] at contra; exact (contra (F.rel_upd hl x _ (fun a => F.refl x a))).elim
      · exact h0
    | remoteLogin y' u p =>
      simp only [step, execCmd] at ha
      rcases opRemoteLogin_cases n x y' u p with ⟨h0, _⟩ | ⟨_, _, _, _, _, _, _, _, h0⟩
      · simp only [step, execCmd] at contra; rw [h0] at contra; exact (contra (F.rel_refl n)).elim
      · have hrem := opRemoteLogin_rem n x y' u p y b a hb ha h0
        refine (appended ⟨n.nextId, u, n.time, x⟩ rfl ?_).elim
        split at hrem
        · exact Or.inl hrem
        · exact Or.inr hrem
    | usmLogin u p peer =>
      simp only [step, execCmd] at ha
      rcases opUsmLogin_cases n x u p peer with ⟨h0, _⟩ | ⟨b', hb', _, _, _, h0, _⟩
      · simp only [step, execCmd] at contra; rw [h0] at contra; exact (contra (F.rel_refl n)).elim
      · rw [h0] at ha
        simp only [node_bump, node_upd] at ha
        refine (appended ⟨n.nextId, u, n.time, peer⟩ rfl ?_).elim
        by_cases h : x = y
        · subst h
          simp only [if_true, hb, Option.map_some, Option.some.injEq] at ha
          subst ha; exact Or.inl rfl
        · simp only [h, if_false] at ha
          rw [hb] at ha; cases ha; exact Or.inr rfl
    | file k => exact (contra (atomic_remSame _ rfl rfl n x)).elim
    | addUser u p adm => exact (contra (atomic_remSame _ rfl rfl n x)).elim
    | disableUser u => exact (contra (atomic_remSame _ rfl rfl n x)).elim
    | changePassword u o nw => exact (contra (atomic_remSame _ rfl rfl n x)).elim
    | remoteLogoff z => exact (contra (atomic_remSame _ rfl rfl n x)).elim
    | usmLogout i => exact (contra (atomic_remSame _ rfl rfl n x)).elim
    | svc w v => exact (contra (atomic_remSame _ rfl rfl n x)).elim
    | shutdown => exact (contra (atomic_remSame _ rfl rfl n x)).elim
    | startup => exact (contra (atomic_remSame _ rfl rfl n x)).elim
    | reset => exact (contra (atomic_remSame _ rfl rfl n x)).elim

/-! ### the clock of a local session is never moved -/

/-- **C16, clock (local session).** In a reachable state (`ConnInv`: ids in use are below the counter) no operation moves the
clock of a local session: if the node's local session afterwards has the id of the one before, it is the identical record.  The code
never writes `last_active_step` of a local session — neither a local command nor a repeated login of the same user counts as
activity — so a local session ends `local_session_timeout_steps` after its login (`C16_local_timeout_exact`). -/
theorem C16_local_clock_never_moves (n : Net) (hi : ConnInv n) (op : Op) (y : Nat) (b a : Node) (hb : n.node y = some b)
    (ha : (step n op).1.node y = some a) (l l' : LSession) (hl : b.loc = some l) (hl' : a.loc = some l') (hid : l'.id = l.id) :
    l' = l := by
  obtain ⟨b0, hb0, _, hloc⟩ := (connStep_step n op).node y a ha
  rw [hb] at hb0; cases hb0
  rcases hloc l' hl' with h | h
  · rw [hl] at h; cases h; rfl
  · have := hi.locIds y b l hb hl; omega

/-! ### the local time-out is exact, with its own parameter -/

theorem timeoutRemote_loc (m : Net) (j : Nat) (s : RSession) (y : Nat) (b : Node) (hb : m.node y = some b) :
    ∃ a, (timeoutRemote m j s).node y = some a ∧ a.loc = b.loc ∧ a.localTimeout = b.localTimeout := by
  unfold timeoutRemote
  dsimp only
  have h1 : ∃ a, (m.upd j (fun nd => (nd.dropSession s.id).dropConn s.id)).node y = some a ∧ a.loc = b.loc ∧
      a.localTimeout = b.localTimeout := by
    by_cases hj : j = y
    · subst hj; exact ⟨(b.dropSession s.id).dropConn s.id, by simp [hb], rfl, rfl⟩
    · exact ⟨b, by simp [hj, hb], rfl, rfl⟩
  obtain ⟨a1, ha1, hl1, ht1⟩ := h1
  split
  · by_cases hp : s.peer = y
    · subst hp; exact ⟨a1.dropConn s.id, by simp [ha1], hl1, ht1⟩
    · exact ⟨a1, by simp [hp, ha1], hl1, ht1⟩
  · exact ⟨a1, ha1, hl1, ht1⟩

theorem foldl_timeout_loc (l : List RSession) (m : Net) (j y : Nat) (b : Node) (hb : m.node y = some b) :
    ∃ a, (l.foldl (fun m s => timeoutRemote m j s) m).node y = some a ∧ a.loc = b.loc ∧ a.localTimeout = b.localTimeout := by
  induction l generalizing m b with
  | nil => exact ⟨b, hb, rfl, rfl⟩
  | cons c t ih =>
    obtain ⟨a1, ha1, h1, h1'⟩ := timeoutRemote_loc m j c y b hb
    obtain ⟨a, ha, h2, h2'⟩ := ih (timeoutRemote m j c) a1 ha1
    exact ⟨a, ha, h2.trans h1, h2'.trans h1'⟩

/-- `pre_timestep` of node `j` as seen from the local session of node `y` -/
theorem preTimestepNode_loc (m : Net) (j y : Nat) (b : Node) (hb : m.node y = some b) :
    ∃ a, (preTimestepNode m j).node y = some a ∧ a.localTimeout = b.localTimeout ∧
      a.loc = if j = y ∧ b.localExpired m.time = true then none else b.loc := by
  unfold preTimestepNode
  cases hj : m.node j with
  | none =>
    refine ⟨b, hb, rfl, ?_⟩
    have : j ≠ y := fun h => by rw [h, hb] at hj; cases hj
    simp [this]
  | some nd =>
    dsimp only
    by_cases hjy : j = y
    · subst hjy
      rw [hb] at hj; cases hj
      by_cases hexp : b.localExpired m.time = true
      · simp only [hexp, if_true, true_and]
        obtain ⟨a, ha, h1, h2⟩ := foldl_timeout_loc (b.expired m.time) (m.upd j Node.clearLoc) j j b.clearLoc (by simp [hb])
        exact ⟨a, ha, h2, h1⟩
      · simp only [hexp, Bool.false_eq_true, if_false, and_false]
        obtain ⟨a, ha, h1, h2⟩ := foldl_timeout_loc (b.expired m.time) m j j b hb
        exact ⟨a, ha, h2, h1⟩
    · simp only [hjy, false_and, if_false]
      have hb' : (if nd.localExpired m.time = true then m.upd j Node.clearLoc else m).node y = some b := by
        split
        · simp [hjy, hb]
        · exact hb
      obtain ⟨a, ha, h1, h2⟩ := foldl_timeout_loc (nd.expired m.time) _ j y b hb'
      exact ⟨a, ha, h2, h1⟩

theorem preTimestepNode_time (m : Net) (j : Nat) : (preTimestepNode m j).time = m.time := (shr_preTimestepNode m j).time

/-- the local session of `y` across the `pre_timestep` of all nodes in `l` (each at most once): ended iff expired and `y ∈ l` -/
theorem foldl_pre_loc (l : List Nat) (hnd : l.Nodup) (y : Nat) :
    ∀ (m : Net) (b : Node), m.node y = some b →
      ∃ a, (l.foldl preTimestepNode m).node y = some a ∧ a.localTimeout = b.localTimeout ∧
        a.loc = if y ∈ l ∧ b.localExpired m.time = true then none else b.loc := by
  induction l with
  | nil => intro m b hb; exact ⟨b, hb, rfl, by simp⟩
  | cons j t ih =>
    intro m b hb
    simp only [List.foldl_cons]
    obtain ⟨hjt, hndt⟩ := List.nodup_cons.mp hnd
    obtain ⟨a1, ha1, hlt1, hloc1⟩ := preTimestepNode_loc m j y b hb
    obtain ⟨a, ha, hlt, hloc⟩ := ih hndt (preTimestepNode m j) a1 ha1
    refine ⟨a, ha, hlt.trans hlt1, ?_⟩
    rw [hloc, preTimestepNode_time]
    by_cases hjy : j = y
    · subst hjy
      have hyt : ¬ j ∈ t := hjt
      by_cases hexp : b.localExpired m.time = true
      · simp only [hexp, and_true, if_true, true_and] at hloc1
        simp [hyt, hexp, hloc1]
      · simp only [hexp, Bool.false_eq_true, and_false, if_false] at hloc1
        simp [hyt, hexp, hloc1]
    · simp only [hjy, false_and, if_false] at hloc1
      have : a1.localExpired m.time = b.localExpired m.time := by
        unfold Node.localExpired; rw [hlt1, hloc1]
      have hjy' : ¬ y = j := fun h => hjy h.symm
      simp [this, hjy', hloc1]

/-- **C16, time-out (local), exact, with ITS OWN parameter.** After the tick that makes the time `t + 1`, node `y` still has its
local session `l` iff `t + 1 < l.last + local_session_timeout_steps`; `remote_session_timeout_steps` plays no part.  (The remote
counterpart, with `remote_session_timeout_steps` only, is `C16_timeout_exact`.) -/
theorem C16_local_timeout_exact (n : Net) (y : Nat) (b : Node) (hb : n.node y = some b) (l : LSession) (hl : b.loc = some l) :
    ∃ a, (tick n).node y = some a ∧ a.localTimeout = b.localTimeout ∧
      (a.loc = if l.last + b.localTimeout ≤ n.time + 1 then none else some l) := by
  unfold tick
  dsimp only
  have hb1 : ({ n with time := n.time + 1, nodes := n.nodes.map Node.applyTimestep } : Net).node y = some b.applyTimestep := by
    simp only [Net.node, List.getElem?_map] at hb ⊢
    rw [hb]; rfl
  have hd := applyTimestep_data b
  obtain ⟨a, ha, hlt, hloc⟩ := foldl_pre_loc (List.range (n.nodes.map Node.applyTimestep).length) List.nodup_range y _ _ hb1
  refine ⟨a, ha, hlt.trans (data_localTimeout hd), ?_⟩
  rw [hloc]
  have hy : y ∈ List.range (n.nodes.map Node.applyTimestep).length := by
    simp only [List.length_map, List.mem_range]; exact node_some_lt hb
  have hexp : b.applyTimestep.localExpired (n.time + 1) = decide (l.last + b.localTimeout ≤ n.time + 1) := by
    unfold Node.localExpired
    rw [data_loc hd, data_localTimeout hd, hl]
  simp only [hy, true_and, hexp, decide_eq_true_eq, data_loc hd, hl]

/-! ### run level: no listed session is past ITS time-out -/

/-- Every listed session has been idle for fewer steps than the time-out of its own kind, or was created / used in the current
step (the second alternative only matters for a configured time-out of 0). -/
def NoStale (n : Net) : Prop :=
  ∀ y b, n.node y = some b →
    (∀ s ∈ b.rem, n.time < s.last + b.remoteTimeout ∨ s.last = n.time) ∧
    (∀ l, b.loc = some l → n.time < l.last + b.localTimeout ∨ l.last = n.time)

theorem noStale_of_clock {n m : Net} (ht : m.time = n.time) (h : Net.Rel (ClockR n.time) n m) (hs : NoStale n) : NoStale m := by
  intro y a ha
  obtain ⟨b, hb, hab⟩ := Net.Rel.back_of_len h ha
  obtain ⟨h1, h2⟩ := hs y b hb
  rw [ht, hab.rto, hab.lto]
  refine ⟨fun s hsm => ?_, fun l hl => ?_⟩
  · rcases hab.rem s hsm with h | h
    · exact h1 s h
    · exact Or.inr h
  · rcases hab.loc l hl with h | h
    · exact h2 l h
    · exact Or.inr h

theorem step_time_ne_tick (n : Net) (op : Op) (h : op ≠ .tick) : (step n op).1.time = n.time := by
  cases op with
  | req y c => exact exec_time c n y
  | enableUser y u => rcases opEnableUser_cases n y u with h | h <;> simp [step, h]
  | addUserBypass y u p adm => rcases opAddUserBypass_cases n y u p adm with h | ⟨_, _, _, h⟩ <;> simp [step, h]
  | localLogin y u p => simp only [step]; rw [opLocalLogin_fst]; exact localLogin_time n y u p
  | localLogout y => rcases opLocalLogout_cases n y with h | h <;> simp [step, h]
  | tick => exact (h rfl).elim
  | setBlock x y on => rfl

theorem tick_time (n : Net) : (tick n).time = n.time + 1 := by
  unfold tick
  exact (shr_foldl preTimestepNode shr_preTimestepNode _ _).time

/-- whatever the state before, after a tick no listed session is at or past its time-out -/
theorem noStale_tick (n : Net) : NoStale (tick n) := by
  intro y a ha
  obtain ⟨b, hb⟩ : ∃ b, n.node y = some b := by
    have := step_node_back n .tick y a (by simpa [step] using ha); exact this
  rw [tick_time]
  have hclock := C16_clock_step n .tick
  simp only [step] at hclock
  obtain ⟨a', ha', hab⟩ := hclock.node y b hb
  rw [ha] at ha'; cases ha'
  refine ⟨fun s hs => ?_, fun l hl => ?_⟩
  · -- the record was there before (a tick creates nothing); had it expired it would be gone
    have hsub : Net.Rel RemSame n (tick n) := remSame_frame.tick n
    obtain ⟨a'', ha'', hsub'⟩ := hsub.node y b hb
    rw [ha] at ha''; cases ha''
    have hsb : s ∈ b.rem := hsub'.subset hs
    by_cases hexp : s.last + b.remoteTimeout ≤ n.time + 1
    · exact (C16_timeout_expired_gone n y b s hb hsb hexp a ha hs).elim
    · rw [hab.rto]; exact Or.inl (by omega)
  · have hkeep : Net.Rel LocShrink n (tick n) := locShrink_frame.tick n
    obtain ⟨a'', ha'', hk⟩ := hkeep.node y b hb
    rw [ha] at ha''; cases ha''
    have hlb : b.loc = some l := by
      rcases hk with hk | hk
      · rw [← hk]; exact hl
      · rw [hk] at hl; cases hl
    obtain ⟨a2, ha2, hlt2, hloc2⟩ := C16_local_timeout_exact n y b hb l hlb
    rw [ha] at ha2; cases ha2
    rw [hloc2] at hl
    split at hl
    · cases hl
    · rename_i hexp
      rw [hlt2]; exact Or.inl (by omega)

/-- **C16, time-out (invariant, one step).** -/
theorem C16_no_stale_step (n : Net) (op : Op) (h : NoStale n) : NoStale (step n op).1 := by
  by_cases ht : op = .tick
  · subst ht; exact noStale_tick n
  · exact noStale_of_clock (step_time_ne_tick n op ht) (C16_clock_step n op) h

/-- **C16, time-out (run level).** For every operation sequence from a state without stale sessions (a fresh network has no
sessions at all), in every state reached every listed remote session has been idle for fewer than `remote_session_timeout_steps`
steps and the local session for fewer than `local_session_timeout_steps` steps — each kind measured against its own parameter — or
was created / used in the current step. -/
theorem C16_no_stale_run (ops : List Op) (n : Net) (h : NoStale n) : NoStale (run n ops) := by
  induction ops generalizing n with
  | nil => exact h
  | cons op ops ih => exact ih _ (C16_no_stale_step n op h)

theorem noStale_init (n : Net) (h : ∀ j a, n.node j = some a → a.rem = [] ∧ a.loc = none) : NoStale n := by
  intro y b hb
  obtain ⟨h1, h2⟩ := h y b hb
  exact ⟨fun s hs => (by rw [h1] at hs; cases hs), fun l hl => (by rw [h2] at hl; cases hl)⟩

/-- **C16, time-out (commands).** In such a state a remote command that arrives is accepted only on a session the target lists
(`Carried`), and that session is within its time-out: a session idle for `remote_session_timeout_steps` or more steps runs no
command, in any reachable state. -/
theorem C16_command_session_within_timeout (n : Net) (h : NoStale n) (x z : Nat) (a b : Node) (cn : Conn)
    (arr : CmdArrives n x z a b cn) (hs : b.hasSession cn.id = true) :
    ∃ s ∈ b.rem, s.id = cn.id ∧ (n.time < s.last + b.remoteTimeout ∨ s.last = n.time) := by
  obtain ⟨s, hsm, hid⟩ := List.mem_map.mp ((hasSession_iff b cn.id).mp hs)
  exact ⟨s, hsm, hid, (h z b arr.dst).1 s hsm⟩

/-! ### non-vacuity -/

/-- local time-out 3, remote time-out 2 -/
def demoTo : Net := { nodes := [{ remoteTimeout := 2, localTimeout := 3 }, { remoteTimeout := 2, localTimeout := 3 }] }

example : NoStale demoTo := noStale_init demoTo (by
  intro j a ha
  match j, ha with
  | 0, ha => cases ha; exact ⟨rfl, rfl⟩
  | 1, ha => cases ha; exact ⟨rfl, rfl⟩)
-- each kind with its own parameter: after 2 ticks the remote session is gone and the local one is still there; after 3 both
example : ((run demoTo [login01, .localLogin 1 "admin" "admin", .tick, .tick]).node 1).map (fun b => (b.rem.length, b.loc.isSome))
    = some (0, true) := by decide
example : ((run demoTo [login01, .localLogin 1 "admin" "admin", .tick, .tick, .tick]).node 1).map (fun b => (b.rem.length, b.loc.isSome))
    = some (0, false) := by decide
-- activity: an accepted command moves the clock of the session it travels on (alive after 3 ticks) …
example : ((run demoTo [login01, .tick, cmd01 (.file 1), .tick, .tick]).node 1).map (·.rem.map (·.last)) = some [] := by decide
example : ((run demoTo [login01, .tick, cmd01 (.file 1), .tick]).node 1).map (·.rem.map (·.last)) = some [1] := by decide
-- … of that session only (two sessions 0→1; the command travels on the first connection)
example : ((run demoTo [login01, login01, .tick, cmd01 (.file 1)]).node 1).map (·.rem.map (·.last)) = some [1, 0] := by decide
-- … a second login of the same user, a refused command and a local command do not
example : ((run demoTo [login01, .tick, login01]).node 1).map (·.rem.map (·.last)) = some [0, 1] := by decide
example : ((run demoTo [.localLogin 1 "admin" "admin", .tick, .req 1 (.localCmd "admin" "admin" (.file 1)), .localLogin 1 "admin" "admin"]).node 1).map
    (fun b => b.loc.map (·.last)) = some (some 0) := by decide
-- hypotheses of C16_clock_moves_only_by_accepted_command: the clock really moves on the accepted command
example : ((run demoTo [login01, .tick]).node 1).map (·.rem.map (·.last)) = some [0] := by decide

end Primaite.Session
