/-
C12, deepening round: every node class (route tables from the schematic request tree, class inventories), what runs per
tick while a node is not ON, the direct API entry points / the loader / episode set-up, exactly which software comes
back, duration changes in mid-countdown.  Builds on `Props/C12.lean`.
-/
import PrimaiteModel.Props.C12
import PrimaiteModel.Gen.RequestSchema
namespace Primaite.Power

/-! ### 1. every node class: the route tables read off the schematic request tree (C05x's extractor) -/

section schema
open Primaite.Schema

/-- a validator of the schematic tree as a node-level guard; anything but (nothing | node-is-on | node-is-off) has no
counterpart in the power model -/
def guardOfValidator : Validator → Option Guard
  | [] => some .none
  | [.nodeIsOn] => some .nodeOn
  | [.nodeIsOff] => some .nodeOff
  | _ => none

/-- the node-level route table of a class as the schematic request tree has it -/
def routesOfMgr : Mgr → Option (List Route)
  | .static edges => edges.mapM (fun e => (guardOfValidator e.2.1).map (fun g => (⟨e.1, g⟩ : Route)))
  | .dynamic _ _ _ => none

/-- (class, its node-level routes) for `Node` itself and every class a node key of the request tree can lead to -/
def schemaNodeTables : List (String × Option (List Route)) :=
  ("Node" :: Gen.RequestSchema.levelClasses .node).map
    (fun c => (c, (Gen.RequestSchema.schema.mgr c).bind routesOfMgr))

/-- **every class of the schematic request tree.** For `Node` and each of the nine classes below it (abstract ones
included) the root manager is a literal table in which every route carries node-is-on, except `startup`, which carries
node-is-off. (Seeded C05-c — the firewall's `internal`/`dmz`/`external` routes lose the validator — breaks this and
`C12_gen_routes_guarded` alike; the two tables come from two independent extractors.) -/
theorem C12_gen_schema_routes_guarded :
    schemaNodeTables.all (fun p => match p.2 with | some t => allGuarded t | none => false) = true := by decide

/-- the class inventory of this check (every class below `Node`, found by walking the whole source tree) is the list of
classes the request tree can dispatch a node key to -/
theorem C12_gen_schema_covers_inventory :
    (Gen.Power.nodeClasses.map (·.1)).all (fun c => c == "Node" || (Gen.RequestSchema.levelClasses .node).contains c) = true ∧
    (Gen.RequestSchema.levelClasses .node).all (fun c => (Gen.Power.nodeClasses.map (·.1)).contains c) = true := by decide

/-- the two extractors agree: for every instantiable class, the table `Gen.Power.classTables` lists under its
discriminator is the table of the schematic tree -/
theorem C12_gen_schema_agrees :
    Gen.Power.nodeClasses.all (fun c =>
      !c.2.2 || c.2.1 == "" ||
      (match Gen.Power.classTables.lookup c.2.1, schemaNodeTables.lookup c.1 with
       | some t, some (some t') => t == t'
       | _, _ => false)) = true := by decide

/-- so the theorems that assume `allGuarded` hold for the table of every class of the schematic tree -/
theorem C12_all_schema_classes_guarded (cls : String) (tbl : List Route) (hc : (cls, some tbl) ∈ schemaNodeTables) :
    allGuarded tbl = true := by
  have := List.all_eq_true.mp C12_gen_schema_routes_guarded (cls, some tbl) hc
  simpa using this

example : ("Firewall", some ((Gen.Power.classTables.lookup "firewall").getD [])) ∈ schemaNodeTables := by decide

end schema

/-- **class inventories.** Every class below `Node` / `NetworkInterface` found anywhere under `simulator/` and `game/`,
split into the ones the rig drives and the ones it lists without driving (with the reason). A new class breaks this
until somebody decides on which side it goes. -/
def drivenNodeClasses : List String :=
  ["HostNode", "Computer", "Printer", "Server", "Router", "Switch", "Firewall", "WirelessRouter"]
/-- abstract: cannot be instantiated (`receive_frame` is abstract) -/
def listedNodeClasses : List String := ["Node", "NetworkNode"]
def drivenNicClasses : List (String × String) :=
  [("NIC", "simulator/network/hardware/nodes/host/host_node.py"),
   ("RouterInterface", "simulator/network/hardware/nodes/network/router.py"),
   ("SwitchPort", "simulator/network/hardware/nodes/network/switch.py"),
   ("WirelessAccessPoint", "simulator/network/hardware/nodes/network/wireless_router.py")]
/-- base classes no node connects directly, and the two modules under `network_interface/wireless/` that cannot be
imported (they import a name `base.py` does not define) and that no node class uses -/
def listedNicClasses : List (String × String) :=
  [("IPWirelessNetworkInterface", "simulator/network/airspace.py"),
   ("WirelessNetworkInterface", "simulator/network/airspace.py"),
   ("IPWiredNetworkInterface", "simulator/network/hardware/base.py"),
   ("NetworkInterface", "simulator/network/hardware/base.py"),
   ("WiredNetworkInterface", "simulator/network/hardware/base.py"),
   ("WirelessAccessPoint", "simulator/network/hardware/network_interface/wireless/wireless_access_point.py"),
   ("WirelessNIC", "simulator/network/hardware/network_interface/wireless/wireless_nic.py")]

theorem C12_gen_class_inventory :
    (Gen.Power.nodeClasses.map (·.1)).all (fun c => drivenNodeClasses.contains c || listedNodeClasses.contains c) = true ∧
    (drivenNodeClasses ++ listedNodeClasses).all (fun c => (Gen.Power.nodeClasses.map (·.1)).contains c) = true ∧
    -- driven = exactly the instantiable classes with a discriminator (the ones a scenario file can name)
    (Gen.Power.nodeClasses.filter (fun c => c.2.2 && c.2.1 != "")).map (·.1) = drivenNodeClasses ∧
    (Gen.Power.nicClasses.map (fun c => (c.1, c.2.1))).all (fun c => drivenNicClasses.contains c || listedNicClasses.contains c) = true ∧
    (drivenNicClasses ++ listedNicClasses).all (fun c => (Gen.Power.nicClasses.map (fun c => (c.1, c.2.1))).contains c) = true := by
  decide

/-- every definition of `enable()` / `disable()` at or below `NetworkInterface`: the two guarded base implementations
(`C12_gen_interfaces` reads their refusal lists), the two `IP…` wrappers that call `super().enable()` first, the two plain
`disable()`s, the abstract pair, and the two modules under `network_interface/wireless/` that cannot be imported. No
interface class a node carries (NIC, RouterInterface, SwitchPort, the wireless router's access point) defines its own —
an override there would bypass the node-is-on test, and would appear here as a new entry. -/
theorem C12_gen_nic_enable_defs :
    Gen.Power.nicEnableDefs =
      [("IPWirelessNetworkInterface@airspace.py", "enable", "translated"),
       ("WirelessNetworkInterface@airspace.py", "enable", "translated"),
       ("WirelessNetworkInterface@airspace.py", "disable", "translated"),
       ("IPWiredNetworkInterface@base.py", "enable", "translated"),
       ("NetworkInterface@base.py", "enable", "abstract"), ("NetworkInterface@base.py", "disable", "abstract"),
       ("WiredNetworkInterface@base.py", "enable", "translated"), ("WiredNetworkInterface@base.py", "disable", "translated"),
       ("WirelessAccessPoint@wireless_access_point.py", "enable", "other"),
       ("WirelessAccessPoint@wireless_access_point.py", "disable", "other"),
       ("WirelessNIC@wireless_nic.py", "enable", "other"), ("WirelessNIC@wireless_nic.py", "disable", "other")] := by decide

/-! ### 2. what runs per tick -/

/-- the statement list computes `tick` -/
theorem exec_tickProgram (n : Node) : (execTick tickProgram n).1 = tick n := by
  simp only [tickProgram, execTick, guardHolds, TickStmt.sem, if_true]
  by_cases h : (tickDown (tickUp n)).st = .on
  · simp [tick, tickSoftware, h]
  · simp [tick, tickSoftware, h]

/-- **the regenerated statement lists.** `Node.apply_timestep` and `Node.pre_timestep` consist of exactly these
top-level statements, each under exactly this power test (the extractor refuses any statement it cannot classify). -/
theorem C12_gen_tick_program :
    Gen.Power.tickStmts = tickProgram ∧ Gen.Power.preStmts = preProgram := by decide

/-- **software does no work per tick while not ON.** If the node is not ON once the two countdown blocks have run, a
tick executes the always-statements only — `super().apply_timestep` (nothing), the interfaces' `apply_timestep`
(nothing: `NetworkInterface.apply_timestep` is `super()`), the two countdown blocks — and none of: node scan, red scan,
processes, services, applications, file system. -/
theorem C12_tick_work_when_not_on (n : Node) (h : (tickDown (tickUp n)).st ≠ .on) :
    tickActs n = [.super, .nics, .upBlock, .downBlock] := by
  simp [tickActs, tickProgram, execTick, guardHolds, TickStmt.sem, h]

/-- … and all ten statements when it is (also in the very tick that ends BOOTING: the software clock resumes at once) -/
theorem C12_tick_work_when_on (n : Node) (h : (tickDown (tickUp n)).st = .on) :
    tickActs n = tickProgram.map (·.2) := by
  simp [tickActs, tickProgram, execTick, guardHolds, TickStmt.sem, h]

/-- completeness of the split: a statement of `apply_timestep` runs regardless of power iff it is one of the four -/
theorem C12_tick_always_statements :
    (tickProgram.filter (fun p => p.1 == .always)).map (·.2) = [.super, .nics, .upBlock, .downBlock] ∧
    (tickProgram.filter (fun p => p.1 == .whenOn)).map (·.2) = [.nodeScan, .redScan, .procs, .svcs, .apps, .fs] := by
  decide

/-- **what continues while not ON.** Every statement of `pre_timestep` runs whatever the power state (per-step
counters of interfaces, software and the file system are reset; `UserSessionManager.pre_timestep` times idle sessions
out — the payload it sends for a remote session stops at the disabled interface, `C12_not_on_no_traffic`), and none of
them touches the power state, the interfaces' `enabled`, or the state of a service / application. -/
theorem C12_pre_tick_runs_regardless (tbl : List Route) (n : Node) :
    preActs n = [.super, .nics, .procs, .svcs, .apps, .fs] ∧ xstep tbl n .preTick = n := by
  simp [preActs, preProgram, guardHolds, xstep]

/-- clocks of the software and of the node scans -/
def Clocks (n : Node) : List Int × List Int × Int × Int :=
  (n.svcs.map (·.restartCd), n.apps.map (·.installCd), n.scanCd, n.redCd)

theorem stop_cd (s : Service) : s.stop.1.restartCd = s.restartCd := by
  unfold Service.stop; split <;> rfl

theorem close_cd (a : App) : a.close.1.installCd = a.installCd := by
  unfold App.close; split <;> rfl

theorem shutDownActions_clocks (n : Node) : Clocks (shutDownActions n) = Clocks n := by
  simp only [Clocks, shutDownActions, List.map_map]
  congr 1
  · apply List.map_congr_left; intro s _; exact stop_cd s
  · congr 1
    apply List.map_congr_left; intro a _; exact close_cd a

theorem powerOn_clocks (n : Node) (h : (powerOn n).1.st ≠ .on) : Clocks (powerOn n).1 = Clocks n := by
  unfold powerOn at h ⊢
  split
  · rename_i hu; rw [if_pos hu] at h; exact absurd rfl h
  · split <;> rfl

theorem powerOff_clocks (n : Node) (h : (powerOff n).1.st ≠ .on) : Clocks (powerOff n).1 = Clocks n := by
  unfold powerOff at h ⊢
  split
  · rename_i hd
    rw [if_pos hd] at h
    dsimp only at h ⊢
    split
    · rename_i hr
      rw [if_pos hr] at h
      rw [powerOn_clocks _ h]
      exact shutDownActions_clocks (disableNics n)
    · exact shutDownActions_clocks (disableNics n)
  · split <;> rfl

theorem tick_clocks (n : Node) (h : (tick n).st ≠ .on) : Clocks (tick n) = Clocks n := by
  have hs := (tickSoftware_same (tickDown (tickUp n))).1
  have h2 : (tickDown (tickUp n)).st ≠ .on := by
    intro hon; apply h; unfold tick; rw [hs]; exact hon
  unfold tick
  rw [tickSoftware_notOn _ h2]
  have hup : (tickUp n).st ≠ .on → Clocks (tickUp n) = Clocks n := by
    intro _
    unfold tickUp
    split
    · rfl
    · split
      · rename_i hb
        exfalso
        -- BOOTING -> ON in the first block: the second block leaves an ON node alone
        apply h2
        have : tickUp n = startUpActions (enableNics (setSt n .on)) := by
          unfold tickUp; rename_i hc; rw [if_neg hc, if_pos hb]
        rw [this]
        unfold tickDown
        split
        · rfl
        · rw [if_neg (by show PState.on ≠ .shuttingDown; decide)]; rfl
      · rfl
  by_cases hupon : (tickUp n).st = .on
  · exfalso
    apply h2
    unfold tickDown
    split
    · exact hupon
    · rw [if_neg (by rw [hupon]; decide)]; exact hupon
  · rw [← hup hupon]
    unfold tickDown at h2 ⊢
    split
    · rfl
    · split
      · rename_i hc hsd
        rw [if_neg hc, if_pos hsd] at h2
        dsimp only at h2 ⊢
        split
        · rename_i hr
          rw [if_pos hr] at h2
          rw [powerOn_clocks _ h2]
          exact shutDownActions_clocks (setSt (tickUp n) .off)
        · exact shutDownActions_clocks (setSt (tickUp n) .off)
      · rfl

/-- a request that leaves the node not ON, sent to a node that is not ON, moves no clock -/
theorem request_clocks {tbl : List Route} (hg : allGuarded tbl = true) (n : Node) (key : String) (sub : Sub)
    (h0 : n.st ≠ .on) (h : (request tbl n key sub).1.st ≠ .on) : Clocks (request tbl n key sub).1 = Clocks n := by
  rcases request_cases hg n key sub with ⟨e, _⟩ | ⟨e, _⟩ | ⟨e, hc⟩
  · rw [e]
  · rw [e]
  · rw [e] at h ⊢
    rcases hc with ⟨hk, _⟩ | ⟨_, hon⟩
    · subst hk
      rw [handle_startup] at h ⊢
      exact powerOn_clocks n h
    · exact absurd hon h0

/-- the node is not ON at any point of the run (before the first and after every operation) -/
def NeverOn (tbl : List Route) : Node → List Op → Prop
  | n, [] => n.st ≠ .on
  | n, op :: ops => n.st ≠ .on ∧ NeverOn tbl (step tbl n op).1 ops

/-- **software time stands still while the node is not ON.** Along any sequence of requests, ticks and frames during
which the node is never ON — through SHUTTING_DOWN, OFF and BOOTING, however long — no restart countdown of a service,
no install countdown of an application and neither node-scan countdown moves. (The shut-down actions change the
*state* of RUNNING/PAUSED services and RUNNING applications when OFF is reached; they do not touch a clock.) -/
theorem C12_software_clocks_stand_still {tbl : List Route} (hg : allGuarded tbl = true) (n : Node) (ops : List Op)
    (h : NeverOn tbl n ops) : Clocks (run tbl n ops) = Clocks n := by
  induction ops generalizing n with
  | nil => rfl
  | cons op ops ih =>
    obtain ⟨h0, hrest⟩ := h
    have h1 : (step tbl n op).1.st ≠ .on := by
      cases ops with
      | nil => exact hrest
      | cons _ _ => exact hrest.1
    show Clocks (run tbl (step tbl n op).1 ops) = _
    rw [ih _ hrest]
    cases op with
    | request key sub => exact request_clocks hg n key sub h0 h1
    | tick => exact tick_clocks n h1
    | frameIn i => rfl
    | frameOut i => rfl

/-- non-vacuity: a node with a service in mid-restart, an application in mid-install and a node scan running is shut
down and started again; through the five not-ON ticks no clock moves, and they resume in the tick that reaches ON -/
def exBusy : Node :=
  { st := .on, upDur := 1, downDur := 1, nics := [⟨true, true, .ipWired⟩], scanCd := 4, redCd := 2,
    svcs := [⟨.running, 0, 5⟩, ⟨.restarting, 3, 5⟩], apps := [⟨.installing, 2, 2⟩] }
example : let ops := [shutdownOp, .tick, .tick, startupOp, .tick]
    NeverOn baseRoutes (run baseRoutes exBusy [shutdownOp]) [.tick, .tick, startupOp, .tick] ∧
    Clocks (run baseRoutes exBusy ops) = ([0, 3], [2], 4, 2) ∧
    (run baseRoutes exBusy (ops ++ [.tick])).st = .on ∧
    Clocks (run baseRoutes exBusy (ops ++ [.tick])) = ([0, 2], [1], 3, 1) := by
  simp only [NeverOn]; decide

/-! ### 3. direct API entry points, the loader, episode set-up -/

/-- the OFF invariant in the form that needs no validator: once OFF, no service is RUNNING *or PAUSED* and no
application is RUNNING (a PAUSED service is what `Service.resume`, which does not test the node, could turn RUNNING) -/
def OffInvS (n : Node) : Prop :=
  n.st = .off → (∀ s ∈ n.svcs, s.st ≠ .running ∧ s.st ≠ .paused) ∧ (∀ a ∈ n.apps, a.st ≠ .running)

theorem offInvS_offInv {n : Node} (h : OffInvS n) : OffInv n :=
  fun hoff => ⟨fun s hs => ((h hoff).1 s hs).1, (h hoff).2⟩

theorem stop_not_active (s : Service) : s.stop.1.st ≠ .running ∧ s.stop.1.st ≠ .paused := by
  unfold Service.stop
  split
  · simp
  · rename_i h; exact ⟨fun hr => h (Or.inl hr), fun hp => h (Or.inr hp)⟩

theorem shutDownActions_inactive (n : Node) :
    (∀ s ∈ (shutDownActions n).svcs, s.st ≠ .running ∧ s.st ≠ .paused) ∧ (∀ a ∈ (shutDownActions n).apps, a.st ≠ .running) := by
  constructor
  · intro s hs
    simp only [shutDownActions, List.mem_map] at hs
    obtain ⟨s0, _, rfl⟩ := hs
    exact stop_not_active s0
  · intro a ha
    simp only [shutDownActions, List.mem_map] at ha
    obtain ⟨a0, _, rfl⟩ := ha
    exact close_not_running a0

theorem powerOn_offInvS (n : Node) : OffInvS (powerOn n).1 := fun hoff => absurd hoff (powerOn_not_off n)

theorem powerOff_offInvS (n : Node) (h : OffInvS n) : OffInvS (powerOff n).1 := by
  unfold powerOff
  split
  · dsimp only
    split
    · exact powerOn_offInvS _
    · exact fun _ => shutDownActions_inactive (disableNics n)
  · split
    · intro hoff; cases hoff
    · exact h

theorem tick_offInvS (n : Node) (h : OffInvS n) : OffInvS (tick n) := by
  have h1 : OffInvS (tickUp n) := by
    unfold tickUp
    split
    · exact h
    · split
      · intro hoff; cases hoff
      · exact h
  have h2 : OffInvS (tickDown (tickUp n)) := by
    unfold tickDown
    split
    · exact h1
    · split
      · dsimp only
        split
        · exact powerOn_offInvS _
        · exact fun _ => shutDownActions_inactive (setSt (tickUp n) .off)
      · exact h1
  unfold tick tickSoftware
  split
  · rename_i hon; intro hoff; rw [hon] at hoff; cases hoff
  · exact h2

/-- a service verb applied to a service that is neither RUNNING nor PAUSED, on a node that is not ON, leaves it so -/
theorem svcApply_inactive (s : Service) (v : SvcVerb) (h : s.st ≠ .running ∧ s.st ≠ .paused) :
    (svcApply false s v).1.st ≠ .running ∧ (svcApply false s v).1.st ≠ .paused := by
  obtain ⟨h1, h2⟩ := h
  cases v <;> simp only [svcApply]
  · exact stop_not_active s
  · exact ⟨h1, h2⟩
  · unfold Service.pause; rw [if_neg h1]; exact ⟨h1, h2⟩
  · unfold Service.resume; rw [if_neg h2]; exact ⟨h1, h2⟩
  · unfold Service.restart; rw [if_neg (by intro hc; rcases hc with hc | hc; exact h1 hc; exact h2 hc)]; exact ⟨h1, h2⟩
  · simp [Service.disable]
  · unfold Service.enable; split
    · simp
    · exact ⟨h1, h2⟩

theorem mem_set_cases {α} {l : List α} {i : Nat} {a x : α} (h : x ∈ l.set i a) : x ∈ l ∨ x = a :=
  List.mem_or_eq_of_mem_set h

theorem modifySvc_offInvS (n : Node) (i : Nat) (v : SvcVerb) (h : OffInvS n) :
    OffInvS (modifySvc n i (fun s => (svcApply n.isOn s v).1)) := by
  unfold modifySvc
  split
  · rename_i s hs
    intro hoff
    have hoff' : n.st = .off := hoff
    have hison : n.isOn = false := by simp [Node.isOn, hoff']
    refine ⟨?_, (h hoff').2⟩
    intro s' hs'
    rcases mem_set_cases hs' with hm | rfl
    · exact (h hoff').1 s' hm
    · rw [hison]; exact svcApply_inactive s v ((h hoff').1 s (List.mem_of_getElem? hs))
  · exact h

theorem svcRequest_offInvS (n : Node) (i : Nat) (v : SvcVerb) (h : OffInvS n) : OffInvS (svcRequest n i v).1 := by
  unfold svcRequest
  split
  · exact h
  · rename_i s hs
    split
    · intro hoff
      have hoff' : n.st = .off := hoff
      have hison : n.isOn = false := by simp [Node.isOn, hoff']
      refine ⟨?_, (h hoff').2⟩
      intro s' hs'
      rcases mem_set_cases hs' with hm | rfl
      · exact (h hoff').1 s' hm
      · rw [hison]; exact svcApply_inactive s v ((h hoff').1 s (List.mem_of_getElem? hs))
    · exact h

theorem appRequest_offInvS (n : Node) (i : Nat) (h : OffInvS n) : OffInvS (appRequest n i).1 := by
  unfold appRequest
  split
  · exact h
  · rename_i a ha
    split
    · intro hoff
      have hoff' : n.st = .off := hoff
      refine ⟨(h hoff').1, ?_⟩
      intro a' ha'
      rcases mem_set_cases ha' with hm | rfl
      · exact (h hoff').2 a' hm
      · exact close_not_running a
    · exact h

/-- same state, services and applications -/
theorem offInvS_of_same {n n' : Node} (h1 : n'.st = n.st) (h2 : n'.svcs = n.svcs) (h3 : n'.apps = n.apps)
    (h : OffInvS n) : OffInvS n' := by
  unfold OffInvS at *; rw [h1, h2, h3]; exact h

theorem nicRequest_soft (n : Node) (i : Nat) (v : NicVerb) :
    (nicRequest n i v).1.st = n.st ∧ (nicRequest n i v).1.svcs = n.svcs ∧ (nicRequest n i v).1.apps = n.apps := by
  unfold nicRequest; split
  · exact ⟨rfl, rfl, rfl⟩
  · cases v <;> simp only <;> split <;> exact ⟨rfl, rfl, rfl⟩

theorem handle_offInvS (n : Node) (key : String) (sub : Sub) (h : OffInvS n) : OffInvS (handle n key sub).1 := by
  unfold handle
  split
  · exact powerOff_offInvS n h
  · split
    · exact powerOn_offInvS n
    · split
      · exact powerOff_offInvS { n with resetting := true } h
      · split
        · exact h
        · split
          · exact h
          · split
            · split
              · exact svcRequest_offInvS _ _ _ h
              · exact h
            · split
              · exact appRequest_offInvS _ _ h
              · exact h
            · split
              · exact offInvS_of_same (nicRequest_soft _ _ _).1 (nicRequest_soft _ _ _).2.1 (nicRequest_soft _ _ _).2.2 h
              · exact h
            · split <;> exact h
            · exact h

/-- for ANY route table -/
theorem step_offInvS (tbl : List Route) (n : Node) (op : Op) (h : OffInvS n) : OffInvS (step tbl n op).1 := by
  cases op with
  | request key sub =>
    show OffInvS (request tbl n key sub).1
    unfold request
    split
    · exact h
    · split
      · exact handle_offInvS n key sub h
      · exact h
  | tick => exact tick_offInvS n h
  | frameIn i => exact h
  | frameOut i => exact h

theorem enableNics_nicInv (n : Node) (h : NicInv n) : NicInv (enableNics n) := by
  intro hne c hc
  have hne' : n.st ≠ .on := hne
  have hison : n.isOn = false := by simp [Node.isOn, hne']
  simp only [enableNics, List.mem_map] at hc
  obtain ⟨c0, hc0, rfl⟩ := hc
  rw [hison, nicEnable_false]
  exact h hne' c0 hc0

theorem startUpActions_soft_off (n : Node) (h : n.st ≠ .on) : startUpActions n = n := by
  have hison : n.isOn = false := by simp [Node.isOn, h]
  unfold startUpActions
  rw [hison]
  have h1 : n.svcs.map (fun s => (s.start false).1) = n.svcs := by
    conv => rhs; rw [← List.map_id n.svcs]
    apply List.map_congr_left; intro s _; rfl
  have h2 : n.apps.map (App.run false) = n.apps := by
    conv => rhs; rw [← List.map_id n.apps]
    apply List.map_congr_left; intro a _; rfl
  rw [h1, h2]

theorem modifySvc_same (n : Node) (i : Nat) (f : Service → Service) :
    (modifySvc n i f).st = n.st ∧ (modifySvc n i f).nics = n.nics ∧ (modifySvc n i f).apps = n.apps := by
  unfold modifySvc; split <;> exact ⟨rfl, rfl, rfl⟩

theorem modifyApp_same (n : Node) (i : Nat) (f : App → App) :
    (modifyApp n i f).st = n.st ∧ (modifyApp n i f).nics = n.nics ∧ (modifyApp n i f).svcs = n.svcs := by
  unfold modifyApp; split <;> exact ⟨rfl, rfl, rfl⟩

theorem modifyNic_same (n : Node) (i : Nat) (f : Nic → Nic) :
    (modifyNic n i f).st = n.st ∧ (modifyNic n i f).svcs = n.svcs ∧ (modifyNic n i f).apps = n.apps := by
  unfold modifyNic; split <;> exact ⟨rfl, rfl, rfl⟩

theorem modifyNic_nicInv (n : Node) (i : Nat) (f : Nic → Nic) (hf : ∀ c, n.st ≠ .on → c.enabled = false → (f c).enabled = false)
    (h : NicInv n) : NicInv (modifyNic n i f) := by
  unfold modifyNic
  split
  · rename_i c hc
    intro hne c' hc'
    have hne' : n.st ≠ .on := hne
    rcases mem_set_cases hc' with hm | rfl
    · exact h hne' c' hm
    · exact hf c hne' (h hne' c (List.mem_of_getElem? hc))
  · exact h

theorem connectLink_false (c : Nic) (h : c.enabled = false) : (Nic.connectLink false c).enabled = false := by
  unfold Nic.connectLink
  split
  · exact h
  · rw [nicEnable_false]; exact h

theorem apiCall_nicInv (n : Node) (c : ApiCall) (h : NicInv n) : NicInv (apiCall n c) := by
  cases c with
  | powerOn => exact powerOn_nicInv n h
  | powerOff => exact powerOff_nicInv n h
  | reset => exact reset_nicInv n h
  | nicEnable i =>
    apply modifyNic_nicInv n i _ _ h
    intro c hne hc
    have : n.isOn = false := by simp [Node.isOn, hne]
    rw [this, nicEnable_false]; exact hc
  | nicDisable i => exact modifyNic_nicInv n i _ (fun _ _ _ => rfl) h
  | connectLink i =>
    apply modifyNic_nicInv n i _ _ h
    intro c hne hc
    have : n.isOn = false := by simp [Node.isOn, hne]
    rw [this]; exact connectLink_false c hc
  | svc i v => exact nicInv_of_same (modifySvc_same _ _ _).1 (modifySvc_same _ _ _).2.1 h
  | appRun i => exact nicInv_of_same (modifyApp_same _ _ _).1 (modifyApp_same _ _ _).2.1 h
  | appClose i => exact nicInv_of_same (modifyApp_same _ _ _).1 (modifyApp_same _ _ _).2.1 h
  | appInstall i => exact nicInv_of_same (modifyApp_same _ _ _).1 (modifyApp_same _ _ _).2.1 h

theorem modifyApp_offInvS (n : Node) (i : Nat) (f : App → App) (hf : ∀ a, n.st = .off → a.st ≠ .running → (f a).st ≠ .running)
    (h : OffInvS n) : OffInvS (modifyApp n i f) := by
  unfold modifyApp
  split
  · rename_i a ha
    intro hoff
    have hoff' : n.st = .off := hoff
    refine ⟨(h hoff').1, ?_⟩
    intro a' ha'
    rcases mem_set_cases ha' with hm | rfl
    · exact (h hoff').2 a' hm
    · exact hf a hoff' ((h hoff').2 a (List.mem_of_getElem? ha))
  · exact h

theorem apiCall_offInvS (n : Node) (c : ApiCall) (h : OffInvS n) : OffInvS (apiCall n c) := by
  cases c with
  | powerOn => exact powerOn_offInvS n
  | powerOff => exact powerOff_offInvS n h
  | reset => exact powerOff_offInvS { n with resetting := true } h
  | nicEnable i => exact offInvS_of_same (modifyNic_same _ _ _).1 (modifyNic_same _ _ _).2.1 (modifyNic_same _ _ _).2.2 h
  | nicDisable i => exact offInvS_of_same (modifyNic_same _ _ _).1 (modifyNic_same _ _ _).2.1 (modifyNic_same _ _ _).2.2 h
  | connectLink i => exact offInvS_of_same (modifyNic_same _ _ _).1 (modifyNic_same _ _ _).2.1 (modifyNic_same _ _ _).2.2 h
  | svc i v => exact modifySvc_offInvS n i v h
  | appRun i =>
    apply modifyApp_offInvS n i _ _ h
    intro a hoff hr
    have : n.isOn = false := by simp [Node.isOn, hoff]
    rw [this]; exact hr
  | appClose i => exact modifyApp_offInvS n i _ (fun a _ _ => close_not_running a) h
  | appInstall i =>
    apply modifyApp_offInvS n i _ _ h
    intro a _ hr
    unfold App.install
    split
    · simp
    · exact hr

theorem setupEpisode_st (n : Node) : (setupEpisode n).st = (powerOn (enableNics n)).1.st := rfl

theorem setupEpisode_nicInv (n : Node) (h : NicInv n) : NicInv (setupEpisode n) := by
  have h1 := enableNics_nicInv _ (powerOn_nicInv _ (enableNics_nicInv n h))
  exact nicInv_of_same rfl rfl h1

theorem setupEpisode_offInvS (n : Node) : OffInvS (setupEpisode n) := by
  intro hoff
  rw [setupEpisode_st] at hoff
  exact absurd hoff (powerOn_not_off _)

theorem xstep_nicInv (tbl : List Route) (n : Node) (o : XOp) (h : NicInv n) : NicInv (xstep tbl n o) := by
  cases o with
  | op o => exact step_nicInv tbl n o h
  | preTick => exact h
  | setDur u d => exact nicInv_of_same rfl rfl h
  | api c => exact apiCall_nicInv n c h
  | setupEpisode => exact setupEpisode_nicInv n h

theorem xstep_offInvS (tbl : List Route) (n : Node) (o : XOp) (h : OffInvS n) : OffInvS (xstep tbl n o) := by
  cases o with
  | op o => exact step_offInvS tbl n o h
  | preTick => exact h
  | setDur u d => exact offInvS_of_same rfl rfl rfl h
  | api c => exact apiCall_offInvS n c h
  | setupEpisode => exact setupEpisode_offInvS n

/-- **every entry point keeps the invariants.** For ANY route table (no validator is needed) and any sequence of
requests, ticks, frames, pre-timesteps, run-time changes of the configured durations, episode set-ups and DIRECT calls of
`power_on()` / `power_off()` / `reset()` / an interface's `enable()` / `disable()` / `connect_link()` / any service verb /
an application's `run()` / `close()` / `install()` from ANY state: a node that is not ON has no enabled interface, and
an OFF node has no RUNNING or PAUSED service and no RUNNING application. -/
theorem C12_inv_all_entry_points (tbl : List Route) (n : Node) (ops : List XOp) (h1 : NicInv n) (h2 : OffInvS n) :
    NicInv (xrun tbl n ops) ∧ OffInvS (xrun tbl n ops) := by
  induction ops generalizing n with
  | nil => exact ⟨h1, h2⟩
  | cons o ops ih => exact ih _ (xstep_nicInv tbl n o h1) (xstep_offInvS tbl n o h2)

/-- hence `off_nothing_running` holds for any table once the initial state has no PAUSED service while OFF
(strengthens `C12_off_nothing_running`, which needs `allGuarded`) -/
theorem C12_off_nothing_running_any_table (tbl : List Route) (n : Node) (ops : List Op) (h : OffInvS n) :
    OffInv (run tbl n ops) := by
  have : ∀ (ops : List Op) (m : Node), OffInvS m → OffInvS (run tbl m ops) := by
    intro ops
    induction ops with
    | nil => intro m hm; exact hm
    | cons op ops ih => intro m hm; exact ih _ (step_offInvS tbl m op hm)
  exact offInvS_offInv (this ops n h)

/-! #### the loader -/

theorem construct_nicInv (d : Decl) : NicInv (construct d) := by
  intro hne c hc
  have hne' : d.state ≠ .on := hne
  have hon : (d.state == PState.on) = false := by simp [hne']
  simp only [construct, List.mem_map, hon] at hc
  obtain ⟨k, _, rfl⟩ := hc
  rw [nicEnable_false]

theorem construct_offInvS (d : Decl) : OffInvS (construct d) := by
  intro hoff
  have hoff' : d.state = .off := hoff
  have hon : (d.state == PState.on) = false := by simp [hoff']
  simp only [construct, hon]
  constructor
  · intro s hs
    rw [List.mem_replicate] at hs
    rw [hs.2]
    decide
  · intro a ha
    rw [List.mem_replicate] at ha
    rw [ha.2]
    decide

theorem loaderPower_nicInv (d : Decl) (n : Node) (h : NicInv n) : NicInv (loaderPower d n) := by
  unfold loaderPower
  dsimp only
  split
  · exact nicInv_of_same rfl rfl (powerOn_nicInv { n with upDur := 0, downDur := 0 } (nicInv_of_same rfl rfl h))
  · exact nicInv_of_same rfl rfl h

theorem loaderPower_offInvS (d : Decl) (n : Node) (h : OffInvS n) : OffInvS (loaderPower d n) := by
  unfold loaderPower
  dsimp only
  split
  · exact offInvS_of_same rfl rfl rfl (powerOn_offInvS { n with upDur := 0, downDur := 0 })
  · exact offInvS_of_same rfl rfl rfl h

theorem wireUp_nicInv (w : List Bool) (n : Node) (h : NicInv n) : NicInv (wireUp w n) := by
  intro hne c hc
  have hne' : n.st ≠ .on := hne
  have hison : n.isOn = false := by simp [Node.isOn, hne']
  simp only [wireUp, List.mem_map] at hc
  obtain ⟨ci, hci, rfl⟩ := hc
  have hmem : ci.1 ∈ n.nics := by
    have := List.mem_zipIdx hci
    rw [this.2.2]; exact List.getElem_mem _
  split
  · rw [hison]; exact connectLink_false _ (h hne' _ hmem)
  · exact h hne' _ hmem

/-- **the loaded state satisfies the invariants**, for every declared `operating_state` (ON, OFF, BOOTING,
SHUTTING_DOWN or absent), every declared duration and countdown (any integers, 0 and negative included), any pending
reset flag, any set of interfaces, services, applications and links. -/
theorem C12_load_inv (d : Decl) : NicInv (loadNode d) ∧ OffInvS (loadNode d) := by
  constructor
  · exact wireUp_nicInv _ _ (loaderPower_nicInv d _ (construct_nicInv d))
  · exact offInvS_of_same rfl rfl rfl (loaderPower_offInvS d _ (construct_offInvS d))

theorem powerOn_instant (n : Node) (h : n.upDur ≤ 0) : (powerOn n).1 = enableNics (startUpActions (setSt n .on)) := by
  unfold powerOn; rw [if_pos h]

/-- and it is in the declared power state with the declared durations, countdowns and reset flag -/
theorem C12_load_state (d : Decl) :
    (loadNode d).st = d.state ∧ (loadNode d).upDur = d.upDur ∧ (loadNode d).downDur = d.downDur ∧
    (loadNode d).upCd = d.upCd ∧ (loadNode d).downCd = d.downCd ∧ (loadNode d).resetting = d.resetting := by
  have hw : ∀ (w : List Bool) (m : Node), (wireUp w m).st = m.st ∧ (wireUp w m).upDur = m.upDur ∧
      (wireUp w m).downDur = m.downDur ∧ (wireUp w m).upCd = m.upCd ∧ (wireUp w m).downCd = m.downCd ∧
      (wireUp w m).resetting = m.resetting := fun _ _ => ⟨rfl, rfl, rfl, rfl, rfl, rfl⟩
  obtain ⟨w1, w2, w3, w4, w5, w6⟩ := hw d.wired (loaderPower d (construct d))
  unfold loadNode
  rw [w1, w2, w3, w4, w5, w6]
  unfold loaderPower
  dsimp only
  by_cases h : d.state = .on
  · have hst : ({ construct d with upDur := 0, downDur := 0 } : Node).st = .on := h
    rw [if_pos hst, powerOn_instant _ (by show (0 : Int) ≤ 0; omega)]
    exact ⟨h.symm, rfl, rfl, rfl, rfl, rfl⟩
  · have hst : ¬ ({ construct d with upDur := 0, downDur := 0 } : Node).st = .on := h
    rw [if_neg hst]
    exact ⟨rfl, rfl, rfl, rfl, rfl, rfl⟩

/-- a node declared ON comes up complete: every service and application the constructor / the loader installed is
RUNNING (the interfaces are enabled as the file's links are wired: `C12_back_on`'s `Nic.enable true`) -/
theorem C12_load_on_all_up (d : Decl) (h : d.state = .on) :
    (∀ s ∈ (loadNode d).svcs, s.st = .running) ∧ (∀ a ∈ (loadNode d).apps, a.st = .running) := by
  have hon : (d.state == PState.on) = true := by simp [h]
  have hst : ({ construct d with upDur := 0, downDur := 0 } : Node).st = .on := h
  have hl : (loadNode d).svcs = ((construct d).svcs.map (fun s => (s.start true).1)) ∧
      (loadNode d).apps = ((construct d).apps.map (App.run true)) := by
    unfold loadNode loaderPower
    dsimp only
    rw [if_pos hst, powerOn_instant _ (by show (0 : Int) ≤ 0; omega)]
    exact ⟨rfl, rfl⟩
  rw [hl.1, hl.2]
  simp only [construct, hon, List.map_replicate]
  constructor
  · intro s hs; rw [List.mem_replicate] at hs; rw [hs.2]; decide
  · intro a ha; rw [List.mem_replicate] at ha; rw [ha.2]; decide

/-- the duration the loader configures (node loop of `PrimaiteGame.from_config`, pinned by `C12_gen_loader_shapes`): the
node's own value, else the `defaults:` section's, else 3. `C12_load_inv` / `C12_load_state` hold for ANY integer in
`Decl.upDur` / `Decl.downDur`, so they hold for whatever this yields. -/
theorem C12_effective_duration (x y : Int) :
    effectiveDur (some x) (some y) = x ∧ effectiveDur (some x) none = x ∧ effectiveDur none (some y) = y ∧
    effectiveDur none none = 3 := ⟨rfl, rfl, rfl, rfl⟩

/-- **episode set-up.** `Network.setup_for_episode` calls `power_on()` on every node whatever its state: afterwards the
node is ON if `start_up_duration <= 0` (from ANY state — also from SHUTTING_DOWN or BOOTING, see
`C12_setup_jump`), BOOTING with the full countdown if it was OFF, and otherwise in the state it was in; the invariants
hold; and if it is ON, everything is up. So a node declared OFF is OFF only until the first `reset()` of the environment. -/
theorem C12_setup_state (n : Node) :
    (setupEpisode n).st = (if n.upDur ≤ 0 then .on else if n.st = .off then .booting else n.st) ∧
    (n.upDur > 0 → n.st = .off → (setupEpisode n).upCd = n.upDur) ∧
    ((setupEpisode n).st = .on → AllUp (setupEpisode n)) := by
  refine ⟨?_, ?_, ?_⟩
  · rw [setupEpisode_st]
    unfold powerOn
    by_cases hu : n.upDur ≤ 0
    · rw [if_pos (show (enableNics n).upDur ≤ 0 from hu), if_pos hu]; rfl
    · rw [if_neg (show ¬ (enableNics n).upDur ≤ 0 from hu), if_neg hu]
      by_cases hs : n.st = .off
      · rw [if_pos (show (enableNics n).st = .off from hs), if_pos hs]; rfl
      · rw [if_neg (show ¬ (enableNics n).st = .off from hs), if_neg hs]; rfl
  · intro hu hoff
    unfold setupEpisode powerOn
    have : ¬ (enableNics n).upDur ≤ 0 := by show ¬ n.upDur ≤ 0; omega
    rw [if_neg this, if_pos (show (enableNics n).st = PState.off from hoff)]
    rfl
  · intro hon
    have hst : (enableNics (powerOn (enableNics n)).1).st = .on := hon
    have hison : (enableNics (powerOn (enableNics n)).1).isOn = true := by simp [Node.isOn, hst]
    have hison2 : (powerOn (enableNics n)).1.isOn = true := by
      have : (powerOn (enableNics n)).1.st = .on := hon
      simp [Node.isOn, this]
    refine ⟨?_, ?_, ?_⟩
    · intro c hc hl
      simp only [setupEpisode, startUpActions, enableNics, List.mem_map] at hc
      obtain ⟨c0, _, rfl⟩ := hc
      rw [show (powerOn { n with nics := n.nics.map (Nic.enable n.isOn) }).1.isOn = true from hison2] at hl ⊢
      have hl0 : c0.linked = true := by
        unfold Nic.enable at hl
        split at hl
        · exact hl
        · split at hl
          · exact hl
          · split at hl <;> exact hl
      exact nicEnable_true c0 hl0
    · intro s hs
      simp only [setupEpisode, startUpActions, List.mem_map] at hs
      obtain ⟨s0, _, rfl⟩ := hs
      rw [hison]; exact start_not_stopped s0
    · intro a ha
      simp only [setupEpisode, startUpActions, List.mem_map] at ha
      obtain ⟨a0, _, rfl⟩ := ha
      rw [hison]; exact run_not_closed a0

/-- (observation, outside the property's quantifier, which is over requests) episode set-up takes a node that a file
declares SHUTTING_DOWN with `start_up_duration: 0` straight to ON — not an edge of the state machine. The invariants
survive (`C12_inv_all_entry_points`). Reproduced on the implementation by the loader family of the rig. -/
theorem C12_setup_jump :
    (setupEpisode (loadNode { st := some .shuttingDown, upDur := 0, downDur := 2, downCd := 2 })).st = .on ∧
    edge 0 2 .shuttingDown .on = false := by decide

/-- so: whatever the file declares, after loading, after episode set-up, and after any further sequence of requests,
ticks, frames and direct API calls, the invariants hold -/
theorem C12_loaded_run_inv (tbl : List Route) (d : Decl) (ops : List XOp) :
    NicInv (xrun tbl (loadNode d) ops) ∧ OffInvS (xrun tbl (loadNode d) ops) :=
  C12_inv_all_entry_points tbl _ ops (C12_load_inv d).1 (C12_load_inv d).2

/-- non-vacuity: a router-like node declared OFF with three interfaces of which two are wired; loaded OFF with
everything down; after episode set-up BOOTING; three ticks later ON with the two wired interfaces up -/
def exDecl : Decl := { st := some .off, upDur := 2, downDur := 0, nics := [.ipWired, .ipWired, .ipWired], wired := [true, true], svcs := 2, apps := 1 }
example : ((loadNode exDecl).st, (loadNode exDecl).nics.map (·.enabled), (loadNode exDecl).svcs.map (·.st),
    (xrun baseRoutes (loadNode exDecl) [.setupEpisode]).st,
    (xrun baseRoutes (loadNode exDecl) [.setupEpisode, .op .tick, .op .tick, .op .tick]).st,
    (xrun baseRoutes (loadNode exDecl) [.setupEpisode, .op .tick, .op .tick, .op .tick]).nics.map (·.enabled)) =
    (.off, [false, false, false], [.stopped, .stopped], .booting, .on, [true, true, false]) := by decide

/-- the API can be used to leave the state machine (which is why the legal-moves theorem is about requests): `reset()`
called on a node that is not ON only sets `is_resetting` (its test `self.operating_state.ON` is always truthy), and the
next ordinary shutdown then restarts the node -/
theorem C12_api_reset_leaves_flag :
    (apiCall exOff .reset).st = .off ∧ (apiCall exOff .reset).resetting = true := by decide

/-! ### 4. exactly which software comes back -/

/-- what the shut-down actions do to one service / application -/
def svcDown (s : Service) : Service := s.stop.1
def appDown (a : App) : App := a.close.1
/-- what the start-up actions do (node ON) -/
def svcUp (s : Service) : Service := (s.start true).1
def appUp (a : App) : App := a.run true

theorem svcDown_st (s : Service) :
    (svcDown s).st = (match s.st with | .running => .stopped | .paused => .stopped | x => x) ∧
    (svcDown s).restartCd = s.restartCd ∧ (svcDown s).restartDur = s.restartDur := by
  unfold svcDown Service.stop
  cases h : s.st <;> simp [h]

theorem svcUp_st (s : Service) :
    (svcUp s).st = (match s.st with | .stopped => .running | x => x) ∧
    (svcUp s).restartCd = s.restartCd ∧ (svcUp s).restartDur = s.restartDur := by
  unfold svcUp Service.start nodeAllows
  cases h : s.st <;> simp [h]

/-- **a full power cycle, service by service.** RUNNING, PAUSED and STOPPED all come back RUNNING — the state before the
shutdown is not remembered: a service the user had stopped or paused is started; DISABLED stays DISABLED; a service in
mid-restart / mid-install keeps its state and countdown (frozen while the node is down, `C12_software_clocks_stand_still`). -/
theorem C12_service_cycle (s : Service) :
    (svcUp (svcDown s)).st =
      (match s.st with
       | .running => .running | .paused => .running | .stopped => .running
       | .disabled => .disabled | .installing => .installing | .restarting => .restarting) ∧
    (svcUp (svcDown s)).restartCd = s.restartCd := by
  have h1 := svcDown_st s
  have h2 := svcUp_st (svcDown s)
  refine ⟨?_, by rw [h2.2.1, h1.2.1]⟩
  rw [h2.1, h1.1]
  cases s.st <;> rfl

/-- applications: RUNNING and CLOSED both come back RUNNING (an application the user had closed is opened); one that is
INSTALLING keeps installing -/
theorem C12_application_cycle (a : App) :
    (appUp (appDown a)).st = (match a.st with | .running => .running | .closed => .running | .installing => .installing) ∧
    (appUp (appDown a)).installCd = a.installCd := by
  unfold appUp appDown App.run App.close nodeAllows
  cases h : a.st <;> simp [h]

/-- reaching OFF by an instant shutdown request: all interfaces down, every service `svcDown`, every application `appDown` -/
theorem C12_shutdown_instant_exact {tbl : List Route} (hg : allGuarded tbl = true) (n : Node) (hst : n.st = .on) (sub : Sub)
    (hr : n.resetting = false) (hd : n.downDur ≤ 0) (hin : (tbl.find? (fun r => r.key == "shutdown")).isSome = true) :
    let m := (request tbl n "shutdown" sub).1
    m.st = .off ∧ m.svcs = n.svcs.map svcDown ∧ m.apps = n.apps.map appDown ∧ m.nics = n.nics.map Nic.disable := by
  rw [request_accepted hg n "shutdown" sub hin (Or.inr ⟨by decide, hst⟩), handle_shutdown]
  unfold powerOff
  rw [if_pos hd]
  dsimp only
  have : (setSt (shutDownActions (disableNics n)) .off).resetting = false := hr
  simp only [this]
  exact ⟨rfl, rfl, rfl, rfl⟩

/-- reaching OFF at the end of SHUTTING_DOWN (no reset pending) -/
theorem C12_shutdown_tick_exact (n : Node) (hst : n.st = .shuttingDown) (hc : n.downCd ≤ 0) (hr : n.resetting = false) :
    (tick n).st = .off ∧ (tick n).svcs = n.svcs.map svcDown ∧ (tick n).apps = n.apps.map appDown ∧ (tick n).nics = n.nics := by
  have hc' : ¬ n.downCd > 0 := by omega
  have h1 : (tickUp n).st = n.st ∧ (tickUp n).svcs = n.svcs ∧ (tickUp n).apps = n.apps ∧ (tickUp n).nics = n.nics ∧
      (tickUp n).downCd = n.downCd ∧ (tickUp n).resetting = n.resetting := by
    unfold tickUp
    split
    · exact ⟨rfl, rfl, rfl, rfl, rfl, rfl⟩
    · rw [if_neg (by rw [hst]; decide)]; exact ⟨rfl, rfl, rfl, rfl, rfl, rfl⟩
  obtain ⟨a1, a2, a3, a4, a5, a6⟩ := h1
  have h2 : tickDown (tickUp n) = shutDownActions (setSt (tickUp n) .off) := by
    unfold tickDown
    rw [if_neg (by rw [a5]; exact hc'), if_pos (by rw [a1, hst])]
    have : (shutDownActions (setSt (tickUp n) .off)).resetting = false := by
      show (tickUp n).resetting = false; rw [a6, hr]
    simp only [this]
    rfl
  unfold tick
  rw [h2]
  unfold tickSoftware
  rw [if_neg (by show PState.off ≠ .on; decide)]
  refine ⟨rfl, ?_, ?_, ?_⟩
  · show (tickUp n).svcs.map _ = _; rw [a2]; rfl
  · show (tickUp n).apps.map _ = _; rw [a3]; rfl
  · show (tickUp n).nics = _; exact a4

/-- reaching ON by an instant start-up request: every interface `enable()`d with the node ON (so: up iff linked),
every service `svcUp`, every application `appUp` -/
theorem C12_startup_instant_exact {tbl : List Route} (hg : allGuarded tbl = true) (n : Node) (hst : n.st = .off) (sub : Sub)
    (hu : n.upDur ≤ 0) (hin : (tbl.find? (fun r => r.key == "startup")).isSome = true) :
    let m := (request tbl n "startup" sub).1
    m.st = .on ∧ m.svcs = n.svcs.map svcUp ∧ m.apps = n.apps.map appUp ∧ m.nics = n.nics.map (Nic.enable true) := by
  rw [request_accepted hg n "startup" sub hin (Or.inl ⟨rfl, hst⟩), handle_startup]
  unfold powerOn
  rw [if_pos hu]
  exact ⟨rfl, rfl, rfl, rfl⟩

/-- reaching ON at the end of BOOTING: the same, and the software clock already advances in this tick -/
theorem C12_startup_tick_exact (n : Node) (hst : n.st = .booting) (hc : n.upCd ≤ 0) :
    (tick n).st = .on ∧ (tick n).svcs = n.svcs.map (fun s => (svcUp s).tick) ∧
    (tick n).apps = n.apps.map (fun a => (appUp a).tick) ∧ (tick n).nics = n.nics.map (Nic.enable true) := by
  have hc' : ¬ n.upCd > 0 := by omega
  have h1 : tickUp n = startUpActions (enableNics (setSt n .on)) := by
    unfold tickUp; rw [if_neg hc', if_pos hst]
  have h2 : tickDown (tickUp n) = tickUp n ∨
      tickDown (tickUp n) = { tickUp n with downCd := (tickUp n).downCd - 1 } := by
    unfold tickDown
    split
    · exact Or.inr rfl
    · rw [if_neg (by rw [h1]; show PState.on ≠ .shuttingDown; decide)]; exact Or.inl rfl
  unfold tick
  rcases h2 with h2 | h2 <;> rw [h2, h1] <;> unfold tickSoftware <;>
    rw [if_pos (by rfl)] <;>
    exact ⟨rfl, by simp [startUpActions, enableNics, setSt, Node.isOn, svcUp, List.map_map, Function.comp_def],
      by simp [startUpActions, enableNics, setSt, Node.isOn, appUp, List.map_map, Function.comp_def],
      by simp [startUpActions, enableNics, setSt, Node.isOn]⟩

/-- **a whole power cycle by requests with instant durations**: shutdown then startup brings back exactly
`svcUp ∘ svcDown` of every service, `appUp ∘ appDown` of every application, and every LINKED interface (an interface
the user had disabled by request comes back up too; an unlinked one stays down) -/
theorem C12_power_cycle_instant {tbl : List Route} (hg : allGuarded tbl = true) (n : Node) (hst : n.st = .on)
    (hr : n.resetting = false) (hd : n.downDur ≤ 0) (hu : n.upDur ≤ 0) (sub sub' : Sub)
    (h1 : (tbl.find? (fun r => r.key == "shutdown")).isSome = true)
    (h2 : (tbl.find? (fun r => r.key == "startup")).isSome = true) :
    (run tbl n [.request "shutdown" sub, .request "startup" sub']).st = .on ∧
    (run tbl n [.request "shutdown" sub, .request "startup" sub']).svcs = n.svcs.map (fun s => svcUp (svcDown s)) ∧
    (run tbl n [.request "shutdown" sub, .request "startup" sub']).apps = n.apps.map (fun a => appUp (appDown a)) ∧
    (run tbl n [.request "shutdown" sub, .request "startup" sub']).nics = n.nics.map (fun c => Nic.enable true (Nic.disable c)) := by
  have hA := C12_shutdown_instant_exact hg n hst sub hr hd h1
  dsimp only at hA
  obtain ⟨a1, a2, a3, a4⟩ := hA
  have hdur : (request tbl n "shutdown" sub).1.upDur = n.upDur := by
    rw [request_accepted hg n "shutdown" sub h1 (Or.inr ⟨by decide, hst⟩), handle_shutdown]
    exact (powerOff_dur n).1
  have hB := C12_startup_instant_exact hg (request tbl n "shutdown" sub).1 a1 sub' (by rw [hdur]; exact hu) h2
  dsimp only at hB
  obtain ⟨b1, b2, b3, b4⟩ := hB
  have hrun : run tbl n [.request "shutdown" sub, .request "startup" sub'] =
      (request tbl (request tbl n "shutdown" sub).1 "startup" sub').1 := rfl
  rw [hrun]
  refine ⟨b1, ?_, ?_, ?_⟩
  · rw [b2, a2, List.map_map]; rfl
  · rw [b3, a3, List.map_map]; rfl
  · rw [b4, a4, List.map_map]; rfl

/-- the same with real durations, tick by tick, on the example node: shut down (duration 3), started (duration 2); the
PAUSED service is RUNNING afterwards, the DISABLED one DISABLED, the restart that was in progress resumes -/
example : let m := run baseRoutes exOn [shutdownOp, .tick, .tick, .tick, .tick, startupOp, .tick, .tick, .tick]
    (m.st, m.svcs.map (·.st), m.svcs.map (·.restartCd), m.apps.map (·.st)) =
    (.on, [.running, .running, .disabled, .restarting], [0, 0, 0, 0], [.running, .running]) := by decide

/-! ### 5. durations changed in mid-countdown, and paths -/

theorem powerOn_setDown (n : Node) (d : Int) :
    (powerOn { n with downDur := d }).1 = { (powerOn n).1 with downDur := d } := by
  unfold powerOn
  by_cases hu : n.upDur ≤ 0
  · rw [if_pos (show ({ n with downDur := d } : Node).upDur ≤ 0 from hu), if_pos hu]; rfl
  · rw [if_neg (show ¬ ({ n with downDur := d } : Node).upDur ≤ 0 from hu), if_neg hu]
    by_cases hs : n.st = .off
    · rw [if_pos (show ({ n with downDur := d } : Node).st = .off from hs), if_pos hs]; rfl
    · rw [if_neg (show ¬ ({ n with downDur := d } : Node).st = .off from hs), if_neg hs]

/-- `apply_timestep` never reads `shut_down_duration`: changing it commutes with a tick, in every state -/
theorem C12_tick_ignores_down_duration (n : Node) (d : Int) :
    tick { n with downDur := d } = { tick n with downDur := d } := by
  have h1 : tickUp { n with downDur := d } = { tickUp n with downDur := d } := by
    unfold tickUp
    by_cases hc : n.upCd > 0
    · rw [if_pos (show ({ n with downDur := d } : Node).upCd > 0 from hc), if_pos hc]
    · rw [if_neg (show ¬ ({ n with downDur := d } : Node).upCd > 0 from hc), if_neg hc]
      by_cases hs : n.st = .booting
      · rw [if_pos (show ({ n with downDur := d } : Node).st = .booting from hs), if_pos hs]; rfl
      · rw [if_neg (show ¬ ({ n with downDur := d } : Node).st = .booting from hs), if_neg hs]
  have h2 : ∀ m : Node, tickDown { m with downDur := d } = { tickDown m with downDur := d } := by
    intro m
    unfold tickDown
    by_cases hc : m.downCd > 0
    · rw [if_pos (show ({ m with downDur := d } : Node).downCd > 0 from hc), if_pos hc]
    · rw [if_neg (show ¬ ({ m with downDur := d } : Node).downCd > 0 from hc), if_neg hc]
      by_cases hs : m.st = .shuttingDown
      · rw [if_pos (show ({ m with downDur := d } : Node).st = .shuttingDown from hs), if_pos hs]
        dsimp only
        by_cases hr : m.resetting = true
        · rw [if_pos (show (shutDownActions (setSt { m with downDur := d } .off)).resetting = true from hr),
              if_pos (show (shutDownActions (setSt m .off)).resetting = true from hr)]
          exact powerOn_setDown { shutDownActions (setSt m .off) with resetting := false } d
        · rw [if_neg (show ¬ (shutDownActions (setSt { m with downDur := d } .off)).resetting = true from hr),
              if_neg (show ¬ (shutDownActions (setSt m .off)).resetting = true from hr)]
          rfl
      · rw [if_neg (show ¬ ({ m with downDur := d } : Node).st = .shuttingDown from hs), if_neg hs]
  have h3 : ∀ m : Node, tickSoftware { m with downDur := d } = { tickSoftware m with downDur := d } := by
    intro m
    unfold tickSoftware
    by_cases hs : m.st = .on
    · rw [if_pos (show ({ m with downDur := d } : Node).st = .on from hs), if_pos hs]
    · rw [if_neg (show ¬ ({ m with downDur := d } : Node).st = .on from hs), if_neg hs]
  unfold tick
  rw [h1, h2, h3]

/-- the extended operations that neither call the API directly nor set an episode up -/
def XOp.plain : XOp → Bool
  | .op _ => true | .preTick => true | .setDur _ _ => true | _ => false

def xticksIn : List XOp → Nat
  | [] => 0
  | .op .tick :: ops => xticksIn ops + 1
  | _ :: ops => xticksIn ops

/-- everything but the countdowns and the two configured durations is unchanged -/
def FrozenX (n n' : Node) : Prop :=
  n'.st = n.st ∧ n'.hist = n.hist ∧ n'.nics = n.nics ∧ n'.svcs = n.svcs ∧ n'.apps = n.apps ∧ n'.resetting = n.resetting

theorem FrozenX.trans {a b c : Node} (h1 : FrozenX a b) (h2 : FrozenX b c) : FrozenX a c := by
  obtain ⟨a1, a2, a3, a4, a5, a6⟩ := h1
  obtain ⟨b1, b2, b3, b4, b5, b6⟩ := h2
  exact ⟨b1.trans a1, b2.trans a2, b3.trans a3, b4.trans a4, b5.trans a5, b6.trans a6⟩

/-- **a running countdown is not affected by a change of the configured durations** (they are read when a transition
starts: `power_on` / `power_off` copy the duration into the countdown). A BOOTING node with countdown `c` is still
BOOTING, with countdown `c − #ticks`, after any sequence of requests, frames, pre-timesteps, ticks and changes of
`start_up_duration` / `shut_down_duration` to arbitrary integers that contains at most `c` ticks. -/
theorem C12_boot_held_under_duration_changes {tbl : List Route} (hg : allGuarded tbl = true) (n : Node)
    (hst : n.st = .booting) (ops : List XOp) (hp : ops.all XOp.plain = true) (hle : (xticksIn ops : Int) ≤ n.upCd) :
    FrozenX n (xrun tbl n ops) ∧ (xrun tbl n ops).upCd = n.upCd - xticksIn ops := by
  induction ops generalizing n with
  | nil => exact ⟨⟨rfl, rfl, rfl, rfl, rfl, rfl⟩, by simp [xrun, xticksIn]⟩
  | cons o ops ih =>
    simp only [List.all_cons, Bool.and_eq_true] at hp
    obtain ⟨hp1, hp2⟩ := hp
    cases o with
    | api c => cases hp1
    | setupEpisode => cases hp1
    | preTick => exact ih n hst hp2 hle
    | setDur u d =>
      have := ih (setDur n u d) hst hp2 hle
      exact ⟨⟨this.1.1, this.1.2.1, this.1.2.2.1, this.1.2.2.2.1, this.1.2.2.2.2.1, this.1.2.2.2.2.2⟩, this.2⟩
    | op o =>
      by_cases hop : o = .tick
      · subst hop
        have hle' : (xticksIn ops : Int) + 1 ≤ n.upCd := by simpa [xticksIn] using hle
        obtain ⟨hf, hcd⟩ := tick_booting_pos n hst (by omega)
        have := ih (tick n) (by rw [hf.1, hst]) hp2 (by rw [hcd]; omega)
        refine ⟨FrozenX.trans ⟨hf.1, hf.2.1, hf.2.2.1, hf.2.2.2.1, hf.2.2.2.2.1, hf.2.2.2.2.2.1⟩ this.1, ?_⟩
        show (xrun tbl (tick n) ops).upCd = _
        rw [this.2, hcd]; simp [xticksIn]; omega
      · have hin := step_transitional_inert hg n (Or.inl hst) o hop
        have ht : xticksIn (XOp.op o :: ops) = xticksIn ops := by
          cases o with
          | tick => exact absurd rfl hop
          | request _ _ => rfl
          | frameIn _ => rfl
          | frameOut _ => rfl
        show FrozenX n (xrun tbl (step tbl n o).1 ops) ∧ (xrun tbl (step tbl n o).1 ops).upCd = _
        rw [hin, ht]
        exact ih n hst hp2 (by rw [ht] at hle; exact hle)

/-- the same for SHUTTING_DOWN -/
theorem C12_shutdown_held_under_duration_changes {tbl : List Route} (hg : allGuarded tbl = true) (n : Node)
    (hst : n.st = .shuttingDown) (ops : List XOp) (hp : ops.all XOp.plain = true) (hle : (xticksIn ops : Int) ≤ n.downCd) :
    FrozenX n (xrun tbl n ops) ∧ (xrun tbl n ops).downCd = n.downCd - xticksIn ops := by
  induction ops generalizing n with
  | nil => exact ⟨⟨rfl, rfl, rfl, rfl, rfl, rfl⟩, by simp [xrun, xticksIn]⟩
  | cons o ops ih =>
    simp only [List.all_cons, Bool.and_eq_true] at hp
    obtain ⟨hp1, hp2⟩ := hp
    cases o with
    | api c => cases hp1
    | setupEpisode => cases hp1
    | preTick => exact ih n hst hp2 hle
    | setDur u d =>
      have := ih (setDur n u d) hst hp2 hle
      exact ⟨⟨this.1.1, this.1.2.1, this.1.2.2.1, this.1.2.2.2.1, this.1.2.2.2.2.1, this.1.2.2.2.2.2⟩, this.2⟩
    | op o =>
      by_cases hop : o = .tick
      · subst hop
        have hle' : (xticksIn ops : Int) + 1 ≤ n.downCd := by simpa [xticksIn] using hle
        obtain ⟨hf, hcd⟩ := tick_shutting_pos n hst (by omega)
        have := ih (tick n) (by rw [hf.1, hst]) hp2 (by rw [hcd]; omega)
        refine ⟨FrozenX.trans ⟨hf.1, hf.2.1, hf.2.2.1, hf.2.2.2.1, hf.2.2.2.2.1, hf.2.2.2.2.2.1⟩ this.1, ?_⟩
        show (xrun tbl (tick n) ops).downCd = _
        rw [this.2, hcd]; simp [xticksIn]; omega
      · have hin := step_transitional_inert hg n (Or.inr hst) o hop
        have ht : xticksIn (XOp.op o :: ops) = xticksIn ops := by
          cases o with
          | tick => exact absurd rfl hop
          | request _ _ => rfl
          | frameIn _ => rfl
          | frameOut _ => rfl
        show FrozenX n (xrun tbl (step tbl n o).1 ops) ∧ (xrun tbl (step tbl n o).1 ops).downCd = _
        rw [hin, ht]
        exact ih n hst hp2 (by rw [ht] at hle; exact hle)

/-- non-vacuity, with a negative and a huge duration set in mid-boot: the countdown of 2 still runs out at tick 3 -/
example : let ops : List XOp := [.op startupOp, .setDur (-5) 1000000000000, .op .tick, .op .tick]
    ((xrun baseRoutes exOff ops).st, (xrun baseRoutes exOff (ops ++ [.op .tick])).st) = (.booting, .on) := by decide

/-- the duration that counts is the one configured when the transition STARTS (here: changed to 0 before the request) -/
example : (xrun baseRoutes exOff [.setDur 0 3, .op startupOp]).st = .on ∧
    (xrun baseRoutes exOff [.setDur (-7) 3, .op startupOp]).st = .on ∧
    (xrun baseRoutes exOff [.setDur 1000000000000 3, .op startupOp, .op .tick]).upCd = 999999999999 := by decide

/-- **a ping along a path needs every node on it ON**: the source, and the owner of every interface the frames cross
(both ports of a switch, both interfaces of a router or firewall, the access point of a wireless router, the target) -/
theorem C12_path_needs_all_on (src : Node) (hops : List (Node × Nat)) (hinv : ∀ h ∈ hops, NicInv h.1)
    (h : pathOk src hops = true) : src.st = .on ∧ ∀ h ∈ hops, h.1.st = .on := by
  simp only [pathOk, Bool.and_eq_true, Node.isOn, beq_iff_eq, List.all_eq_true] at h
  refine ⟨h.1, ?_⟩
  intro hp hmem
  have hpass := h.2 hp hmem
  by_cases hon : hp.1.st = .on
  · exact hon
  · exfalso
    have hoff := hinv hp hmem hon
    unfold nicPasses at hpass
    cases hc : hp.1.nics[hp.2]? with
    | none => simp [hc] at hpass
    | some c =>
      simp only [hc] at hpass
      have := hoff c (List.mem_of_getElem? hc)
      simp [this] at hpass

example : pathOk exOn [(exOn, 0)] = true ∧ pathOk exOn [(exOn, 0), (exOff, 0)] = false := by decide

/-! ### regenerated shapes of the constructors, the loader and episode set-up -/

/-- the power-relevant statements of `Node.__init__`, `connect_nic`, the interfaces' `setup_for_episode` /
`connect_link`, `Network.setup_for_episode`, `Router.setup_for_episode`, the node loop of `PrimaiteGame.from_config`,
`SoftwareManager.install`, and of the constructor and `from_config` of every node class are the ones `construct`,
`loaderPower`, `wireUp` and `setupEpisode` model (F-53 was a `power_on()` in `Firewall.__init__`: it would show here) -/
theorem C12_gen_loader_shapes :
    Gen.Power.loaderShapes = [
  ("Node.__init__", "self.operating_state = NodeOperatingState.ON if not (p := kwargs['config'].operating_state) else NodeOperatingState[p.upper()]"),
  ("Node.connect_nic", "if(self.operating_state == NodeOperatingState.ON)[network_interface.enable()]"),
  ("Node.setup_for_episode", "super().setup_for_episode(episode=episode);self.file_system.setup_for_episode(episode=episode);for(network_interface in self.network_interfaces.values())[network_interface.setup_for_episode(episode=episode)];for(software in self.software_manager.software.values())[software.setup_for_episode(episode=episode)];if(episode and self.sys_log)[self.sys_log.current_episode = episode]"),
  ("NetworkInterface.setup_for_episode", "super().setup_for_episode(episode=episode);self.enable()"),
  ("WiredNetworkInterface.connect_link", "if(self._connected_link)[return];if(self._connected_link == link)[return];self._connected_link = link;self.enable()"),
  ("WiredNetworkInterface.disconnect_link", "self.disable()"),
  ("Network.setup_for_episode", "for(node in self.nodes.values())[node.setup_for_episode(episode=episode)];for(link in self.links.values())[link.setup_for_episode(episode=episode)];for(node in self.nodes.values())[node.power_on();for(network_interface in node.network_interfaces.values())[network_interface.enable()];for(software in node.software_manager.software.values())[if(isinstance(software, Service))[software.start()]else[if(isinstance(software, Application))[software.run()]]]]"),
  ("Router.setup_for_episode", "self.software_manager.arp.clear();for((i, _) in self.network_interface.items())[self.enable_port(i)];super().setup_for_episode(episode=episode)"),
  ("Router.enable_port", "network_interface = self.network_interface.get(port);if(network_interface)[network_interface.enable()]"),
  ("PrimaiteGame.from_config.node_loop", "new_node.config.start_up_duration = 0;new_node.config.shut_down_duration = 0;net.add_node(new_node);if(new_node.operating_state == NodeOperatingState.ON)[new_node.power_on()];new_node.config.start_up_duration = int(node_cfg.get('start_up_duration', defaults_config.get('node_start_up_duration', 3)));new_node.config.shut_down_duration = int(node_cfg.get('shut_down_duration', defaults_config.get('node_shut_down_duration', 3)))"),
  ("SoftwareManager.install", "if(isinstance(software, Application))[self.node.applications[software.uuid] = software;self.node._application_request_manager.add_request(software.name, RequestType(func=software._request_manager))]else[if(isinstance(software, Service))[self.node.services[software.uuid] = software;self.node._service_request_manager.add_request(software.name, RequestType(func=software._request_manager));software.start()]];software.install();if(isinstance(software, Application))[software.operating_state = ApplicationOperatingState.CLOSED]"),
  ("HostNode.__init__", ""),
  ("Router.__init__", ""),
  ("Router.from_config", "router.operating_state = NodeOperatingState.ON if not (p := config.get('operating_state')) else NodeOperatingState[p.upper()]"),
  ("Switch.__init__", ""),
  ("Firewall.__init__", ""),
  ("Firewall.from_config", ""),
  ("WirelessRouter.__init__", ""),
  ("WirelessRouter.from_config", "router.operating_state = NodeOperatingState.ON if not (p := config.get('operating_state')) else NodeOperatingState[p.upper()]")
] := rfl

/-- every place under `src/primaite` that calls `power_on()` / `power_off()`: the request handlers, `reset`, the two
automatic restarts, the loader, episode set-up, and the three network-building helpers (fresh nodes) -/
theorem C12_gen_power_call_sites :
    Gen.Power.powerCallSites =
      [("game/game.py", "from_config:power_on", 1), ("simulator/network/container.py", "setup_for_episode:power_on", 1),
       ("simulator/network/creation.py", "add_nodes_to_net:power_on", 5),
       ("simulator/network/hardware/base.py", "_init_request_manager:power_off", 1),
       ("simulator/network/hardware/base.py", "_init_request_manager:power_on", 1),
       ("simulator/network/hardware/base.py", "apply_timestep:power_on", 1),
       ("simulator/network/hardware/base.py", "power_off:power_on", 1),
       ("simulator/network/hardware/base.py", "reset:power_off", 1),
       ("simulator/network/networks.py", "arcd_uc2_network:power_on", 10),
       ("simulator/network/networks.py", "client_server_routed:power_on", 5)] := by decide

end Primaite.Power
