import PrimaiteModel.Model.Schema
import PrimaiteModel.Props.C05
import PrimaiteModel.Gen.RequestSchema
import PrimaiteModel.Gen.ActionTemplates
namespace Primaite.Schema
open Primaite.Request
open Primaite.Gen.RequestSchema (schema)
open Primaite.Gen.ActionTemplates (templates)

theorem walk_sound (S : Schema) (vn : VId → Validator) (pick : SlotKind → List String) (ρ : String → Key) :
    ∀ (segs : List TSeg) (m : String) (inv : Inv) (kids : Kids),
      Inst S vn m inv kids → walk S pick m segs = true → present S pick m inv segs ρ = true →
      pathExistsK kids (instantiate ρ segs) = true ∧
      (validatorsOnK kids (instantiate ρ segs)).map (fun va => vn va.1) = routeVals S m inv segs ρ := by
  intro segs
  induction segs with
  | nil => intro m inv kids _ hw; simp [walk] at hw
  | cons seg rest ih =>
    intro m inv kids hinst hw hp
    cases hinst with
    | @static _ _ _ edges hm hleaf hsub hrec =>
      simp only [walk, hm] at hw
      simp only [present, hm] at hp
      simp only [routeVals, hm, instantiate, List.map_cons, pathExistsK, validatorsOnK]
      -- in every accepted case the key is a literal edge of the manager
      have key : ∃ vs tgt, lookupE (seg.key ρ) edges = some (vs, tgt) ∧
          (∀ m', tgt = .sub m' → walk S pick m' rest = true) := by
        cases seg with
        | lit k =>
          simp only [TSeg.key]
          cases hl : lookupE k edges with
          | none => simp [hl] at hw
          | some vt =>
            obtain ⟨vs, tgt⟩ := vt
            refine ⟨vs, tgt, rfl, ?_⟩
            intro m' hm'; subst hm'; simpa [hl] using hw
        | choice f ty =>
          simp only [TSeg.key]
          simp only [Bool.and_eq_true, List.all_eq_true] at hw
          simp only [Bool.and_eq_true, List.contains_iff_mem] at hp
          have hk := hw.2 (ρ f) hp.1
          cases hl : lookupE (ρ f) edges with
          | none => simp [hl] at hk
          | some vt =>
            obtain ⟨vs, tgt⟩ := vt
            refine ⟨vs, tgt, rfl, ?_⟩
            intro m' hm'; subst hm'; simpa [hl] using hk
        | slot f sk ty => simp at hw
        | opt d => simp at hw
      obtain ⟨vs, tgt, hl, hwalk⟩ := key
      cases tgt with
      | leaf =>
        obtain ⟨v, h, hlk, hvn⟩ := hleaf _ vs hl
        simp [hl, hlk, hvn]
      | sub m' =>
        obtain ⟨v, kids', hlk, hvn⟩ := hsub _ vs m' hl
        have hi := hrec _ vs m' v kids' hl hlk
        have hp' : present S pick m' inv rest ρ = true := by
          simp only [hl, Bool.and_eq_true] at hp; exact hp.2
        have := ih m' inv kids' hi (hwalk m' rfl) hp'
        simp only [instantiate] at this
        simp [hl, hlk, hvn, this.1, this.2]
    | @dynamic _ _ _ lv ty vs hm hkey hrec =>
      simp only [walk, hm, Bool.and_eq_true, List.all_eq_true] at hw
      simp only [present, hm] at hp
      simp only [routeVals, hm, instantiate, List.map_cons, pathExistsK, validatorsOnK]
      cases hf : findChild lv (seg.key ρ) inv.children with
      | none => simp [hf] at hp
      | some ci =>
        obtain ⟨c, inv'⟩ := ci
        simp only [hf, Bool.and_eq_true, List.contains_iff_mem] at hp
        obtain ⟨v, kids', hlk, hvn⟩ := hkey _ c inv' hf
        have hi := hrec _ c inv' v kids' hf hlk
        have := ih c inv' kids' hi (hw.2 c hp.1) hp.2
        simp only [instantiate] at this
        simp [hlk, hvn, this.1, this.2]

theorem C05_action_templates_resolve :
    ∀ t ∈ templates, (addressable schema t) ≠ [] ∧ ∀ c ∈ addressable schema t, resolves schema c t = true := by
  decide +kernel
end Primaite.Schema
