/-
C05 (static part) — every registered action's request template resolves through the regenerated schematic request
tree, for every node class the action can address and every software class it can name; hence, on ANY live tree that
contains what the schema predicts for its inventory, a request formed from parameters naming present components is
never `unreachable`, the validators met on its way are exactly the ones the schema attaches to that route, and only
those can refuse it.

Two kinds of statements:
* GENERAL theorems (`C05_schema_route_exists`, `C05_action_never_unreachable`, `C05_action_refused_only_by_route_rule`,
  `C05_route_validators_in_schema`): for every schema, every inventory, every live tree that is an instance, every
  parameter assignment — proved by induction over the template, no enumeration.
* TABLE theorems over the regenerated Gen tables (`C05_action_templates_resolve`, `C05_route_guards`, `C05_gen_*`): the
  quantifier "every template x every class" ranges over a FINITE regenerated table and is discharged by `decide +kernel`;
  it is re-checked against whatever the source says on every run.
-/
import PrimaiteModel.Model.Schema
import PrimaiteModel.Props.C05
import PrimaiteModel.Gen.RequestSchema
import PrimaiteModel.Gen.ActionTemplates
namespace Primaite.Schema
open Primaite.Request
open Primaite.Gen.RequestSchema (schema)
open Primaite.Gen.ActionTemplates (templates)

/-- Core lemma: on an instance of the schema, a template that walks through the schema, instantiated with parameters
naming present components, is a path of the live tree down to a handler, and the validators met on it are (by name)
the ones the schema lists for the concrete route. Induction over the template. -/
theorem walk_sound (S : Schema) (vn : VId → Validator) (pick : SlotKind → List String) (ρ : String → Key) :
    ∀ (segs : List TSeg) (m : String) (inv : Inv) (kids : Kids),
      Inst S vn m inv kids → walk S pick m segs = true → present S pick m inv segs ρ = true →
      pathExistsK kids (instantiate ρ segs) = true ∧
      (validatorsOnK kids (instantiate ρ segs)).map (fun va => vn va.1) = routeVals S m inv segs ρ := by
  intro segs
  induction segs with
  | nil => intro m inv kids _ hw; simp [walk] at hw
  | cons seg rest ih =>
    intro m inv kids hinst hw hp
    cases hinst with
    | @static _ _ _ edges hm hleaf hsub hrec =>
      simp only [walk, hm] at hw
      simp only [present, hm] at hp
      simp only [routeVals, hm, instantiate, List.map_cons, pathExistsK, validatorsOnK]
      -- in every accepted case the key is a literal edge of the manager
      have key : ∃ vs tgt, lookupE (seg.key ρ) edges = some (vs, tgt) ∧
          (∀ m', tgt = .sub m' → walk S pick m' rest = true) := by
        cases seg with
        | lit k =>
          simp only [TSeg.key]
          cases hl : lookupE k edges with
          | none => simp [hl] at hw
          | some vt =>
            obtain ⟨vs, tgt⟩ := vt
            refine ⟨vs, tgt, rfl, ?_⟩
            intro m' hm'; subst hm'; simpa [hl] using hw
        | choice f ty =>
          simp only [TSeg.key]
          simp only [Bool.and_eq_true, List.all_eq_true] at hw
          simp only [Bool.and_eq_true, List.contains_iff_mem] at hp
          have hk := hw.2 (ρ f) hp.1
          cases hl : lookupE (ρ f) edges with
          | none => simp [hl] at hk
          | some vt =>
            obtain ⟨vs, tgt⟩ := vt
            refine ⟨vs, tgt, rfl, ?_⟩
            intro m' hm'; subst hm'; simpa [hl] using hk
        | slot f sk ty => simp at hw
        | opt d => simp at hw
      obtain ⟨vs, tgt, hl, hwalk⟩ := key
      cases tgt with
      | leaf =>
        obtain ⟨v, h, hlk, hvn⟩ := hleaf _ vs hl
        simp [hl, hlk, hvn]
      | sub m' =>
        obtain ⟨v, kids', hlk, hvn⟩ := hsub _ vs m' hl
        have hi := hrec _ vs m' v kids' hl hlk
        have hp' : present S pick m' inv rest ρ = true := by
          simp only [hl, Bool.and_eq_true] at hp; exact hp.2
        have := ih m' inv kids' hi (hwalk m' rfl) hp'
        simp only [instantiate] at this
        simp [hl, hlk, hvn, this.1, this.2]
    | @dynamic _ _ _ lv ty vs hm hkey hrec =>
      simp only [walk, hm, Bool.and_eq_true, List.all_eq_true] at hw
      simp only [present, hm] at hp
      simp only [routeVals, hm, instantiate, List.map_cons, pathExistsK, validatorsOnK]
      cases hf : findChild lv (seg.key ρ) inv.children with
      | none => simp [hf] at hp
      | some ci =>
        obtain ⟨c, inv'⟩ := ci
        simp only [hf, Bool.and_eq_true, List.contains_iff_mem] at hp
        obtain ⟨v, kids', hlk, hvn⟩ := hkey _ c inv' hf
        have hi := hrec _ c inv' v kids' hf hlk
        have := ih c inv' kids' hi (hw.2 c hp.1) hp.2
        simp only [instantiate] at this
        simp [hlk, hvn, this.1, this.2]

/-- Schema-level view of the concrete route: its validator sequence is one of the alternatives `walkVals` enumerates
(one per admitted class combination / literal choice). No live tree involved. -/
theorem routeVals_mem_walkVals (S : Schema) (pick : SlotKind → List String) (ρ : String → Key) :
    ∀ (segs : List TSeg) (m : String) (inv : Inv),
      walk S pick m segs = true → present S pick m inv segs ρ = true →
      routeVals S m inv segs ρ ∈ walkVals S pick m segs := by
  intro segs
  induction segs with
  | nil => intro m inv hw; simp [walk] at hw
  | cons seg rest ih =>
    intro m inv hw hp
    cases hm : S.mgr m with
    | none => simp [walk, hm] at hw
    | some M =>
      cases M with
      | static edges =>
        simp only [walk, hm] at hw
        simp only [present, hm] at hp
        simp only [routeVals, walkVals, hm]
        cases seg with
        | lit k =>
          simp only [TSeg.key] at hp ⊢
          cases hl : lookupE k edges with
          | none => simp [hl] at hw
          | some vt =>
            obtain ⟨vs, tgt⟩ := vt
            cases tgt with
            | leaf => simp
            | sub m' =>
              simp only [hl, Bool.true_and] at hw hp
              simp only [List.mem_map]
              exact ⟨_, ih m' inv hw hp, rfl⟩
        | choice f ty =>
          simp only [TSeg.key] at hp ⊢
          simp only [Bool.and_eq_true, List.all_eq_true] at hw
          simp only [Bool.and_eq_true, List.contains_iff_mem] at hp
          have hk := hw.2 (ρ f) hp.1
          simp only [List.mem_flatMap]
          refine ⟨ρ f, hp.1, ?_⟩
          cases hl : lookupE (ρ f) edges with
          | none => simp [hl] at hk
          | some vt =>
            obtain ⟨vs, tgt⟩ := vt
            cases tgt with
            | leaf => simp
            | sub m' =>
              simp only [hl] at hk hp
              simp only [List.mem_map]
              exact ⟨_, ih m' inv hk hp.2, rfl⟩
        | slot f sk ty => simp at hw
        | opt d => simp at hw
      | dynamic lv ty vs =>
        simp only [walk, hm, Bool.and_eq_true, List.all_eq_true] at hw
        simp only [present, hm] at hp
        simp only [routeVals, walkVals, hm]
        cases hf : findChild lv (seg.key ρ) inv.children with
        | none => simp [hf] at hp
        | some ci =>
          obtain ⟨c, inv'⟩ := ci
          simp only [hf, Bool.and_eq_true, List.contains_iff_mem] at hp
          simp only [List.mem_flatMap, List.mem_map]
          exact ⟨c, hp.1, _, ih c inv' (hw.2 c hp.1) hp.2, rfl⟩

/-! ### a decidable sufficient condition for `Inst` (for examples) -/

theorem lookupE_mem {k : Key} {edges : List Edge} {vs : Validator} {tgt : Target}
    (h : lookupE k edges = some (vs, tgt)) : (k, vs, tgt) ∈ edges := by
  induction edges with
  | nil => simp [lookupE] at h
  | cons e rest ih =>
    obtain ⟨k', v', t'⟩ := e
    simp only [lookupE] at h
    by_cases hk : k = k'
    · simp only [hk, if_true, Option.some.injEq, Prod.mk.injEq] at h
      obtain ⟨rfl, rfl⟩ := h
      simp [hk]
    · simp only [hk, if_false] at h
      exact List.mem_cons_of_mem _ (ih h)

theorem findChild_mem {lv : Level} {k : Key} {cs : List (Level × Key × String × Inv)} {c : String} {inv' : Inv}
    (h : findChild lv k cs = some (c, inv')) : (lv, k, c, inv') ∈ cs := by
  induction cs with
  | nil => simp [findChild] at h
  | cons e rest ih =>
    obtain ⟨lv', k', c', i'⟩ := e
    simp only [findChild] at h
    by_cases hk : lv = lv' ∧ k = k'
    · simp only [hk, and_self, if_true, Option.some.injEq, Prod.mk.injEq] at h
      obtain ⟨rfl, rfl⟩ := h
      simp [hk.1, hk.2]
    · simp only [hk, if_false] at h
      exact List.mem_cons_of_mem _ (ih h)

/-- the executable check implies the instance relation -/
theorem instB_sound (S : Schema) (vn : VId → Validator) :
    ∀ (fuel : Nat) (m : String) (inv : Inv) (kids : Kids), instB S vn fuel m inv kids = true → Inst S vn m inv kids := by
  intro fuel
  induction fuel with
  | zero => intro m inv kids h; simp [instB] at h
  | succ n ih =>
    intro m inv kids h
    simp only [instB] at h
    cases hm : S.mgr m with
    | none => simp [hm] at h
    | some M =>
      cases M with
      | static edges =>
        simp only [hm, List.all_eq_true] at h
        refine Inst.static hm ?_ ?_ ?_
        · intro k vs hl
          have hh := h _ (lookupE_mem hl)
          cases hk : lookup k kids with
          | none => simp [hk] at hh
          | some vt =>
            obtain ⟨v, t⟩ := vt
            cases t with
            | leaf hid => simp [hk] at hh; exact ⟨v, hid, rfl, hh⟩
            | node ks => simp [hk] at hh
        · intro k vs m' hl
          have hh := h _ (lookupE_mem hl)
          cases hk : lookup k kids with
          | none => simp [hk] at hh
          | some vt =>
            obtain ⟨v, t⟩ := vt
            cases t with
            | leaf hid => simp [hk] at hh
            | node ks => simp [hk] at hh; exact ⟨v, ks, rfl, hh.1⟩
        · intro k vs m' v kids' hl hk
          have hh := h _ (lookupE_mem hl)
          simp [hk] at hh
          exact ih m' inv kids' hh.2
      | dynamic lv ty vs =>
        simp only [hm, List.all_eq_true] at h
        refine Inst.dynamic hm ?_ ?_
        · intro k c inv' hf
          have hh := h _ (findChild_mem hf)
          cases hk : lookup k kids with
          | none => simp [hk] at hh
          | some vt =>
            obtain ⟨v, t⟩ := vt
            cases t with
            | leaf hid => simp [hk] at hh
            | node ks => simp [hk] at hh; exact ⟨v, ks, rfl, hh.1⟩
        · intro k c inv' v kids' hf hk
          have hh := h _ (findChild_mem hf)
          simp [hk] at hh
          exact ih c inv' kids' hh.2

/-! ### (b) general theorems: every schema, every inventory, every instance, every parameter assignment -/

/-- On every live tree that is an instance of the schema for an inventory, a template that resolves (for node class
`c`), instantiated with parameters naming components present in the inventory, is a path of the live tree that names
existing components down to a handler. -/
theorem C05_schema_route_exists (S : Schema) (vn : VId → Validator) (c : String) (t : Template) (inv : Inv)
    (kids : Kids) (ρ : String → Key)
    (hinst : Inst S vn rootMgr inv kids) (hres : resolves S c t = true)
    (hpres : present S (pickNode S c) rootMgr inv t.segs ρ = true) :
    pathExistsK kids (instantiate ρ t.segs) = true :=
  (walk_sound S vn (pickNode S c) ρ t.segs rootMgr inv kids hinst hres hpres).1

/-- `action_never_unreachable` (DESIGN §5/C05): ... hence dispatch of that request is never `unreachable`, whatever the
validators say and at whatever depth it starts. -/
theorem C05_action_never_unreachable (S : Schema) (vn : VId → Validator) (c : String) (t : Template) (inv : Inv)
    (kids : Kids) (ρ : String → Key)
    (hinst : Inst S vn rootMgr inv kids) (hres : resolves S c t = true)
    (hpres : present S (pickNode S c) rootMgr inv t.segs ρ = true) (env : Env) (d d' : Nat) :
    dispatchK env kids (instantiate ρ t.segs) d ≠ .unreachable d' :=
  C05_existing_target_never_unreachable env kids _ d
    (C05_schema_route_exists S vn c t inv kids ρ hinst hres hpres) d'

/-- ... the validators met along it are, by name and in order, exactly the ones the schema attaches to the edges of
the concrete route. -/
theorem C05_route_validators_in_schema (S : Schema) (vn : VId → Validator) (c : String) (t : Template) (inv : Inv)
    (kids : Kids) (ρ : String → Key)
    (hinst : Inst S vn rootMgr inv kids) (hres : resolves S c t = true)
    (hpres : present S (pickNode S c) rootMgr inv t.segs ρ = true) :
    (validatorsOnK kids (instantiate ρ t.segs)).map (fun va => vn va.1) = routeVals S rootMgr inv t.segs ρ :=
  (walk_sound S vn (pickNode S c) ρ t.segs rootMgr inv kids hinst hres hpres).2

/-- ... and if the request is refused (`failure`), the refusing rule is the schema's validator of the route edge at
the reported depth — no rule off the route can refuse it. -/
theorem C05_action_refused_only_by_route_rule (S : Schema) (vn : VId → Validator) (c : String) (t : Template)
    (inv : Inv) (kids : Kids) (ρ : String → Key)
    (hinst : Inst S vn rootMgr inv kids) (hres : resolves S c t = true)
    (hpres : present S (pickNode S c) rootMgr inv t.segs ρ = true) (env : Env) (d d' : Nat) (v : VId)
    (h : dispatchK env kids (instantiate ρ t.segs) d = .failure d' v) :
    d ≤ d' ∧ (routeVals S rootMgr inv t.segs ρ)[d' - d]? = some (vn v) := by
  obtain ⟨hle, args, hget, _, _⟩ := C05_failure_is_own_rule env kids _ d d' v h
  refine ⟨hle, ?_⟩
  rw [← C05_route_validators_in_schema S vn c t inv kids ρ hinst hres hpres]
  simp [List.getElem?_map, hget]

/-! ### (a), (c): the regenerated tables. The quantifiers below range over FINITE regenerated tables (every template of
Gen/ActionTemplates x every class Gen/RequestSchema lists as addressable / nameable); `decide +kernel` evaluates them. -/

/-- (a) EVERY regenerated template resolves through the regenerated schema for EVERY node class it can address
(node_name-like fields: every registered Node subclass; target_router: Router and its subclasses; target_firewall_nodename:
Firewall), for every Service / Application class a service_name / application_name can denote, for the class that
registers under a literal software name ("nmap", "terminal", ...), and for every firewall port x direction. -/
theorem C05_action_templates_resolve :
    ∀ t ∈ templates, (addressable schema t) ≠ [] ∧ ∀ c ∈ addressable schema t, resolves schema c t = true := by
  decide +kernel

/-- (c, table) For every regenerated template, every addressable node class and EVERY combination of software classes /
firewall ports the walk admits, the non-trivial validators on the route are exactly `expectedGuards` (so they do not
depend on which subclass is addressed); the do-nothing fall-backs meet none. -/
theorem C05_route_guards :
    ∀ t ∈ templates, ∀ c ∈ addressable schema t, ∀ g ∈ guardsOf schema c t,
      g = (if t.fallback then [] else expectedGuards t.action) := by
  decide +kernel

/-- (c) `only_own_validators`: on every live tree that is an instance of the REGENERATED schema, for every regenerated
template, every addressable node class and every parameter assignment naming present components, the permission rules
met on the request's way are exactly the expected guards of that action — e.g. `node-service-stop` is guarded by
node-is-on and service-is-RUNNING and by nothing else. -/
theorem C05_only_own_validators (vn : VId → Validator) (inv : Inv) (kids : Kids)
    (hinst : Inst schema vn rootMgr inv kids) (t : Template) (ht : t ∈ templates) (c : String)
    (hc : c ∈ addressable schema t) (ρ : String → Key)
    (hpres : present schema (pickNode schema c) rootMgr inv t.segs ρ = true) :
    ((validatorsOnK kids (instantiate ρ t.segs)).map (fun va => vn va.1)).flatten =
      (if t.fallback then [] else expectedGuards t.action) := by
  have hres := (C05_action_templates_resolve t ht).2 c hc
  rw [C05_route_validators_in_schema schema vn c t inv kids ρ hinst hres hpres]
  apply C05_route_guards t ht c hc
  simp only [guardsOf, List.mem_map]
  exact ⟨_, routeVals_mem_walkVals schema (pickNode schema c) ρ t.segs rootMgr inv hres hpres, rfl⟩

/-- ... and a refusal (`failure`) of such a request names a rule all of whose atoms are among the action's expected
guards. -/
theorem C05_refusal_is_expected_guard (vn : VId → Validator) (inv : Inv) (kids : Kids)
    (hinst : Inst schema vn rootMgr inv kids) (t : Template) (ht : t ∈ templates) (c : String)
    (hc : c ∈ addressable schema t) (ρ : String → Key)
    (hpres : present schema (pickNode schema c) rootMgr inv t.segs ρ = true) (env : Env) (d d' : Nat) (v : VId)
    (h : dispatchK env kids (instantiate ρ t.segs) d = .failure d' v) :
    ∀ a ∈ vn v, a ∈ (if t.fallback then [] else expectedGuards t.action) := by
  intro a ha
  have hres := (C05_action_templates_resolve t ht).2 c hc
  obtain ⟨_, hget⟩ := C05_action_refused_only_by_route_rule schema vn c t inv kids ρ hinst hres hpres env d d' v h
  rw [← C05_only_own_validators vn inv kids hinst t ht c hc ρ hpres,
      C05_route_validators_in_schema schema vn c t inv kids ρ hinst hres hpres]
  exact List.mem_flatten.mpr ⟨vn v, List.mem_of_getElem? hget, ha⟩

/-- The whole of `action_never_unreachable` for the regenerated tables in one statement. -/
theorem C05_regenerated_action_never_unreachable (vn : VId → Validator) (inv : Inv) (kids : Kids)
    (hinst : Inst schema vn rootMgr inv kids) (t : Template) (ht : t ∈ templates) (c : String)
    (hc : c ∈ addressable schema t) (ρ : String → Key)
    (hpres : present schema (pickNode schema c) rootMgr inv t.segs ρ = true) (env : Env) (d d' : Nat) :
    dispatchK env kids (instantiate ρ t.segs) d ≠ .unreachable d' :=
  C05_action_never_unreachable schema vn c t inv kids ρ hinst ((C05_action_templates_resolve t ht).2 c hc) hpres env d d'

/-! ### component gates: the contract for RAW routes (every route, not only the ones an action forms) -/

/-- level ↦ the component kind whose gates the classes of that level must carry (files carry none of their own: the
folder's `file` edge guards them) -/
def Level.root : Level → Option Root
  | .node => some .node | .nic => some .nic | .service => some .service | .application => some .application
  | .folder => some .folder | .file => none

/-- does the static manager of class `c` carry, on every edge `k`, at least the rules `gate r k`? -/
def gatesHold (S : Schema) (c : String) (r : Root) : Bool :=
  match S.mgr c with
  | some (.static es) => es.all (fun e => (gate r e.1).all (fun a => e.2.1.contains a))
  | _ => false

open Primaite.Gen.RequestSchema (rootOf) in
/-- (table) EVERY class the regenerated schema derives from Node / NetworkInterface / Service / Application / FileSystem /
Folder carries that kind's component gates on EVERY edge of its root manager — in particular every key a Node subclass adds
(router `acl`, firewall `internal` / `dmz` / `external`, …) is power-gated — and every class a dynamic level can lead to is
covered by the table. -/
theorem C05_component_gates :
    (∀ cr ∈ rootOf, gatesHold schema cr.1 cr.2 = true) ∧
    (∀ lv ∈ [Level.node, .nic, .service, .application, .folder], ∀ c ∈ schema.levelClasses lv,
        ∃ r, lv.root = some r ∧ (c, r) ∈ rootOf) ∧
    ("FileSystem", Root.fileSystem) ∈ rootOf := by
  decide +kernel

/-- does the static manager of class `c` carry on every edge `k` EXACTLY the rules `gate r k`? -/
def gatesExact (S : Schema) (c : String) (r : Root) : Bool :=
  match S.mgr c with
  | some (.static es) => es.all (fun e => decide (e.2.1 = gate r e.1))
  | _ => false

/-- a manager without any rule: every edge allow-all -/
def noRules : Mgr → Bool
  | .static es => es.all (fun e => e.2.1.isEmpty)
  | .dynamic _ _ v => v.isEmpty

open Primaite.Gen.RequestSchema (rootOf) in
/-- (table) THE CONTRACT IS EXACT AND COMPLETE over the regenerated schema: every class / auxiliary manager of `rootOf` carries
on every edge exactly `gate kind key` — so the type-specific verbs, `compromise`, `disable`, `create`, `restore`, `access`
carry exactly NO rule — and every other manager of the schema (the dynamic levels, the firewall's port / direction managers,
`software_manager`, `AccessControlList`, `Simulation`, `Network`, files, …) carries no rule at all. -/
theorem C05_contract_exact :
    (∀ cr ∈ rootOf, gatesExact schema cr.1 cr.2 = true) ∧
    (∀ nm ∈ schema.mgrs, (rootOf.map (·.1)).contains nm.1 = false → noRules nm.2 = true) := by
  decide +kernel

/-- (general) the other direction of `C05_gate_refuses`: on an instance of a schema whose class `c` carries EXACTLY the
gates, a request entering that class's root manager through `k` is NOT refused there when the rules `gate r k` hold — i.e.
when every validator named `gate r k` answers true for these options: no rule outside the contract can refuse it at this
edge (for a verb the table maps to `[]`: nothing can). -/
theorem C05_gate_exact_admits (S : Schema) (vn : VId → Validator) (c : String) (r : Root) (inv : Inv) (kids : Kids)
    (hinst : Inst S vn c inv kids) (hg : gatesExact S c r = true)
    (k : Key) (rest : List Key) (vs : Validator) (tgt : Target) (edges : List Edge)
    (hm : S.mgr c = some (.static edges)) (hk : lookupE k edges = some (vs, tgt)) (env : Env)
    (htrue : ∀ v, vn v = gate r k → env v rest = true) (d : Nat) :
    ∀ v, dispatchK env kids (k :: rest) d ≠ .failure d v := by
  have hvs : vs = gate r k := by
    simp only [gatesExact, hm, List.all_eq_true] at hg
    have := hg _ (lookupE_mem hk)
    simpa using this
  intro v0
  cases hinst with
  | @static _ _ _ edges' hm' hleaf hsub hrec =>
    rw [hm] at hm'
    cases hm'
    cases tgt with
    | leaf =>
      obtain ⟨v, h, hlk, hvn⟩ := hleaf k vs hk
      simp [dispatchK, hlk, htrue v (by rw [hvn, hvs])]
    | sub m' =>
      obtain ⟨v, kids', hlk, hvn⟩ := hsub k vs m' hk
      simp only [dispatchK, hlk, htrue v (by rw [hvn, hvs]), if_true]
      intro hf
      have := (C05_depth_bounded env kids' rest (d + 1)).2 d v0 hf
      omega
  | @dynamic _ _ _ lv ty vs' hm' hkey hrec =>
    rw [hm] at hm'
    cases hm'

/-- (general) On every live tree that is an instance of a schema whose class `c` carries the gates of kind `r`: a request
that enters the root manager of a component of class `c` through key `k` while one of the gate rules of `(r, k)` is false —
i.e. every live validator that contains that rule answers false for these options — is refused right there: `failure` at
this depth, by the validator of that very edge; the handler is not reached. -/
theorem C05_gate_refuses (S : Schema) (vn : VId → Validator) (c : String) (r : Root) (inv : Inv) (kids : Kids)
    (hinst : Inst S vn c inv kids) (hg : gatesHold S c r = true)
    (k : Key) (rest : List Key) (vs : Validator) (tgt : Target) (edges : List Edge)
    (hm : S.mgr c = some (.static edges)) (hk : lookupE k edges = some (vs, tgt))
    (a : VAtom) (ha : a ∈ gate r k) (env : Env)
    (hfalse : ∀ v, a ∈ vn v → env v rest = false) (d : Nat) :
    ∃ v, dispatchK env kids (k :: rest) d = .failure d v ∧ a ∈ vn v := by
  have hmem := lookupE_mem hk
  have hcontains : a ∈ vs := by
    simp only [gatesHold, hm, List.all_eq_true] at hg
    have := hg _ hmem a ha
    simpa using this
  cases hinst with
  | @static _ _ _ edges' hm' hleaf hsub hrec =>
    rw [hm] at hm'
    cases hm'
    cases tgt with
    | leaf =>
      obtain ⟨v, h, hlk, hvn⟩ := hleaf k vs hk
      refine ⟨v, ?_, by rw [hvn]; exact hcontains⟩
      simp [dispatchK, hlk, hfalse v (by rw [hvn]; exact hcontains)]
    | sub m' =>
      obtain ⟨v, kids', hlk, hvn⟩ := hsub k vs m' hk
      refine ⟨v, ?_, by rw [hvn]; exact hcontains⟩
      simp [dispatchK, hlk, hfalse v (by rw [hvn]; exact hcontains)]
  | @dynamic _ _ _ lv ty vs' hm' hkey hrec =>
    rw [hm] at hm'
    cases hm'

/-! ### further ties to the regenerated tables -/

open Primaite.Gen.RequestSchema (validatorBodies softwareNames softwareDiscriminators) in
/-- E6 (text of `__call__`): the state-free validators are the predicates their names say, and the two state validators
compare the component's operating state with the state they were constructed with. -/
theorem C05_gen_validator_predicates :
    validatorBodies.lookup "nodeIsOn" = some "return self.node.operating_state == NodeOperatingState.ON" ∧
    validatorBodies.lookup "nodeIsOff" = some "return self.node.operating_state == NodeOperatingState.OFF" ∧
    validatorBodies.lookup "nicEnabled" = some "return self.network_interface.enabled" ∧
    validatorBodies.lookup "nicDisabled" = some "return not self.network_interface.enabled" ∧
    validatorBodies.lookup "serviceState" = some "return self.service.operating_state == self.state" ∧
    validatorBodies.lookup "appState" = some "return self.application.operating_state == self.state" := by
  decide +kernel

open Primaite.Gen.RequestSchema (softwareNames softwareDiscriminators) in
/-- Every Service / Application class that declares a discriminator (what scenario files and `install` use) registers
its request key under exactly that name — so software installed by type `X` is addressed by the key `X`. -/
theorem C05_gen_names_are_discriminators : ∀ cd ∈ softwareDiscriminators, cd ∈ softwareNames := by
  decide +kernel

/-- The regenerated schema is closed: every sub-manager an edge points to is a manager of the table, every class a
dynamic level or a slot can denote has a root manager, manager names are unique, and every choice field has keys. -/
theorem C05_gen_schema_closed :
    (schema.mgrs.all (fun nm => match nm.2 with
      | .static es => es.all (fun e => match e.2.2 with | .leaf => true | .sub m => (schema.mgr m).isSome)
      | .dynamic _ _ _ => true)) = true ∧
    ([Level.node, .service, .application, .nic, .folder, .file].all
      (fun lv => !(schema.levelClasses lv).isEmpty && (schema.levelClasses lv).all (fun c => (schema.mgr c).isSome))) = true ∧
    ([SlotKind.node, .router, .firewall, .service, .application, .nic, .folder, .file].all
      (fun sk => (schema.slotClasses sk).all (fun c => (schema.levelClasses sk.level).contains c))) = true ∧
    (schema.mgrs.map (·.1)).Nodup ∧
    (schema.choices.all (fun fk => !fk.2.isEmpty)) = true := by
  decide +kernel

open Primaite.Gen.ActionTemplates (actions defaultedVerbs) in
/-- Every registered action has exactly one unconditional template, and every template belongs to a registered action. -/
theorem C05_gen_one_template_per_action :
    (∀ a ∈ actions, (templates.filter (fun t => t.action == a && !t.fallback)).length = 1) ∧
    (∀ t ∈ templates, t.action ∈ actions) := by
  decide +kernel

open Primaite.Gen.ActionTemplates (defaultedVerbs) in
/-- The only template literals that are a FIELD default (overridable through the action's options) rather than a
constant are the verbs of these actions; for them the theorems speak about the default verb. -/
theorem C05_gen_overridable_verbs :
    ∀ av ∈ defaultedVerbs, av.1 ∈ ["node-application-close", "node-application-execute", "node-application-fix",
      "node-application-install", "node-application-remove", "node-application-scan", "node-session-remote-logoff"] := by
  decide +kernel

/-! ### non-vacuity: the hypotheses are satisfiable for the REGENERATED schema with a non-trivial inventory -/

def exVid (v : Validator) : VId := schema.validatorTable.idxOf v
def exVn (i : VId) : Validator := (schema.validatorTable[i]?).getD []

/-- a computer with a service, an application, a NIC, a folder with a file; a firewall; a router -/
def exInv : Inv := .mk [
  (.node, "pc", "Computer", .mk [
    (.service, "dns-client", "DNSClient", .mk []), (.application, "nmap", "NMAP", .mk []),
    (.nic, "i:1", "NIC", .mk []), (.folder, "root", "Folder", .mk [(.file, "a.txt", "File", .mk [])])]),
  (.node, "fw", "Firewall", .mk [(.nic, "i:1", "RouterInterface", .mk [])]),
  (.node, "r1", "Router", .mk [])]

def exKids : Kids := buildK schema exVid 12 rootMgr exInv

/-- the canonical tree of that inventory is an instance of the regenerated schema -/
theorem exKids_inst : Inst schema exVn rootMgr exInv exKids :=
  instB_sound schema exVn 12 rootMgr exInv exKids (by decide +kernel)

def tmpl (action : String) : Template :=
  (templates.find? (fun t => t.action == action && !t.fallback)).getD ⟨"", false, [], []⟩

def exRho : String → Key := fun f =>
  if f = "node_name" then "pc" else if f = "service_name" then "dns-client" else if f = "application_name" then "nmap"
  else if f = "nic_num" then "i:1" else if f = "folder_name" then "root" else if f = "file_name" then "a.txt"
  else if f = "target_firewall_nodename" then "fw" else if f = "firewall_port_name" then "dmz"
  else if f = "firewall_port_direction" then "inbound" else if f = "target_router" then "r1" else "x"

def envAll : Env := fun _ _ => true
/-- node-is-on false (the node is off / booting), everything else true -/
def envNodeOff : Env := fun v _ => !(exVn v).contains .nodeIsOn

example : present schema (pickNode schema "Computer") rootMgr exInv (tmpl "node-service-stop").segs exRho = true := by
  decide +kernel
example : instantiate exRho (tmpl "node-service-stop").segs = ["network", "node", "pc", "service", "dns-client", "stop"] := by
  decide +kernel
example : dispatchK envAll exKids (instantiate exRho (tmpl "node-service-stop").segs) 0 = .reached 0 [] := by
  decide +kernel
/-- refused by the node-is-on rule on the `service` edge (depth 3) — a rule of the route -/
example : ∃ v, dispatchK envNodeOff exKids (instantiate exRho (tmpl "node-service-stop").segs) 0 = .failure 3 v ∧
    exVn v = [.nodeIsOn] := ⟨exVid [.nodeIsOn], by decide +kernel⟩
example : present schema (pickNode schema "Firewall") rootMgr exInv (tmpl "firewall-acl-add-rule").segs exRho = true := by
  decide +kernel
example : (dispatchK envAll exKids (instantiate exRho (tmpl "firewall-acl-add-rule").segs) 0).isReached = true := by
  decide +kernel
/-- ACL edits on a powered-off firewall / router are refused by node-is-on on the port / `acl` edge (depth 3) -/
example : ∃ v, dispatchK envNodeOff exKids (instantiate exRho (tmpl "firewall-acl-add-rule").segs) 0 = .failure 3 v ∧
    exVn v = [.nodeIsOn] := ⟨exVid [.nodeIsOn], by decide +kernel⟩
example : ∃ v, dispatchK envNodeOff exKids (instantiate exRho (tmpl "router-acl-remove-rule").segs) 0 = .failure 3 v ∧
    exVn v = [.nodeIsOn] := ⟨exVid [.nodeIsOn], by decide +kernel⟩
example : (dispatchK envAll exKids (instantiate exRho (tmpl "node-file-scan").segs) 0).isReached = true := by
  decide +kernel
example : (dispatchK envAll exKids (instantiate exRho (tmpl "node-application-execute").segs) 0).isReached = true := by
  decide +kernel
/-- `present` is needed: naming a service that is not installed is answered `unreachable` (at the service level) -/
example : present schema (pickNode schema "Computer") rootMgr exInv (tmpl "node-service-stop").segs
      (fun f => if f = "service_name" then "ftp-server" else exRho f) = false ∧
    dispatchK envAll exKids (instantiate (fun f => if f = "service_name" then "ftp-server" else exRho f)
      (tmpl "node-service-stop").segs) 0 = .unreachable 4 := by
  decide +kernel
/-- the node class matters: a router action aimed at a computer is not `present` (and is `unreachable`) -/
example : present schema (pickNode schema "Router") rootMgr exInv (tmpl "router-acl-remove-rule").segs
      (fun f => if f = "target_router" then "pc" else exRho f) = false ∧
    dispatchK envAll exKids (instantiate (fun f => if f = "target_router" then "pc" else exRho f)
      (tmpl "router-acl-remove-rule").segs) 0 = .unreachable 3 := by
  decide +kernel

/-! non-vacuity of `C05_gate_refuses`: the firewall's `internal` port route on a firewall that is not ON -/
def exFwInv : Inv := .mk [(.nic, "i:1", "RouterInterface", .mk [])]
def exFwKids : Kids := buildK schema exVid 10 "Firewall" exFwInv
def exFwEdges : List Edge := match schema.mgr "Firewall" with | some (.static es) => es | _ => []

theorem exFwKids_inst : Inst schema exVn "Firewall" exFwInv exFwKids :=
  instB_sound schema exVn 10 "Firewall" exFwInv exFwKids (by decide +kernel)

example : ∃ v, dispatchK envNodeOff exFwKids ("internal" :: ["inbound", "acl", "add_rule"]) 3 = .failure 3 v ∧
    VAtom.nodeIsOn ∈ exVn v :=
  C05_gate_refuses schema exVn "Firewall" .node exFwInv exFwKids exFwKids_inst
    (C05_component_gates.1 ("Firewall", .node) (by decide +kernel)) "internal" _ [.nodeIsOn]
    (.sub "Firewall._internal_acl_request_manager") exFwEdges (by decide +kernel) (by decide +kernel)
    .nodeIsOn (by decide) envNodeOff (by intro v hv; simp [envNodeOff, hv]) 3

/-! non-vacuity of `C05_gate_exact_admits`: `execute` of an application carries no rule — it is not refused at the
application's manager even when every application-state rule is false (the application is CLOSED) -/
def exNmapKids : Kids := buildK schema exVid 6 "NMAP" (.mk [])
def exNmapEdges : List Edge := match schema.mgr "NMAP" with | some (.static es) => es | _ => []
theorem exNmapKids_inst : Inst schema exVn "NMAP" (.mk []) exNmapKids :=
  instB_sound schema exVn 6 "NMAP" (.mk []) exNmapKids (by decide +kernel)
/-- every validator that mentions an application state answers false -/
def envAppClosed : Env := fun v _ => !(exVn v).any (fun a => match a with | .appState _ => true | _ => false)

example : ∀ v, dispatchK envAppClosed exNmapKids ["execute"] 5 ≠ .failure 5 v :=
  C05_gate_exact_admits schema exVn "NMAP" .application (.mk []) exNmapKids exNmapKids_inst
    (C05_contract_exact.1 ("NMAP", .application) (by decide +kernel)) "execute" [] [] .leaf exNmapEdges
    (by decide +kernel) (by decide +kernel) envAppClosed (by intro v hv; simp [envAppClosed, hv, gate]) 5
/-- while `scan` IS refused there (its gate is application-is-RUNNING) -/
example : ∃ v, dispatchK envAppClosed exNmapKids ["scan"] 5 = .failure 5 v := ⟨exVid [.appState "RUNNING"], by decide +kernel⟩

end Primaite.Schema

