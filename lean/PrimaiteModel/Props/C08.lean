/-
C08 — packets reach exactly their addressee via best routes, and forwarding ends.
Part 1: route selection (`Model/Route.lean`).  Part 2 (forwarding, TTL, ARP) is in `Props/C08Forward.lean`-style
sections further down once `Model/Forward.lean` exists.
-/
import PrimaiteModel.Model.Route
namespace Primaite.Route

/-! ### vocabulary of the statements -/

/-- route `r` is usable for `dst` and its network has prefix length `p`
(`IPv4Network(addr/mask, strict=False)` exists with `prefixlen = p` and contains `dst`). -/
def Covers (dst : Ip) (r : Route) (p : Nat) : Prop := maskPrefix r.mask = some p ∧ inNet dst r.addr p = true

instance (dst : Ip) (r : Route) (p : Nat) : Decidable (Covers dst r p) := by unfold Covers; infer_instance

/-- every mask in the table is a netmask or a hostmask (so `IPv4Network(...)` never raises). -/
def ValidMasks (rs : List Route) : Prop := ∀ r ∈ rs, maskPrefix r.mask ≠ none

/-- `(p, m, i)` is at least as good as `(p', m', j)`: longer prefix, else lower metric, else earlier position. -/
def Better (p : Nat) (m : Int) (i : Nat) (p' : Nat) (m' : Int) (j : Nat) : Prop :=
  p' < p ∨ (p' = p ∧ m < m') ∨ (p' = p ∧ m = m' ∧ i ≤ j)

/-- loop invariant of `find_best_route` after the routes `pre` have been visited. -/
structure Inv (dst : Ip) (pre : List Route) (acc : Acc) : Prop where
  none_case : acc.best = none →
    acc.longest = -1 ∧ acc.lowest = none ∧ ∀ (j : Nat) (r : Route) (p : Nat), pre[j]? = some r → ¬ Covers dst r p
  some_case : ∀ (i : Nat) (r : Route), acc.best = some (i, r) →
    pre[i]? = some r ∧ ∃ p : Nat, Covers dst r p ∧ acc.longest = (p : Int) ∧ acc.lowest = some r.metric ∧
      ∀ (j : Nat) (r' : Route) (p' : Nat), pre[j]? = some r' → Covers dst r' p' → Better p r.metric i p' r'.metric j

theorem inv_init (dst : Ip) : Inv dst [] {} := by
  constructor
  · intro _; exact ⟨rfl, rfl, by intro j r p h; simp at h⟩
  · intro i r h; simp at h

theorem iter_none_iff (dst : Ip) (acc : Acc) (i : Nat) (r : Route) :
    iter dst acc i r = none ↔ maskPrefix r.mask = none := by
  unfold iter
  cases h : maskPrefix r.mask with
  | none => simp
  | some p =>
    simp only [reduceCtorEq, iff_false]
    split <;> (try split) <;> simp

theorem getElem?_snoc_cases {α} (pre : List α) (x : α) (j : Nat) (y : α) (h : (pre ++ [x])[j]? = some y) :
    pre[j]? = some y ∨ (j = pre.length ∧ y = x) := by
  by_cases hj : j < pre.length
  · left; rw [List.getElem?_append_left hj] at h; exact h
  · right
    rw [List.getElem?_append_right (by omega)] at h
    have : j - pre.length = 0 := by
      cases hk : j - pre.length with
      | zero => rfl
      | succ k => rw [hk] at h; simp at h
    rw [this] at h
    simp at h
    exact ⟨by omega, h.symm⟩

theorem getElem?_snoc_left {α} (pre : List α) (x : α) (j : Nat) (y : α) (h : pre[j]? = some y) :
    (pre ++ [x])[j]? = some y := by
  have hj : j < pre.length := by
    rcases Nat.lt_or_ge j pre.length with h' | h'
    · exact h'
    · rw [List.getElem?_eq_none h'] at h; simp at h
  rw [List.getElem?_append_left hj]; exact h

/-- one iteration preserves the invariant. -/
theorem iter_inv (dst : Ip) (pre : List Route) (acc acc' : Acc) (r : Route)
    (hI : Inv dst pre acc) (h : iter dst acc pre.length r = some acc') : Inv dst (pre ++ [r]) acc' := by
  unfold iter at h
  cases hm : maskPrefix r.mask with
  | none => simp [hm] at h
  | some p =>
    simp only [hm] at h
    by_cases hin : inNet dst r.addr p = true
    · simp only [hin, if_true] at h
      by_cases hc : betterCond p acc.longest r.metric acc.lowest = true
      · -- the route replaces the current best
        rw [if_pos hc] at h
        have h' : acc' = { best := some (pre.length, r), longest := p, lowest := some r.metric } := by
          simpa using h.symm
        subst h'
        constructor
        · intro hb; simp at hb
        · intro i r0 hb
          simp only [Option.some.injEq, Prod.mk.injEq] at hb
          have hi : i = pre.length := hb.1.symm
          have hr : r0 = r := hb.2.symm
          rw [hi, hr]
          refine ⟨by simp, p, ⟨hm, hin⟩, rfl, rfl, ?_⟩
          intro j r' p' hj hcov
          rcases getElem?_snoc_cases pre r j r' hj with hj' | ⟨rfl, rfl⟩
          · cases hb0 : acc.best with
            | none => exact absurd hcov ((hI.none_case hb0).2.2 j r' p' hj')
            | some ir =>
              obtain ⟨i0, r0'⟩ := ir
              obtain ⟨_, p0, _, hl, hlo, hall⟩ := hI.some_case i0 r0' hb0
              have hb := hall j r' p' hj' hcov
              simp only [betterCond, Bool.or_eq_true, decide_eq_true_eq, Bool.and_eq_true, beq_iff_eq, hl, hlo, ltLowest] at hc
              unfold Better at hb ⊢
              omega
          · have : p' = p := by
              have := hcov.1; rw [hm] at this; simpa using this.symm
            subst this
            right; right; exact ⟨rfl, rfl, Nat.le_refl _⟩
      · -- the route matches but does not beat the current best
        rw [if_neg hc] at h
        have h' : acc' = acc := by simpa using h.symm
        subst h'
        cases hb0 : acc'.best with
        | none =>
          obtain ⟨hl, hlo, _⟩ := hI.none_case hb0
          exfalso; apply hc
          simp [betterCond, hl]
          omega
        | some ir =>
          obtain ⟨i0, r0⟩ := ir
          obtain ⟨hget, p0, hcov0, hl, hlo, hall⟩ := hI.some_case i0 r0 hb0
          constructor
          · intro hb; rw [hb0] at hb; simp at hb
          · intro i r1 hb
            rw [hb0] at hb
            simp only [Option.some.injEq, Prod.mk.injEq] at hb
            have hi : i = i0 := hb.1.symm
            have hr : r1 = r0 := hb.2.symm
            rw [hi, hr]
            refine ⟨getElem?_snoc_left _ _ _ _ hget, p0, hcov0, hl, hlo, ?_⟩
            intro j r' p' hj hcov
            rcases getElem?_snoc_cases pre r j r' hj with hj' | ⟨rfl, rfl⟩
            · exact hall j r' p' hj' hcov
            · have : p' = p := by
                have := hcov.1; rw [hm] at this; simpa using this.symm
              subst this
              have hi0 : i0 < pre.length := by
                rcases Nat.lt_or_ge i0 pre.length with h' | h'
                · exact h'
                · rw [List.getElem?_eq_none h'] at hget; simp at hget
              simp only [betterCond, Bool.or_eq_true, decide_eq_true_eq, Bool.and_eq_true, beq_iff_eq, hl, hlo, ltLowest, not_or,
                not_and] at hc
              unfold Better
              omega
    · -- the route does not contain the destination
      simp only [hin, Bool.false_eq_true, if_false] at h
      have h' : acc' = acc := by simpa using h.symm
      subst h'
      have hnew : ∀ (j : Nat) (r' : Route) (p' : Nat), j = pre.length ∧ r' = r → ¬ Covers dst r' p' := by
        rintro j r' p' ⟨_, rfl⟩ hcov
        have : p' = p := by
          have := hcov.1; rw [hm] at this; simpa using this.symm
        subst this
        exact hin hcov.2
      constructor
      · intro hb
        obtain ⟨hl, hlo, hno⟩ := hI.none_case hb
        refine ⟨hl, hlo, ?_⟩
        intro j r' p' hj
        rcases getElem?_snoc_cases pre r j r' hj with hj' | hh
        · exact hno j r' p' hj'
        · exact hnew j r' p' hh
      · intro i r1 hb
        obtain ⟨hget, p0, hcov0, hl, hlo, hall⟩ := hI.some_case i r1 hb
        refine ⟨getElem?_snoc_left _ _ _ _ hget, p0, hcov0, hl, hlo, ?_⟩
        intro j r' p' hj hcov
        rcases getElem?_snoc_cases pre r j r' hj with hj' | hh
        · exact hall j r' p' hj' hcov
        · exact absurd hcov (hnew j r' p' hh)

/-- the whole loop establishes the invariant for the whole list. -/
theorem scan_inv (dst : Ip) (rs pre : List Route) (acc acc' : Acc)
    (hI : Inv dst pre acc) (h : scan dst rs pre.length acc = some acc') : Inv dst (pre ++ rs) acc' := by
  induction rs generalizing pre acc with
  | nil => simp only [scan, Option.some.injEq] at h; subst h; simpa using hI
  | cons r rs ih =>
    simp only [scan] at h
    cases hit : iter dst acc pre.length r with
    | none => simp [hit] at h
    | some acc1 =>
      simp only [hit] at h
      have := ih (pre ++ [r]) acc1 (iter_inv dst pre acc acc1 r hI hit) (by simpa using h)
      simpa using this

theorem scan_none_iff (dst : Ip) (rs : List Route) (i : Nat) (acc : Acc) :
    scan dst rs i acc = none ↔ ∃ r ∈ rs, maskPrefix r.mask = none := by
  induction rs generalizing i acc with
  | nil => simp [scan]
  | cons r rs ih =>
    simp only [scan]
    cases hit : iter dst acc i r with
    | none =>
      have := (iter_none_iff dst acc i r).1 hit
      simp [this]
    | some acc1 =>
      have hne : maskPrefix r.mask ≠ none := fun hn => by
        rw [(iter_none_iff dst acc i r).2 hn] at hit; simp at hit
      simp only [ih, List.mem_cons, exists_eq_or_imp, hne, false_or]

theorem find_inv (t : Table) (dst : Ip) (acc : Acc) (h : scan dst t.routes 0 {} = some acc) :
    Inv dst t.routes acc := by
  have := scan_inv dst t.routes [] {} acc (inv_init dst) (by simpa using h)
  simpa using this

theorem mem_of_getElem? {α} {l : List α} {i : Nat} {a : α} (h : l[i]? = some a) : a ∈ l := by
  have hi : i < l.length := by
    rcases Nat.lt_or_ge i l.length with h' | h'
    · exact h'
    · rw [List.getElem?_eq_none h'] at h; simp at h
  rw [List.getElem?_eq_getElem hi] at h
  simp only [Option.some.injEq] at h
  exact h ▸ List.getElem_mem hi

theorem getElem?_of_mem {α} {l : List α} {a : α} (h : a ∈ l) : ∃ i : Nat, l[i]? = some a := by
  obtain ⟨i, hi, rfl⟩ := List.getElem_of_mem h
  exact ⟨i, List.getElem?_eq_getElem hi⟩

theorem find_eq_of_scan (t : Table) (dst : Ip) (acc : Acc) (hs : scan dst t.routes 0 {} = some acc) :
    findBestRoute t dst =
      (match acc.best with
       | some (i, r) => .route i r
       | none => match t.default with
         | some nh => .default nh
         | none => .noRoute) := by
  unfold findBestRoute; rw [hs]; rfl

/-! ### the property theorems for route selection -/

/-- The chosen route is an entry of the table (at the reported position) whose network contains the destination. -/
theorem C08_best_matches (t : Table) (dst : Ip) (i : Nat) (r : Route)
    (h : findBestRoute t dst = .route i r) : t.routes[i]? = some r ∧ ∃ p, Covers dst r p := by
  unfold findBestRoute at h
  cases hs : scan dst t.routes 0 {} with
  | none => simp [hs] at h
  | some acc =>
    simp only [hs] at h
    cases hb : acc.best with
    | none => simp only [hb] at h; split at h <;> simp at h
    | some ir =>
      obtain ⟨i0, r0⟩ := ir
      simp only [hb, Result.route.injEq] at h
      obtain ⟨rfl, rfl⟩ := h
      obtain ⟨hget, p, hcov, _⟩ := (find_inv t dst acc hs).some_case i0 r0 hb
      exact ⟨hget, p, hcov⟩

/-- master statement: the chosen route is the best one under (longest prefix, lowest metric, earliest position). -/
theorem best_spec (t : Table) (dst : Ip) (i : Nat) (r : Route) (h : findBestRoute t dst = .route i r) :
    ∃ p, Covers dst r p ∧ ∀ (j : Nat) (r' : Route) (p' : Nat), t.routes[j]? = some r' → Covers dst r' p' →
      Better p r.metric i p' r'.metric j := by
  unfold findBestRoute at h
  cases hs : scan dst t.routes 0 {} with
  | none => simp [hs] at h
  | some acc =>
    simp only [hs] at h
    cases hb : acc.best with
    | none => simp only [hb] at h; split at h <;> simp at h
    | some ir =>
      obtain ⟨i0, r0⟩ := ir
      simp only [hb, Result.route.injEq] at h
      obtain ⟨rfl, rfl⟩ := h
      obtain ⟨_, p, hcov, _, _, hall⟩ := (find_inv t dst acc hs).some_case i0 r0 hb
      exact ⟨p, hcov, hall⟩

/-- Longest prefix match: no route containing the destination has a longer prefix than the chosen one. -/
theorem C08_best_longest (t : Table) (dst : Ip) (i : Nat) (r : Route) (p : Nat)
    (h : findBestRoute t dst = .route i r) (hp : Covers dst r p) :
    ∀ r' ∈ t.routes, ∀ p', Covers dst r' p' → p' ≤ p := by
  obtain ⟨p0, hcov, hall⟩ := best_spec t dst i r h
  have : p0 = p := by have := hcov.1; rw [hp.1] at this; simpa using this.symm
  subst this
  intro r' hr' p' hc'
  obtain ⟨j, hj⟩ := getElem?_of_mem hr'
  have := hall j r' p' hj hc'
  unfold Better at this; omega

/-- Among the routes with the same (longest) prefix the chosen one has the lowest metric. -/
theorem C08_best_cheapest (t : Table) (dst : Ip) (i : Nat) (r : Route) (p : Nat)
    (h : findBestRoute t dst = .route i r) (hp : Covers dst r p) :
    ∀ r' ∈ t.routes, Covers dst r' p → r.metric ≤ r'.metric := by
  obtain ⟨p0, hcov, hall⟩ := best_spec t dst i r h
  have : p0 = p := by have := hcov.1; rw [hp.1] at this; simpa using this.symm
  subst this
  intro r' hr' hc'
  obtain ⟨j, hj⟩ := getElem?_of_mem hr'
  have := hall j r' p0 hj hc'
  unfold Better at this; omega

/-- Ties on prefix and metric go to the earliest entry: every earlier route containing the destination is strictly
worse (shorter prefix, or same prefix and strictly higher metric). -/
theorem C08_first_among_equals (t : Table) (dst : Ip) (i : Nat) (r : Route) (p : Nat)
    (h : findBestRoute t dst = .route i r) (hp : Covers dst r p) :
    ∀ (j : Nat) (r' : Route) (p' : Nat), j < i → t.routes[j]? = some r' → Covers dst r' p' →
      p' < p ∨ (p' = p ∧ r.metric < r'.metric) := by
  obtain ⟨p0, hcov, hall⟩ := best_spec t dst i r h
  have : p0 = p := by have := hcov.1; rw [hp.1] at this; simpa using this.symm
  subst this
  intro j r' p' hji hj hc'
  have := hall j r' p' hj hc'
  unfold Better at this; omega

/-- The selection is a function of the table: two positions that both satisfy the specification coincide. -/
theorem C08_best_unique (t : Table) (dst : Ip) (i : Nat) (r : Route) (h : findBestRoute t dst = .route i r)
    (i' : Nat) (r' : Route) (p' : Nat) (hget : t.routes[i']? = some r') (hc : Covers dst r' p')
    (hbest : ∀ (j : Nat) (r'' : Route) (p'' : Nat), t.routes[j]? = some r'' → Covers dst r'' p'' →
      Better p' r'.metric i' p'' r''.metric j) : i' = i ∧ r' = r := by
  obtain ⟨hgi, _⟩ := C08_best_matches t dst i r h
  obtain ⟨p, hcov, hall⟩ := best_spec t dst i r h
  have h1 := hall i' r' p' hget hc
  have h2 := hbest i r p hgi hcov
  have : i' = i := by unfold Better at h1 h2; omega
  subst this
  rw [hgi] at hget
  exact ⟨rfl, by simpa using hget.symm⟩

/-- `IPv4Network(...)` raises out of `find_best_route` exactly when some entry's mask is neither netmask nor
hostmask. -/
theorem C08_raised_iff (t : Table) (dst : Ip) :
    findBestRoute t dst = .raised ↔ ∃ r ∈ t.routes, maskPrefix r.mask = none := by
  rw [← scan_none_iff dst t.routes 0 {}]
  cases hs : scan dst t.routes 0 {} with
  | none => unfold findBestRoute; simp [hs]
  | some acc =>
    rw [find_eq_of_scan t dst acc hs]
    simp only [reduceCtorEq, iff_false]
    cases hb : acc.best with
    | none => cases hd : t.default <;> simp
    | some ir => simp

theorem no_best_iff (t : Table) (dst : Ip) (acc : Acc) (hs : scan dst t.routes 0 {} = some acc) :
    acc.best = none ↔ ∀ r ∈ t.routes, ∀ p, ¬ Covers dst r p := by
  have hI := find_inv t dst acc hs
  constructor
  · intro hb r hr p
    obtain ⟨j, hj⟩ := getElem?_of_mem hr
    exact (hI.none_case hb).2.2 j r p hj
  · intro hno
    cases hb : acc.best with
    | none => rfl
    | some ir =>
      obtain ⟨i0, r0⟩ := ir
      obtain ⟨hget, p, hcov, _⟩ := hI.some_case i0 r0 hb
      exact absurd hcov (hno r0 (mem_of_getElem? hget) p)

theorem valid_of_scan (t : Table) (dst : Ip) (acc : Acc) (hs : scan dst t.routes 0 {} = some acc) :
    ValidMasks t.routes := by
  intro r hr hm
  have := (scan_none_iff dst t.routes 0 {}).2 ⟨r, hr, hm⟩
  rw [hs] at this; simp at this

/-- The default route is the answer exactly when it is configured, no mask raises, and no route contains the
destination ("last resort"). -/
theorem C08_default_iff (t : Table) (dst : Ip) (nh : Ip) :
    findBestRoute t dst = .default nh ↔
      ValidMasks t.routes ∧ (∀ r ∈ t.routes, ∀ p, ¬ Covers dst r p) ∧ t.default = some nh := by
  cases hs : scan dst t.routes 0 {} with
  | none =>
    obtain ⟨r, hr, hm⟩ := (scan_none_iff dst t.routes 0 {}).1 hs
    have : findBestRoute t dst = .raised := by unfold findBestRoute; simp [hs]
    rw [this]
    simp only [reduceCtorEq, false_iff, not_and]
    intro hv; exact absurd hm (hv r hr)
  | some acc =>
    have hv := valid_of_scan t dst acc hs
    have hnb := no_best_iff t dst acc hs
    rw [find_eq_of_scan t dst acc hs]
    cases hb : acc.best with
    | none =>
      cases hd : t.default with
      | none => simp
      | some d =>
        simp only [Result.default.injEq, Option.some.injEq]
        exact ⟨fun h => ⟨hv, hnb.1 hb, h⟩, fun h => h.2.2⟩
    | some ir =>
      simp only [reduceCtorEq, false_iff, not_and]
      intro _ hno
      have := hnb.2 hno
      rw [hb] at this; simp at this

/-- `None` is returned exactly when nothing contains the destination and no default route is configured. -/
theorem C08_none_iff (t : Table) (dst : Ip) :
    findBestRoute t dst = .noRoute ↔
      ValidMasks t.routes ∧ (∀ r ∈ t.routes, ∀ p, ¬ Covers dst r p) ∧ t.default = none := by
  cases hs : scan dst t.routes 0 {} with
  | none =>
    obtain ⟨r, hr, hm⟩ := (scan_none_iff dst t.routes 0 {}).1 hs
    have : findBestRoute t dst = .raised := by unfold findBestRoute; simp [hs]
    rw [this]
    simp only [reduceCtorEq, false_iff, not_and]
    intro hv; exact absurd hm (hv r hr)
  | some acc =>
    have hv := valid_of_scan t dst acc hs
    have hnb := no_best_iff t dst acc hs
    rw [find_eq_of_scan t dst acc hs]
    cases hb : acc.best with
    | none =>
      cases hd : t.default with
      | none => simp only [true_iff, and_true]; exact ⟨hv, hnb.1 hb⟩
      | some d => simp
    | some ir =>
      simp only [reduceCtorEq, false_iff, not_and]
      intro _ hno
      have := hnb.2 hno
      rw [hb] at this; simp at this

/-- A dedicated route always wins over the default route: if some entry contains the destination (and no mask
raises) the answer is a table entry. -/
theorem C08_route_when_covered (t : Table) (dst : Ip) (hv : ValidMasks t.routes)
    (hex : ∃ r ∈ t.routes, ∃ p, Covers dst r p) : ∃ i r, findBestRoute t dst = .route i r := by
  cases hres : findBestRoute t dst with
  | route i r => exact ⟨i, r, rfl⟩
  | raised =>
    obtain ⟨r, hr, hm⟩ := (C08_raised_iff t dst).1 hres
    exact absurd hm (hv r hr)
  | noRoute =>
    obtain ⟨r, hr, p, hc⟩ := hex
    exact absurd hc (((C08_none_iff t dst).1 hres).2.1 r hr p)
  | default nh =>
    obtain ⟨r, hr, p, hc⟩ := hex
    exact absurd hc (((C08_default_iff t dst nh).1 hres).2.1 r hr p)


/-! ### what "contains" and "prefix length" mean -/

theorem netmask_getLsbD (p i : Nat) (hp : p ≤ 32) (hi : i < 32) :
    (netmask p).getLsbD i = decide (32 - p ≤ i) := by
  unfold netmask
  rw [BitVec.getLsbD_shiftLeft]
  simp only [hi, decide_true, Bool.true_and, BitVec.getLsbD_allOnes]
  by_cases h : i < 32 - p
  · simp [h]; omega
  · have : i - (32 - p) < 32 := by omega
    simp [h, this]; omega

/-- `dst in IPv4Network(addr/p, strict=False)` is exactly "the top `p` bits of `dst` and `addr` agree" — host bits
of a non-canonical `addr` are irrelevant. -/
theorem C08_inNet_spec (dst addr : Ip) (p : Nat) (hp : p ≤ 32) :
    inNet dst addr p = true ↔ ∀ i : Nat, i < 32 → 32 - p ≤ i → dst.getLsbD i = addr.getLsbD i := by
  unfold inNet
  constructor
  · intro h i hi hpi
    have h' : (dst &&& netmask p) = (addr &&& netmask p) := by simpa using h
    have h2 := congrArg (fun v => v.getLsbD i) h'
    simp only [BitVec.getLsbD_and, netmask_getLsbD p i hp hi, hpi, decide_true, Bool.and_true] at h2
    exact h2
  · intro h
    have : (dst &&& netmask p) = (addr &&& netmask p) := by
      apply BitVec.eq_of_getLsbD_eq
      intro i hi
      simp only [BitVec.getLsbD_and, netmask_getLsbD p i hp hi]
      by_cases hpi : 32 - p ≤ i
      · simp [hpi, h i hi hpi]
      · simp [hpi]
    simp [this]

/-- a mask is accepted exactly when it (netmask spelling) or its complement (hostmask spelling) is `p` ones followed
by zeroes, `p ≤ 32`; the netmask reading wins. -/
theorem C08_maskPrefix_spec (m : Ip) (p : Nat) (h : maskPrefix m = some p) :
    p ≤ 32 ∧ (m = netmask p ∨ ~~~m = netmask p) := by
  unfold maskPrefix at h
  have key : ∀ (x : Ip) (q : Nat), prefixOfNetmask x = some q → q ≤ 32 ∧ x = netmask q := by
    intro x q hq
    unfold prefixOfNetmask at hq
    have h1 := List.find?_some hq
    have h2 := List.mem_of_find?_eq_some hq
    simp only [List.mem_range] at h2
    exact ⟨by omega, by have := h1; simp only [beq_iff_eq] at this; exact this.symm⟩
  cases hn : prefixOfNetmask m with
  | some q =>
    simp only [hn, Option.some.injEq] at h
    subst h
    exact ⟨(key m q hn).1, Or.inl (key m q hn).2⟩
  | none =>
    simp only [hn] at h
    exact ⟨(key _ p h).1, Or.inr (key _ p h).2⟩

/-- every prefix length has its netmask recognised (so `/0 … /32` networks never raise). -/
theorem C08_maskPrefix_netmask : ∀ p, p < 33 → maskPrefix (netmask p) = some p := by decide

/-! ### non-vacuity: concrete tables exercising every clause -/

def exTable : Table :=
  { routes := [
      { addr := 0x0A010000#32, mask := 0xFFFF0000#32, nextHop := 0x01010101#32, metric := 0 },   -- 10.1.0.0/16
      { addr := 0x0A01024D#32, mask := 0x000000FF#32, nextHop := 0x01010102#32, metric := 5 },   -- 10.1.2.77 hostmask /24
      { addr := 0x0A010200#32, mask := 0xFFFFFF00#32, nextHop := 0x01010103#32, metric := 5 },   -- 10.1.2.0/24 tie on metric
      { addr := 0x0A010200#32, mask := 0xFFFFFF00#32, nextHop := 0x02020202#32, metric := 1 } ], -- 10.1.2.0/24 cheaper
    default := some 0x09090909#32 }

/-- longest prefix, then lowest metric: 10.1.2.3 → entry 3. -/
example : findBestRoute exTable 0x0A010203#32 =
    .route 3 { addr := 0x0A010200#32, mask := 0xFFFFFF00#32, nextHop := 0x02020202#32, metric := 1 } := by decide
def exR0 : Route := { addr := 0x0A010000#32, mask := 0xFFFF0000#32, nextHop := 0x01010101#32, metric := 0 }
def exR1 : Route := { addr := 0x0A01024D#32, mask := 0x000000FF#32, nextHop := 0x01010102#32, metric := 5 }
def exR2 : Route := { addr := 0x0A010200#32, mask := 0xFFFFFF00#32, nextHop := 0x01010103#32, metric := 5 }

/-- only the /16 contains 10.1.9.9. -/
example : findBestRoute exTable 0x0A010909#32 = .route 0 exR0 := by decide
/-- default route as last resort. -/
example : findBestRoute exTable 0x0B000001#32 = .default 0x09090909#32 := by decide
/-- no default: `None`. -/
example : findBestRoute { exTable with default := none } 0x0B000001#32 = .noRoute := by decide
/-- full tie (same prefix, same metric): the earlier entry stays, even though its address is non-canonical and its
mask is spelt as a hostmask. -/
example : findBestRoute { routes := [exR1, exR2], default := none } 0x0A010203#32 = .route 0 exR1 := by decide
/-- a non-contiguous mask raises whatever the destination. -/
example : findBestRoute (addRoute exTable { addr := 0x0A020000#32, mask := 0xFF00FF00#32, nextHop := 0x02020202#32, metric := 0 })
    0x0B000001#32 = .raised := by decide
example : ValidMasks exTable.routes := by
  intro r hr
  simp only [exTable, List.mem_cons, List.not_mem_nil, or_false] at hr
  rcases hr with rfl | rfl | rfl | rfl <;> decide
example : Covers 0x0A010203#32 exR1 24 := by decide

end Primaite.Route
