/-
C12, round 4: the composite timing statement as ONE theorem (timed power cycle, timed reset, with exact tick numbers), and
the exact transitions of the direct API.  Builds on Props/C12.lean and Props/C12Deep.lean.
-/
import PrimaiteModel.Props.C12Deep
import PrimaiteModel.Model.Session
namespace Primaite.Power

/-! ### helpers -/

theorem ticksIn_append (a b : List Op) : ticksIn (a ++ b) = ticksIn a + ticksIn b := by
  induction a with
  | nil => simp [ticksIn]
  | cons op a ih =>
    cases op <;> simp [ticksIn, ih] <;> omega

theorem ticksIn_prefix {a' a : List Op} (h : a' <+: a) : ticksIn a' ≤ ticksIn a := by
  obtain ⟨t, rfl⟩ := h
  rw [ticksIn_append]; omega

theorem run_append (tbl : List Route) (n : Node) (a b : List Op) : run tbl n (a ++ b) = run tbl (run tbl n a) b := by
  induction a generalizing n with
  | nil => rfl
  | cons op a ih => exact ih _

theorem tickUp_dur (n : Node) : SameDur n (tickUp n) := by
  unfold tickUp; split
  · exact ⟨rfl, rfl⟩
  · split <;> exact ⟨rfl, rfl⟩

theorem tickDown_dur (n : Node) : SameDur n (tickDown n) := by
  unfold tickDown; split
  · exact ⟨rfl, rfl⟩
  · split
    · dsimp only
      split
      · exact powerOn_dur _
      · exact ⟨rfl, rfl⟩
    · exact ⟨rfl, rfl⟩

theorem tick_dur (n : Node) : SameDur n (tick n) := by
  have h1 := tickUp_dur n
  have h2 := tickDown_dur (tickUp n)
  have h3 := tickSoftware_same (tickDown (tickUp n))
  unfold tick
  exact ⟨h3.2.2.1.trans (h2.1.trans h1.1), h3.2.2.2.trans (h2.2.trans h1.2)⟩

/-- a tick of an OFF node changes nothing but the countdowns -/
theorem tick_off_frozen (n : Node) (h : n.st = .off) : Frozen n (tick n) := by
  have h1 : Frozen n (tickUp n) := by
    unfold tickUp
    split
    · exact ⟨rfl, rfl, rfl, rfl, rfl, rfl, rfl, rfl⟩
    · rw [if_neg (by rw [h]; decide)]; exact Frozen.refl n
  have h2 : Frozen (tickUp n) (tickDown (tickUp n)) := by
    unfold tickDown
    split
    · exact ⟨rfl, rfl, rfl, rfl, rfl, rfl, rfl, rfl⟩
    · rw [if_neg (by rw [h1.1, h]; decide)]; exact Frozen.refl _
  unfold tick
  rw [tickSoftware_notOn _ (by rw [h2.1, h1.1, h]; decide)]
  exact Frozen.trans h1 h2

/-- no start-up request among the operations -/
def NoStartup (ops : List Op) : Prop := ∀ op ∈ ops, ∀ sub, op ≠ .request "startup" sub

/-- an OFF node stays exactly as it is (countdowns aside) under anything but a start-up request -/
theorem off_run_frozen {tbl : List Route} (hg : allGuarded tbl = true) (n : Node) (h : n.st = .off) (ops : List Op)
    (hns : NoStartup ops) : Frozen n (run tbl n ops) := by
  induction ops generalizing n with
  | nil => exact Frozen.refl n
  | cons op ops ih =>
    have hstep : Frozen n (step tbl n op).1 := by
      cases op with
      | request key sub =>
        have hk : key ≠ "startup" := by
          intro hk; subst hk
          exact hns _ (List.mem_cons_self) sub rfl
        show Frozen n (request tbl n key sub).1
        rw [C12_refused_unless_startup hg n (by rw [h]; decide) key sub hk]
        exact Frozen.refl n
      | tick => exact tick_off_frozen n h
      | frameIn i => exact Frozen.refl n
      | frameOut i => exact Frozen.refl n
    have hrest : NoStartup ops := fun o ho => hns o (List.mem_cons_of_mem _ ho)
    exact Frozen.trans hstep (ih _ (by rw [hstep.1, h]) hrest)

/-! ### 1. the composite timing statement -/

/-- **one timed power cycle, start to finish.** A node that is ON (no reset pending) with `shut_down_duration = d_s > 0`
and `start_up_duration = d_u > 0` gets a `shutdown` request; then ANY operations `A` containing exactly `d_s` ticks
(requests, frames interleaved at will); one more tick; then ANY operations `B` that are not a `startup` request (any
number of ticks); a `startup` request; ANY operations `C` containing exactly `d_u` ticks; one more tick. Then:
the node is SHUTTING_DOWN after the request and after every prefix of `A`; OFF after the `(d_s+1)`-th tick and after
every prefix of `B`; BOOTING after the start-up request and after every prefix of `C`; ON after the `(d_u+1)`-th tick;
along the whole run `operating_state` was assigned exactly four times — SHUTTING_DOWN, OFF, BOOTING, ON, in this order —
and at the end every linked interface is enabled, no service is STOPPED and no application is CLOSED. -/
theorem C12_timed_power_cycle {tbl : List Route} (hg : allGuarded tbl = true) (n : Node) (hst : n.st = .on)
    (hr : n.resetting = false) (hds : 0 < n.downDur) (hdu : 0 < n.upDur)
    (h1 : (tbl.find? (fun r => r.key == "shutdown")).isSome = true)
    (h2 : (tbl.find? (fun r => r.key == "startup")).isSome = true) (sub sub' : Sub)
    (A B C : List Op) (hA : (ticksIn A : Int) = n.downDur) (hB : NoStartup B) (hC : (ticksIn C : Int) = n.upDur) :
    let n1 := (request tbl n "shutdown" sub).1
    let n3 := tick (run tbl n1 A)
    let n5 := (request tbl (run tbl n3 B) "startup" sub').1
    let n7 := tick (run tbl n5 C)
    (∀ A', A' <+: A → (run tbl n1 A').st = .shuttingDown) ∧
    (∀ B', B' <+: B → (run tbl n3 B').st = .off) ∧
    (∀ C', C' <+: C → (run tbl n5 C').st = .booting) ∧
    n7.st = .on ∧ n7.hist = [.on, .booting, .off, .shuttingDown] ++ n.hist ∧ AllUp n7 := by
  intro n1 n3 n5 n7
  -- the request
  have e1 : n1 = (powerOff n).1 := by
    show (request tbl n "shutdown" sub).1 = _
    rw [request_accepted hg n "shutdown" sub h1 (Or.inr ⟨by decide, hst⟩), handle_shutdown]
  obtain ⟨q1, q2, q3, q4, q5, q6, _⟩ := powerOff_timed n hst hds
  rw [← e1] at q1 q2 q3 q4 q5 q6
  -- SHUTTING_DOWN is held
  have hheldA : ∀ A', A' <+: A → Frozen n1 (run tbl n1 A') ∧ (run tbl n1 A').downCd = n1.downCd - ticksIn A' := by
    intro A' hp
    have : (ticksIn A' : Int) ≤ n1.downCd := by
      rw [q2, ← hA]; exact_mod_cast ticksIn_prefix hp
    exact C12_shutdown_held hg n1 q1 A' this
  obtain ⟨fA, cA⟩ := hheldA A (List.prefix_refl A)
  -- the tick that reaches OFF
  have hz := (tick_shutting_zero (run tbl n1 A) (by rw [fA.1, q1]) (by rw [cA, q2, hA]; omega)).1
    (by rw [fA.2.2.2.2.2.1, q4, hr])
  have s3 : n3.st = .off := hz.1
  have hist3 : n3.hist = .off :: .shuttingDown :: n.hist := by
    show (tick (run tbl n1 A)).hist = _
    rw [hz.2, fA.2.1, q3]
  have up3 : n3.upDur = n.upDur := by
    show (tick (run tbl n1 A)).upDur = _
    rw [(tick_dur _).1, fA.2.2.2.2.2.2.1, q5]
  -- OFF is held
  have hheldB : ∀ B', B' <+: B → Frozen n3 (run tbl n3 B') := by
    intro B' hp
    obtain ⟨t, rfl⟩ := hp
    exact off_run_frozen hg n3 s3 B' (fun o ho => hB o (List.mem_append_left _ ho))
  have fB := hheldB B (List.prefix_refl B)
  -- the start-up request
  have s4 : (run tbl n3 B).st = .off := by rw [fB.1, s3]
  have e5 : n5 = (powerOn (run tbl n3 B)).1 := by
    show (request tbl (run tbl n3 B) "startup" sub').1 = _
    rw [request_accepted hg _ "startup" sub' h2 (Or.inl ⟨rfl, s4⟩), handle_startup]
  have up4 : (run tbl n3 B).upDur = n.upDur := by rw [fB.2.2.2.2.2.2.1, up3]
  obtain ⟨p1, p2, _, p4, _, _, _⟩ := powerOn_from_off (run tbl n3 B) s4
  have hT : startTarget (run tbl n3 B) = .booting := by
    unfold startTarget; rw [if_neg (by rw [up4]; omega)]
  rw [hT] at p1 p2
  rw [← e5] at p1 p2 p4
  have cd5 : n5.upCd = n.upDur := by rw [p4 (by rw [up4]; exact hdu), up4]
  -- BOOTING is held
  have hheldC : ∀ C', C' <+: C → Frozen n5 (run tbl n5 C') ∧ (run tbl n5 C').upCd = n5.upCd - ticksIn C' := by
    intro C' hp
    have : (ticksIn C' : Int) ≤ n5.upCd := by
      rw [cd5, ← hC]; exact_mod_cast ticksIn_prefix hp
    exact C12_boot_held hg n5 p1 C' this
  obtain ⟨fC, cC⟩ := hheldC C (List.prefix_refl C)
  -- the tick that reaches ON
  have hon := tick_booting_zero (run tbl n5 C) (by rw [fC.1, p1]) (by rw [cC, cd5, hC]; omega)
  have hist7 : n7.hist = [.on, .booting, .off, .shuttingDown] ++ n.hist := by
    show (tick (run tbl n5 C)).hist = _
    rw [hon.2, fC.2.1, p2, fB.2.1, hist3]; rfl
  refine ⟨fun A' hp => by rw [(hheldA A' hp).1.1, q1], fun B' hp => by rw [(hheldB B' hp).1, s3],
    fun C' hp => by rw [(hheldC C' hp).1.1, p1], hon.1, hist7, ?_⟩
  exact tick_allUp (run tbl n5 C) hon.1 (by rw [hon.2]; intro h; exact absurd (congrArg List.length h) (by simp))

/-- **one timed reset, start to finish** = the same with the automatic start: after a `reset` request, any operations
`A` with exactly `d_s` ticks and one more tick the node is BOOTING (OFF is assigned and left within that tick), after
any operations `C` with exactly `d_u` ticks and one more tick it is ON; four assignments SHUTTING_DOWN, OFF, BOOTING, ON;
the pending-reset flag is set from the request until the tick that passes OFF and clear afterwards. -/
theorem C12_timed_reset {tbl : List Route} (hg : allGuarded tbl = true) (n : Node) (hst : n.st = .on)
    (hds : 0 < n.downDur) (hdu : 0 < n.upDur)
    (h1 : (tbl.find? (fun r => r.key == "reset")).isSome = true) (sub : Sub)
    (A C : List Op) (hA : (ticksIn A : Int) = n.downDur) (hC : (ticksIn C : Int) = n.upDur) :
    let n1 := (request tbl n "reset" sub).1
    let n3 := tick (run tbl n1 A)
    let n7 := tick (run tbl n3 C)
    (∀ A', A' <+: A → (run tbl n1 A').st = .shuttingDown ∧ (run tbl n1 A').resetting = true) ∧
    (∀ C', C' <+: C → (run tbl n3 C').st = .booting ∧ (run tbl n3 C').resetting = false) ∧
    n7.st = .on ∧ n7.hist = [.on, .booting, .off, .shuttingDown] ++ n.hist ∧ n7.resetting = false ∧ AllUp n7 := by
  intro n1 n3 n7
  have e1 : n1 = (powerOff { n with resetting := true }).1 := by
    show (request tbl n "reset" sub).1 = _
    rw [request_accepted hg n "reset" sub h1 (Or.inr ⟨by decide, hst⟩), handle_reset]; rfl
  obtain ⟨q1, q2, q3, q4, q5, q6, _⟩ := powerOff_timed { n with resetting := true } hst hds
  rw [← e1] at q1 q2 q3 q4 q5 q6
  have q2' : n1.downCd = n.downDur := q2
  have q3' : n1.hist = .shuttingDown :: n.hist := q3
  have q4' : n1.resetting = true := q4
  have q5' : n1.upDur = n.upDur := q5
  have hheldA : ∀ A', A' <+: A → Frozen n1 (run tbl n1 A') ∧ (run tbl n1 A').downCd = n1.downCd - ticksIn A' := by
    intro A' hp
    have : (ticksIn A' : Int) ≤ n1.downCd := by
      rw [q2', ← hA]; exact_mod_cast ticksIn_prefix hp
    exact C12_shutdown_held hg n1 q1 A' this
  obtain ⟨fA, cA⟩ := hheldA A (List.prefix_refl A)
  have up2 : (run tbl n1 A).upDur = n.upDur := by rw [fA.2.2.2.2.2.2.1, q5']
  have hz := (tick_shutting_zero (run tbl n1 A) (by rw [fA.1, q1]) (by rw [cA, q2', hA]; omega)).2
    (by rw [fA.2.2.2.2.2.1, q4'])
  have hT : startTarget (run tbl n1 A) = .booting := by
    unfold startTarget; rw [if_neg (by rw [up2]; omega)]
  rw [hT] at hz
  obtain ⟨z1, z2, z3, z4⟩ := hz
  have s3 : n3.st = .booting := z1
  have hist3 : n3.hist = .booting :: .off :: .shuttingDown :: n.hist := by
    show (tick (run tbl n1 A)).hist = _
    rw [z2, fA.2.1, q3']
  have cd3 : n3.upCd = n.upDur := by
    show (tick (run tbl n1 A)).upCd = _
    rw [z4 (by rw [up2]; exact hdu), up2]
  have hheldC : ∀ C', C' <+: C → Frozen n3 (run tbl n3 C') ∧ (run tbl n3 C').upCd = n3.upCd - ticksIn C' := by
    intro C' hp
    have : (ticksIn C' : Int) ≤ n3.upCd := by
      rw [cd3, ← hC]; exact_mod_cast ticksIn_prefix hp
    exact C12_boot_held hg n3 s3 C' this
  obtain ⟨fC, cC⟩ := hheldC C (List.prefix_refl C)
  have hon := tick_booting_zero (run tbl n3 C) (by rw [fC.1, s3]) (by rw [cC, cd3, hC]; omega)
  have hist7 : n7.hist = [.on, .booting, .off, .shuttingDown] ++ n.hist := by
    show (tick (run tbl n3 C)).hist = _
    rw [hon.2, fC.2.1, hist3]; rfl
  have hall : AllUp n7 :=
    tick_allUp (run tbl n3 C) hon.1 (by rw [hon.2]; intro h; exact absurd (congrArg List.length h) (by simp))
  -- the flag after the last tick: a tick of a BOOTING node never sets it
  have rs6 : (run tbl n3 C).resetting = false := by rw [fC.2.2.2.2.2.1]; exact z3
  have rs7 : n7.resetting = false := by
    show (tick (run tbl n3 C)).resetting = false
    have hc' : ¬ (run tbl n3 C).upCd > 0 := by rw [cC, cd3, hC]; omega
    have hb : (run tbl n3 C).st = .booting := by rw [fC.1, s3]
    have hup : tickUp (run tbl n3 C) = startUpActions (enableNics (setSt (run tbl n3 C) .on)) := by
      unfold tickUp; rw [if_neg hc', if_pos hb]
    unfold tick
    rw [hup]
    have hd : (tickDown (startUpActions (enableNics (setSt (run tbl n3 C) .on)))).resetting = false ∧
        True := by
      unfold tickDown
      split
      · exact ⟨rs6, trivial⟩
      · rw [if_neg (by show PState.on ≠ .shuttingDown; decide)]; exact ⟨rs6, trivial⟩
    unfold tickSoftware
    split
    · exact hd.1
    · exact hd.1
  refine ⟨fun A' hp => ⟨by rw [(hheldA A' hp).1.1, q1], by rw [(hheldA A' hp).1.2.2.2.2.2.1, q4']⟩,
    fun C' hp => ⟨by rw [(hheldC C' hp).1.1, s3], by rw [(hheldC C' hp).1.2.2.2.2.2.1]; exact z3⟩,
    hon.1, hist7, rs7, hall⟩

/-! #### the same with nothing but ticks: the exact tick numbers -/

/-- the power state after each operation of a sequence -/
def states (tbl : List Route) (n : Node) : List Op → List PState
  | [] => []
  | op :: ops => (step tbl n op).1.st :: states tbl (step tbl n op).1 ops

theorem states_append (tbl : List Route) (n : Node) (a b : List Op) :
    states tbl n (a ++ b) = states tbl n a ++ states tbl (run tbl n a) b := by
  induction a generalizing n with
  | nil => rfl
  | cons op a ih => simp only [List.cons_append, states, run, ih]

/-- if the state is `s` after every non-empty prefix, the list of states is `s` repeated -/
theorem states_of_prefixes (tbl : List Route) (n : Node) (ops : List Op) (s : PState)
    (h : ∀ a, a <+: ops → a ≠ [] → (run tbl n a).st = s) : states tbl n ops = List.replicate ops.length s := by
  induction ops generalizing n with
  | nil => rfl
  | cons op ops ih =>
    have h0 : (step tbl n op).1.st = s := h [op] ⟨ops, rfl⟩ (by simp)
    have hrest : ∀ a, a <+: ops → a ≠ [] → (run tbl (step tbl n op).1 a).st = s := by
      intro a ⟨t, ht⟩ _
      exact h (op :: a) ⟨t, by rw [List.cons_append, ht]⟩ (by simp)
    simp only [states, List.length_cons, List.replicate_succ, h0, ih _ hrest]

theorem ticksIn_replicate (k : Nat) : ticksIn (List.replicate k Op.tick) = k := by
  induction k with
  | zero => rfl
  | succ k ih => simp [List.replicate_succ, ticksIn, ih]

theorem noStartup_replicate (k : Nat) : NoStartup (List.replicate k Op.tick) := by
  intro op hop sub h
  rw [List.mem_replicate] at hop
  rw [hop.2] at h
  cases h

theorem run_snoc_tick (tbl : List Route) (n : Node) (ops : List Op) :
    run tbl n (ops ++ [Op.tick]) = tick (run tbl n ops) := by
  rw [run_append]; rfl

/-- **the exact tick numbers.** Shut down at some tick with `shut_down_duration = d_s ≥ 1`, left alone for `d_s + 1 + w`
ticks, started, left alone for `d_u + 1` ticks (`start_up_duration = d_u ≥ 1`): the power state after the request and
after each tick is SHUTTING_DOWN `d_s + 1` times (the request and `d_s` ticks), OFF `w + 1` times (tick `d_s + 1` and the
`w` waiting ticks), BOOTING `d_u + 1` times (the start-up request and `d_u` ticks), then ON (tick `d_u + 1`). -/
theorem C12_timed_power_cycle_ticks {tbl : List Route} (hg : allGuarded tbl = true) (n : Node) (hst : n.st = .on)
    (hr : n.resetting = false) (ds du w : Nat) (hds : n.downDur = (ds : Int) + 1) (hdu : n.upDur = (du : Int) + 1)
    (h1 : (tbl.find? (fun r => r.key == "shutdown")).isSome = true)
    (h2 : (tbl.find? (fun r => r.key == "startup")).isSome = true) (sub sub' : Sub) :
    states tbl n ([Op.request "shutdown" sub] ++ List.replicate (ds + 1) Op.tick ++ [Op.tick] ++ List.replicate w Op.tick ++
      [Op.request "startup" sub'] ++ List.replicate (du + 1) Op.tick ++ [Op.tick]) =
    List.replicate (ds + 2) .shuttingDown ++ List.replicate (w + 1) .off ++ List.replicate (du + 2) .booting ++ [.on] := by
  have hA : (ticksIn (List.replicate (ds + 1) Op.tick) : Int) = n.downDur := by rw [ticksIn_replicate, hds]; omega
  have hC : (ticksIn (List.replicate (du + 1) Op.tick) : Int) = n.upDur := by rw [ticksIn_replicate, hdu]; omega
  obtain ⟨cA, cB, cC, cOn, _, _⟩ := C12_timed_power_cycle hg n hst hr (by omega) (by omega) h1 h2 sub sub'
    (List.replicate (ds + 1) Op.tick) (List.replicate w Op.tick) (List.replicate (du + 1) Op.tick) hA (noStartup_replicate w) hC
  simp only [states_append, run_append]
  have r1 : run tbl n [Op.request "shutdown" sub] = (request tbl n "shutdown" sub).1 := rfl
  have e1 : states tbl n [Op.request "shutdown" sub] = [.shuttingDown] := by
    simp only [states]; congr 1; exact cA [] (List.nil_prefix)
  have e2 : states tbl (request tbl n "shutdown" sub).1 (List.replicate (ds + 1) Op.tick) =
      List.replicate (ds + 1) .shuttingDown := by
    rw [states_of_prefixes tbl _ _ .shuttingDown (fun a ha _ => cA a ha), List.length_replicate]
  have e3 : states tbl (run tbl (request tbl n "shutdown" sub).1 (List.replicate (ds + 1) Op.tick)) [Op.tick] = [.off] := by
    simp only [states]; congr 1; exact cB [] (List.nil_prefix)
  have r3 : run tbl (run tbl (request tbl n "shutdown" sub).1 (List.replicate (ds + 1) Op.tick)) [Op.tick] =
      tick (run tbl (request tbl n "shutdown" sub).1 (List.replicate (ds + 1) Op.tick)) := rfl
  have e4 : states tbl (tick (run tbl (request tbl n "shutdown" sub).1 (List.replicate (ds + 1) Op.tick))) (List.replicate w Op.tick) =
      List.replicate w .off := by
    rw [states_of_prefixes tbl _ _ .off (fun a ha _ => cB a ha), List.length_replicate]
  have e5 : states tbl (run tbl (tick (run tbl (request tbl n "shutdown" sub).1 (List.replicate (ds + 1) Op.tick)))
      (List.replicate w Op.tick)) [Op.request "startup" sub'] = [.booting] := by
    simp only [states]; congr 1; exact cC [] (List.nil_prefix)
  have r5 : run tbl (run tbl (tick (run tbl (request tbl n "shutdown" sub).1 (List.replicate (ds + 1) Op.tick)))
      (List.replicate w Op.tick)) [Op.request "startup" sub'] =
      (request tbl (run tbl (tick (run tbl (request tbl n "shutdown" sub).1 (List.replicate (ds + 1) Op.tick)))
        (List.replicate w Op.tick)) "startup" sub').1 := rfl
  rw [r1, e1, e2, r3, e3, e4, r5, e5]
  rw [states_of_prefixes tbl _ _ .booting (fun a ha _ => cC a ha), List.length_replicate]
  have e7 : states tbl (run tbl (request tbl (run tbl (tick (run tbl (request tbl n "shutdown" sub).1
      (List.replicate (ds + 1) Op.tick))) (List.replicate w Op.tick)) "startup" sub').1 (List.replicate (du + 1) Op.tick))
      [Op.tick] = [.on] := by
    simp only [states]; congr 1
  rw [e7]
  simp only [List.replicate_succ, List.cons_append, List.nil_append, List.append_assoc]

/-- non-vacuity (durations 3 / 2 as in the build note's example; two waiting ticks) -/
example : states baseRoutes exOn ([shutdownOp] ++ List.replicate 3 Op.tick ++ [Op.tick] ++ List.replicate 2 Op.tick ++
      [startupOp] ++ List.replicate 2 Op.tick ++ [Op.tick]) =
    [.shuttingDown, .shuttingDown, .shuttingDown, .shuttingDown, .off, .off, .off, .booting, .booting, .booting, .on] := by
  decide

/-- the same for `reset`: SHUTTING_DOWN `d_s + 1` times, then BOOTING `d_u + 1` times (OFF is passed inside tick
`d_s + 1` and never seen between two operations), then ON -/
theorem C12_timed_reset_ticks {tbl : List Route} (hg : allGuarded tbl = true) (n : Node) (hst : n.st = .on)
    (ds du : Nat) (hds : n.downDur = (ds : Int) + 1) (hdu : n.upDur = (du : Int) + 1)
    (h1 : (tbl.find? (fun r => r.key == "reset")).isSome = true) (sub : Sub) :
    states tbl n ([Op.request "reset" sub] ++ List.replicate (ds + 1) Op.tick ++ [Op.tick] ++
      List.replicate (du + 1) Op.tick ++ [Op.tick]) =
    List.replicate (ds + 2) .shuttingDown ++ List.replicate (du + 2) .booting ++ [.on] := by
  have hA : (ticksIn (List.replicate (ds + 1) Op.tick) : Int) = n.downDur := by rw [ticksIn_replicate, hds]; omega
  have hC : (ticksIn (List.replicate (du + 1) Op.tick) : Int) = n.upDur := by rw [ticksIn_replicate, hdu]; omega
  obtain ⟨cA, cC, cOn, _, _, _⟩ := C12_timed_reset hg n hst (by omega) (by omega) h1 sub
    (List.replicate (ds + 1) Op.tick) (List.replicate (du + 1) Op.tick) hA hC
  simp only [states_append, run_append]
  have r1 : run tbl n [Op.request "reset" sub] = (request tbl n "reset" sub).1 := rfl
  have e1 : states tbl n [Op.request "reset" sub] = [.shuttingDown] := by
    simp only [states]; congr 1; exact (cA [] (List.nil_prefix)).1
  have e2 : states tbl (request tbl n "reset" sub).1 (List.replicate (ds + 1) Op.tick) =
      List.replicate (ds + 1) .shuttingDown := by
    rw [states_of_prefixes tbl _ _ .shuttingDown (fun a ha _ => (cA a ha).1), List.length_replicate]
  have e3 : states tbl (run tbl (request tbl n "reset" sub).1 (List.replicate (ds + 1) Op.tick)) [Op.tick] = [.booting] := by
    simp only [states]; congr 1; exact (cC [] (List.nil_prefix)).1
  have r3 : run tbl (run tbl (request tbl n "reset" sub).1 (List.replicate (ds + 1) Op.tick)) [Op.tick] =
      tick (run tbl (request tbl n "reset" sub).1 (List.replicate (ds + 1) Op.tick)) := rfl
  rw [r1, e1, e2, r3, e3]
  rw [states_of_prefixes tbl _ _ .booting (fun a ha _ => (cC a ha).1), List.length_replicate]
  have e7 : states tbl (run tbl (tick (run tbl (request tbl n "reset" sub).1 (List.replicate (ds + 1) Op.tick)))
      (List.replicate (du + 1) Op.tick)) [Op.tick] = [.on] := by
    simp only [states]; congr 1
  rw [e7]
  simp only [List.replicate_succ, List.cons_append, List.nil_append, List.append_assoc]

example : states baseRoutes exOn ([resetOp] ++ List.replicate 3 Op.tick ++ [Op.tick] ++ List.replicate 2 Op.tick ++ [Op.tick]) =
    [.shuttingDown, .shuttingDown, .shuttingDown, .shuttingDown, .booting, .booting, .booting, .on] := by decide

/-! ### 4. the direct API: exactly which transitions `power_on()` / `power_off()` / `reset()` make from each state -/

/-- **the transition table of the three power methods, called directly from ANY state.**
* `power_on()`: `start_up_duration <= 0` → ON from every state (ON is assigned even if the node is ON already);
  otherwise OFF → BOOTING and nothing from any other state.
* `power_off()`: `shut_down_duration <= 0` → OFF from every state, and on to the start target (BOOTING, or ON for
  `start_up_duration <= 0`) if a reset is pending; otherwise ON → SHUTTING_DOWN and nothing from any other state.
* `reset()`: sets the flag in every state (its test `self.operating_state.ON` is always truthy) and calls `power_off()`:
  `shut_down_duration <= 0` → OFF then the start target from every state, flag cleared; otherwise ON → SHUTTING_DOWN
  with the flag, and from any other state NOTHING but the flag, which stays set. -/
theorem C12_api_transition_table (n : Node) :
    (powerOn n).1.st = (if n.upDur ≤ 0 then .on else if n.st = .off then .booting else n.st) ∧
    (powerOff n).1.st = (if n.downDur ≤ 0 then (if n.resetting then startTarget n else .off)
                         else if n.st = .on then .shuttingDown else n.st) ∧
    (reset n).1.st = (if n.downDur ≤ 0 then startTarget n else if n.st = .on then .shuttingDown else n.st) ∧
    (reset n).1.resetting = (if n.downDur ≤ 0 then false else true) := by
  refine ⟨?_, ?_, ?_, ?_⟩
  · unfold powerOn; split
    · rfl
    · split <;> rfl
  · by_cases hd : n.downDur ≤ 0
    · rw [if_pos hd]
      cases hr : n.resetting
      · exact ((powerOff_instant n hd).2.1 hr).1
      · exact ((powerOff_instant n hd).2.2 hr).1
    · rw [if_neg hd]; unfold powerOff; rw [if_neg hd]; split <;> rfl
  · by_cases hd : n.downDur ≤ 0
    · rw [if_pos hd]
      exact ((powerOff_instant { n with resetting := true } hd).2.2 rfl).1
    · rw [if_neg hd]; unfold reset powerOff
      rw [if_neg (show ¬ ({ n with resetting := true } : Node).downDur ≤ 0 from hd)]
      split <;> rfl
  · by_cases hd : n.downDur ≤ 0
    · rw [if_pos hd]
      exact ((powerOff_instant { n with resetting := true } hd).2.2 rfl).2.2.1
    · rw [if_neg hd]; unfold reset powerOff
      rw [if_neg (show ¬ ({ n with resetting := true } : Node).downDur ≤ 0 from hd)]
      split <;> rfl

/-- the three power calls of the API -/
def ApiCall.isPower : ApiCall → Bool
  | .powerOn => true | .powerOff => true | .reset => true | _ => false

/-- the condition under which a direct call stays inside the state machine: `power_on()` is harmless unless it is
instant and the node is ON or SHUTTING_DOWN; `power_off()` / `reset()` unless instant and the node is OFF or BOOTING -/
def apiOk (n : Node) : ApiCall → Bool
  | .powerOn => decide (0 < n.upDur) || n.st == .off || n.st == .booting
  | .powerOff => decide (0 < n.downDur) || n.st == .on || n.st == .shuttingDown
  | .reset => decide (0 < n.downDur) || n.st == .on || n.st == .shuttingDown
  | _ => true

theorem powerOn_histOk_of_ok {s0 : PState} (n : Node) (h : HistOk s0 n) (hok : apiOk n .powerOn = true) :
    HistOk s0 (powerOn n).1 := by
  simp only [apiOk, Bool.or_eq_true, decide_eq_true_eq, beq_iff_eq] at hok
  by_cases hoff : n.st = .off
  · exact powerOn_histOk n h hoff
  · unfold powerOn
    by_cases hu : n.upDur ≤ 0
    · rw [if_pos hu]
      have hb : n.st = .booting := by
        rcases hok with (hu' | ho) | hb
        · omega
        · exact absurd ho hoff
        · exact hb
      have : HistOk s0 (setSt n .on) := setSt_histOk .on h (by rw [hb]; rfl)
      exact histOk_of_same ⟨rfl, rfl, rfl, rfl⟩ this
    · rw [if_neg hu, if_neg hoff]; exact h

theorem powerOff_histOk_of_ok {s0 : PState} (n : Node) (h : HistOk s0 n) (hok : apiOk n .powerOff = true) :
    HistOk s0 (powerOff n).1 := by
  simp only [apiOk, Bool.or_eq_true, decide_eq_true_eq, beq_iff_eq] at hok
  by_cases hon : n.st = .on
  · exact powerOff_histOk n h hon
  · unfold powerOff
    by_cases hd : n.downDur ≤ 0
    · rw [if_pos hd]
      have hsd : n.st = .shuttingDown := by
        rcases hok with (hd' | ho) | hs
        · omega
        · exact absurd ho hon
        · exact hs
      have h1 : HistOk s0 (setSt (shutDownActions (disableNics n)) .off) :=
        setSt_histOk _ (histOk_of_same ⟨rfl, rfl, rfl, rfl⟩ h) (by
          show edge n.upDur n.downDur n.st .off = true
          rw [hsd]; rfl)
      dsimp only
      split
      · exact powerOn_histOk _ (histOk_of_same ⟨rfl, rfl, rfl, rfl⟩ h1) rfl
      · exact h1
    · rw [if_neg hd, if_neg hon]; exact h

theorem modifyNic_power (n : Node) (i : Nat) (f : Nic → Nic) : SamePower n (modifyNic n i f) := by
  unfold modifyNic; split <;> exact ⟨rfl, rfl, rfl, rfl⟩
theorem modifySvc_power (n : Node) (i : Nat) (f : Service → Service) : SamePower n (modifySvc n i f) := by
  unfold modifySvc; split <;> exact ⟨rfl, rfl, rfl, rfl⟩
theorem modifyApp_power (n : Node) (i : Nat) (f : App → App) : SamePower n (modifyApp n i f) := by
  unfold modifyApp; split <;> exact ⟨rfl, rfl, rfl, rfl⟩

/-- **direct-API legal moves, exactly.** A direct call of `power_on()` / `power_off()` / `reset()` (and any other API
call, which assigns nothing) keeps every assignment on an edge of ON→SHUTTING_DOWN→OFF→BOOTING→ON **iff** `apiOk`:
(→) under `apiOk` the history stays legal; -/
theorem C12_api_legal_moves {s0 : PState} (n : Node) (c : ApiCall) (h : HistOk s0 n) (hok : apiOk n c = true) :
    HistOk s0 (apiCall n c) := by
  cases c with
  | powerOn => exact powerOn_histOk_of_ok n h hok
  | powerOff => exact powerOff_histOk_of_ok n h hok
  | reset =>
    exact powerOff_histOk_of_ok { n with resetting := true } (histOk_of_same ⟨rfl, rfl, rfl, rfl⟩ h) hok
  | nicEnable i => exact histOk_of_same (modifyNic_power _ _ _) h
  | nicDisable i => exact histOk_of_same (modifyNic_power _ _ _) h
  | connectLink i => exact histOk_of_same (modifyNic_power _ _ _) h
  | svc i v => exact histOk_of_same (modifySvc_power _ _ _) h
  | appRun i => exact histOk_of_same (modifyApp_power _ _ _) h
  | appClose i => exact histOk_of_same (modifyApp_power _ _ _) h
  | appInstall i => exact histOk_of_same (modifyApp_power _ _ _) h

/-- (←) and when `apiOk` fails the call's first assignment is NOT an edge: `power_on()` with `start_up_duration <= 0`
assigns ON to a node that is ON (no move) or SHUTTING_DOWN (a jump); `power_off()` / `reset()` with
`shut_down_duration <= 0` assign OFF to a node that is OFF (no move) or BOOTING (a jump). These are the only ways the
API leaves the state machine. -/
theorem C12_api_illegal_moves_exact (n : Node) (c : ApiCall) (hbad : apiOk n c = false) :
    ∃ x later, (apiCall n c).hist = later ++ x :: n.hist ∧ edge n.upDur n.downDur n.st x = false ∧
      ((c = .powerOn ∧ x = .on ∧ n.upDur ≤ 0 ∧ (n.st = .on ∨ n.st = .shuttingDown)) ∨
       ((c = .powerOff ∨ c = .reset) ∧ x = .off ∧ n.downDur ≤ 0 ∧ (n.st = .off ∨ n.st = .booting))) := by
  cases c with
  | powerOn =>
    simp only [apiOk, Bool.or_eq_false_iff, decide_eq_false_iff_not, beq_eq_false_iff_ne] at hbad
    obtain ⟨⟨hu, hoff⟩, hb⟩ := hbad
    have hu' : n.upDur ≤ 0 := by omega
    refine ⟨.on, [], ?_, ?_, Or.inl ⟨rfl, rfl, hu', ?_⟩⟩
    · show (powerOn n).1.hist = _
      rw [powerOn_instant n hu']; rfl
    · cases hs : n.st <;> simp_all [edge]
    · cases hs : n.st <;> simp_all
  | powerOff =>
    simp only [apiOk, Bool.or_eq_false_iff, decide_eq_false_iff_not, beq_eq_false_iff_ne] at hbad
    obtain ⟨⟨hd, hon⟩, hsd⟩ := hbad
    have hd' : n.downDur ≤ 0 := by omega
    have hx : edge n.upDur n.downDur n.st .off = false := by cases hs : n.st <;> simp_all [edge]
    have hst : n.st = .off ∨ n.st = .booting := by cases hs : n.st <;> simp_all
    cases hr : n.resetting
    · exact ⟨.off, [], ((powerOff_instant n hd').2.1 hr).2, hx, Or.inr ⟨Or.inl rfl, rfl, hd', hst⟩⟩
    · exact ⟨.off, [startTarget n], ((powerOff_instant n hd').2.2 hr).2.1, hx, Or.inr ⟨Or.inl rfl, rfl, hd', hst⟩⟩
  | reset =>
    simp only [apiOk, Bool.or_eq_false_iff, decide_eq_false_iff_not, beq_eq_false_iff_ne] at hbad
    obtain ⟨⟨hd, hon⟩, hsd⟩ := hbad
    have hd' : n.downDur ≤ 0 := by omega
    have hx : edge n.upDur n.downDur n.st .off = false := by cases hs : n.st <;> simp_all [edge]
    have hst : n.st = .off ∨ n.st = .booting := by cases hs : n.st <;> simp_all
    exact ⟨.off, [startTarget n], ((powerOff_instant { n with resetting := true } hd').2.2 rfl).2.1, hx,
      Or.inr ⟨Or.inr rfl, rfl, hd', hst⟩⟩
  | nicEnable i => cases hbad
  | nicDisable i => cases hbad
  | connectLink i => cases hbad
  | svc i v => cases hbad
  | appRun i => cases hbad
  | appClose i => cases hbad
  | appInstall i => cases hbad

/-- so: any mix of requests, ticks, frames and direct API calls each of which satisfies `apiOk` when made keeps every
assignment legal — `C12_legal_moves` extended to the API -/
def XOp.apiOkAt (n : Node) : XOp → Bool
  | .api c => apiOk n c
  | .setupEpisode => false
  | _ => true

def xrunOk (tbl : List Route) : Node → List XOp → Bool
  | _, [] => true
  | n, o :: os => XOp.apiOkAt n o && xrunOk tbl (xstep tbl n o) os

theorem C12_legal_moves_with_api {tbl : List Route} (hg : allGuarded tbl = true) {s0 : PState} (n : Node) (ops : List XOp)
    (h : HistOk s0 n) (hdur : ∀ o ∈ ops, ∀ u d, o ≠ .setDur u d) (hok : xrunOk tbl n ops = true) :
    HistOk s0 (xrun tbl n ops) := by
  induction ops generalizing n with
  | nil => exact h
  | cons o os ih =>
    simp only [xrunOk, Bool.and_eq_true] at hok
    apply ih _ _ (fun o' ho' => hdur o' (List.mem_cons_of_mem _ ho')) hok.2
    cases o with
    | op o => exact step_histOk hg n o h
    | preTick => exact h
    | setDur u d => exact absurd rfl (hdur _ (List.mem_cons_self) u d)
    | api c => exact C12_api_legal_moves n c h hok.1
    | setupEpisode => cases hok.1

example : apiOk exOn .powerOff = true ∧ apiOk exOff .powerOn = true ∧ apiOk exInstant .powerOn = false ∧
    apiOk { exInstant with st := .booting } .reset = false := by decide

/-! ### the `startup` route: accepted iff OFF -/

/-- **`startup` is accepted iff the node is OFF** (under a guarded table that has the route): it answers `success` exactly
from OFF; from ON, BOOTING and SHUTTING_DOWN it answers `failure` and changes nothing — so it can neither cancel a
shutdown in progress nor cut a boot short, whatever the durations. With `C12_gen_validators` (the validator's meaning)
and `C12_gen_routes_guarded` / `C12_gen_schema_routes_guarded` (which validator sits on which route) this is a statement
about the code of every node class. -/
theorem C12_startup_accepted_iff_off {tbl : List Route} (hg : allGuarded tbl = true)
    (hin : (tbl.find? (fun r => r.key == "startup")).isSome = true) (n : Node) (sub : Sub) :
    ((request tbl n "startup" sub).2 = .success ↔ n.st = .off) ∧
    (n.st ≠ .off → request tbl n "startup" sub = (n, .failure)) := by
  constructor
  · constructor
    · intro hs
      by_cases hoff : n.st = .off
      · exact hoff
      · rw [C12_startup_only_from_off hg n hoff sub, hin] at hs
        cases hs
    · intro hoff
      exact (C12_boot_timing hg n hoff sub hin).1
  · intro hoff
    rw [C12_startup_only_from_off hg n hoff sub, hin]; rfl

/-- for the regenerated table of every node class -/
theorem C12_startup_accepted_iff_off_all_classes (cls : String) (tbl : List Route)
    (hc : (cls, tbl) ∈ Gen.Power.classTables) (n : Node) (sub : Sub) :
    (request tbl n "startup" sub).2 = .success ↔ n.st = .off := by
  have hg := C12_all_classes_guarded cls tbl hc
  have hw := List.all_eq_true.mp C12_gen_routes_wellformed (cls, tbl) hc
  have hin : (tbl.find? (fun r => r.key == "startup")).isSome = true := by
    simp only [Bool.and_eq_true, List.all_eq_true] at hw
    have := hw.1 "startup" (by simp)
    rw [List.find?_isSome]
    simp only [List.contains_iff_mem, List.mem_map] at this
    obtain ⟨r, hr, hk⟩ := this
    exact ⟨r, hr, by simp [hk]⟩
  exact (C12_startup_accepted_iff_off hg hin n sub).1

example : (request baseRoutes { exOn with st := .shuttingDown, upDur := 0 } "startup" (.opaque .success)).2 = .failure := by decide

/-! ### 2. "it neither processes … traffic": no frame gets past the interface of a node that is not ON -/

/-- the layers a frame climbs: the wire (a `Link` or the `AirSpace`), an interface's `receive_frame`, the node's
`receive_frame` (and its helpers), the session manager, the software manager, a service's / application's `receive` -/
inductive Layer | wire | iface | node | sess | swmgr | software
deriving DecidableEq, Repr

def layerEdge : String → Option (Layer × Layer)
  | "wire>iface" => some (.wire, .iface)
  | "iface>node" => some (.iface, .node)
  | "node>sess" => some (.node, .sess)
  | "sess>swmgr" => some (.sess, .swmgr)
  | "swmgr>software" => some (.swmgr, .software)
  | _ => none

/-- the regenerated hand-over calls as edges between layers, with "is under the caller's `if self.enabled`" -/
def entryEdges : List (Layer × Layer × Bool) :=
  Gen.Power.frameEntrySites.filterMap (fun e => (layerEdge e.2.1).map (fun p => (p.1, p.2, e.2.2.2)))

/-- layers reachable from `from_` along the given edges (6 layers: 6 rounds suffice) -/
def reachLayers (edges : List (Layer × Layer)) : Nat → List Layer → List Layer
  | 0, acc => acc
  | k + 1, acc => reachLayers edges k (acc ++ (edges.filter (fun e => acc.contains e.1 && !acc.contains e.2)).map (·.2))

/-- **every frame entry point of every node class is behind an enabled-interface test.** Over the regenerated table of
ALL calls of `receive_frame(` / `receive_payload_from_session_manager(` / software `.receive(` under `simulator/` and
`game/` (the extractor refuses a call it cannot classify): (a) every call is a hand-over to the next layer up or a call
of the base-class method; (b) every hand-over from an interface to its node — `NIC`, `RouterInterface`, `SwitchPort`,
the wireless router's `WirelessAccessPoint`, and the wireless base class — sits under `if self.enabled:`; (c) a layer
above the interface is entered only from the layer right below it; hence (d) with the guarded hand-overs removed,
nothing above the interface layer is reachable from the wire: a frame reaches a node's `receive_frame`, its session
manager, its software manager or any `receive` of its software ONLY through an interface that is enabled. -/
theorem C12_gen_frame_entry_points :
    Gen.Power.frameEntrySites.all (fun e => e.2.1 == "super" || (layerEdge e.2.1).isSome) = true ∧
    entryEdges.all (fun e => !(e.1 == .iface && e.2.1 == .node) || e.2.2) = true ∧
    entryEdges.all (fun e => (e.2.1 == .iface && e.1 == .wire) || (e.2.1 == .node && e.1 == .iface) ||
      (e.2.1 == .sess && e.1 == .node) || (e.2.1 == .swmgr && e.1 == .sess) || (e.2.1 == .software && e.1 == .swmgr)) = true ∧
    (reachLayers ((entryEdges.filter (fun e => !e.2.2)).map (fun e => (e.1, e.2.1))) 6 [.wire]).all
      (fun l => l == .wire || l == .iface) = true ∧
    [Layer.iface, .node, .sess, .swmgr, .software].all
      (fun l => (reachLayers (entryEdges.map (fun e => (e.1, e.2.1))) 6 [.wire]).contains l) = true ∧
    ((Gen.Power.frameEntrySites.filter (fun e => e.2.1 == "iface>node")).map (·.1)) =
      ["WirelessNetworkInterface.receive_frame@airspace.py", "NIC.receive_frame@host_node.py",
       "RouterInterface.receive_frame@router.py", "SwitchPort.receive_frame@switch.py",
       "WirelessAccessPoint.receive_frame@wireless_router.py"] := by decide

/-- how far up a frame handed to interface `i` of node `n` can get: past the interface only if the interface passes it
(what the node, the session manager and the software then do with it is C06/C08/C13's) -/
def frameClimbs (n : Node) (i : Nat) : List Layer :=
  if nicPasses n i then [.iface, .node, .sess, .swmgr, .software] else [.iface]

/-- **a node that is not ON processes no traffic.** For any route table, any start satisfying the interface invariant
(every loaded node does: `C12_load_inv`) and any sequence of requests, ticks, frames, pre-timesteps, duration changes,
episode set-ups and direct API calls: while the node is not ON, a frame arriving at any of its interfaces stops at the
interface — the node's `receive_frame`, its session manager, its software manager and the `receive` of its services and
applications are not reached (`C12_gen_frame_entry_points`: there is no other way in). -/
theorem C12_not_on_frame_stops_at_interface (tbl : List Route) (n : Node) (ops : List XOp) (h1 : NicInv n) (h2 : OffInvS n)
    (hne : (xrun tbl n ops).st ≠ .on) (i : Nat) : frameClimbs (xrun tbl n ops) i = [.iface] := by
  have hoff := (C12_inv_all_entry_points tbl n ops h1 h2).1 hne
  have : nicPasses (xrun tbl n ops) i = false := by
    unfold nicPasses
    cases hc : (xrun tbl n ops).nics[i]? with
    | none => rfl
    | some c => exact hoff c (List.mem_of_getElem? hc)
  simp [frameClimbs, this]

example : frameClimbs exOn 0 = [.iface, .node, .sess, .swmgr, .software] ∧ frameClimbs (run baseRoutes exOn [shutdownOp]) 0 = [.iface] := by
  decide

/-! ### 3. user-session time-outs while a node is not ON -/

/-- the regenerated text of the sweep: it stamps `current_timestep`, collects the local session if
`last_active_step + local_session_timeout_steps <= timestep` and every remote session likewise, and times them out;
neither it nor `_timeout_session` mentions `operating_state` or `_can_perform_action`; `_login` starts with
`if not self._can_perform_action(): return None` -/
theorem C12_gen_session_shapes :
    Gen.Power.sessionShapes =
      [("pre_timestep", "self.current_timestep = timestep;inactive_sessions: list = [];if(self.local_session)[if(self.local_session.last_active_step + self.local_session_timeout_steps <= timestep)[inactive_sessions.append(self.local_session)]];for(session in self.remote_sessions)[remote_session = self.remote_sessions[session];if(remote_session.last_active_step + self.remote_session_timeout_steps <= timestep)[inactive_sessions.append(remote_session)]];for(sessions in inactive_sessions)[self._timeout_session(sessions)]"),
       ("login_guarded", "true"), ("sweep_power_blind", "true"),
       ("remote_limit", "return len(self.remote_sessions) >= self.max_remote_sessions")] := rfl

/-- the sweeps of the pre-timesteps `t, t+1, …, t+k-1` -/
def Sessions.preRun (s : Sessions) (t : Int) : Nat → Sessions
  | 0 => s
  | k + 1 => (s.pre t).preRun (t + 1) k

theorem Sessions.pre_loc (s : Sessions) (t : Int) :
    (s.pre t).loc = (match s.loc with | some l => if l + s.localTimeout ≤ t then none else some l | none => none) ∧
    (s.pre t).localTimeout = s.localTimeout ∧ (s.pre t).remoteTimeout = s.remoteTimeout := ⟨rfl, rfl, rfl⟩

/-- **when a session ends.** Whatever happens to the node in between — shutdown, OFF, boot, reset, any request — the
sweep is a function of the sessions and the time alone (`Sessions.pre` does not take the node), so over `k` consecutive
pre-timesteps starting at `t` a local session last active at `a` survives iff `t + k - 1 < a + timeout`, i.e. it is ended
by the pre-timestep of tick `a + timeout` exactly, on an OFF node as on an ON node. -/
theorem C12_session_ends_at_timeout (s : Sessions) (a t : Int) (k : Nat) (hl : s.loc = some a) (hk : 0 < k) :
    (s.preRun t k).loc = (if a + s.localTimeout ≤ t + k - 1 then none else some a) := by
  induction k generalizing s t with
  | zero => omega
  | succ k ih =>
    show ((s.pre t).preRun (t + 1) k).loc = _
    by_cases hk0 : k = 0
    · subst hk0
      show (s.pre t).loc = _
      rw [(Sessions.pre_loc s t).1, hl]
      simp only
      split <;> rename_i h
      · rw [if_pos (by omega)]
      · rw [if_neg (by omega)]
    · by_cases hexp : a + s.localTimeout ≤ t
      · -- already expired at the first sweep: stays gone
        have h0 : (s.pre t).loc = none := by rw [(Sessions.pre_loc s t).1, hl]; simp [hexp]
        have gone : ∀ (j : Nat) (u : Sessions) (v : Int), u.loc = none → (u.preRun v j).loc = none := by
          intro j
          induction j with
          | zero => intro u v h; exact h
          | succ j ihj =>
            intro u v h
            show ((u.pre v).preRun (v + 1) j).loc = none
            exact ihj _ _ (by rw [(Sessions.pre_loc u v).1, h])
        rw [gone k _ _ h0, if_pos (by omega)]
      · have h0 : (s.pre t).loc = some a := by rw [(Sessions.pre_loc s t).1, hl]; simp [hexp]
        rw [ih (s.pre t) (t + 1) h0 (by omega), (Sessions.pre_loc s t).2.1]
        by_cases h2 : a + s.localTimeout ≤ t + 1 + ↑k - 1
        · rw [if_pos h2, if_pos (by push_cast; omega)]
        · rw [if_neg h2, if_neg (by push_cast; omega)]

/-- the remote sessions likewise: the sweep keeps exactly those with `last_active + timeout > t` -/
theorem C12_remote_sessions_after_sweep (s : Sessions) (t : Int) :
    (s.pre t).rem = s.rem.filter (fun r => decide (t < r + s.remoteTimeout)) := by
  show s.rem.filter _ = _
  congr 1
  funext r
  by_cases h : r + s.remoteTimeout ≤ t <;> simp [h] <;> omega

/-- **no login while not ON**: `_login` begins with `_can_perform_action`, which needs the node ON and the service
RUNNING — and an OFF node has no RUNNING service anyway (`OffInvS`) -/
theorem C12_login_needs_on (n : Node) (i : Nat) (s : Sessions) (remote : Bool) (hne : n.st ≠ .on) :
    s.login (usmCanPerform n i) remote = (s, false) := by
  have : usmCanPerform n i = false := by
    unfold usmCanPerform
    have hison : n.isOn = false := by simp [Node.isOn, hne]
    split
    · rw [hison]; rfl
    · rfl
  rw [this]; rfl

/-- **is that what the code should do?** C16's own model of `UserSessionManager.pre_timestep` (`Model/Session.lean`, tied to
the code by C16's rig, power events included) decides expiry by the same comparison and does not read the node's power
either; C16's property ("inactivity time-out … end[s] the ability to run commands on that session") and its theorem
`C16_timeout_expired_gone` carry no power hypothesis. So: yes — a session of a node that is OFF must be gone at
`last_active + timeout`, and it is. What a powered-down node does NOT do is accept a login (`C12_login_needs_on`) or let
the time-out notification of a remote session out of its disabled interface (`C12_not_on_no_traffic`). What neither
property asks for, and the code does not do, is end sessions AT shutdown: a session younger than the time-out survives a
power cycle (observed by the rig; recorded for C16, not a C12 matter). -/
theorem C12_session_expiry_agrees_with_C16 (nd : Primaite.Session.Node) (p : Primaite.Session.Power) (nic : Bool) (t : Nat) :
    ({ nd with power := p, nic := nic } : Primaite.Session.Node).localExpired t = nd.localExpired t ∧
    ({ nd with power := p, nic := nic } : Primaite.Session.Node).expired t = nd.expired t ∧
    (nd.localExpired t = true ↔ ∃ l, nd.loc = some l ∧
      (({ loc := some (l.last : Int), localTimeout := nd.localTimeout } : Sessions).pre t).loc = none) := by
  refine ⟨rfl, rfl, ?_⟩
  unfold Primaite.Session.Node.localExpired
  cases hl : nd.loc with
  | none => simp
  | some l =>
    simp only [Option.some.injEq, exists_eq_left', decide_eq_true_eq]
    rw [(Sessions.pre_loc _ _).1]
    simp only
    constructor
    · intro h; rw [if_pos (by exact_mod_cast h)]
    · intro h
      by_cases hc : (l.last : Int) + (nd.localTimeout : Int) ≤ (t : Int)
      · exact_mod_cast hc
      · rw [if_neg hc] at h; cases h

/-- non-vacuity: logged in at step 2 with time-out 3; the node is shut down at once; sweeps 3 and 4 keep the session,
sweep 5 ends it — the node is OFF all along -/
example : let s : Sessions := { now := 2, loc := some 2, localTimeout := 3 }
    ((s.preRun 3 2).loc, (s.preRun 3 3).loc) = (some 2, none) := by decide

end Primaite.Power
