/-
C17, round 7 second shift — the SENDING halves of `DatabaseClient._connect` / `_query` / `_disconnect`, translated statement by
statement (Gen/DatabaseClientSendTr.lean, harness/extract/database_client_send_tr.py), tied to the model:

* what the client hands to `send_payload_to_session_manager` is, key by key, `Payload.raw` of the payload the model's
  `State.getNewConnection` / `State.rawQuery` / `State.clientDisconnect` pass to `State.send` — so `C17_tr_receive` (the translated
  dispatcher = the model's `Server.receive`) applies to what the translated CLIENT sends;
* it goes to the configured server address, on the client's own port;
* `_connect` / `_query` then re-attempt with the same ids and nothing else; `_disconnect` sends BEFORE it pops the connection,
  terminates it and deactivates the handle, and answers True (`State.clientDisconnect`: send, filter `conns`, handles inactive, true).
-/
import PrimaiteModel.Props.C17Recv
import PrimaiteModel.Gen.DatabaseClientSendTr
namespace Primaite.Database
open Primaite.Gen
open Primaite.Gen.DatabaseClientSendTr (Step Sent)

/-- `_connect`: one send of the model's connect payload carrying the password it was given, then the re-attempt with the same ids -/
theorem C17_tr_client_connect_sends (pw : Option Nat) :
    DatabaseClientSendTr.connectSend pw =
      [Step.send { payload := (Payload.connect pw).raw, toServer := true, ownPort := true }, Step.reattempt true] := rfl

/-- `_query`: one send of the model's sql payload carrying the connection id and the query it was given, then the re-attempt -/
theorem C17_tr_client_query_sends (q : Sql) (cid : Option Nat) :
    DatabaseClientSendTr.querySend q cid =
      [Step.send { payload := (Payload.sql cid q).raw, toServer := true, ownPort := true }, Step.reattempt true] := rfl

/-- `_disconnect`: the model's disconnect payload for THAT id goes out first; then pop, terminate, deactivate; True -/
theorem C17_tr_client_disconnect_sends (id : Nat) :
    DatabaseClientSendTr.disconnectSend id =
      [Step.send { payload := (Payload.disconnect (some id)).raw, toServer := true, ownPort := true },
       Step.pop, Step.terminate, Step.deactivate, Step.ret true] := rfl

/-- the payload of the first `send` step of a translated sending half -/
def firstSent : List Step → Option Sent
  | Step.send s :: _ => some s
  | _ => none

/-- **Client and server, both translated, end to end.**  For every well-formed server, sender address, password / query / ids: the
translated dispatcher, fed the payload the translated client builds, does what the model's `Server.receive` does on the model's
payload. -/
theorem C17_tr_client_to_server (s : Server) (hwf : s.WF) (src : Nat) (pw : Option Nat) (q : Sql) (cid : Option Nat) (id : Nat) :
    (∀ x, firstSent (DatabaseClientSendTr.connectSend pw) = some x →
        DatabaseTr.receive s src x.payload =
          ((s.receive src (.connect pw)).1, RecvOut.ret (s.receive src (.connect pw)).2 (s.receive src (.connect pw)).2.isSome)) ∧
    (∀ x, firstSent (DatabaseClientSendTr.querySend q cid) = some x →
        DatabaseTr.receive s src x.payload =
          ((s.receive src (.sql cid q)).1, RecvOut.ret (s.receive src (.sql cid q)).2 (s.receive src (.sql cid q)).2.isSome)) ∧
    (∀ x, firstSent (DatabaseClientSendTr.disconnectSend id) = some x →
        DatabaseTr.receive s src x.payload =
          ((s.receive src (.disconnect (some id))).1,
            RecvOut.ret (s.receive src (.disconnect (some id))).2 (s.receive src (.disconnect (some id))).2.isSome)) := by
  refine ⟨?_, ?_, ?_⟩
  · intro x hx
    rw [C17_tr_client_connect_sends] at hx
    cases hx
    exact C17_tr_receive s hwf src _
  · intro x hx
    rw [C17_tr_client_query_sends] at hx
    cases hx
    exact C17_tr_receive s hwf src _
  · intro x hx
    rw [C17_tr_client_disconnect_sends] at hx
    cases hx
    exact C17_tr_receive s hwf src _

/-- non-vacuity: each half does send -/
example : (firstSent (DatabaseClientSendTr.connectSend (some 3))).isSome ∧ (firstSent (DatabaseClientSendTr.querySend .encrypt (some 0))).isSome ∧
    (firstSent (DatabaseClientSendTr.disconnectSend 0)).isSome := by decide

end Primaite.Database
