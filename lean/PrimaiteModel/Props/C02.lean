/-
C02 — every observation is a member of the declared space.
Property theorems only; the model is `Model/Obs.lean`, generic dictionary lemmas are in `Lemmas/ObsDict.lean`.
-/
import PrimaiteModel.Lemmas.ObsDict
import PrimaiteModel.Gen.ObsEnums
import PrimaiteModel.Gen.ObsTables
namespace Primaite.Obs
open Primaite.Gen
open Primaite.Gen.ObsEnums

/-! ### translator tie: the model's constants are the ones the source declares today -/

/-- `space` properties: every `Discrete(...)` argument, per class and key. -/
theorem C02_gen_sizes :
    ObsTables.ServiceObservation_sizes = [("operating_status", .lit serviceOpSize), ("health_status", .lit softwareHealthSize)] ∧
    ObsTables.ApplicationObservation_sizes =
      [("operating_status", .lit appOpSize), ("health_status", .lit softwareHealthSize), ("num_executions", .lit numExecSize)] ∧
    ObsTables.FileObservation_sizes = [("health_status", .lit fileHealthSize), ("num_access", .lit numAccessSize)] ∧
    ObsTables.FolderObservation_sizes = [("health_status", .lit fileHealthSize)] ∧
    ObsTables.NICObservation_sizes =
      [("nic_status", .lit nicStatusSize), ("inbound", .lit nmneSize), ("outbound", .lit nmneSize),
       ("inbound", .lit trafficSize), ("outbound", .lit trafficSize)] ∧
    ObsTables.PortObservation_sizes = [("operating_status", .lit portOpSize)] ∧
    ObsTables.LinkObservation_sizes = [("ALL", .lit linkSize)] ∧
    ObsTables.ACLObservation_sizes =
      [("position", .numRules), ("permission", .lit permissionSize), ("source_ip_id", .distinct "ips" 2),
       ("source_wildcard_id", .distinct "wcs" 2), ("source_port_id", .distinct "ports" 2), ("dest_ip_id", .distinct "ips" 2),
       ("dest_wildcard_id", .distinct "wcs" 2), ("dest_port_id", .distinct "ports" 2), ("protocol_id", .distinct "protos" 2)] ∧
    ObsTables.HostObservation_sizes =
      [("operating_status", .lit hostOpSize), ("num_file_creations", .lit fileCountSize),
       ("num_file_deletions", .lit fileCountSize), ("local_login", .lit localLoginSize), ("remote_sessions", .lit (maxUsers + 1))] ∧
    ObsTables.RouterObservation_sizes = [("local_login", .lit localLoginSize), ("remote_sessions", .lit (maxUsers + 1))] ∧
    ObsTables.FirewallObservation_sizes = [("local_login", .lit localLoginSize), ("remote_sessions", .lit (maxUsers + 1))] ∧
    ObsTables.NullObservation_sizes = [("<self>", .lit 1)] := by
  decide

/-- clamps, bin formula, ON test, status codes, `max_users`, default literals. -/
theorem C02_gen_clamps :
    ObsTables.nicTrafficClamp = some trafficClamp ∧ ObsTables.linkClamp = some linkClamp ∧
    ObsTables.fileCreationsClamp = some fileCountClamp ∧ ObsTables.fileDeletionsClamp = some fileCountClamp ∧
    (ObsTables.nicTrafficMul, ObsTables.nicTrafficAdd) = (9, 1) ∧ (ObsTables.linkMul, ObsTables.linkAdd) = (9, 1) ∧
    ObsTables.HostObservation_maxUsers = maxUsers ∧ ObsTables.RouterObservation_maxUsers = maxUsers ∧
    ObsTables.FirewallObservation_maxUsers = maxUsers ∧
    ObsTables.HostObservation_remoteSessionsClampedByMaxUsers = true ∧
    ObsTables.RouterObservation_remoteSessionsClampedByMaxUsers = true ∧
    ObsTables.FirewallObservation_remoteSessionsClampedByMaxUsers = true ∧
    ObsTables.HostObservation_onValue = nodeOn ∧ ObsTables.RouterObservation_onValue = nodeOn ∧
    ObsTables.FirewallObservation_onValue = nodeOn ∧
    NodeOperatingState.T.ON.value = nodeOn ∧
    (ObsTables.nicEnabledCode, ObsTables.nicDisabledCode) = (nicEnabledCode, nicDisabledCode) ∧
    (ObsTables.portEnabledCode, ObsTables.portDisabledCode) = (nicEnabledCode, nicDisabledCode) ∧
    -- NMNE by CASES (shape-independent, replaces the source-text pins of rounds 3-6): the counters are read exactly when the
    -- observation includes NMNE and the interface publishes them, into a dictionary created by this very call (never into the stored
    -- default); zeros are reported exactly when NMNE is included and nothing is captured — what `NicObs.val` does
    ObsTables.nmneTable = [true, false].flatMap (fun inc => [true, false].map (fun cap => (inc, cap, inc && cap, true, inc && !cap))) ∧
    ObsTables.nmneObserveReadsClassAttribute = false ∧
    ObsTables.aclSlotRead = ["acl_items.get(i)"] := by
  decide

/-- every `default_observation` literal is 0, and every `space` body reads only attributes assigned at construction
(so the space cannot depend on simulation state or episode). -/
theorem C02_gen_defaults_and_space_inputs :
    (ObsTables.ServiceObservation_defaultLeavesAllZero && ObsTables.ApplicationObservation_defaultLeavesAllZero &&
     ObsTables.FileObservation_defaultLeavesAllZero && ObsTables.FolderObservation_defaultLeavesAllZero &&
     ObsTables.NICObservation_defaultLeavesAllZero && ObsTables.PortObservation_defaultLeavesAllZero &&
     ObsTables.LinkObservation_defaultLeavesAllZero && ObsTables.ACLObservation_defaultLeavesAllZero &&
     ObsTables.HostObservation_defaultLeavesAllZero && ObsTables.RouterObservation_defaultLeavesAllZero &&
     ObsTables.FirewallObservation_defaultLeavesAllZero && ObsTables.NullObservation_defaultLeavesAllZero) = true ∧
    (ObsTables.ServiceObservation_spaceReadsOnlyInitAttrs && ObsTables.ApplicationObservation_spaceReadsOnlyInitAttrs &&
     ObsTables.FileObservation_spaceReadsOnlyInitAttrs && ObsTables.FolderObservation_spaceReadsOnlyInitAttrs &&
     ObsTables.NICObservation_spaceReadsOnlyInitAttrs && ObsTables.PortObservation_spaceReadsOnlyInitAttrs &&
     ObsTables.LinkObservation_spaceReadsOnlyInitAttrs && ObsTables.ACLObservation_spaceReadsOnlyInitAttrs &&
     ObsTables.HostObservation_spaceReadsOnlyInitAttrs && ObsTables.RouterObservation_spaceReadsOnlyInitAttrs &&
     ObsTables.FirewallObservation_spaceReadsOnlyInitAttrs && ObsTables.NullObservation_spaceReadsOnlyInitAttrs) = true := by
  decide

/-- the three threshold categorisers of the source are the model's `categorise`; defaults and validation as modelled. -/
theorem C02_gen_categorisers (t : Thr) (n : Int) :
    ObsTables.catNumExecutions t.low t.med t.high n = categorise t n ∧
    ObsTables.catNumAccess t.low t.med t.high n = categorise t n ∧
    ObsTables.catMneCount t.low t.med t.high n = categorise t n := by
  simp only [ObsTables.catNumExecutions, ObsTables.catNumAccess, ObsTables.catMneCount, categorise, and_self]

theorem C02_gen_thresholds :
    ObsTables.ApplicationObservation_defaultThresholds = (({} : Thr).low, ({} : Thr).med, ({} : Thr).high) ∧
    ObsTables.FileObservation_defaultThresholds = (({} : Thr).low, ({} : Thr).med, ({} : Thr).high) ∧
    ObsTables.NICObservation_defaultThresholds = (({} : Thr).low, ({} : Thr).med, ({} : Thr).high) ∧
    ObsTables.thresholdsMustStrictlyAscend = true := by
  decide

/-! ### leaf facts over the regenerated enumerations: every member's value fits the `Discrete` that carries it -/

theorem C02_leaf_node_op : ∀ n ∈ NodeOperatingState.values, n < hostOpSize := by decide
theorem C02_leaf_service_op : ∀ n ∈ ServiceOperatingState.values, n < serviceOpSize := by decide
theorem C02_leaf_app_op : ∀ n ∈ ApplicationOperatingState.values, n < appOpSize := by decide
theorem C02_leaf_software_health : ∀ n ∈ SoftwareHealthState.values, n < softwareHealthSize := by decide
theorem C02_leaf_file_health : ∀ n ∈ FileSystemItemHealthStatus.values, n < fileHealthSize := by decide
theorem C02_leaf_acl_action : ∀ n ∈ ACLAction.values, n < permissionSize := by decide
/-- the same, stated over the enumeration types themselves -/
theorem C02_leaf_enum_members :
    (∀ s : NodeOperatingState.T, s.value < hostOpSize) ∧ (∀ s : ServiceOperatingState.T, s.value < serviceOpSize) ∧
    (∀ s : ApplicationOperatingState.T, s.value < appOpSize) ∧ (∀ s : SoftwareHealthState.T, s.value < softwareHealthSize) ∧
    (∀ s : FileSystemItemHealthStatus.T, s.value < fileHealthSize) ∧ (∀ s : ACLAction.T, s.value < permissionSize) := by
  refine ⟨?_, ?_, ?_, ?_, ?_, ?_⟩ <;> intro s <;> cases s <;> decide

/-- every bin of a threshold categoriser fits `Discrete(4)`, whatever the thresholds and the count (negative included) -/
theorem C02_leaf_categorise (t : Thr) (n : Int) : categorise t n < 4 := by
  unfold categorise; repeat' split
  all_goals omega

/-- the utilisation bin is clamped: it never raises for a positive capacity and never exceeds the clamp -/
theorem C02_leaf_utilBin (c x b : Nat) (hb : 0 < b) : ∃ i, utilBin c x b = .int i ∧ i ≤ c := by
  unfold utilBin
  by_cases hx : x = 0
  · exact ⟨0, by simp [hx], Nat.zero_le _⟩
  · have : b ≠ 0 := by omega
    exact ⟨min (x * 9 / b + 1) c, by simp [hx, this], Nat.min_le_right _ _⟩

/-! ### well-formed simulation states: every enumerated quantity is the value of a member of its enumeration -/

def WfSvc (s : SoftwareState) : Prop :=
  s.op ∈ ServiceOperatingState.values ∧ s.healthActual ∈ SoftwareHealthState.values ∧ s.healthVisible ∈ SoftwareHealthState.values

def WfApp (s : SoftwareState) : Prop :=
  s.op ∈ ApplicationOperatingState.values ∧ s.healthActual ∈ SoftwareHealthState.values ∧
  s.healthVisible ∈ SoftwareHealthState.values

def WfFile (f : FileState) : Prop :=
  f.health ∈ FileSystemItemHealthStatus.values ∧ f.visible ∈ FileSystemItemHealthStatus.values

def WfFolder (f : FolderState) : Prop :=
  f.health ∈ FileSystemItemHealthStatus.values ∧ f.visible ∈ FileSystemItemHealthStatus.values ∧ ∀ p ∈ f.files, WfFile p.2

/-- an interface has a positive speed.  (Since the F-10 repair there is no ill-formed NMNE combination any more: the observation
follows the interface's own `nmne` entry, so "capturing on, entry missing" cannot be expressed.) -/
def WfNic (n : NicState) : Prop := 0 < n.speed

def WfNode (n : NodeState) : Prop :=
  n.op ∈ NodeOperatingState.values ∧ (∀ p ∈ n.services, WfSvc p.2) ∧ (∀ p ∈ n.apps, WfApp p.2) ∧
  (∀ p ∈ n.folders, WfFolder p.2) ∧ (∀ p ∈ n.nics, WfNic p.2) ∧ n.usm.isSome = true ∧
  (∀ p ∈ n.acls, ∀ r ∈ p.2, ∀ x, r = some x → x.action ∈ ACLAction.values)

def WfState (st : SimState) : Prop :=
  (∀ p ∈ st.nodes, WfNode p.2) ∧ (∀ p ∈ st.links, 0 < p.2.bandwidth)

theorem WfState.node {st h n} (w : WfState st) (hn : st.node h = some n) : WfNode n :=
  w.1 (h, n) (lookupS_mem hn)

/-! ### leaf classes -/

theorem C02_service_in_space (o : ServiceObs) (st : SimState) (w : WfState st) :
    contains serviceSpace (o.val st) = true := by
  unfold ServiceObs.val
  cases hf : o.find st with
  | none => exact (by decide : contains serviceSpace serviceDefault = true)
  | some s =>
    have ws : WfSvc s := by
      unfold ServiceObs.find at hf
      cases hw : o.wh with
      | none => simp [hw] at hf
      | some p =>
        obtain ⟨h, sv⟩ := p
        simp only [hw] at hf
        cases hn : st.node h with
        | none => simp [hn] at hf
        | some n =>
          simp only [hn, Option.bind_some] at hf
          exact (w.node hn).2.1 (sv, s) (lookupS_mem hf)
    have h1 := C02_leaf_service_op _ ws.1
    have h2 : (if o.scan then s.healthVisible else s.healthActual) < softwareHealthSize := by
      cases o.scan
      · exact C02_leaf_software_health _ ws.2.1
      · exact C02_leaf_software_health _ ws.2.2
    simp [serviceSpace, contains, containsAll, lookupK, keysOf, h1, h2]

theorem node_bind {α} {st : SimState} {h : String} {f : NodeState → Option α} {x : α}
    (hf : (st.node h).bind f = some x) : ∃ n, st.node h = some n ∧ f n = some x := by
  cases hn : st.node h with
  | none => simp [hn] at hf
  | some n => exact ⟨n, rfl, by simpa [hn] using hf⟩

theorem C02_application_in_space (o : AppObs) (st : SimState) (w : WfState st) :
    contains appSpace (o.val st) = true := by
  unfold AppObs.val
  cases hf : o.find st with
  | none => exact (by decide : contains appSpace appDefault = true)
  | some s =>
    have ws : WfApp s := by
      unfold AppObs.find at hf
      cases hw : o.wh with
      | none => simp [hw] at hf
      | some p =>
        obtain ⟨h, sv⟩ := p
        simp only [hw] at hf
        obtain ⟨n, hn, hl⟩ := node_bind hf
        exact (w.node hn).2.2.1 (sv, s) (lookupS_mem hl)
    have h1 := C02_leaf_app_op _ ws.1
    have h2 : (if o.scan then s.healthVisible else s.healthActual) < softwareHealthSize := by
      cases o.scan
      · exact C02_leaf_software_health _ ws.2.1
      · exact C02_leaf_software_health _ ws.2.2
    have h3 : categorise o.thr s.numExec < numExecSize := C02_leaf_categorise _ _
    simp [appSpace, contains, containsAll, lookupK, keysOf, h1, h2, h3]

theorem FolderObs.find_wf {o st f} (w : WfState st) (hf : FolderObs.find o st = some f) : WfFolder f := by
  unfold FolderObs.find at hf
  cases hw : o.wh with
  | none => simp [hw] at hf
  | some p =>
    obtain ⟨h, fo⟩ := p
    simp only [hw] at hf
    obtain ⟨n, hn, hl⟩ := node_bind hf
    exact (w.node hn).2.2.2.1 (fo, f) (lookupS_mem hl)

theorem FileObs.find_wf {o st f} (w : WfState st) (hf : FileObs.find o st = some f) : WfFile f := by
  unfold FileObs.find at hf
  cases hw : o.wh with
  | none => simp [hw] at hf
  | some p =>
    obtain ⟨h, fo, fi⟩ := p
    simp only [hw] at hf
    cases hfo : (st.node h).bind (fun n => lookupS fo n.folders) with
    | none => simp [hfo] at hf
    | some fs =>
      simp only [hfo, Option.bind_some] at hf
      obtain ⟨n, hn, hl⟩ := node_bind hfo
      exact ((w.node hn).2.2.2.1 (fo, fs) (lookupS_mem hl)).2.2 (fi, f) (lookupS_mem hf)

theorem fileSpace_nodup (b : Bool) {α} (v w : α) :
    (keysOf ((Key.s "health_status", v) :: optEntry b (.s "num_access") w)).Nodup := by
  cases b <;> simp [keysOf, optEntry]

theorem C02_file_default_in_space (o : FileObs) : contains o.space o.default = true := by
  unfold FileObs.space FileObs.default
  refine contains_dict_of_par (Par.cons (by decide) (Par.opt _ _ (fun _ => by decide))) (fileSpace_nodup _ _ _)

theorem C02_file_in_space (o : FileObs) (st : SimState) (w : WfState st) :
    contains o.space (o.val st) = true := by
  unfold FileObs.val
  cases hf : o.find st with
  | none => exact C02_file_default_in_space o
  | some f =>
    have wf := FileObs.find_wf w hf
    have h1 : (if o.scan then f.visible else f.health) < fileHealthSize := by
      cases o.scan
      · exact C02_leaf_file_health _ wf.1
      · exact C02_leaf_file_health _ wf.2
    have h3 : categorise o.thr f.numAccess < numAccessSize := C02_leaf_categorise _ _
    unfold FileObs.space
    refine contains_dict_of_par (Par.cons (by simp [contains, h1]) (Par.opt _ _ (fun _ => by simp [contains, h3])))
      (fileSpace_nodup _ _ _)

/-- the folder object's memory is a legal health code (it starts at 0 and only ever stores a reported value) -/
def FolderObs.Ok (o : FolderObs) : Prop := o.cached ∈ FileSystemItemHealthStatus.values

theorem folderSpace_nodup (b : Bool) {α} (v w : α) :
    (keysOf ((Key.s "health_status", v) :: optEntry b (.s "FILES") w)).Nodup := by
  cases b <;> simp [keysOf, optEntry]

theorem C02_folder_default_in_space (o : FolderObs) : contains o.space o.default = true := by
  unfold FolderObs.space FolderObs.default
  refine contains_dict_of_par (Par.cons (by decide) (Par.opt _ _ (fun _ => ?_))) (folderSpace_nodup _ _ _)
  exact contains_dict_of_par (Par.enumFrom _ _ _ _ (fun f _ => C02_file_default_in_space f)) (nodup_keys_enumFrom _ _)

theorem FolderObs.health_lt {o : FolderObs} {f : FolderState} (ok : o.Ok) (wf : WfFolder f) :
    o.health f ∈ FileSystemItemHealthStatus.values := by
  unfold FolderObs.health
  cases o.scan
  · simpa using wf.1
  · cases f.scanned
    · cases o.sameFolder f
      · simpa using wf.2.1
      · simpa [FolderObs.Ok] using ok
    · simpa using wf.2.1

theorem C02_folder_in_space (o : FolderObs) (st : SimState) (w : WfState st) (ok : o.Ok) :
    contains o.space (o.val st) = true := by
  unfold FolderObs.val
  cases hf : o.find st with
  | none => exact C02_folder_default_in_space o
  | some f =>
    have h1 := C02_leaf_file_health _ (FolderObs.health_lt ok (FolderObs.find_wf w hf))
    unfold FolderObs.space
    refine contains_dict_of_par (Par.cons (by simp [contains, h1]) (Par.opt _ _ (fun _ => ?_))) (folderSpace_nodup _ _ _)
    exact contains_dict_of_par (Par.enumFrom _ _ _ _ (fun fo _ => C02_file_in_space fo st w)) (nodup_keys_enumFrom _ _)

theorem C02_folder_ok_next (o : FolderObs) (st : SimState) (w : WfState st) (ok : o.Ok) :
    (o.next st).Ok := by
  unfold FolderObs.next
  cases hf : o.find st with
  | none => exact ok
  | some f => exact FolderObs.health_lt ok (FolderObs.find_wf w hf)

/-! ### NIC / port -/

theorem dedupN_sub : ∀ (l : List Nat) (x : Nat), x ∈ dedupN l → x ∈ l := by
  intro l
  induction l with
  | nil => intro x h; simp [dedupN] at h
  | cons y ys ih =>
    intro x h
    simp only [dedupN] at h
    by_cases hy : y ∈ ys
    · simp only [hy, if_true] at h; exact List.mem_cons_of_mem _ (ih x h)
    · simp only [hy, if_false, List.mem_cons] at h
      rcases h with h | h
      · simp [h]
      · exact List.mem_cons_of_mem _ (ih x h)

theorem dedupN_nodup : ∀ l : List Nat, (dedupN l).Nodup := by
  intro l
  induction l with
  | nil => simp [dedupN]
  | cons y ys ih =>
    simp only [dedupN]
    by_cases hy : y ∈ ys
    · simpa [hy] using ih
    · simp only [hy, if_false, List.nodup_cons]
      exact ⟨fun h => hy (dedupN_sub _ _ h), ih⟩

/-- `monitored_traffic` is a dictionary: its protocol keys are distinct -/
def NicObs.Ok (o : NicObs) : Prop := (o.traffic.map Prod.fst).Nodup

theorem dirDict_nodup {α} (a b : α) : (keysOf (dirDict a b)).Nodup := by simp [dirDict, keysOf]

theorem nicSpace_nodup (b c : Bool) {α} (u v w : α) :
    (keysOf ((Key.s "nic_status", u) :: (optEntry b (.s "NMNE") v ++ optEntry c (.s "TRAFFIC") w))).Nodup := by
  cases b <;> cases c <;> simp [keysOf, optEntry]

theorem keysOf_trafficEntries {α} (dict : List (Key × α) → α) (traffic : List (String × List Nat)) (leaf) :
    keysOf (trafficEntries dict traffic leaf) = traffic.map (fun p => Key.s p.1) := by
  simp [keysOf, trafficEntries]

theorem trafficEntries_nodup {α} (dict : List (Key × α) → α) (traffic : List (String × List Nat)) (leaf)
    (h : (traffic.map Prod.fst).Nodup) : (keysOf (trafficEntries dict traffic leaf)).Nodup := by
  rw [keysOf_trafficEntries]
  have : traffic.map (fun p => Key.s p.1) = (traffic.map Prod.fst).map Key.s := by simp
  rw [this]
  exact List.Pairwise.map _ (fun a b (h : a ≠ b) he => h (by injection he)) h

/-- the whole `TRAFFIC` sub-dictionary is contained as soon as every leaf fits `Discrete(11)` -/
theorem traffic_in_space (traffic : List (String × List Nat)) (leaf : String → Option Nat → Bool → Val)
    (hn : (traffic.map Prod.fst).Nodup) (hl : ∀ p q b, contains (.discrete trafficSize) (leaf p q b) = true) :
    contains (.dict (trafficEntries Space.dict traffic (fun _ _ _ => .discrete trafficSize)))
      (.dict (trafficEntries Val.dict traffic leaf)) = true := by
  refine contains_dict_of_par ?_ (trafficEntries_nodup _ _ _ hn)
  unfold trafficEntries
  refine Par.map _ _ _ _ (fun pp _ => ?_)
  by_cases hi : pp.1 = "icmp"
  · simp only [hi, if_true]
    exact contains_dict_of_par (Par.cons (hl _ _ _) (Par.single (hl _ _ _))) (dirDict_nodup _ _)
  · simp only [hi, if_false]
    refine contains_dict_of_par (Par.map _ _ _ _ (fun port _ => ?_)) ?_
    · exact contains_dict_of_par (Par.cons (hl _ _ _) (Par.single (hl _ _ _))) (dirDict_nodup _ _)
    · have : keysOf ((dedupN pp.2).map (fun port => (Key.n port, Space.dict (dirDict (Space.discrete trafficSize) (Space.discrete trafficSize))))) =
          (dedupN pp.2).map Key.n := by simp [keysOf]
      rw [this]
      exact List.Pairwise.map _ (fun a b (h : a ≠ b) he => h (by injection he)) (dedupN_nodup _)

theorem C02_nic_default_in_space (o : NicObs) (ok : o.Ok) : contains o.space o.default = true := by
  unfold NicObs.space NicObs.default
  refine contains_dict_of_par (Par.cons (by decide) (Par.append (Par.opt _ _ (fun _ => by decide)) (Par.opt _ _ (fun _ => ?_))))
    (nicSpace_nodup _ _ _ _ _)
  exact traffic_in_space _ _ ok (fun _ _ _ => by decide)

theorem NicObs.find_wf {o st n} (w : WfState st) (hf : NicObs.find o st = some n) : WfNic n := by
  unfold NicObs.find at hf
  cases hw : o.wh with
  | none => simp [hw] at hf
  | some p =>
    obtain ⟨h, i⟩ := p
    simp only [hw] at hf
    obtain ⟨nd, hn, hl⟩ := node_bind hf
    exact (w.node hn).2.2.2.2.1 (i, n) (lookupN_mem hl)

theorem C02_nic_in_space (o : NicObs) (st : SimState) (w : WfState st) (ok : o.Ok) :
    contains o.space (o.val st) = true := by
  unfold NicObs.val
  cases hf : o.find st with
  | none => exact C02_nic_default_in_space o ok
  | some n =>
    have wn := NicObs.find_wf w hf
    unfold NicObs.space
    refine contains_dict_of_par (Par.cons ?_ (Par.append (Par.opt _ _ (fun _ => ?_)) (Par.opt _ _ (fun _ => ?_))))
      (nicSpace_nodup _ _ _ _ _)
    · cases n.enabled <;> decide
    · cases hm : n.nmne with
      | none => simp [dirDict, contains, containsAll, lookupK, keysOf, nmneSize]
      | some p =>
        obtain ⟨i, u⟩ := p
        have h1 : categorise o.thr ((i : Int) - o.lastIn) < nmneSize := C02_leaf_categorise _ _
        have h2 : categorise o.thr ((u : Int) - o.lastOut) < nmneSize := C02_leaf_categorise _ _
        simp [dirDict, contains, containsAll, lookupK, keysOf, h1, h2]
    · refine traffic_in_space _ _ ok (fun p q b => ?_)
      obtain ⟨i, hi, hle⟩ := C02_leaf_utilBin trafficClamp (n.amount p q b) n.speed wn
      unfold NicObs.trafficLeaf
      rw [hi]
      have : i < trafficSize := by unfold trafficSize; unfold trafficClamp at hle; omega
      simp [contains, this]

theorem C02_nic_ok_next (o : NicObs) (st : SimState) (ok : o.Ok) : (o.next st).Ok := by
  unfold NicObs.next
  cases o.find st with
  | none => exact ok
  | some n =>
    simp only []
    split
    · cases n.nmne with
      | none => exact ok
      | some p => exact ok
    · exact ok

theorem C02_port_in_space (o : PortObs) (st : SimState) : contains portSpace (o.val st) = true := by
  unfold PortObs.val
  split
  · decide
  · rename_i n _
    cases n.enabled <;> decide

/-! ### links -/

theorem C02_link_in_space (o : LinkObs) (st : SimState) (w : WfState st) :
    contains linkSpace (o.val st) = true := by
  unfold LinkObs.val
  cases hf : o.find st with
  | none => decide
  | some l =>
    have hb : 0 < l.bandwidth := by
      unfold LinkObs.find at hf
      cases h1 : lookupS (linkRef o.a o.b) st.links with
      | some l' => simp only [h1, Option.some.injEq] at hf; subst hf; exact w.2 _ (lookupS_mem h1)
      | none => simp only [h1] at hf; exact w.2 _ (lookupS_mem hf)
    obtain ⟨i, hi, hle⟩ := C02_leaf_utilBin linkClamp l.load l.bandwidth hb
    have : i < linkSize := by unfold linkSize; unfold linkClamp at hle; omega
    simp [linkSpace, hi, contains, containsAll, lookupK, keysOf, this]

theorem C02_links_in_space (os : List LinkObs) (st : SimState) (w : WfState st) :
    contains (Obs.links os).space ((Obs.links os).val st) = true := by
  simp only [Obs.space, Obs.val]
  exact contains_dict_of_par (Par.enumFrom _ _ _ _ (fun l _ => C02_link_in_space l st w)) (nodup_keys_enumFrom _ _)

/-! ### users -/

theorem C02_users_in_space (u : UsmState) : contains usersSpace (usersVal (some u)) = true := by
  have h1 : (if u.localUser then 1 else 0) < localLoginSize := by cases u.localUser <;> decide
  have h2 : min maxUsers u.remote < maxUsers + 1 := by have := Nat.min_le_left maxUsers u.remote; omega
  simp [usersSpace, usersVal, contains, containsAll, lookupK, keysOf, h1, h2]

/-! ### ACL -/

theorem idOf_bounds {α} [DecidableEq α] (l : List α) (x : α) : ∀ (k i : Nat), idOf l x k = some i → k ≤ i ∧ i < k + l.length := by
  induction l with
  | nil => intro k i h; simp [idOf] at h
  | cons y ys ih =>
    intro k i h
    simp only [idOf] at h
    cases hr : idOf ys x (k + 1) with
    | some j =>
      simp only [hr, Option.some.injEq] at h; subst h
      have := ih (k + 1) j hr
      simp only [List.length_cons]; omega
    | none =>
      simp only [hr] at h
      by_cases hx : x = y
      · simp only [hx, if_true, Option.some.injEq] at h; subst h; simp only [List.length_cons]; omega
      · simp [hx] at h

theorem idOf_of_mem {α} [DecidableEq α] (l : List α) (x : α) (hx : x ∈ l) : ∀ k, ∃ i, idOf l x k = some i := by
  induction l with
  | nil => simp at hx
  | cons y ys ih =>
    intro k
    simp only [idOf]
    cases hr : idOf ys x (k + 1) with
    | some j => exact ⟨j, rfl⟩
    | none =>
      rcases List.mem_cons.mp hx with h | h
      · exact ⟨k, by simp [h]⟩
      · obtain ⟨i, hi⟩ := ih h (k + 1); rw [hr] at hi; cases hi

theorem distinctCount_nodup {α} [DecidableEq α] (l : List α) (h : l.Nodup) : distinctCount l = l.length := by
  induction l with
  | nil => rfl
  | cons y ys ih =>
    simp only [List.nodup_cons] at h
    simp [distinctCount, h.1, ih h.2]

/-- `.get(v, 1)` leaves: always an id inside `Discrete(len + 2)` when the configured list has no repeated entry -/
theorem getId_in_space {α} [DecidableEq α] (l : List α) (hn : l.Nodup) (x : Option α) :
    contains (.discrete (distinctCount l + 2)) (getId l x) = true := by
  rw [distinctCount_nodup l hn]
  cases x with
  | none => simp [getId, contains]
  | some v =>
    simp only [getId]
    cases h : idOf l v with
    | none => simp [contains]
    | some i => have := idOf_bounds l v 2 i h; simp only [contains, decide_eq_true_eq]; omega

theorem rangeFrom_eq (k n : Nat) : rangeFrom k n = List.range' k n := by
  induction n generalizing k with
  | zero => rfl
  | succ n ih => simp [rangeFrom, ih, List.range'_succ]

theorem aclKeys_nodup {α} (k n : Nat) (f : Nat → α) : (keysOf ((rangeFrom k n).map (fun i => (Key.n i, f i)))).Nodup := by
  have : keysOf ((rangeFrom k n).map (fun i => (Key.n i, f i))) = (List.range' k n).map Key.n := by
    simp [keysOf, rangeFrom_eq]
  rw [this]
  exact List.Pairwise.map _ (fun a b (h : a ≠ b) he => h (by injection he)) (List.nodup_range' (step := 1) (by omega))

theorem aclRuleDict_nodup {α} (a b c d e f g h i : α) : (keysOf (aclRuleDict a b c d e f g h i)).Nodup := by
  simp [aclRuleDict, keysOf]

theorem aclRule_par {a b c d e f g h i : Space} {a' b' c' d' e' f' g' h' i' : Val}
    (ha : contains a a' = true) (hb : contains b b' = true) (hc : contains c c' = true) (hd : contains d d' = true)
    (he : contains e e' = true) (hf : contains f f' = true) (hg : contains g g' = true) (hh : contains h h' = true)
    (hi : contains i i' = true) :
    contains (.dict (aclRuleDict a b c d e f g h i)) (.dict (aclRuleDict a' b' c' d' e' f' g' h' i')) = true :=
  contains_dict_of_par
    (Par.cons ha (Par.cons hb (Par.cons hc (Par.cons hd (Par.cons he (Par.cons hf (Par.cons hg (Par.cons hh (Par.single hi)))))))))
    (aclRuleDict_nodup _ _ _ _ _ _ _ _ _)

theorem C02_acl_empty_rule_in_space (o : AclObs) (i : Nat) (hi : i < o.numRules) : contains o.ruleSpace (aclEmptyRule i) = true := by
  unfold AclObs.ruleSpace aclEmptyRule
  exact aclRule_par (by simp [contains, hi]) (by decide) (by simp [contains]) (by simp [contains]) (by simp [contains])
    (by simp [contains]) (by simp [contains]) (by simp [contains]) (by simp [contains])

theorem C02_acl_default_in_space (o : AclObs) : contains o.space o.default = true := by
  unfold AclObs.space AclObs.default
  refine contains_dict_of_par (Par.map _ _ _ _ (fun i hi => ?_)) (aclKeys_nodup _ _ _)
  rw [rangeFrom_eq] at hi
  exact C02_acl_empty_rule_in_space o i (by have := (List.mem_range'_1.mp hi).2; omega)

/-- invariant of construction: the id tables come from lists without repeated entry (`__init__` de-duplicates them; a repeated
entry would make `len(dict) + 2` too small — finding F-C02-1, fixed) -/
def AclObs.CfgOk (o : AclObs) : Prop := o.ips.Nodup ∧ o.wcs.Nodup ∧ o.ports.Nodup ∧ o.protos.Nodup

theorem dedupFirst_nodup {α} [DecidableEq α] (l : List α) : (dedupFirst l).Nodup := by
  induction l with
  | nil => simp [dedupFirst]
  | cons y ys ih =>
    simp only [dedupFirst, List.nodup_cons]
    exact ⟨by simp [List.mem_filter], List.Pairwise.filter _ ih⟩

/-- every ACL observation object built by the constructor satisfies the invariant, whatever lists are configured -/
theorem C02_acl_fromConfig_cfgOk (wh numRules) (ips wcs : List String) (ports : List Nat) (protos : List String) :
    (AclObs.fromConfig wh numRules ips wcs ports protos).CfgOk :=
  ⟨dedupFirst_nodup _, dedupFirst_nodup _, dedupFirst_nodup _, dedupFirst_nodup _⟩

theorem AclObs.find_wf {o st slots} (w : WfState st) (hf : AclObs.find o st = some slots) :
    ∀ r ∈ slots, ∀ x, r = some x → x.action ∈ ACLAction.values := by
  unfold AclObs.find at hf
  cases hw : o.wh with
  | none => simp [hw] at hf
  | some p =>
    obtain ⟨h, a⟩ := p
    simp only [hw] at hf
    obtain ⟨n, hn, hl⟩ := node_bind hf
    exact (w.node hn).2.2.2.2.2.2 (a, slots) (lookupS_mem hl)

/-- ACL observation, **full** (since the F-6 repair): every state, whatever the number of slots the ACL really has — a position beyond
them reads as an empty slot.  `CfgOk` is not an exclusion but an invariant of construction (`C02_acl_fromConfig_cfgOk`): it holds of
every object the constructor builds; an address outside `ip_list` encodes as 1 since the F-7 fix. -/
theorem C02_acl_in_space (o : AclObs) (st : SimState) (w : WfState st) (c : o.CfgOk) :
    contains o.space (o.val st) = true := by
  unfold AclObs.val
  cases hf : o.find st with
  | none => exact C02_acl_default_in_space o
  | some slots =>
    have ws := AclObs.find_wf w hf
    obtain ⟨hips, hwcs, hports, hprotos⟩ := c
    unfold AclObs.space
    refine contains_dict_of_par (Par.map _ _ _ _ (fun i hi => ?_)) (aclKeys_nodup _ _ _)
    rw [rangeFrom_eq] at hi
    have hi' : i < o.numRules := by have := (List.mem_range'_1.mp hi).2; omega
    cases hget : slots[i]? with
    | none => exact C02_acl_empty_rule_in_space o i hi'
    | some slot =>
      cases hr : slot with
      | none => exact C02_acl_empty_rule_in_space o i hi'
      | some r =>
        have hmem : slot ∈ slots := List.mem_of_getElem? hget
        have hact := C02_leaf_acl_action _ (ws _ hmem r hr)
        simp only [AclObs.ruleVal, AclObs.ruleSpace]
        exact aclRule_par (by simp [contains, hi']) (by simp [contains, hact]) (getId_in_space _ hips _)
          (getId_in_space _ hwcs _) (getId_in_space _ hports _) (getId_in_space _ hips _) (getId_in_space _ hwcs _)
          (getId_in_space _ hports _) (getId_in_space _ hprotos _)

/-- The unrestricted ACL statement: whatever lists and `num_rules` are configured (repeats, more rules than slots), whatever the
well-formed state.  It was FALSE of the code (F-6, F-C02-1, F-7); all three are repaired and it is proved below (`C02_acl_full`). -/
def C02_FullAcl : Prop :=
  ∀ (wh : Option (String × String)) (numRules : Nat) (ips wcs : List String) (ports : List Nat) (protos : List String) (st : SimState),
    WfState st →
    contains (AclObs.fromConfig wh numRules ips wcs ports protos).space ((AclObs.fromConfig wh numRules ips wcs ports protos).val st) = true

def witnessRule (src : Option String) : RuleState :=
  { action := 1, proto := none, srcIp := src, srcWc := none, srcPort := none, dstIp := none, dstWc := none, dstPort := none }

def witnessState (slots : List (Option RuleState)) : SimState :=
  { nodes := [("r", { op := 1, services := [], apps := [], folders := [], nics := [], numCreations := 0, numDeletions := 0,
                       usm := some { localUser := false, remote := 0 }, acls := [("acl", slots)] })],
    links := [] }

theorem witnessState_wf (slots : List (Option RuleState)) (h : ∀ r ∈ slots, ∀ x, r = some x → x.action ∈ ACLAction.values) :
    WfState (witnessState slots) := by
  refine ⟨?_, by simp [witnessState]⟩
  intro p hp
  simp only [witnessState, List.mem_singleton] at hp
  subst hp
  refine ⟨(by decide : (1 : Nat) ∈ NodeOperatingState.values), by simp, by simp, by simp, by simp, rfl, ?_⟩
  intro q hq r hr x hx
  simp only [List.mem_singleton] at hq
  subst hq
  exact h r hr x hx

def f7Obs : AclObs := { wh := some ("r", "acl"), numRules := 1, ips := ["10.0.0.1"], wcs := [], ports := [], protos := [] }
def f7State : SimState := witnessState [some (witnessRule (some "10.0.0.9"))]
def f6Obs : AclObs := { wh := some ("r", "acl"), numRules := 2, ips := [], wcs := [], ports := [], protos := [] }
def f6State : SimState := witnessState [none]
def dupObs : AclObs := AclObs.fromConfig (some ("r", "acl")) 1 ["10.0.0.1", "10.0.0.1"] [] [] []
def dupState : SimState := witnessState [some (witnessRule (some "10.0.0.1"))]

theorem witnessRule_wf (slots : List (Option RuleState)) (h : ∀ r ∈ slots, r = none ∨ ∃ a, r = some (witnessRule a)) :
    WfState (witnessState slots) := by
  refine witnessState_wf _ ?_
  intro r hr x hx
  rcases h r hr with h | ⟨a, h⟩
  · rw [h] at hx; cases hx
  · rw [h] at hx; injection hx with hx; subst hx; exact (by decide : (1 : Nat) ∈ ACLAction.values)

/-- F-7 (fixed): a rule naming an address that is not in `ip_list` now encodes that address as 1 and stays in the space. -/
theorem C02_acl_unknown_ip_fixed :
    WfState f7State ∧ (f7Obs.val f7State).raises = false ∧ contains f7Obs.space (f7Obs.val f7State) = true :=
  ⟨witnessRule_wf _ (by intro r hr; simp only [List.mem_singleton] at hr; exact Or.inr ⟨_, hr⟩), by decide, by decide⟩

/-- F-6 (fixed): `num_rules` larger than the number of slots the ACL has — the surplus positions read as empty slots, in the space. -/
theorem C02_acl_too_many_rules_fixed :
    WfState f6State ∧ (f6Obs.val f6State).raises = false ∧ contains f6Obs.space (f6Obs.val f6State) = true :=
  ⟨witnessRule_wf _ (by intro r hr; simp only [List.mem_singleton] at hr; exact Or.inl hr), by decide, by decide⟩

/-- F-C02-1 (fixed): with a repeated entry in `ip_list` the constructed object de-duplicates, and a listed address stays in
the space. (Without de-duplication the id was the LAST index + 2 while the space was sized by the number of DISTINCT entries + 2.) -/
theorem C02_acl_repeated_entry_fixed :
    WfState dupState ∧ (dupObs.val dupState).raises = false ∧ contains dupObs.space (dupObs.val dupState) = true :=
  ⟨witnessRule_wf _ (by intro r hr; simp only [List.mem_singleton] at hr; exact Or.inr ⟨_, hr⟩), by decide, by decide⟩

/-- **for every configured list (repeats included), every `num_rules` and every well-formed state, an ACL observation built by the
constructor is in its space** — no hypothesis on the configuration or on the number of slots any more -/
theorem C02_acl_fromConfig_in_space (wh numRules) (ips wcs : List String) (ports : List Nat) (protos : List String)
    (st : SimState) (w : WfState st) :
    contains (AclObs.fromConfig wh numRules ips wcs ports protos).space ((AclObs.fromConfig wh numRules ips wcs ports protos).val st) = true :=
  C02_acl_in_space _ st w (C02_acl_fromConfig_cfgOk _ _ _ _ _ _)

theorem C02_acl_full : C02_FullAcl := fun wh n ips wcs ports protos st w => C02_acl_fromConfig_in_space wh n ips wcs ports protos st w

/-- non-vacuity: a state with a real rule, observed with more positions than the ACL has slots -/
example :
    let o : AclObs := AclObs.fromConfig (some ("r", "acl")) 5 ["10.0.0.1", "10.0.0.2", "10.0.0.1"] ["0.0.0.1"] [80] ["tcp"]
    let st := witnessState [some (witnessRule (some "10.0.0.2")), none, none]
    (o.find st).isSome = true ∧ (o.val st).raises = false ∧ contains o.space (o.val st) = true := by
  refine ⟨by decide, by decide, by decide⟩

/-! ### host -/

def HostObs.Ok (o : HostObs) : Prop := (∀ f ∈ o.folders, f.Ok) ∧ (∀ n ∈ o.nics, n.Ok)

theorem hostKeys_nodup (b1 b2 b3 b4 b5 b6 : Bool) {α} (v0 v1 v2 v3 v4 v5 v6 v7 : α) :
    (keysOf ((Key.s "operating_status", v0) ::
      (optEntry b1 (.s "SERVICES") v1 ++ optEntry b2 (.s "APPLICATIONS") v2 ++ optEntry b3 (.s "FOLDERS") v3 ++
       optEntry b4 (.s "NICS") v4 ++ optEntry b5 (.s "num_file_creations") v5 ++ optEntry b5 (.s "num_file_deletions") v6 ++
       optEntry b6 (.s "users") v7))).Nodup := by
  cases b1 <;> cases b2 <;> cases b3 <;> cases b4 <;> cases b5 <;> cases b6 <;> simp [keysOf, optEntry]

theorem par7 {a1 a2 a3 a4 a5 a6 a7 b1 b2 b3 b4 b5 b6 b7} (h1 : Par a1 b1) (h2 : Par a2 b2) (h3 : Par a3 b3) (h4 : Par a4 b4)
    (h5 : Par a5 b5) (h6 : Par a6 b6) (h7 : Par a7 b7) :
    Par (a1 ++ a2 ++ a3 ++ a4 ++ a5 ++ a6 ++ a7) (b1 ++ b2 ++ b3 ++ b4 ++ b5 ++ b6 ++ b7) :=
  (((((h1.append h2).append h3).append h4).append h5).append h6).append h7

theorem enum_const_in_space {α} (xs : List α) (s : Space) (v : Val) (h : contains s v = true) :
    contains (.dict (enumFrom 1 (xs.map (fun _ => s)))) (.dict (enumFrom 1 (xs.map (fun _ => v)))) = true :=
  contains_dict_of_par (Par.enumFrom _ _ _ _ (fun _ _ => h)) (nodup_keys_enumFrom _ _)

/-- the `{**default}` observation of a host that is present but not ON, with any power code -/
theorem host_off_in_space (o : HostObs) (ok : o.Ok) (op : Nat) (hop : op < hostOpSize) :
    contains o.space (o.offVal op) = true := by
  unfold HostObs.space HostObs.offVal
  refine contains_dict_of_par (Par.cons (by simp [contains, hop]) (par7 (Par.opt _ _ fun _ => ?_) (Par.opt _ _ fun _ => ?_)
    (Par.opt _ _ fun _ => ?_) (Par.opt _ _ fun _ => ?_) (Par.opt _ _ fun _ => by decide) (Par.opt _ _ fun _ => by decide)
    (Par.opt _ _ fun _ => by decide))) (hostKeys_nodup _ _ _ _ _ _ _ _ _ _ _ _ _ _)
  · exact enum_const_in_space _ _ _ (by decide)
  · exact enum_const_in_space _ _ _ (by decide)
  · exact contains_dict_of_par (Par.enumFrom _ _ _ _ (fun f _ => C02_folder_default_in_space f)) (nodup_keys_enumFrom _ _)
  · exact contains_dict_of_par (Par.enumFrom _ _ _ _ (fun n hn => C02_nic_default_in_space n (ok.2 n hn))) (nodup_keys_enumFrom _ _)

theorem C02_host_default_in_space (o : HostObs) (ok : o.Ok) : contains o.space o.default = true :=
  host_off_in_space o ok 0 (by decide)

theorem C02_host_in_space (o : HostObs) (st : SimState) (w : WfState st) (ok : o.Ok) :
    contains o.space (o.val st) = true := by
  unfold HostObs.val
  cases hf : o.find st with
  | none => exact C02_host_default_in_space o ok
  | some n =>
    have wn : WfNode n := by
      unfold HostObs.find at hf
      cases hw : o.wh with
      | none => simp [hw] at hf
      | some h => simp only [hw] at hf; exact w.node hf
    have hop := C02_leaf_node_op _ wn.1
    simp only []
    split
    · unfold HostObs.space HostObs.onVal
      have hu : contains usersSpace (usersVal n.usm) = true := by
        cases hu : n.usm with
        | none => have := wn.2.2.2.2.2.1; simp [hu] at this
        | some u => exact C02_users_in_space u
      have hc1 : min n.numCreations fileCountClamp < fileCountSize := by
        have : min n.numCreations 3 ≤ 3 := Nat.min_le_right _ _
        show min n.numCreations 3 < 4; omega
      have hc2 : min n.numDeletions fileCountClamp < fileCountSize := by
        have : min n.numDeletions 3 ≤ 3 := Nat.min_le_right _ _
        show min n.numDeletions 3 < 4; omega
      refine contains_dict_of_par (Par.cons (by simp [contains, hop]) (par7 (Par.opt _ _ fun _ => ?_) (Par.opt _ _ fun _ => ?_)
        (Par.opt _ _ fun _ => ?_) (Par.opt _ _ fun _ => ?_) (Par.opt _ _ fun _ => by simp [contains, hc1])
        (Par.opt _ _ fun _ => by simp [contains, hc2]) (Par.opt _ _ fun _ => hu)))
        (hostKeys_nodup _ _ _ _ _ _ _ _ _ _ _ _ _ _)
      · exact contains_dict_of_par (Par.enumFrom _ _ _ _ (fun x _ => C02_service_in_space x st w)) (nodup_keys_enumFrom _ _)
      · exact contains_dict_of_par (Par.enumFrom _ _ _ _ (fun x _ => C02_application_in_space x st w)) (nodup_keys_enumFrom _ _)
      · exact contains_dict_of_par (Par.enumFrom _ _ _ _ (fun x hx => C02_folder_in_space x st w (ok.1 x hx)))
          (nodup_keys_enumFrom _ _)
      · exact contains_dict_of_par (Par.enumFrom _ _ _ _ (fun x hx => C02_nic_in_space x st w (ok.2 x hx)))
          (nodup_keys_enumFrom _ _)
    · exact host_off_in_space o ok n.op hop

/-! ### router, firewall -/

/-- construction invariant of a router observation: its ACL id tables have no repeated entry (true of every constructed object) -/
def RouterObs.CfgOk (o : RouterObs) : Prop := o.acl.CfgOk

theorem FirewallObs.acl_cfgOk (o : FirewallObs) (a : String) : (o.acl a).CfgOk := C02_acl_fromConfig_cfgOk _ _ _ _ _ _

theorem routerKeys_nodup (b1 b2 : Bool) {α} (v0 v1 v2 : α) :
    (keysOf ((Key.s "ACL", v0) :: (optEntry b1 (.s "PORTS") v1 ++ optEntry b2 (.s "users") v2))).Nodup := by
  cases b1 <;> cases b2 <;> simp [keysOf, optEntry]

theorem C02_router_default_in_space (o : RouterObs) : contains o.space o.default = true := by
  unfold RouterObs.space RouterObs.default
  refine contains_dict_of_par (Par.cons (C02_acl_default_in_space _) (Par.append (Par.opt _ _ fun _ => ?_)
    (Par.opt _ _ fun _ => by decide))) (routerKeys_nodup _ _ _ _ _)
  exact enum_const_in_space _ _ _ (by decide)

theorem C02_router_in_space (o : RouterObs) (st : SimState) (w : WfState st) (c : o.CfgOk) :
    contains o.space (o.val st) = true := by
  unfold RouterObs.val
  split
  · exact C02_router_default_in_space o
  · rename_i n hn
    split
    · have wn : WfNode n := by
        cases hw : o.wh with
        | none => simp [hw] at hn
        | some h => simp only [hw] at hn; exact w.node hn
      have hu : contains usersSpace (usersVal n.usm) = true := by
        cases hu : n.usm with
        | none => have := wn.2.2.2.2.2.1; simp [hu] at this
        | some u => exact C02_users_in_space u
      unfold RouterObs.space
      refine contains_dict_of_par (Par.cons (C02_acl_in_space _ st w c) (Par.append (Par.opt _ _ fun _ => ?_)
        (Par.opt _ _ fun _ => hu))) (routerKeys_nodup _ _ _ _ _)
      exact contains_dict_of_par (Par.enumFrom _ _ _ _ (fun x _ => C02_port_in_space x st)) (nodup_keys_enumFrom _ _)
    · exact C02_router_default_in_space o

theorem firewallAcl_in_space (f : String → Space) (g : String → Val) (h : ∀ a, contains (f a) (g a) = true) :
    contains (firewallAclDict Space.dict f) (firewallAclDict Val.dict g) = true := by
  unfold firewallAclDict
  have io : ∀ a b, contains (.dict [(.s "INBOUND", f a), (.s "OUTBOUND", f b)]) (.dict [(.s "INBOUND", g a), (.s "OUTBOUND", g b)]) = true :=
    fun a b => contains_dict_of_par (Par.cons (h a) (Par.single (h b))) (by simp [keysOf])
  exact contains_dict_of_par (Par.cons (io _ _) (Par.cons (io _ _) (Par.single (io _ _)))) (by simp [keysOf])

theorem firewallKeys_nodup (b : Bool) {α} (v0 v1 v2 : α) :
    (keysOf ((Key.s "PORTS", v0) :: (Key.s "ACL", v1) :: optEntry b (.s "users") v2)).Nodup := by
  cases b <;> simp [keysOf, optEntry]

theorem C02_firewall_default_in_space (o : FirewallObs) : contains o.space o.default = true := by
  unfold FirewallObs.space FirewallObs.default
  refine contains_dict_of_par (Par.cons ?_ (Par.cons (firewallAcl_in_space _ _ (fun a => C02_acl_default_in_space _))
    (Par.opt _ _ fun _ => by decide))) (firewallKeys_nodup _ _ _ _)
  decide

/-- firewall observation, **full and unconditional in the configuration** (its six ACL observations are built by the constructor) -/
theorem C02_firewall_in_space (o : FirewallObs) (st : SimState) (w : WfState st) :
    contains o.space (o.val st) = true := by
  unfold FirewallObs.val
  cases hn : st.node o.wh with
  | none => exact C02_firewall_default_in_space o
  | some n =>
    simp only []
    split
    · have wn : WfNode n := w.node hn
      have hu : contains usersSpace (usersVal n.usm) = true := by
        cases hu : n.usm with
        | none => have := wn.2.2.2.2.2.1; simp [hu] at this
        | some u => exact C02_users_in_space u
      unfold FirewallObs.space
      refine contains_dict_of_par (Par.cons ?_ (Par.cons (firewallAcl_in_space _ _ (fun a => C02_acl_in_space _ st w (o.acl_cfgOk a)))
        (Par.opt _ _ fun _ => hu))) (firewallKeys_nodup _ _ _ _)
      have hp := fun i => C02_port_in_space (o.port i) st
      exact contains_dict_of_par (Par.cons (hp 1) (Par.cons (hp 2) (Par.single (hp 3)))) (by simp [keysOf, Obs.enumFrom])
    · exact C02_firewall_default_in_space o

/-! ### nodes -/

def NodesObs.Ok (o : NodesObs) : Prop := ∀ h ∈ o.hosts, h.Ok
def NodesObs.CfgOk (o : NodesObs) : Prop := ∀ r ∈ o.routers, r.CfgOk

theorem mem_keys_enumTag {α} {p : String} {k : Nat} {xs : List α} {key : Key} (h : key ∈ keysOf (enumTag p k xs)) :
    ∃ i, key = Key.si p i := by
  rw [keysOf_enumTag] at h
  obtain ⟨i, _, hi⟩ := List.mem_map.mp h
  exact ⟨i, hi.symm⟩

theorem nodesKeys_nodup {α} (a b c : List α) :
    (keysOf (enumTag "HOST" 0 a ++ enumTag "ROUTER" 0 b ++ enumTag "FIREWALL" 0 c)).Nodup := by
  simp only [keysOf_append]
  refine List.nodup_append.mpr ⟨List.nodup_append.mpr ⟨nodup_keys_enumTag _ _ _, nodup_keys_enumTag _ _ _, ?_⟩,
    nodup_keys_enumTag _ _ _, ?_⟩
  · intro x hx y hy he
    obtain ⟨i, hi⟩ := mem_keys_enumTag hx
    obtain ⟨j, hj⟩ := mem_keys_enumTag hy
    rw [hi, hj] at he
    injection he with h1 _
    exact absurd h1 (by decide)
  · intro x hx y hy he
    obtain ⟨j, hj⟩ := mem_keys_enumTag hy
    rcases List.mem_append.mp hx with hx | hx
    · obtain ⟨i, hi⟩ := mem_keys_enumTag hx
      rw [hi, hj] at he
      injection he with h1 _
      exact absurd h1 (by decide)
    · obtain ⟨i, hi⟩ := mem_keys_enumTag hx
      rw [hi, hj] at he
      injection he with h1 _
      exact absurd h1 (by decide)

theorem C02_nodes_default_in_space (o : NodesObs) (ok : o.Ok) : contains o.space o.default = true := by
  unfold NodesObs.space NodesObs.default
  exact contains_dict_of_par ((Par.append (Par.enumTag _ _ _ _ _ (fun h hh => C02_host_default_in_space h (ok h hh)))
    (Par.enumTag _ _ _ _ _ (fun r _ => C02_router_default_in_space r))).append
    (Par.enumTag _ _ _ _ _ (fun f _ => C02_firewall_default_in_space f))) (nodesKeys_nodup _ _ _)

theorem C02_nodes_in_space (o : NodesObs) (st : SimState) (w : WfState st) (ok : o.Ok)
    (c : o.CfgOk) : contains o.space (o.val st) = true := by
  unfold NodesObs.space NodesObs.val
  exact contains_dict_of_par ((Par.append (Par.enumTag _ _ _ _ _ (fun h hh => C02_host_in_space h st w (ok h hh)))
    (Par.enumTag _ _ _ _ _ (fun r hr => C02_router_in_space r st w (c r hr)))).append
    (Par.enumTag _ _ _ _ _ (fun f hf => C02_firewall_in_space f st w))) (nodesKeys_nodup _ _ _)

/-- with hosts only (no ACL-carrying component) the statement is unconditional in the configuration and the state -/
theorem C02_hosts_in_space (hosts : List HostObs) (st : SimState) (w : WfState st)
    (ok : ∀ h ∈ hosts, h.Ok) :
    contains (NodesObs.space { hosts := hosts, routers := [], firewalls := [] })
      (NodesObs.val { hosts := hosts, routers := [], firewalls := [] } st) = true :=
  C02_nodes_in_space _ st w ok (by intro r hr; simp at hr)

/-! ### any observation object (NestedObservation included), and trajectories -/

mutual
/-- memory / configuration invariant of an observation object: folder caches hold legal codes, dictionaries have distinct keys -/
def Obs.Ok : Obs → Prop
  | .folder o => o.Ok
  | .nic o => o.Ok
  | .host o => o.Ok
  | .nodes o => o.Ok
  | .nested cs => (cs.map Prod.fst).Nodup ∧ Obs.OkL cs
  | _ => True
def Obs.OkL : List (String × Obs) → Prop
  | [] => True
  | c :: cs => c.2.Ok ∧ Obs.OkL cs
end

mutual
/-- construction invariant of the ACL-carrying parts: id tables without repeated entry.  NOT an exclusion of states or configurations
(F-6 is repaired): it holds of everything the constructors build (`C02_acl_fromConfig_cfgOk`, `C02_raw_build_cfgOk`). -/
def Obs.CfgOk : Obs → Prop
  | .acl o => o.CfgOk
  | .router o => o.CfgOk
  | .nodes o => o.CfgOk
  | .nested cs => Obs.CfgOkL cs
  | _ => True
def Obs.CfgOkL : List (String × Obs) → Prop
  | [] => True
  | c :: cs => c.2.CfgOk ∧ Obs.CfgOkL cs
end

theorem keysOf_spaceL (cs : List (String × Obs)) : keysOf (Obs.spaceL cs) = (cs.map Prod.fst).map Key.s := by
  induction cs with
  | nil => rfl
  | cons c cs ih => simp [Obs.spaceL, keysOf_cons, ih]

theorem spaceL_nodup (cs : List (String × Obs)) (h : (cs.map Prod.fst).Nodup) : (keysOf (Obs.spaceL cs)).Nodup := by
  rw [keysOf_spaceL]
  exact List.Pairwise.map _ (fun a b (h : a ≠ b) he => h (by injection he)) h

mutual
/-- **C02, top level (full: `Ok` and `CfgOk` are invariants of construction, no state or configuration is excluded)**: for every observation object — any nesting of any
classes, any slot counts, thresholds and flags — and every well-formed simulation state, the value returned by `observe` is
a member of the declared `space`. -/
theorem C02_obs_in_space (st : SimState) (w : WfState st) :
    ∀ o : Obs, o.Ok → o.CfgOk → contains o.space (o.val st) = true
  | .null, _, _ => (by decide : contains (.discrete 1) (.int 0) = true)
  | .service o, _, _ => C02_service_in_space o st w
  | .app o, _, _ => C02_application_in_space o st w
  | .file o, _, _ => C02_file_in_space o st w
  | .folder o, ok, _ => C02_folder_in_space o st w ok
  | .nic o, ok, _ => C02_nic_in_space o st w ok
  | .port o, _, _ => C02_port_in_space o st
  | .link o, _, _ => C02_link_in_space o st w
  | .links os, _, _ => C02_links_in_space os st w
  | .acl o, _, c => C02_acl_in_space o st w c
  | .host o, ok, _ => C02_host_in_space o st w ok
  | .router o, _, c => C02_router_in_space o st w c
  | .firewall o, _, _ => C02_firewall_in_space o st w
  | .nodes o, ok, c => C02_nodes_in_space o st w ok c
  | .nested cs, ok, c => by
    simp only [Obs.space, Obs.val]
    exact contains_dict_of_par (C02_nested_par st w cs ok.2 c) (spaceL_nodup cs ok.1)
theorem C02_nested_par (st : SimState) (w : WfState st) :
    ∀ cs : List (String × Obs), Obs.OkL cs → Obs.CfgOkL cs → Par (Obs.spaceL cs) (Obs.valL st cs)
  | [], _, _ => Par.nil
  | c :: cs, ok, cp => Par.cons (C02_obs_in_space st w c.2 ok.1 cp.1) (C02_nested_par st w cs ok.2 cp.2)
end

mutual
/-- every `default_observation` is a member of the space (no hypothesis on any state) -/
theorem C02_default_in_space : ∀ o : Obs, o.Ok → contains o.space o.default = true
  | .null, _ => (by decide : contains (.discrete 1) (.int 0) = true)
  | .service _, _ => (by decide : contains serviceSpace serviceDefault = true)
  | .app _, _ => (by decide : contains appSpace appDefault = true)
  | .file o, _ => C02_file_default_in_space o
  | .folder o, _ => C02_folder_default_in_space o
  | .nic o, ok => C02_nic_default_in_space o ok
  | .port _, _ => (by decide : contains portSpace portDefault = true)
  | .link _, _ => (by decide : contains linkSpace linkDefault = true)
  | .links os, _ => by simp only [Obs.space, Obs.default]; exact enum_const_in_space _ _ _ (by decide)
  | .acl o, _ => C02_acl_default_in_space o
  | .host o, ok => C02_host_default_in_space o ok
  | .router o, _ => C02_router_default_in_space o
  | .firewall o, _ => C02_firewall_default_in_space o
  | .nodes o, ok => C02_nodes_default_in_space o ok
  | .nested cs, ok => by
    simp only [Obs.space, Obs.default]
    exact contains_dict_of_par (C02_default_par cs ok.2) (spaceL_nodup cs ok.1)
theorem C02_default_par : ∀ cs : List (String × Obs), Obs.OkL cs → Par (Obs.spaceL cs) (Obs.defaultL cs)
  | [], _ => Par.nil
  | c :: cs, ok => Par.cons (C02_default_in_space c.2 ok.1) (C02_default_par cs ok.2)
end

/-! #### the space does not move: observing mutates the objects' memory, never their space -/

theorem FolderObs.space_next (o : FolderObs) (st : SimState) : (o.next st).space = o.space := by
  unfold FolderObs.next; split <;> rfl

theorem FolderObs.default_next (o : FolderObs) (st : SimState) : (o.next st).default = o.default := by
  unfold FolderObs.next; split <;> rfl

theorem NicObs.space_next (o : NicObs) (st : SimState) : (o.next st).space = o.space := by
  unfold NicObs.next; split
  · rfl
  · split
    · split <;> rfl
    · rfl

theorem map_isEmpty {α β} (f : α → β) (l : List α) : (l.map f).isEmpty = l.isEmpty := by cases l <;> rfl

theorem HostObs.space_next (o : HostObs) (st : SimState) : (o.next st).space = o.space := by
  unfold HostObs.next; split
  · rfl
  · split
    · simp only [HostObs.space, map_isEmpty, List.map_map]
      have h1 : (FolderObs.space ∘ fun x => x.next st) = FolderObs.space := by funext x; exact FolderObs.space_next x st
      have h2 : (NicObs.space ∘ fun x => NicObs.next x st) = NicObs.space := by
        funext x; exact NicObs.space_next x st
      rw [h1, h2]
    · rfl

theorem NodesObs.space_next (o : NodesObs) (st : SimState) : (o.next st).space = o.space := by
  simp only [NodesObs.next, NodesObs.space, List.map_map]
  have h1 : (HostObs.space ∘ fun x => HostObs.next x st) = HostObs.space := by
    funext x; exact HostObs.space_next x st
  rw [h1]

mutual
/-- **space_const**: the declared space is the same after any number of `observe` calls, on any states. -/
theorem C02_space_const (st : SimState) : ∀ o : Obs, (o.next st).space = o.space
  | .null => rfl
  | .service _ => rfl
  | .app _ => rfl
  | .file _ => rfl
  | .folder o => by simp only [Obs.next, Obs.space]; exact FolderObs.space_next o st
  | .nic o => by simp only [Obs.next, Obs.space]; exact NicObs.space_next o st
  | .port _ => rfl
  | .link _ => rfl
  | .links os => by simp [Obs.next, Obs.space, Function.comp_def]
  | .acl _ => rfl
  | .host o => by simp only [Obs.next, Obs.space]; exact HostObs.space_next o st
  | .router _ => rfl
  | .firewall _ => rfl
  | .nodes o => by simp only [Obs.next, Obs.space]; exact NodesObs.space_next o st
  | .nested cs => by simp only [Obs.next, Obs.space]; rw [C02_spaceL_const st cs]
theorem C02_spaceL_const (st : SimState) :
    ∀ cs : List (String × Obs), Obs.spaceL (Obs.nextL st cs) = Obs.spaceL cs
  | [] => rfl
  | c :: cs => by simp only [Obs.nextL, Obs.spaceL]; rw [C02_space_const st c.2, C02_spaceL_const st cs]
end

theorem HostObs.ok_next (o : HostObs) (st : SimState) (w : WfState st) (ok : o.Ok) :
    (o.next st).Ok := by
  unfold HostObs.next; split
  · exact ok
  · split
    · refine ⟨?_, ?_⟩
      · intro f hf
        obtain ⟨g, hg, rfl⟩ := List.mem_map.mp hf
        exact C02_folder_ok_next g st w (ok.1 g hg)
      · intro n hn
        obtain ⟨g, hg, rfl⟩ := List.mem_map.mp hn
        exact C02_nic_ok_next g st (ok.2 g hg)
    · exact ok

theorem nextL_labels (st : SimState) : ∀ cs : List (String × Obs),
    (Obs.nextL st cs).map Prod.fst = cs.map Prod.fst
  | [] => rfl
  | c :: cs => by simp [Obs.nextL, nextL_labels st cs]

mutual
theorem C02_ok_next (st : SimState) (w : WfState st) : ∀ o : Obs, o.Ok → (o.next st).Ok
  | .null, h => h
  | .service _, h => h
  | .app _, h => h
  | .file _, h => h
  | .folder o, h => by simp only [Obs.next, Obs.Ok]; exact C02_folder_ok_next o st w h
  | .nic o, h => by simp only [Obs.next, Obs.Ok]; exact C02_nic_ok_next o st h
  | .port _, h => h
  | .link _, _ => by simp [Obs.next, Obs.Ok]
  | .links _, _ => by simp [Obs.next, Obs.Ok]
  | .acl _, h => h
  | .host o, h => by simp only [Obs.next, Obs.Ok]; exact HostObs.ok_next o st w h
  | .router _, h => h
  | .firewall _, h => h
  | .nodes o, h => by
    simp only [Obs.next, Obs.Ok, NodesObs.Ok, NodesObs.next]
    intro x hx
    obtain ⟨g, hg, rfl⟩ := List.mem_map.mp hx
    exact HostObs.ok_next g st w (h g hg)
  | .nested cs, h => by
    simp only [Obs.next, Obs.Ok]
    exact ⟨by rw [nextL_labels]; exact h.1, C02_okL_next st w cs h.2⟩
theorem C02_okL_next (st : SimState) (w : WfState st) :
    ∀ cs : List (String × Obs), Obs.OkL cs → Obs.OkL (Obs.nextL st cs)
  | [], h => h
  | c :: cs, h => ⟨C02_ok_next st w c.2 h.1, C02_okL_next st w cs h.2⟩
end

mutual
theorem cfgOk_next (st : SimState) : ∀ o : Obs, o.CfgOk → (o.next st).CfgOk
  | .null, h => h
  | .service _, h => h
  | .app _, h => h
  | .file _, h => h
  | .folder _, _ => by simp [Obs.next, Obs.CfgOk]
  | .nic _, _ => by simp [Obs.next, Obs.CfgOk]
  | .port _, h => h
  | .link _, _ => by simp [Obs.next, Obs.CfgOk]
  | .links _, _ => by simp [Obs.next, Obs.CfgOk]
  | .acl _, h => h
  | .host _, _ => by simp [Obs.next, Obs.CfgOk]
  | .router _, h => h
  | .firewall _, h => h
  | .nodes _, h => h
  | .nested cs, h => by simp only [Obs.next, Obs.CfgOk]; exact cfgOkL_next st cs h
theorem cfgOkL_next (st : SimState) :
    ∀ cs : List (String × Obs), Obs.CfgOkL cs → Obs.CfgOkL (Obs.nextL st cs)
  | [], h => h
  | c :: cs, h => ⟨cfgOk_next st c.2 h.1, cfgOkL_next st cs h.2⟩
end

/-- **C02 along a trajectory**: starting from any object satisfying the invariant (in particular a freshly built one), every
observation reported along ANY sequence of well-formed states is a member of the ONE space declared at the start. -/
theorem C02_run_in_space : ∀ (sts : List SimState) (o : Obs), o.Ok → o.CfgOk →
    (∀ st ∈ sts, WfState st) → ∀ v ∈ o.run sts, contains o.space v = true := by
  intro sts
  induction sts with
  | nil => intro o _ _ _ v hv; simp [Obs.run] at hv
  | cons st rest ih =>
    intro o ok c h v hv
    have hst := h st (by simp)
    simp only [Obs.run, List.mem_cons] at hv
    rcases hv with hv | hv
    · subst hv; exact C02_obs_in_space st hst o ok c
    · have := ih (o.next st) (C02_ok_next st hst o ok) (cfgOk_next st o c) (fun st' hst' => h st' (by simp [hst'])) v hv
      rwa [C02_space_const] at this

/-! #### non-vacuity: a concrete host observation on a concrete non-trivial state -/

def exHost : HostObs :=
  { wh := some "pc", services := [{ wh := some ("pc", "dns"), scan := true }, { wh := none, scan := true }],
    apps := [{ wh := some ("pc", "browser"), scan := false, thr := {} }],
    folders := [{ wh := some ("pc", "root"), scan := true, files := [{ wh := some ("pc", "root", "a.txt"), numAccess := true, scan := true, thr := {} }] }],
    nics := [{ wh := some ("pc", 1), includeNmne := true, traffic := [("icmp", []), ("tcp", [80, 80, 443])], thr := {} }],
    numAccess := true, users := true }

def exState : SimState :=
  { nodes := [("pc", { op := 1, services := [("dns", { op := 6, healthActual := 3, healthVisible := 1 })],
                        apps := [("browser", { op := 3, healthActual := 4, healthVisible := 0, numExec := 99 })],
                        folders := [("root", { health := 3, visible := 4, scanned := true,
                                               files := [("a.txt", { health := 4, visible := 2, numAccess := 50 })] })],
                        nics := [(1, { enabled := false, speed := 100, icmp := some { inb := 5, outb := 1000 },
                                       ports := [("tcp", [(80, { inb := 150, outb := 0 })])], nmne := some (40, 3) })],
                        numCreations := 17, numDeletions := 4, usm := some { localUser := true, remote := 9 }, acls := [] })],
    links := [] }

example : WfState exState ∧ (Obs.host exHost).Ok ∧ (Obs.host exHost).CfgOk ∧
    contains exHost.space (exHost.val exState) = true ∧ (exHost.val exState).raises = false := by
  refine ⟨⟨?_, by simp [exState]⟩, ⟨?_, ?_⟩, trivial, by decide, by decide⟩
  · intro p hp
    simp only [exState, List.mem_singleton] at hp
    subst hp
    refine ⟨by decide, ?_, ?_, ?_, ?_, rfl, by simp⟩
    · intro q hq; simp only [List.mem_singleton] at hq; subst hq; exact ⟨by decide, by decide, by decide⟩
    · intro q hq; simp only [List.mem_singleton] at hq; subst hq; exact ⟨by decide, by decide, by decide⟩
    · intro q hq; simp only [List.mem_singleton] at hq; subst hq
      refine ⟨by decide, by decide, ?_⟩
      intro r hr; simp only [List.mem_singleton] at hr; subst hr; exact ⟨by decide, by decide⟩
    · intro q hq; simp only [List.mem_singleton] at hq; subst hq; exact (by decide : 0 < 100)
  · intro f hf; simp only [exHost, List.mem_singleton] at hf; subst hf; exact (by decide : (0 : Nat) ∈ FileSystemItemHealthStatus.values)
  · intro n hn; simp only [exHost, List.mem_singleton] at hn; subst hn; exact (by decide : (["icmp", "tcp"] : List String).Nodup)

end Primaite.Obs
