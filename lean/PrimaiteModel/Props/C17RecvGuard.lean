/-
C17, round 7 second shift (blind change C17-h) — "while the service is stopped, its node is off …, no client can connect, query or
restore" stated on the TRANSLATED dispatcher itself (Gen/DatabaseTr.lean), independent of the equality proof `C17_tr_receive`
and independent of what else runs on the node (the node's port demultiplexing is NOT used: the service's own guard must refuse).
-/
import PrimaiteModel.Model.Database
import PrimaiteModel.Gen.DatabaseTr
namespace Primaite.Database
open Primaite.Gen

/-- **A service that is not RUNNING handles nothing.**  For every server state (any table, file, health, password), every sender and
every raw payload (well-formed or not, any connection id — in particular one the service issued earlier and the client kept): if the
service's operating state is not RUNNING, the translated `DatabaseService.receive` returns False, sends nothing, and leaves the whole
server (connection table, file health, service health, id counter) exactly as it was. -/
theorem C17_gen_receive_not_running (s : Server) (src : Nat) (raw : Raw) (h : s.op ≠ .running) :
    DatabaseTr.receive s src raw = (s, RecvOut.ret none false) := by
  have hc : s.canAct = false := by
    unfold Server.canAct
    cases hop : s.op <;> simp_all
  unfold DatabaseTr.receive
  simp [hc, h]

/-- the same for a node that is not ON -/
theorem C17_gen_receive_node_off (s : Server) (src : Nat) (raw : Raw) (h : s.node.isOn = false) :
    DatabaseTr.receive s src raw = (s, RecvOut.ret none false) := by
  have hc : s.canAct = false := by unfold Server.canAct; simp [h]
  unfold DatabaseTr.receive
  simp [hc, h]

end Primaite.Database
