/-
C16 — one client connection per session id (reachable-state invariant), and what a client-side logoff therefore achieves.
-/
import PrimaiteModel.Props.C16
namespace Primaite.Session

/-- Terminal connections of the whole network, as the invariant sees them.
* `ids`: every connection id and every local-session id has been handed out (is below the counter);
* `pair`: two nodes hold a connection with the same id only if each names the other as its peer — so an id has at most one
  client-side and one server-side connection, and no third node can hold it;
* `priv`: the id of a node's local session is not a connection id, nor the local-session id, of any other node. -/
structure ConnInv (n : Net) : Prop where
  ids : ∀ j a c, n.node j = some a → c ∈ a.conns → c.id < n.nextId
  locIds : ∀ j a l, n.node j = some a → a.loc = some l → l.id < n.nextId
  pair : ∀ j j' a a' c c', n.node j = some a → n.node j' = some a' → j ≠ j' → c ∈ a.conns → c' ∈ a'.conns → c.id = c'.id →
    c.peer = some j' ∧ c'.peer = some j
  priv : ∀ j j' a a' l, n.node j = some a → n.node j' = some a' → j ≠ j' → a.loc = some l →
    (∀ c' ∈ a'.conns, c'.id ≠ l.id) ∧ (∀ l', a'.loc = some l' → l'.id ≠ l.id)

/-- connections only disappear, the local session stays or ends -/
def ConnShr : Nat → Node → Node → Prop := fun _ a b => b.conns.Sublist a.conns ∧ (b.loc = a.loc ∨ b.loc = none)

theorem connShr_frame : Frame ConnShr :=
  { refl := fun _ _ => ⟨List.Sublist.refl _, Or.inl rfl⟩,
    trans := fun _ _ _ _ h1 h2 => ⟨h2.1.trans h1.1, by
      rcases h2.2 with h | h
      · rcases h1.2 with g | g
        · exact Or.inl (h.trans g)
        · exact Or.inr (h.trans g)
      · exact Or.inr h⟩,
    shr := fun _ _ _ h => ⟨h.conns, h.loc⟩,
    data := fun _ _ _ h => ⟨by rw [data_conns h]; exact List.Sublist.refl _, Or.inl (data_loc h)⟩ }

/-- the invariant survives everything that only removes connections / ends local sessions and does not lower the counter -/
theorem connInv_of_connShr {n m : Net} (h : Net.Rel ConnShr n m) (hid : n.nextId ≤ m.nextId) (hi : ConnInv n) : ConnInv m := by
  have back : ∀ {j b}, m.node j = some b → ∃ a, n.node j = some a ∧ ConnShr j a b := fun hb => Net.Rel.back_of_len h hb
  have locOf : ∀ {j : Nat} {a b : Node} {l : LSession}, ConnShr j a b → b.loc = some l → a.loc = some l := by
    intro j a b l hab hl
    rcases hab.2 with g | g
    · rw [← g]; exact hl
    · rw [g] at hl; cases hl
  refine ⟨?_, ?_, ?_, ?_⟩
  · intro j b c hb hc
    obtain ⟨a, ha, hab⟩ := back hb
    exact Nat.lt_of_lt_of_le (hi.ids j a c ha (hab.1.subset hc)) hid
  · intro j b l hb hl
    obtain ⟨a, ha, hab⟩ := back hb
    exact Nat.lt_of_lt_of_le (hi.locIds j a l ha (locOf hab hl)) hid
  · intro j j' b b' c c' hb hb' hne hc hc' hid'
    obtain ⟨a, ha, hab⟩ := back hb
    obtain ⟨a', ha', hab'⟩ := back hb'
    exact hi.pair j j' a a' c c' ha ha' hne (hab.1.subset hc) (hab'.1.subset hc') hid'
  · intro j j' b b' l hb hb' hne hl
    obtain ⟨a, ha, hab⟩ := back hb
    obtain ⟨a', ha', hab'⟩ := back hb'
    obtain ⟨h1, h2⟩ := hi.priv j j' a a' l ha ha' hne (locOf hab hl)
    exact ⟨fun c' hc' => h1 c' (hab'.1.subset hc'), fun l' hl' => h2 l' (locOf hab' hl')⟩

theorem mem_putConn {l : List Conn} {d c : Conn} (h : c ∈ putConn l d) : c ∈ l ∨ c = d := by
  unfold putConn at h
  split at h
  · obtain ⟨e, he, hce⟩ := List.mem_map.mp h
    split at hce
    · exact Or.inr hce.symm
    · exact Or.inl (hce ▸ he)
  · rcases List.mem_append.mp h with h | h
    · exact Or.inl h
    · exact Or.inr (by simpa using h)

/-- the local login keeps the invariant -/
theorem connInv_localLogin (n : Net) (y : Nat) (u p : String) (hi : ConnInv n) : ConnInv (localLogin n y u p).1 := by
  rcases localLogin_cases n y u p with h | ⟨nd, hnd, _, h⟩
  · rw [h]; exact hi
  · rw [h]; dsimp only
    rcases localLoginCore_fst nd u n.time n.nextId with ⟨h1, h2, _⟩ | ⟨h1, h2, _, _⟩
    · -- nothing changes
      have : n.upd y (fun nd => (nd.localLoginCore u n.time n.nextId).1) = n := by
        have hn : ∀ j, (n.upd y (fun nd => (nd.localLoginCore u n.time n.nextId).1)).node j = n.node j := by
          intro j; simp only [node_upd]; split
          · rename_i hj; subst hj; rw [hnd]; simp [h1]
          · rfl
        cases n with
        | mk nodes time nextId stuck blocked hairpin =>
          simp only [Net.upd, Net.mk.injEq, and_true, true_and]
          apply List.ext_getElem?
          intro j; exact hn j
      rw [this, h2]
      exact ⟨hi.ids, hi.locIds, hi.pair, hi.priv⟩
    · rw [h2]
      simp only [if_true]
      -- node y gets the local session ⟨nextId, u, time⟩; everything else is as before
      have nodeOf : ∀ j b, ((n.upd y (fun nd => (nd.localLoginCore u n.time n.nextId).1)).bump (n.nextId + 1)).node j = some b →
          ∃ a, n.node j = some a ∧ b.conns = a.conns ∧
            ((j = y ∧ b.loc = some ⟨n.nextId, u, n.time⟩) ∨ (j ≠ y ∧ b.loc = a.loc)) := by
        intro j b hb
        simp only [node_bump, node_upd] at hb
        by_cases hj : y = j
        · subst hj
          simp only [if_true, hnd, Option.map_some, Option.some.injEq] at hb
          subst hb
          exact ⟨nd, hnd, by rw [h1]; rfl, Or.inl ⟨rfl, by rw [h1]; rfl⟩⟩
        · simp only [hj, if_false] at hb
          exact ⟨b, hb, rfl, Or.inr ⟨fun h => hj h.symm, rfl⟩⟩
      refine ⟨?_, ?_, ?_, ?_⟩
      · intro j b c hb hc
        obtain ⟨a, ha, hcs, _⟩ := nodeOf j b hb
        have := hi.ids j a c ha (hcs ▸ hc)
        simp only [bump_nextId]; omega
      · intro j b l hb hl
        obtain ⟨a, ha, _, hloc⟩ := nodeOf j b hb
        simp only [bump_nextId]
        rcases hloc with ⟨_, h⟩ | ⟨_, h⟩
        · rw [h] at hl; cases hl; simp
        · have := hi.locIds j a l ha (h ▸ hl); omega
      · intro j j' b b' c c' hb hb' hne hc hc' hid
        obtain ⟨a, ha, hcs, _⟩ := nodeOf j b hb
        obtain ⟨a', ha', hcs', _⟩ := nodeOf j' b' hb'
        exact hi.pair j j' a a' c c' ha ha' hne (hcs ▸ hc) (hcs' ▸ hc') hid
      · intro j j' b b' l hb hb' hne hl
        obtain ⟨a, ha, hcs, hloc⟩ := nodeOf j b hb
        obtain ⟨a', ha', hcs', hloc'⟩ := nodeOf j' b' hb'
        rcases hloc with ⟨hjy, h⟩ | ⟨hjy, h⟩
        · rw [h] at hl; cases hl
          refine ⟨fun c' hc' heq => ?_, fun l' hl' heq => ?_⟩
          · have := hi.ids j' a' c' ha' (hcs' ▸ hc'); simp only at heq; omega
          · rcases hloc' with ⟨hj'y, _⟩ | ⟨_, h'⟩
            · exact hne (hjy.trans hj'y.symm)
            · have := hi.locIds j' a' l' ha' (h' ▸ hl'); simp only at heq; omega
        · obtain ⟨p1, p2⟩ := hi.priv j j' a a' l ha ha' hne (h ▸ hl)
          refine ⟨fun c' hc' => p1 c' (hcs' ▸ hc'), fun l' hl' => ?_⟩
          rcases hloc' with ⟨_, h'⟩ | ⟨_, h'⟩
          · rw [h'] at hl'; cases hl'
            have := hi.locIds j a l ha (h ▸ hl); simp only; omega
          · exact p2 l' (h' ▸ hl')

/-- `m'` is `m` with connection `d` put into the terminal of node `y` (sessions and everything else are not looked at) -/
def PutAt (m m' : Net) (y : Nat) (d : Conn) : Prop :=
  ∀ j b', m'.node j = some b' → ∃ b, m.node j = some b ∧ b'.loc = b.loc ∧ b'.conns = if j = y then putConn b.conns d else b.conns

/-- putting a connection whose id is either new or properly paired keeps the invariant -/
theorem connInv_put {m m' : Net} {y : Nat} {d : Conn} (hm : ConnInv m) (hput : PutAt m m' y d) (hK : m.nextId ≤ m'.nextId)
    (hid : d.id < m'.nextId)
    (hpair : ∀ j' a' c', j' ≠ y → m.node j' = some a' → c' ∈ a'.conns → c'.id = d.id → d.peer = some j' ∧ c'.peer = some y)
    (hpriv : ∀ j' a' l, j' ≠ y → m.node j' = some a' → a'.loc = some l → l.id ≠ d.id) : ConnInv m' := by
  have memOf : ∀ {j : Nat} {b b' : Node} {c : Conn}, b'.conns = (if j = y then putConn b.conns d else b.conns) → c ∈ b'.conns →
      c ∈ b.conns ∨ (j = y ∧ c = d) := by
    intro j b b' c hcs hc
    rw [hcs] at hc
    split at hc
    · rename_i hj
      rcases mem_putConn hc with h | h
      · exact Or.inl h
      · exact Or.inr ⟨hj, h⟩
    · exact Or.inl hc
  refine ⟨?_, ?_, ?_, ?_⟩
  · intro j b' c hb' hc
    obtain ⟨b, hb, _, hcs⟩ := hput j b' hb'
    rcases memOf hcs hc with h | ⟨_, h⟩
    · exact Nat.lt_of_lt_of_le (hm.ids j b c hb h) hK
    · rw [h]; exact hid
  · intro j b' l hb' hl
    obtain ⟨b, hb, hloc, _⟩ := hput j b' hb'
    exact Nat.lt_of_lt_of_le (hm.locIds j b l hb (hloc ▸ hl)) hK
  · intro j j' b1' b2' c c' hb1' hb2' hne hc hc' heq
    obtain ⟨b1, hb1, _, hcs1⟩ := hput j b1' hb1'
    obtain ⟨b2, hb2, _, hcs2⟩ := hput j' b2' hb2'
    rcases memOf hcs1 hc with h1 | ⟨hj, h1⟩ <;> rcases memOf hcs2 hc' with h2 | ⟨hj', h2⟩
    · exact hm.pair j j' b1 b2 c c' hb1 hb2 hne h1 h2 heq
    · subst h2; subst hj'
      have := hpair j b1 c hne hb1 h1 heq
      exact ⟨this.2, this.1⟩
    · subst h1; subst hj
      exact hpair j' b2 c' (fun h => hne h.symm) hb2 h2 heq.symm
    · exact (hne (hj.trans hj'.symm)).elim
  · intro j j' b1' b2' l hb1' hb2' hne hl
    obtain ⟨b1, hb1, hloc1, _⟩ := hput j b1' hb1'
    obtain ⟨b2, hb2, hloc2, hcs2⟩ := hput j' b2' hb2'
    obtain ⟨p1, p2⟩ := hm.priv j j' b1 b2 l hb1 hb2 hne (hloc1 ▸ hl)
    refine ⟨fun c' hc' => ?_, fun l' hl' => p2 l' (hloc2 ▸ hl')⟩
    rcases memOf hcs2 hc' with h2 | ⟨hj', h2⟩
    · exact p1 c' h2
    · subst h2; subst hj'
      exact fun h => hpriv j b1 l hne hb1 (hloc1 ▸ hl) h.symm

theorem putAt_upd (m : Net) (y : Nat) (d : Conn) (g : Node → Node) (hg : ∀ b, (g b).loc = b.loc ∧ (g b).conns = b.conns)
    (k : Nat) : PutAt m ((m.upd y (fun b => (g b).addConn d)).bump k) y d := by
  intro j b' hb'
  simp only [node_bump, node_upd] at hb'
  by_cases hj : y = j
  · subst hj
    simp only [if_true] at hb'
    cases hb : m.node y with
    | none => rw [hb] at hb'; cases hb'
    | some b =>
      rw [hb] at hb'; simp only [Option.map_some, Option.some.injEq] at hb'; subst hb'
      exact ⟨b, rfl, (hg b).1, by simp [Node.addConn, (hg b).2]⟩
  · simp only [hj, if_false] at hb'
    exact ⟨b', hb', rfl, by rw [if_neg (fun h => hj h.symm)]⟩

theorem localLogin_id {n : Net} {y : Nat} {u p : String} {id : Nat} (hid : (localLogin n y u p).2 = some id) :
    ∃ b l, (localLogin n y u p).1.node y = some b ∧ b.loc = some l ∧ l.id = id := by
  rcases localLogin_cases n y u p with h | ⟨nd, hnd, _, h⟩
  · rw [h] at hid; cases hid
  · rw [h] at hid ⊢
    simp only [Option.some.injEq] at hid
    simp only [node_bump, node_upd, if_true, hnd, Option.map_some]
    rcases localLoginCore_fst nd u n.time n.nextId with ⟨h1, _, l, hl, _, h3⟩ | ⟨h1, _, h3, _⟩
    · exact ⟨_, l, rfl, by rw [h1]; exact hl, by rw [← hid, h3]⟩
    · exact ⟨_, ⟨n.nextId, u, n.time⟩, rfl, by rw [h1]; rfl, by rw [← hid, h3]⟩

/-- the local terminal connection of `send_local_command` keeps the invariant -/
theorem connInv_localConn (n : Net) (y : Nat) (u p : String) (id : Nat) (hid : (localLogin n y u p).2 = some id)
    (hi : ConnInv n) : ConnInv ((localLogin n y u p).1.upd y (Node.addConn ⟨id, none⟩)) := by
  have h1 := connInv_localLogin n y u p hi
  obtain ⟨b, l, hb, hl, hlid⟩ := localLogin_id hid
  have hput := putAt_upd (localLogin n y u p).1 y ⟨id, none⟩ (fun b => b) (fun b => ⟨rfl, rfl⟩) (localLogin n y u p).1.nextId
  refine connInv_put h1 hput (Nat.le_refl _) ?_ ?_ ?_
  · show id < _
    rw [← hlid]; exact h1.locIds y b l hb hl
  · intro j' a' c' hne ha' hc' heq
    exact ((h1.priv y j' b a' l hb ha' (fun h => hne h.symm) hl).1 c' hc' (by rw [hlid]; exact heq)).elim
  · intro j' a' l' hne ha' hl'
    have := (h1.priv y j' b a' l hb ha' (fun h => hne h.symm) hl).2 l' hl'
    rw [hlid] at this; exact this

/-- without the hairpin (hosts on one switch) a node never reaches itself -/
theorem canDeliver_ne {n : Net} {x y : Nat} (hp : n.hairpin = false) (h : canDeliver n x y = true) : x ≠ y := by
  unfold canDeliver at h
  split at h
  · simp only [hp, Bool.or_false, Bool.and_eq_true, bne_iff_ne, ne_eq] at h; exact h.1.1.1.1
  · cases h

/-- a remote login (both connections carry the fresh id and name each other) keeps the invariant -/
theorem connInv_remoteLogin (n : Net) (x y : Nat) (u p : String) (hi : ConnInv n) : ConnInv (opRemoteLogin n x y u p).1 := by
  rcases opRemoteLogin_cases n x y u p with ⟨h0, _⟩ | ⟨a, b, _, _, hdel, _, _, _, h0⟩
  · rw [h0]; exact hi
  · have hA : ConnInv (afterLogin n x y u) := by
      unfold afterLogin
      refine connInv_put hi (putAt_upd n y ⟨n.nextId, some x⟩ (fun b => b.addSession ⟨n.nextId, u, n.time, x⟩) (fun b => ⟨rfl, rfl⟩) _)
        (by simp) (by simp) ?_ ?_
      · intro j' a' c' _ ha' hc' heq
        have := hi.ids j' a' c' ha' hc'; simp only at heq; omega
      · intro j' a' l _ ha' hl heq
        have := hi.locIds j' a' l ha' hl; simp only at heq; omega
    rcases h0 with ⟨h0, _⟩ | ⟨h0, _⟩ <;> rw [h0]
    · exact hA
    · have hput : PutAt (afterLogin n x y u) ((afterLogin n x y u).upd x (Node.addConn ⟨n.nextId, some y⟩)) x ⟨n.nextId, some y⟩ :=
        putAt_upd (afterLogin n x y u) x ⟨n.nextId, some y⟩ (fun b => b) (fun b => ⟨rfl, rfl⟩) (afterLogin n x y u).nextId
      refine connInv_put hA hput (Nat.le_refl _) (by simp [afterLogin]) ?_ ?_
      · intro j' a' c' hne ha' hc' heq
        -- a connection with the fresh id in the state after the target accepted: it is the target's new one
        obtain ⟨b0, hb0, _, hcs⟩ := putAt_upd n y ⟨n.nextId, some x⟩ (fun b => b.addSession ⟨n.nextId, u, n.time, x⟩)
          (fun b => ⟨rfl, rfl⟩) (n.nextId + 1) j' a' ha'
        rw [hcs] at hc'
        split at hc'
        · rename_i hj
          rcases mem_putConn hc' with h | h
          · have := hi.ids j' b0 c' hb0 h; simp only at heq; omega
          · subst h; subst hj; exact ⟨rfl, rfl⟩
        · have := hi.ids j' b0 c' hb0 hc'; simp only at heq; omega
      · intro j' a' l _ ha' hl heq
        have := hA.locIds j' a' l ha' hl
        obtain ⟨b0, hb0, hloc, _⟩ := putAt_upd n y ⟨n.nextId, some x⟩ (fun b => b.addSession ⟨n.nextId, u, n.time, x⟩)
          (fun b => ⟨rfl, rfl⟩) (n.nextId + 1) j' a' ha'
        have := hi.locIds j' b0 l hb0 (hloc ▸ hl); simp only at heq; omega

theorem connInv_of_rel {n m : Net} (h : Net.Rel ConnShr n m) (hid : n.nextId ≤ m.nextId) : ConnInv n → ConnInv m :=
  connInv_of_connShr h hid

/-- **C16, one client per id (invariant, one step).** Nested commands included. -/
theorem C16_conn_inv_step (n : Net) (op : Op) (hi : ConnInv n) : ConnInv (step n op).1 := by
  have F := connShr_frame
  have r : ∀ j (a : Node), ConnShr j a a := F.refl
  cases op with
  | enableUser y u => exact connInv_of_rel (F.toPre.enableUser n y u (fun a => r y a)) (step_nextId_mono n (.enableUser y u)) hi
  | addUserBypass y u p adm =>
    exact connInv_of_rel (F.toPre.addUserBypass n y u p adm (fun a _ => r y a)) (step_nextId_mono n (.addUserBypass y u p adm)) hi
  | localLogin y u p => simp only [step]; rw [opLocalLogin_fst]; exact connInv_localLogin n y u p hi
  | localLogout y => exact connInv_of_rel (F.localLogout n y) (step_nextId_mono n (.localLogout y)) hi
  | tick => exact connInv_of_rel (F.tick n) (step_nextId_mono n .tick) hi
  | setBlock x y on => exact connInv_of_rel (rel_setBlock F.refl n x y on) (Nat.le_refl _) hi
  | req y c =>
    refine exec_induction'' (fun n m => ConnInv n → ConnInv m) (fun _ h => h) (fun _ _ _ h1 h2 h => h2 (h1 h)) ?_
      (fun n y cid => connInv_of_rel (F.rel_shr F.shr (F.rel_refl n) (shr_disconnect _ _ _ _))
        (by rw [(shr_disconnect _ _ _ _).nextId]; exact Nat.le_refl _))
      (fun n y cid t => connInv_of_rel (F.rel_upd (F.rel_refl n) y _ (fun a => r y a)) (Nat.le_refl _))
      (fun n y u p => connInv_localLogin n y u p) (fun n y u p id hid => connInv_localConn n y u p id hid) c n y hi
    intro c hc n y hi
    have mono := exec_nextId_mono c n y
    cases c with
    | localCmd u p c => cases hc
    | remoteCmd z c => cases hc
    | remoteLogin z u p => exact connInv_remoteLogin n y z u p hi
    | file k => exact connInv_of_rel (F.toPre.file n y k (fun a => r y a)) mono hi
    | addUser u p adm => exact connInv_of_rel (F.toPre.addUser n y u p adm (fun a _ => r y a)) mono hi
    | disableUser u => exact connInv_of_rel (F.toPre.disableUser n y u (fun a => r y a)) mono hi
    | changePassword u o nw => exact connInv_of_rel (F.changePassword n y u o nw (fun a => r y a)) mono hi
    | remoteLogoff z => exact connInv_of_rel (F.remoteLogoff n y z) mono hi
    | usmLogin u p peer => exact connInv_of_rel (F.toPre.usmLogin n y u p peer (fun a _ => r y a)) mono hi
    | usmLogout i => exact connInv_of_rel (F.usmLogout n y i) mono hi
    | svc w v => exact connInv_of_rel (F.ofData n _ _ (opSvc_cases n _ _ _)) mono hi
    | shutdown => exact connInv_of_rel (F.ofData n _ _ (opShutdown_cases n _)) mono hi
    | startup => exact connInv_of_rel (F.ofData n _ _ (opStartup_cases n _)) mono hi
    | reset => exact connInv_of_rel (F.ofData n _ _ (opReset_cases n _)) mono hi

/-- **C16, one client per id (invariant).** Holds in every state reachable from a network without connections and local
sessions (in particular from a freshly built one). -/
theorem C16_conn_inv_run (ops : List Op) (n : Net) (hi : ConnInv n) : ConnInv (run n ops) := by
  induction ops generalizing n with
  | nil => exact hi
  | cons op ops ih => exact ih _ (C16_conn_inv_step n op hi)

theorem connInv_init (n : Net) (h : ∀ j a, n.node j = some a → a.conns = [] ∧ a.loc = none) : ConnInv n := by
  refine ⟨?_, ?_, ?_, ?_⟩
  · intro j a c ha hc; rw [(h j a ha).1] at hc; cases hc
  · intro j a l ha hl; rw [(h j a ha).2] at hl; cases hl
  · intro j _ a _ c _ ha _ _ hc _ _; rw [(h j a ha).1] at hc; cases hc
  · intro j _ a _ l ha _ _ hl; rw [(h j a ha).2] at hl; cases hl

/-- **C16, one client per id.** In a reachable state a session / connection id is held by at most two nodes, and these name
each other as peer: given the server-side connection of `y` for client `x`, no third node `z` holds a connection with that id,
so no third node can ever send a command on that session. -/
theorem C16_one_client_per_id (n : Net) (hi : ConnInv n) (y x z : Nat) (b a d : Node) (cs cx cz : Conn)
    (hb : n.node y = some b) (ha : n.node x = some a) (hd : n.node z = some d) (hcs : cs ∈ b.conns) (hcx : cx ∈ a.conns)
    (hcz : cz ∈ d.conns) (h1 : cx.id = cs.id) (h2 : cz.id = cs.id) (hxy : x ≠ y) (hzy : z ≠ y) : z = x := by
  have p1 := hi.pair y x b a cs cx hb ha (fun h => hxy h.symm) hcs hcx h1.symm
  have p2 := hi.pair y z b d cs cz hb hd (fun h => hzy h.symm) hcs hcz h2.symm
  have := p1.1.symm.trans p2.1
  cases this; rfl

theorem find_id_of_mem {l : List Conn} {c : Conn} (h : c ∈ l) : ∃ c', l.find? (fun d => d.id == c.id) = some c' := by
  have : (l.find? (fun d => d.id == c.id)).isSome = true := List.find?_isSome.mpr ⟨c, h, by simp⟩
  exact Option.isSome_iff_exists.mp this

/-- a `_disconnect` of an id the node holds removes it from that node, whatever else happens -/
theorem disconnect_drops (n : Net) (x cid : Nat) (a : Node) (c : Conn) (ha : n.node x = some a)
    (hc : a.conns.find? (fun d => d.id == cid) = some c) : (n.upd x (Node.dropConn cid)).Shr (disconnect n.fuel n x cid) := by
  have hf : n.fuel = (3 * n.totalConns + 3) + 1 := rfl
  unfold disconnect
  rw [hf]
  unfold chain
  simp only [ha, hc]
  split
  · exact shr_upd _ x _ shr_localLogout
  · split
    · exact shr_chain _ _ _ _ _
    · exact Net.Shr.refl _

/-- **C16, logoff.** In a reachable state, after the client `x` logged off from `y` (request answered `success`), no node other
than the target `y` itself holds a connection with the id of that session — the client's connection is gone and nobody else ever
had one — whatever the target did with the message (session ended; or kept until its time-out because the target was
unreachable or its session manager not running).  With `C16_remote_file_command` / `Carried`: nobody can run a command on that
session any more; remote-peer connections are only ever created with fresh ids (`C16_conn_inv_step`, `ids`). -/
theorem C16_logoff_drops_client (n : Net) (hi : ConnInv n) (x y : Nat) (a : Node) (cn : Conn) (ha : n.node x = some a)
    (hon : a.isOn = true) (hcn : a.conns.find? (fun c => c.peer == some y) = some cn) :
    (step n (.req x (.remoteLogoff y))).2 = .success ∧
    ∀ z b c', z ≠ y → (step n (.req x (.remoteLogoff y))).1.node z = some b → c' ∈ b.conns → c'.id ≠ cn.id := by
  have hres : step n (.req x (.remoteLogoff y)) = (disconnect n.fuel n x cn.id, .success) := by
    simp only [step, execCmd, opRemoteLogoff, ha, hon, hcn, Bool.not_true, Bool.false_eq_true, if_false]
  rw [hres]
  refine ⟨rfl, ?_⟩
  intro z b c' hzy hb hc' heq
  have hmem : cn ∈ a.conns := List.mem_of_find?_eq_some hcn
  have hpeer : cn.peer = some y := by have := List.find?_some hcn; simpa using this
  by_cases hzx : z = x
  · subst hzx
    obtain ⟨c0, hc0⟩ := find_id_of_mem hmem
    obtain ⟨b1, hb1, hs⟩ := (disconnect_drops n z cn.id a c0 ha hc0).back hb
    simp only [node_upd, if_true, ha, Option.map_some, Option.some.injEq] at hb1
    subst hb1
    have := hs.conns.subset hc'
    simp only [Node.dropConn, List.mem_filter, bne_iff_ne, ne_eq] at this
    exact this.2 heq
  · obtain ⟨b0, hb0, hs⟩ := (shr_disconnect n.fuel n x cn.id).back hb
    have := hi.pair x z a b0 cn c' ha hb0 (fun h => hzx h.symm) hmem (hs.conns.subset hc') heq.symm
    rw [hpeer] at this
    exact hzy (Option.some.inj this.1).symm

example : ConnInv demoNet := connInv_init demoNet (by
  intro j a ha
  match j, ha with
  | 0, ha => cases ha; exact ⟨rfl, rfl⟩
  | 1, ha => cases ha; exact ⟨rfl, rfl⟩
  | 2, ha => cases ha; exact ⟨rfl, rfl⟩)

-- the logoff hypotheses are met after a login: node 0 is ON and its first connection towards 1 exists
example : ((run demoNet [login01]).node 0).map (fun a => (a.isOn, (a.conns.find? (fun c => c.peer == some 1)).isSome)) = some (true, true) := by
  decide

end Primaite.Session
