/-
C07, value layer: what a port / protocol WRITTEN by a caller (name, number, sentinel, None) becomes in the stored rule,
on each of the four surfaces (Python API, request API, agent action, scenario file).

* `C07_gen_port_validator`, `C07_gen_protocol_validator` tie the translated validators (Gen/AclParse.lean, regenerated
  from utils/validation/port.py and ip_protocol.py on every run) to the specifications `portOf` / `protoNameOf`.
* the surface theorems are proved for ANY validator that is idempotent and refuses the sentinel, then instantiated.
-/
import PrimaiteModel.Model.AclParse
import PrimaiteModel.Model.AclObj
import PrimaiteModel.Gen.AclParse
import PrimaiteModel.Gen.AclState
namespace Primaite.Acl.Parse
open Primaite.Gen.AclParse

/-! ### the validators -/

theorem inPortRange_iff (i : Int) : inPortRange i = true ↔ 0 ≤ i ∧ i ≤ 65535 := by
  simp [inPortRange]

/-- `port_validator` accepts exactly: a name of the table whose number lies in [0, 65535] (giving that number), or such a number. -/
theorem C07_port_spec (T : Tables) (v : PyVal) (p : Nat) :
    portOf T v = some p ↔
      (∃ s i, v = .str s ∧ lookup T.ports s = some i ∧ 0 ≤ i ∧ i ≤ 65535 ∧ i.toNat = p) ∨
      (∃ i, v = .int i ∧ 0 ≤ i ∧ i ≤ 65535 ∧ i.toNat = p) := by
  cases v with
  | str s =>
    simp only [portOf]
    cases h : lookup T.ports s with
    | none => simp [h]
    | some i =>
      by_cases hr : inPortRange i = true
      · have := (inPortRange_iff i).1 hr
        simp [hr, this, h]
      · have hn : ¬ (0 ≤ i ∧ i ≤ 65535) := fun c => hr ((inPortRange_iff i).2 c)
        simp [hr, h] <;> omega
  | int i =>
    simp only [portOf]
    by_cases hr : inPortRange i = true
    · have := (inPortRange_iff i).1 hr
      simp [hr, this]
    · have hn : ¬ (0 ≤ i ∧ i ≤ 65535) := fun c => hr ((inPortRange_iff i).2 c)
      simp [hr] <;> omega
  | none => simp [portOf]
  | other => simp [portOf]

theorem C07_port_in_range (T : Tables) (v : PyVal) (p : Nat) (h : portOf T v = some p) : p ≤ 65535 := by
  rcases (C07_port_spec T v p).1 h with ⟨_, i, _, _, h0, h1, h2⟩ | ⟨i, _, h0, h1, h2⟩ <;> omega

/-- validating what the validator returned gives the same port (the pipeline validates up to four times) -/
theorem C07_port_idem (T : Tables) (v : PyVal) (p : Nat) (h : portOf T v = some p) : portOf T (encPort p) = some p := by
  have := C07_port_in_range T v p h
  have hr : inPortRange (p : Int) = true := (inPortRange_iff _).2 ⟨by omega, by omega⟩
  simp [encPort, portOf, hr]

/-- TIE: the translated `port_validator` IS the specification over the current `PORT_LOOKUP`. -/
theorem C07_gen_port_validator (v : PyVal) : portValidator v = (portOf tables v).map encPort := by
  cases v with
  | str s =>
    simp only [portValidator, portOf, PyVal.isStr, PyVal.inKeys, PyVal.getInt, tables, Bool.true_and]
    cases h : lookup portLookup s with
    | none => simp [PyVal.isInt]
    | some i =>
      simp only [Option.isSome_some, if_true, PyVal.isInt, PyVal.between, Bool.true_and, inPortRange]
      by_cases h0 : 0 ≤ i <;> by_cases h1 : i ≤ 65535 <;> simp [h0, h1, encPort]
      omega
  | int i =>
    simp only [portValidator, portOf, PyVal.isStr, PyVal.isInt, PyVal.between, Bool.false_and, Bool.true_and, inPortRange]
    by_cases h0 : 0 ≤ i <;> by_cases h1 : i ≤ 65535 <;> simp [h0, h1, encPort]
    omega
  | none => simp [portValidator, portOf, PyVal.isStr, PyVal.isInt]
  | other => simp [portValidator, portOf, PyVal.isStr, PyVal.isInt]

/-- TIE: the translated `protocol_validator` IS the specification over the current tables. -/
theorem C07_gen_protocol_validator (v : PyVal) : protocolValidator v = (protoNameOf tables v).map encProto := by
  cases v with
  | str s =>
    simp only [protocolValidator, protoNameOf, PyVal.isStr, PyVal.inKeys, PyVal.getStr, PyVal.inStrs, tables, Bool.true_and]
    cases h : lookup protocolLookup s with
    | none => by_cases hv : validProtocols.contains s = true <;> simp [hv, encProto]
    | some p => simp [encProto]
  | int i => simp [protocolValidator, protoNameOf, PyVal.isStr, PyVal.inStrs]
  | none => simp [protocolValidator, protoNameOf, PyVal.isStr, PyVal.inStrs]
  | other => simp [protocolValidator, protoNameOf, PyVal.isStr, PyVal.inStrs]

/-! ### the tables as they are now (each line is a proof obligation on the regenerated tables) -/

/-- `PORT_LOOKUP`: names distinct, numbers distinct (no port has two names), only `UNUSED` lies outside [0, 65535] (and is
therefore refused as a rule port), `NONE` is port 0, `ARP` is the port of the router's ARP exemption, the request
sentinel `ALL` and the empty string are not names. -/
theorem C07_gen_port_table :
    (portLookup.map (·.1)).Nodup ∧ (portLookup.map (·.2)).Nodup ∧
    portLookup.filter (fun kv => !inPortRange kv.2) = [("UNUSED", -1)] ∧
    lookup portLookup "NONE" = some 0 ∧ lookup portLookup "ARP" = some (arpPort : Int) ∧
    lookup portLookup "ALL" = none ∧ lookup portLookup "" = none := by decide

/-- `PROTOCOL_LOOKUP` / `VALID_PROTOCOLS`: every look-up value is a valid protocol; the valid protocols are exactly the
four the frame model distinguishes; no key is also a valid protocol under another meaning; `ALL` is neither. -/
theorem C07_gen_protocol_table :
    (protocolLookup.map (·.1)).Nodup ∧
    (protocolLookup.all fun kv => validProtocols.contains kv.2) = true ∧
    validProtocols.map protoOfName = [some .none, some .tcp, some .udp, some .icmp] ∧
    (validProtocols.all fun s => protoNameOf tables (.str s) == some s) = true ∧
    (protocolLookup.all fun kv => protoNameOf tables (.str kv.2) == some kv.2) = true ∧
    lookup protocolLookup "ALL" = none ∧ validProtocols.contains "ALL" = false ∧
    lookup protocolLookup "" = none ∧ validProtocols.contains "" = false := by decide

/-- the declarations through which the surfaces send these fields (a validator added to / removed from one of them breaks this) -/
theorem C07_gen_field_types :
    ruleFieldTypes = [("protocol", "Optional[IPProtocol] = None"), ("src_port", "Optional[Port] = None"), ("dst_port", "Optional[Port] = None")] ∧
    addRuleParamTypes = ruleFieldTypes ∧
    actionFieldTypes = [("protocol_name", "Union[IPProtocol, Literal['ALL']]"), ("src_port", "Union[Port, Literal['ALL']]"),
                        ("dst_port", "Union[Port, Literal['ALL']]")] := by decide

theorem lookup_mem {α} (tbl : List (String × α)) (k : String) (a : α) (h : lookup tbl k = some a) : (k, a) ∈ tbl := by
  simp only [lookup, Option.map_eq_some_iff] at h
  obtain ⟨⟨x, y⟩, hf, rfl⟩ := h
  have hm := List.mem_of_find?_eq_some hf
  have hk := List.find?_some hf
  simp at hk; subst hk; exact hm

/-- whatever `protocol_validator` returns is one of `VALID_PROTOCOLS` (also for the look-up branch, which does not test it) -/
theorem C07_protocol_valid (v : PyVal) (s : String) (h : protoNameOf tables v = some s) : s ∈ validProtocols := by
  cases v with
  | str x =>
    simp only [protoNameOf, tables] at h
    split at h
    · next p hl =>
      cases h
      have hm := lookup_mem _ _ _ hl
      simp only [protocolLookup, List.mem_cons, List.mem_nil_iff, or_false, Prod.mk.injEq] at hm
      rcases hm with ⟨_, rfl⟩ | ⟨_, rfl⟩ | ⟨_, rfl⟩ | ⟨_, rfl⟩ <;> decide
    · by_cases hv : validProtocols.contains x = true
      · have hm : x ∈ validProtocols := by simpa using hv
        simp only [hv, if_true, Option.some.injEq] at h; subst h; exact hm
      · simp only [hv] at h; cases h
  | int i => simp [protoNameOf] at h
  | none => simp [protoNameOf] at h
  | other => simp [protoNameOf] at h

/-- what follows the request name in a formed request -/
def argsAfterName (name : String) : List String → List String
  | [] => []
  | x :: rest => if x = name then rest else argsAfterName name rest

/-- TIE between two places of the source: the sentinel the request handler tests at `request[i]` (`None if request[i] == S`)
is the literal the action schema allows for the field that `form_request` puts at position `i` — `ALL` for protocol / addresses /
ports, `NONE` for the wildcard masks, whatever the spelling, for both add-rule actions; and every field of the schema that
allows a literal is consumed by such a test. -/
theorem C07_gen_sentinels_agree :
    (∀ act, act ∈ ["RouterACLAddRuleAction", "FirewallACLAddRuleAction"] →
      ∀ x, x ∈ Primaite.Gen.AclState.requestLayout → x.2.2.1 ≠ "-" →
        ((((Primaite.Gen.AclState.actionRequests.lookup act).map (argsAfterName "'add_rule'")).bind (·[x.2.1]?)).bind
          (fun f => List.lookup f actionSentinels)) = some x.2.2.1) ∧
    (∀ act, act ∈ ["RouterACLAddRuleAction", "FirewallACLAddRuleAction"] →
      ∀ fs, fs ∈ actionSentinels →
        ∃ x, x ∈ Primaite.Gen.AclState.requestLayout ∧ x.2.2.1 = fs.2 ∧
          (((Primaite.Gen.AclState.actionRequests.lookup act).map (argsAfterName "'add_rule'")).bind (·[x.2.1]?)) = some fs.1) := by decide

/-- every accepted protocol spelling names one of the model's four protocols -/
theorem C07_protocol_total (v : PyVal) (s : String) (h : protoNameOf tables v = some s) : (protoOfName s).isSome = true := by
  have := C07_protocol_valid v s h
  simp only [validProtocols, List.mem_cons, List.mem_nil_iff, or_false] at this
  rcases this with rfl | rfl | rfl | rfl <;> rfl

/-! ### the surfaces, for any idempotent validator that refuses the sentinel and `None` -/

structure Good {α} (validate : PyVal → Option α) (enc : α → PyVal) : Prop where
  idem : ∀ v a, validate v = some a → validate (enc a) = some a
  noAll : validate (.str "ALL") = none
  noNone : validate .none = none

theorem Good.encNotAll {α} {validate : PyVal → Option α} {enc : α → PyVal} (g : Good validate enc) {v a} (h : validate v = some a) :
    enc a ≠ .str "ALL" := fun c => by have := g.idem _ _ h; rw [c, g.noAll] at this; cases this

theorem Good.encNotNone {α} {validate : PyVal → Option α} {enc : α → PyVal} (g : Good validate enc) {v a} (h : validate v = some a) :
    enc a ≠ .none := fun c => by have := g.idem _ _ h; rw [c, g.noNone] at this; cases this

/-- Python API: `None` = unspecified; any other value must pass the validator, and the SECOND validation (when the rule
object is built) changes nothing. -/
theorem C07_api_field {α} {validate : PyVal → Option α} {enc : α → PyVal} (g : Good validate enc) (v : PyVal) :
    apiField validate enc v = if v = .none then some none else (validate v).map some := by
  cases v with
  | none => simp [apiField]
  | str s => simp only [apiField]; cases h : validate (.str s) with
    | none => simp
    | some a => simp [g.idem _ _ h]
  | int i => simp only [apiField]; cases h : validate (.int i) with
    | none => simp
    | some a => simp [g.idem _ _ h]
  | other => simp only [apiField]; cases h : validate .other with
    | none => simp
    | some a => simp [g.idem _ _ h]

/-- request API = Python API, except that the sentinel `"ALL"` means unspecified. -/
theorem C07_request_field {α} (validate : PyVal → Option α) (enc : α → PyVal) (v : PyVal) :
    requestField validate enc v = if v = .str "ALL" then some none else apiField validate enc v := rfl

/-- agent action = request API, except that Python `None` is refused by the action's schema: going through
`ConfigSchema` + `form_request` neither changes a value nor loses the sentinel. -/
theorem C07_action_field {α} {validate : PyVal → Option α} {enc : α → PyVal} (g : Good validate enc) (v : PyVal) :
    actionField validate enc v = if v = .none then none else requestField validate enc v := by
  unfold actionField actionConfig
  cases h : validate v with
  | some a =>
    have hv1 : v ≠ .none := fun c => by rw [c, g.noNone] at h; cases h
    have hv2 : v ≠ .str "ALL" := fun c => by rw [c, g.noAll] at h; cases h
    simp only [Option.bind_some, requestField, g.encNotAll h, hv1, hv2, if_false]
    rw [C07_api_field g, C07_api_field g]
    simp [g.encNotNone h, hv1, g.idem _ _ h, h]
  | none =>
    by_cases hA : v = .str "ALL"
    · subst hA; simp [requestField]
    · by_cases hN : v = .none
      · subst hN; simp
      · simp only [hA, hN, if_false, Option.bind_none, requestField]
        rw [C07_api_field g]; simp [hN, h]

/-- scenario file: a falsy value (missing key, `None`, `""`, `0`) = unspecified; otherwise ONLY a key of the table, which
then goes through the Python API; a number or an unknown name raises `KeyError`. -/
theorem C07_loader_field {α β} {validate : PyVal → Option α} {enc : α → PyVal} (g : Good validate enc)
    (tbl : List (String × β)) (wrap : β → PyVal) (hw : ∀ b, wrap b ≠ .none) (v : PyVal) :
    loaderField tbl wrap validate enc v =
      if !v.truthy then some none
      else match v with
        | .str s => (lookup tbl s).bind (fun b => (validate (wrap b)).map some)
        | _ => none := by
  unfold loaderField loaderValue
  by_cases ht : v.truthy = true
  · simp only [ht, Bool.not_true, Bool.false_eq_true, if_false]
    cases v with
    | str s =>
      cases hl : lookup tbl s with
      | none => simp [hl]
      | some b => simp [hl, C07_api_field g, hw b]
    | int i => simp
    | none => simp
    | other => simp
  · simp [ht, apiField]

/-! ### instances -/

theorem portGood (T : Tables) (h : lookup T.ports "ALL" = none) : Good (portOf T) encPort where
  idem := C07_port_idem T
  noAll := by simp [portOf, h]
  noNone := rfl

theorem genPortGood : Good (portOf tables) encPort := portGood tables (by decide)

theorem genProtoGood : Good (protoNameOf tables) encProto where
  idem := by
    intro v a h
    have := C07_protocol_valid v a h
    simp only [validProtocols, List.mem_cons, List.mem_nil_iff, or_false] at this
    rcases this with rfl | rfl | rfl | rfl <;> decide
  noAll := by decide
  noNone := rfl

/-- PORTS, current tables: what each surface makes of ANY written value. -/
theorem C07_port_surfaces (v : PyVal) :
    portVia tables .api v = (if v = .none then some none else (portOf tables v).map some) ∧
    portVia tables .request v = (if v = .str "ALL" then some none else portVia tables .api v) ∧
    portVia tables .action v = (if v = .none then none else portVia tables .request v) ∧
    portVia tables .loader v = (if !v.truthy then some none else match v with
      | .str s => (portOf tables (.str s)).map some
      | _ => none) := by
  refine ⟨C07_api_field genPortGood v, rfl, C07_action_field genPortGood v, ?_⟩
  simp only [portVia]
  rw [C07_loader_field genPortGood _ _ (by intro b; simp)]
  cases v with
  | str s =>
    simp only [portOf, tables]
    cases lookup portLookup s <;> simp
  | int i => rfl
  | none => rfl
  | other => rfl

/-- PROTOCOLS, current tables. -/
theorem C07_proto_surfaces (v : PyVal) :
    protoNameVia tables .api v = (if v = .none then some none else (protoNameOf tables v).map some) ∧
    protoNameVia tables .request v = (if v = .str "ALL" then some none else protoNameVia tables .api v) ∧
    protoNameVia tables .action v = (if v = .none then none else protoNameVia tables .request v) ∧
    protoNameVia tables .loader v = (if !v.truthy then some none else match v with
      | .str s => (lookup protocolLookup s).bind (fun p => (protoNameOf tables (.str p)).map some)
      | _ => none) := by
  refine ⟨C07_api_field genProtoGood v, rfl, C07_action_field genProtoGood v, ?_⟩
  simp only [protoNameVia]
  rw [C07_loader_field genProtoGood _ _ (by intro b; simp)]
  rfl

/-- a port NAME whose number is a port means that number on EVERY surface. -/
theorem C07_port_name_everywhere (s : String) (i : Int) (h : lookup portLookup s = some i) (hr : inPortRange i = true)
    (surf : Surface) : portVia tables surf (.str s) = some (some i.toNat) := by
  have hA : s ≠ "ALL" := fun c => by
    have : lookup portLookup "ALL" = none := by decide
    rw [c, this] at h; cases h
  have hE : s ≠ "" := fun c => by
    have : lookup portLookup "" = none := by decide
    rw [c, this] at h; cases h
  have hp : portOf tables (.str s) = some i.toNat := by simp [portOf, tables, h, hr]
  obtain ⟨h1, h2, h3, h4⟩ := C07_port_surfaces (.str s)
  have e1 : portVia tables .api (.str s) = some (some i.toNat) := by rw [h1]; simp [hp]
  have e2 : portVia tables .request (.str s) = some (some i.toNat) := by rw [h2]; simp [hA, e1]
  cases surf with
  | api => exact e1
  | request => exact e2
  | action => rw [h3]; simp [e2]
  | loader => rw [h4]; simp [PyVal.truthy, hE, hp]

/-- a port NUMBER: accepted as itself by the API, the request API and the agent action; the scenario-file loaders accept
names only (`KeyError` for a number) — except `0`, which they read as "no port given". -/
theorem C07_port_number_by_surface (n : Nat) (h : n ≤ 65535) :
    portVia tables .api (.int n) = some (some n) ∧ portVia tables .request (.int n) = some (some n) ∧
    portVia tables .action (.int n) = some (some n) ∧
    portVia tables .loader (.int n) = (if n = 0 then some none else none) := by
  obtain ⟨h1, h2, h3, h4⟩ := C07_port_surfaces (.int n)
  have hp : portOf tables (.int n) = some n := by
    have : inPortRange (n : Int) = true := (inPortRange_iff _).2 ⟨by omega, by omega⟩
    simp [portOf, this]
  have e1 : portVia tables .api (.int n) = some (some n) := by rw [h1]; simp [hp]
  have e2 : portVia tables .request (.int n) = some (some n) := by rw [h2]; simp [e1]
  refine ⟨e1, e2, by rw [h3]; simp [e2], ?_⟩
  rw [h4]; by_cases h0 : n = 0 <;> simp [PyVal.truthy, h0]

/-- port 0 IS a port: under its name `NONE` it is a SPECIFIED port on every surface (finding F-15 was the matcher treating it as
unspecified); the sentinel `ALL` is unspecified on the request / action surfaces and refused by the other two. -/
theorem C07_port_zero_and_sentinel :
    (∀ surf, portVia tables surf (.str "NONE") = some (some 0)) ∧
    portVia tables .request (.str "ALL") = some none ∧ portVia tables .action (.str "ALL") = some none ∧
    portVia tables .api (.str "ALL") = none ∧ portVia tables .loader (.str "ALL") = none ∧
    (∀ surf, portVia tables surf (.str "UNUSED") = none) ∧ (∀ surf, portVia tables surf (.str "http") = none) := by
  refine ⟨fun s => by cases s <;> decide, by decide, by decide, by decide, by decide,
          fun s => by cases s <;> decide, fun s => by cases s <;> decide⟩

/-- protocol spellings: the upper-case names of `PROTOCOL_LOOKUP` mean their lower-case protocol on every surface; the
lower-case spelling is accepted everywhere EXCEPT in scenario files (the loaders index the look-up table). -/
theorem C07_proto_spellings :
    (∀ surf, protoNameVia tables surf (.str "TCP") = some (some "tcp")) ∧
    (∀ surf, protoNameVia tables surf (.str "UDP") = some (some "udp")) ∧
    (∀ surf, protoNameVia tables surf (.str "ICMP") = some (some "icmp")) ∧
    (∀ surf, protoNameVia tables surf (.str "NONE") = some (some "none")) ∧
    protoNameVia tables .api (.str "tcp") = some (some "tcp") ∧ protoNameVia tables .request (.str "icmp") = some (some "icmp") ∧
    protoNameVia tables .action (.str "udp") = some (some "udp") ∧ protoNameVia tables .loader (.str "tcp") = none ∧
    protoNameVia tables .request (.str "ALL") = some none ∧ protoNameVia tables .action (.str "ALL") = some none ∧
    protoNameVia tables .api (.str "ALL") = none := by
  refine ⟨fun s => by cases s <;> decide, fun s => by cases s <;> decide, fun s => by cases s <;> decide,
          fun s => by cases s <;> decide, by decide, by decide, by decide, by decide, by decide, by decide, by decide⟩

-- non-vacuity of the hypotheses used above
example : lookup portLookup "HTTP" = some 80 ∧ inPortRange 80 = true := by decide
example : portOf tables (.str "POSTGRES_SERVER") = some 5432 ∧ portOf tables (.int 65535) = some 65535 ∧
    portOf tables (.int 65536) = none ∧ portOf tables (.int (-1)) = none ∧ portOf tables (.str "80") = none := by decide

end Primaite.Acl.Parse
