/-
C01 — the handler contract of `C01_responses_documented` ("every handler hands back a RequestResponse"), as far as it can be
read off the source: the regenerated inventory of leaf request handlers (Gen/EpisodeHandlers.lean) against the regenerated
schematic request tree of C05x (Gen/RequestSchema.lean, read-only).
-/
import PrimaiteModel.Gen.EpisodeHandlers
import PrimaiteModel.Gen.RequestSchema
namespace Primaite.Episode
open Primaite.Gen.EpisodeHandlers Primaite.Schema

/-- the handlers whose return discipline is NOT "a RequestResponse by construction on every path" -/
def handlerExceptions : List (String × String) :=
  (leafHandlers.filter (fun h => h.2.2.2 != "response")).map (fun h => (h.1, h.2.2.1))

/-- row `(class, manager, key, _)` of the inventory is a LEAF edge of that manager in the schematic request tree -/
def isSchemaLeaf (h : String × String × String × String) : Bool :=
  match assoc h.2.1 Primaite.Gen.RequestSchema.mgrs with
  | some (.static edges) =>
    (match lookupE h.2.2.1 edges with
     | some (_, .leaf) => true
     | _ => false)
  | _ => false

/-- every literal leaf key of every static manager of the schema is the key of some handler of the inventory -/
def schemaLeavesCovered : Bool :=
  Primaite.Gen.RequestSchema.mgrs.all (fun (_, m) =>
    match m with
    | .static edges => edges.all (fun (k, _, t) =>
        match t with
        | .leaf => leafHandlers.any (fun h => h.2.2.1 == k)
        | .sub _ => true)
    | .dynamic _ _ _ => true)

/-- Gen obligation (F-2 class): every leaf request handler registered under src/primaite/simulator returns a
`RequestResponse` BY CONSTRUCTION on every path — every `return` is `RequestResponse(...)`, `RequestResponse.from_bool(...)`,
a call of a function or method annotated `-> RequestResponse`, or a conditional of these, and no path falls off the end —
EXCEPT the four listed handlers, which forward another component's answer (`DomainController.account`, `FileSystem.file`)
or hand back a stored / received response behind a `None` guard (`Terminal.send_remote_command`,
`UserSessionManager.remote_login`); for those the contract stays with the rig.  The inventory and C05x's schematic request
tree agree: every handler is a leaf edge of its manager, and every literal leaf key of the tree has a handler. -/
theorem C01_gen_handlers_return_responses :
    handlerExceptions = [("DomainController", "account"), ("FileSystem", "file"),
                         ("Terminal", "send_remote_command"), ("UserSessionManager", "remote_login")] ∧
    leafHandlers.all isSchemaLeaf = true ∧ schemaLeavesCovered = true ∧ 50 ≤ leafHandlers.length := by
  refine ⟨by decide +kernel, by decide +kernel, by decide +kernel, by decide +kernel⟩

end Primaite.Episode
