/-
C20 — the `office-lan` node set: `OfficeLANAdder.add_nodes_to_net` (an imperative loop with three counters) builds, for EVERY
number of computers, exactly the structure the documentation describes. Model: `Model/Config.lean` (`officeBuild`,
`officeDeclared`). F-32a / F-32b (both repaired) were defects of exactly this loop.
-/
import PrimaiteModel.Model.Config
import PrimaiteModel.Gen.Config
namespace Primaite.Config

/-! ### arithmetic of "23 computers per edge switch" -/

theorem edgeOf_one : edgeOf 1 = 1 := by decide
theorem portOf_one : portOf 1 = 1 := by decide

theorem portOf_le (i : Nat) : 1 ≤ portOf i ∧ portOf i ≤ 23 := by
  unfold portOf pcsPerSwitch; omega

theorem numSwitches_multi (n : Nat) (h : 24 ≤ n) : numSwitches n > 1 := by
  unfold numSwitches pcsPerSwitch
  split <;> omega

theorem numSwitches_le (n : Nat) : numSwitches n ≤ n / 23 + 1 := by
  unfold numSwitches pcsPerSwitch
  split <;> omega

/-- the number of edge switches is the edge switch of the last computer -/
theorem numSwitches_eq_edgeOf (n : Nat) (h : 1 ≤ n) : numSwitches n = edgeOf n := by
  unfold numSwitches edgeOf pcsPerSwitch
  split <;> omega

/-! ### the loop -/

/-- the three counters after `j` computers have been added -/
def countersAt (multi : Bool) (j : Nat) : Nat × Nat × Nat :=
  if j = 0 then (1, 0, 1) else (edgeOf j, portOf j, if multi then edgeOf j else 1)

theorem officeStep_spec (c : OfficeCfg) (multi hasRouter : Bool) (n : Nat) (hmulti : multi = decide (numSwitches n > 1))
    (i : Nat) (hi : 1 ≤ i ∧ i ≤ n) (st : OSt) (hst : (st.switchN, st.switchPort, st.corePort) = countersAt multi (i - 1)) :
    officeStep c multi hasRouter st i =
      .ok { switchN := edgeOf i, switchPort := portOf i, corePort := if multi then edgeOf i else 1,
            nodes := st.nodes ++ declaredPcNodes c hasRouter i, links := st.links ++ declaredPcLinks c i } := by
  obtain ⟨sN, sP, cP, nodes, links⟩ := st
  simp only [countersAt, Prod.mk.injEq] at hst
  by_cases h1 : i = 1
  · subst h1
    simp only [Nat.sub_self, if_true] at hst
    obtain ⟨rfl, rfl, rfl⟩ := hst
    simp [officeStep, pcsPerSwitch, declaredPcNodes, declaredPcLinks, opensSwitch, edgeOf_one, portOf_one]
  · have hj : ¬ (i - 1 = 0) := by omega
    simp only [hj, if_false] at hst
    obtain ⟨rfl, rfl, rfl⟩ := hst
    by_cases hfull : portOf (i - 1) = pcsPerSwitch
    · -- the current edge switch is full: a further one is opened
      have hopen : opensSwitch i = true := by
        unfold opensSwitch portOf pcsPerSwitch at *
        simp only [Bool.and_eq_true, decide_eq_true_eq]
        omega
      have he : edgeOf (i - 1) + 1 = edgeOf i := by
        unfold edgeOf portOf pcsPerSwitch at *; omega
      have hp : portOf i = 1 := by
        unfold portOf pcsPerSwitch at *; omega
      have hmod : (i - 1 - 1) % 23 = 22 := by
        simp only [portOf, pcsPerSwitch] at hfull; omega
      have hm : multi = true := by
        rw [hmulti]
        simp only [decide_eq_true_eq]
        apply numSwitches_multi
        omega
      subst hm
      simp [officeStep, hfull, declaredPcNodes, declaredPcLinks, hopen, he, hp]
    · have hmod : (i - 1 - 1) % 23 ≠ 22 := by
        simp only [portOf, pcsPerSwitch] at hfull; omega
      have hmod' : ¬ ((i - 1) % 23 = 0) := by omega
      have hopen : opensSwitch i = false := by
        simp [opensSwitch, pcsPerSwitch, hmod']
      have he : edgeOf (i - 1) = edgeOf i := by
        unfold edgeOf; unfold portOf at hfull; unfold pcsPerSwitch at *; omega
      have hp : portOf (i - 1) + 1 = portOf i := by
        unfold portOf at *; unfold pcsPerSwitch at *; omega
      simp [officeStep, hfull, declaredPcNodes, declaredPcLinks, hopen, he, hp]

theorem countersAt_succ (multi : Bool) (i : Nat) (hi : 1 ≤ i) :
    countersAt multi i = (edgeOf i, portOf i, if multi then edgeOf i else 1) := by
  have : ¬ i = 0 := by omega
  simp [countersAt, this]

theorem officeLoop_spec (c : OfficeCfg) (multi hasRouter : Bool) (n : Nat) (hmulti : multi = decide (numSwitches n > 1)) :
    ∀ (k s : Nat) (st : OSt), 1 ≤ s → s + k ≤ n + 1 →
      (st.switchN, st.switchPort, st.corePort) = countersAt multi (s - 1) →
      officeLoop c multi hasRouter st (List.range' s k) =
        .ok { switchN := (countersAt multi (s - 1 + k)).1, switchPort := (countersAt multi (s - 1 + k)).2.1,
              corePort := (countersAt multi (s - 1 + k)).2.2,
              nodes := st.nodes ++ (List.range' s k).flatMap (declaredPcNodes c hasRouter),
              links := st.links ++ (List.range' s k).flatMap (declaredPcLinks c) } := by
  intro k
  induction k with
  | zero =>
    intro s st _ _ hst
    obtain ⟨sN, sP, cP, nodes, links⟩ := st
    simp only [Nat.add_zero, List.range'_zero, officeLoop, List.flatMap_nil, List.append_nil]
    rw [← hst]
  | succ k ih =>
    intro s st hs hle hst
    have hstep := officeStep_spec c multi hasRouter n hmulti s ⟨hs, by omega⟩ st hst
    rw [List.range'_succ]
    simp only [officeLoop, hstep]
    have := ih (s + 1)
      { switchN := edgeOf s, switchPort := portOf s, corePort := if multi then edgeOf s else 1,
        nodes := st.nodes ++ declaredPcNodes c hasRouter s, links := st.links ++ declaredPcLinks c s }
      (by omega) (by omega) (by rw [Nat.add_sub_cancel, countersAt_succ multi s hs])
    rw [this]
    have e : s + 1 - 1 + k = s - 1 + (k + 1) := by omega
    rw [e]
    simp only [List.flatMap_cons, List.append_assoc]

/-! ### build = declared -/

/-- what the configuration schema and the adder's own guard ask of an `office-lan` entry -/
def OfficeValid (c : OfficeCfg) : Prop := c.ipStart + c.numPcs < officeIpLimit ∧ numSwitches c.numPcs < c.ipStart

instance (c : OfficeCfg) : Decidable (OfficeValid c) := by unfold OfficeValid; infer_instance

/-- **office-lan: build = declared**, for EVERY number of computers, subnet, address block, with and without router, any
bandwidth: the adder's loop creates exactly the documented nodes (in creation order) with the documented addresses, and exactly
the documented links — and never reaches the `else` branch that names a router which may not exist. -/
theorem C20_office_build_eq_declared (c : OfficeCfg) (hv : OfficeValid c) : officeBuild c = .ok (officeDeclared c) := by
  obtain ⟨h1, h2⟩ := hv
  unfold officeBuild
  have g1 : ¬ (c.ipStart + c.numPcs ≥ officeIpLimit) := by omega
  have g2 : ¬ (c.ipStart ≤ numSwitches c.numPcs) := by omega
  simp only [g1, g2, if_false]
  have hloop := officeLoop_spec c (decide (numSwitches c.numPcs > 1)) (c.includeRouter.getD true) c.numPcs rfl c.numPcs 1
  simp only [Nat.sub_self, Nat.zero_add] at hloop
  rw [hloop _ (by omega) (by omega) (by simp [countersAt])]
  unfold officeDeclared
  cases hm : decide (numSwitches c.numPcs > 1) <;> cases hr : c.includeRouter.getD true <;>
    simp [List.append_assoc]

/-- an entry the schema or the adder refuses is refused (never half-built) -/
theorem C20_office_invalid_refused (c : OfficeCfg) (hv : ¬ OfficeValid c) :
    officeBuild c = .error .ipRange ∨ officeBuild c = .error .ipStartSmall := by
  unfold OfficeValid at hv
  unfold officeBuild
  by_cases g1 : c.ipStart + c.numPcs ≥ officeIpLimit
  · left; simp [g1]
  · right
    have g2 : c.ipStart ≤ numSwitches c.numPcs := by omega
    simp [g1, g2]

/-! ### the documented structure, read off the closed form (hence true of what the adder builds) -/

theorem mem_flatMap_rangeOne {α} (f : Nat → List α) (n i : Nat) (hi : 1 ≤ i ∧ i ≤ n) (x : α) (hx : x ∈ f i) :
    x ∈ (List.range' 1 n).flatMap f := by
  rw [List.mem_flatMap]
  exact ⟨i, by rw [List.mem_range'_1]; omega, hx⟩

/-- **every computer is wired** to its edge switch: computer `i` sits on port `((i-1) mod 23) + 1 ≤ 23` of edge switch
`⌊(i-1)/23⌋ + 1`, with the configured bandwidth; port 24 is never used for a computer. -/
theorem C20_office_pc_wired (c : OfficeCfg) (hv : OfficeValid c) (i : Nat) (hi : 1 ≤ i ∧ i ≤ c.numPcs) :
    ∃ inv, officeBuild c = .ok inv ∧
      oLink (edgeName c.lanName (edgeOf i)) (portOf i) (pcName c.lanName i) 1 (c.bandwidth.getD defaultBandwidth) ∈ inv.links ∧
      1 ≤ portOf i ∧ portOf i < uplinkPort ∧ edgeOf i ≤ numSwitches c.numPcs := by
  refine ⟨_, C20_office_build_eq_declared c hv, ?_, (portOf_le i).1, by have := (portOf_le i).2; unfold uplinkPort; omega, ?_⟩
  · simp only [officeDeclared, List.mem_append]
    right
    exact mem_flatMap_rangeOne _ _ i hi _ (by simp [declaredPcLinks])
  · have hn : 1 ≤ c.numPcs := by omega
    rw [numSwitches_eq_edgeOf _ hn]
    have := Nat.div_le_div_right (c := 23) (show i - 1 ≤ c.numPcs - 1 by omega)
    simp only [edgeOf, pcsPerSwitch]
    omega

/-- **every computer exists with its address**: `pc_<i>_<lan>` has 192.168.<subnet_base>.(start + i − 1) and the router as
gateway iff there is a router. -/
theorem C20_office_pc_addressed (c : OfficeCfg) (hv : OfficeValid c) (i : Nat) (hi : 1 ≤ i ∧ i ≤ c.numPcs) :
    ∃ inv, officeBuild c = .ok inv ∧
      ({ kind := .pc, name := pcName c.lanName i, octet := some (i + c.ipStart - 1), gateway := c.includeRouter.getD true } : ONode)
        ∈ inv.nodes := by
  refine ⟨_, C20_office_build_eq_declared c hv, ?_⟩
  simp only [officeDeclared, List.mem_append]
  right
  exact mem_flatMap_rangeOne _ _ i hi _ (by simp [declaredPcNodes])

/-- **addresses are distinct and inside the subnet**: different computers get different fourth octets, every one of them in
2..253 — so none is the router's `.1`, none the network or broadcast address. -/
theorem C20_office_addresses (c : OfficeCfg) (hv : OfficeValid c) (i j : Nat) (hi : 1 ≤ i ∧ i ≤ c.numPcs) (hj : 1 ≤ j ∧ j ≤ c.numPcs) :
    (i ≠ j → i + c.ipStart - 1 ≠ j + c.ipStart - 1) ∧ 2 ≤ i + c.ipStart - 1 ∧ i + c.ipStart - 1 ≤ 253 := by
  obtain ⟨h1, h2⟩ := hv
  unfold officeIpLimit at h1
  have hm : 1 ≤ numSwitches c.numPcs := by
    rw [numSwitches_eq_edgeOf _ (by omega)]; simp only [edgeOf, pcsPerSwitch]; omega
  refine ⟨by omega, by omega, by omega⟩

/-- **edge switches hang off the core switch** when more than one is needed: edge switch `k` (2 ≤ k ≤ number of switches) is
linked from port `k` of the core switch to its own port 24; edge switch 1 from port 1. -/
theorem C20_office_edge_uplinks (c : OfficeCfg) (hv : OfficeValid c) (hmulti : numSwitches c.numPcs > 1) (k : Nat)
    (hk : 1 ≤ k ∧ k ≤ numSwitches c.numPcs) :
    ∃ inv, officeBuild c = .ok inv ∧
      oLink (coreName c.lanName) k (edgeName c.lanName k) uplinkPort (c.bandwidth.getD defaultBandwidth) ∈ inv.links ∧
      ({ kind := .core, name := coreName c.lanName } : ONode) ∈ inv.nodes ∧
      ({ kind := .edge, name := edgeName c.lanName k } : ONode) ∈ inv.nodes := by
  refine ⟨_, C20_office_build_eq_declared c hv, ?_, ?_, ?_⟩
  · by_cases h1 : k = 1
    · subst h1
      simp [officeDeclared, hmulti]
    · -- the first computer on edge switch k is computer 23 (k − 1) + 1
      have hn : 1 ≤ c.numPcs := by
        unfold numSwitches pcsPerSwitch at hmulti; split at hmulti <;> omega
      have hle := hk.2
      rw [numSwitches_eq_edgeOf _ hn] at hle
      unfold edgeOf pcsPerSwitch at hle
      have hi : 1 ≤ 23 * (k - 1) + 1 ∧ 23 * (k - 1) + 1 ≤ c.numPcs := by omega
      simp only [officeDeclared, List.mem_append]
      right
      refine mem_flatMap_rangeOne _ _ (23 * (k - 1) + 1) hi _ ?_
      have ho : opensSwitch (23 * (k - 1) + 1) = true := by
        unfold opensSwitch pcsPerSwitch
        simp only [Bool.and_eq_true, decide_eq_true_eq]
        omega
      have he : edgeOf (23 * (k - 1) + 1) = k := by
        unfold edgeOf pcsPerSwitch; omega
      simp [declaredPcLinks, ho, he]
  · simp [officeDeclared, hmulti]
  · by_cases h1 : k = 1
    · subst h1
      simp [officeDeclared]
    · have hn : 1 ≤ c.numPcs := by
        unfold numSwitches pcsPerSwitch at hmulti; split at hmulti <;> omega
      have hle := hk.2
      rw [numSwitches_eq_edgeOf _ hn] at hle
      unfold edgeOf pcsPerSwitch at hle
      have hi : 1 ≤ 23 * (k - 1) + 1 ∧ 23 * (k - 1) + 1 ≤ c.numPcs := by omega
      simp only [officeDeclared, List.mem_append]
      right
      refine mem_flatMap_rangeOne _ _ (23 * (k - 1) + 1) hi _ ?_
      have ho : opensSwitch (23 * (k - 1) + 1) = true := by
        unfold opensSwitch pcsPerSwitch
        simp only [Bool.and_eq_true, decide_eq_true_eq]
        omega
      have he : edgeOf (23 * (k - 1) + 1) = k := by
        unfold edgeOf pcsPerSwitch; omega
      simp [declaredPcNodes, ho, he]

/-- **the router is wired to the LAN** (F-32b): with a router, its port 1 is linked to port 24 of the core switch when there is
one, else to port 24 of the only edge switch; without a router there is no router node (F-32a: and the build still succeeds). -/
theorem C20_office_router (c : OfficeCfg) (hv : OfficeValid c) :
    ∃ inv, officeBuild c = .ok inv ∧
      (c.includeRouter.getD true = true →
        ({ kind := .router, name := routerName c.lanName, octet := some 1 } : ONode) ∈ inv.nodes ∧
        oLink (routerName c.lanName) 1
          (if numSwitches c.numPcs > 1 then coreName c.lanName else edgeName c.lanName 1) uplinkPort
          (c.bandwidth.getD defaultBandwidth) ∈ inv.links) ∧
      (c.includeRouter.getD true = false → ∀ nd ∈ inv.nodes, nd.kind ≠ .router) := by
  refine ⟨_, C20_office_build_eq_declared c hv, ?_, ?_⟩
  · intro hr
    by_cases hm : numSwitches c.numPcs > 1 <;> simp [officeDeclared, hr, hm]
  · intro hr nd hnd
    simp only [officeDeclared, hr, List.mem_append, List.mem_flatMap] at hnd
    rcases hnd with ((hnd | hnd) | hnd) | ⟨i, _, hnd⟩
    · split at hnd
      · simp only [List.mem_singleton] at hnd; subst hnd; simp
      · simp at hnd
    · simp at hnd
    · simp only [List.mem_singleton] at hnd; subst hnd; simp
    · unfold declaredPcNodes at hnd
      simp only [List.mem_append, List.mem_singleton] at hnd
      rcases hnd with hnd | hnd
      · split at hnd
        · simp only [List.mem_singleton] at hnd; subst hnd; simp
        · simp at hnd
      · subst hnd; simp

/-- **no port is used twice**: two different computers never share an edge-switch port, and the core switch has a free port for
every edge switch below its own uplink port 24 (at most 11 edge switches fit into the address block). -/
theorem C20_office_ports_distinct (c : OfficeCfg) (hv : OfficeValid c) (i j : Nat) (_hi : 1 ≤ i ∧ i ≤ c.numPcs)
    (_hj : 1 ≤ j ∧ j ≤ c.numPcs) (hne : i ≠ j) :
    (edgeOf i, portOf i) ≠ (edgeOf j, portOf j) ∧ numSwitches c.numPcs < uplinkPort := by
  obtain ⟨h1, _⟩ := hv
  unfold officeIpLimit at h1
  constructor
  · intro h
    simp only [Prod.mk.injEq] at h
    unfold edgeOf portOf pcsPerSwitch at h
    omega
  · have := numSwitches_le c.numPcs
    unfold uplinkPort
    omega

/-! ### non-vacuity: concrete entries on both sides of every corner -/

instance : DecidableEq (Except OErr OfficeInv) := fun a b =>
  match a, b with
  | .ok x, .ok y => if h : x = y then isTrue (by rw [h]) else isFalse (by intro e; cases e; exact h rfl)
  | .error x, .error y => if h : x = y then isTrue (by rw [h]) else isFalse (by intro e; cases e; exact h rfl)
  | .ok _, .error _ => isFalse (by intro e; cases e)
  | .error _, .ok _ => isFalse (by intro e; cases e)

def exOffice (n : Nat) (router : Option Bool) : OfficeCfg :=
  { lanName := "A", subnetBase := 5, ipStart := 10, numPcs := n, includeRouter := router, bandwidth := some 150 }

example : OfficeValid (exOffice 47 none) := by decide
example : officeBuild (exOffice 47 none) = .ok (officeDeclared (exOffice 47 none)) := by decide
/-- 47 computers: three edge switches, a core switch, a router: 47 + 3 + 1 + 1 nodes, 47 + 3 + 1 links -/
example : (officeBuild (exOffice 47 none)).toOption.map (fun v => (v.nodes.length, v.links.length)) = some (52, 51) := by decide
/-- 23 computers fit on one switch (no core switch); the 24th opens a second switch and brings the core switch -/
example : (officeBuild (exOffice 23 (some false))).toOption.map (fun v => (v.nodes.length, v.links.length)) = some (24, 23) := by
  decide
example : (officeBuild (exOffice 24 (some false))).toOption.map (fun v => (v.nodes.length, v.links.length)) = some (27, 26) := by
  decide
/-- no computers at all: one edge switch and the router, linked -/
example : (officeBuild (exOffice 0 none)).toOption.map (fun v => (v.nodes.map (·.name), v.links.length)) =
    some (["router_A", "switch_edge_1_A"], 1) := by decide
example : officeBuild { exOffice 250 none with ipStart := 10 } = .error .ipRange := by decide
example : officeBuild { exOffice 47 none with ipStart := 3 } = .error .ipStartSmall := by decide

/-- F-32b (repaired): with a core switch the declared structure has the `router ↔ core:24` link, so a loop that forgets it no
longer builds what is declared (the rig's corpus witness `office_lan_core_switch.json` is this entry). -/
example : (officeDeclared (exOffice 47 none)).links.filter (fun l => l.a = "router_A") =
    [oLink "router_A" 1 "switch_core_A" 24 150] := by decide

/-- non-vacuity of `C20_office_edge_uplinks`: 47 computers need three edge switches -/
example : numSwitches (exOffice 47 none).numPcs > 1 := by decide

/-! ### tie to the source -/

/-- the constants and the wiring calls of `OfficeLANAdder.add_nodes_to_net` / `num_of_switches_required` / the schema's
validator are the ones the model uses: 23 computers per switch, 24-port switches, every uplink on port 24, router port 1,
gateway `.1`, the hostname and address templates, the two guards, the defaults, and the five `network.connect` calls with
their endpoints in order. -/
theorem C20_gen_office_constants :
    Gen.Config.officePcsPerSwitch = pcsPerSwitch ∧ Gen.Config.officeSwitchPorts = [uplinkPort, uplinkPort, uplinkPort] ∧
    Gen.Config.officeMaxInterfaceDefault = uplinkPort ∧ Gen.Config.officeIpLimit = officeIpLimit ∧
    Gen.Config.officeIpRangeTest = "self.pcs_ip_block_start + self.num_pcs >= 254" ∧
    Gen.Config.officeStartGuard = "config.pcs_ip_block_start <= num_of_switches" ∧
    Gen.Config.officeNewSwitchTest = "switch_port == effective_network_interface" ∧
    Gen.Config.officeDefaults = ("True", "100") ∧
    Gen.Config.officeTemplates = ["switch_core_{config.lan_name}", "192.168.{config.subnet_base}.1", "router_{config.lan_name}",
      "switch_edge_{switch_n}_{config.lan_name}", "switch_edge_{switch_n}_{config.lan_name}", "pc_{i}_{config.lan_name}",
      "192.168.{config.subnet_base}.{i + config.pcs_ip_block_start - 1}"] ∧
    Gen.Config.officeConnects = [
      "router.network_interface[1], core_switch.network_interface[24], bandwidth=config.bandwidth",
      "core_switch.network_interface[core_switch_port], switch.network_interface[24], bandwidth=config.bandwidth",
      "router.network_interface[1], switch.network_interface[24], bandwidth=config.bandwidth",
      "core_switch.network_interface[core_switch_port], switch.network_interface[24], bandwidth=config.bandwidth",
      "router.network_interface[1], switch.network_interface[24], bandwidth=config.bandwidth",
      "switch.network_interface[switch_port], pc.network_interface[1], bandwidth=config.bandwidth"] ∧
    Gen.Config.officeSwitchCountFormula = "full_switches + (1 if extra_pcs > 0 else 0)" := by decide

end Primaite.Config
