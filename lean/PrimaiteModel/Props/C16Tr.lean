/-
C16 (round 7, second shift) — the decision methods TRANSLATED from the source (`Gen/SessionTr.lean`, written by
`harness/extract/session_tr.py`: a symbolic execution of the method bodies, statement by statement) are proved equal to what the
model does, for EVERY state:

* `C16_gen_pre_timestep`      `UserSessionManager.pre_timestep` followed by `_timeout_session` IS the model's `preTimestepNode`,
                              whatever the node's power state and the service's operating state (the time-out needs no service);
* `C16_gen_session_validation` `validate_remote_session_uuid` / `Terminal._check_client_connection` = `hasSession` / `hasConn` and the
                              tear-down branch of `opRemoteCmdK`;
* `C16_gen_login_guards`      `authenticate_user`, `_can_perform_action`, `remote_session_limit_reached`, `_login` = `Node.authenticate`,
                              `Node.canUm` / `canUsm`, `Node.loginOk` and the limit test of `opRemoteLogin`;
* `C16_gen_disable_user`      `disable_user` / `_is_last_admin` = the decision of `opDisableUser`.

The counter-models at the end show what a change like the blind change C16-g (`pre_timestep` returning early while the service is not
RUNNING) does to the first theorem: the translated function then differs from the model at a concrete state.
-/
import PrimaiteModel.Model.Session
import PrimaiteModel.Gen.SessionTr
namespace Primaite.Session

/-! ### the inactivity time-out -/

/-- what `_timeout_session(session)` does on node `y` (`session.local` decides; pinned textually by `C16_gen_timeout_path`) -/
def timeoutDispatch (y : Nat) (m : Net) : LSession ⊕ RSession → Net
  | .inl _ => m.upd y Node.clearLoc
  | .inr s => timeoutRemote m y s

/-- `pre_timestep` as translated, run on node `y` of the network: the sessions it selects, each handed to `_timeout_session` -/
def preTimestepTranslated (nodeOn running : Bool) (n : Net) (y : Nat) : Net :=
  match n.node y with
  | none => n
  | some nd =>
    (Gen.SessionTr.preTimestepInactive nodeOn running (fun l : LSession => l.last) (fun s : RSession => s.last)
        nd.localTimeout nd.remoteTimeout n.time nd.loc nd.rem).foldl (timeoutDispatch y) n

/-- the two time-out decisions, whatever shape the source gives them (`<=`, `>=` turned round, `not (… > …)`, …), are
"`last_active_step + time-out ≤ timestep`" — whatever the power / service state -/
theorem C16_gen_timeout_tests (nodeOn running : Bool) (last tmo t : Nat) :
    Gen.SessionTr.preTimestepLocalTest nodeOn running last tmo t = decide (last + tmo ≤ t) ∧
    Gen.SessionTr.preTimestepRemoteTest nodeOn running last tmo t = decide (last + tmo ≤ t) := by
  unfold Gen.SessionTr.preTimestepLocalTest Gen.SessionTr.preTimestepRemoteTest
  constructor <;> rw [Bool.eq_iff_iff] <;> cases nodeOn <;> cases running <;> simp <;> omega

theorem C16_gen_pre_timestep_fold (nodeOn running : Bool) (n : Net) (y : Nat) (loc : Option LSession) (rem : List RSession) (lt rt t : Nat) :
    (Gen.SessionTr.preTimestepInactive nodeOn running (fun l : LSession => l.last) (fun s : RSession => s.last) lt rt t loc rem).foldl
        (timeoutDispatch y) n =
      (rem.filter (fun s => decide (s.last + rt ≤ t))).foldl (fun m s => timeoutRemote m y s)
        (if (match loc with | some l => decide (l.last + lt ≤ t) | none => false) = true then n.upd y Node.clearLoc else n) := by
  unfold Gen.SessionTr.preTimestepInactive
  simp only [(C16_gen_timeout_tests _ _ _ _ _).1, (C16_gen_timeout_tests _ _ _ _ _).2]
  cases nodeOn <;> cases running <;> cases loc with
  | none => simp [timeoutDispatch, List.foldl_map]
  | some l =>
    by_cases hc : l.last + lt ≤ t <;> simp [hc, timeoutDispatch, List.foldl_map]

/-- **Gen, semantic.** For every network, every node, every power state and every state of the user-session-manager service:
the translated `pre_timestep` does exactly what the model's time-out step does. In particular the service's state is irrelevant —
a session idle past its time-out is ended while the service is STOPPED / PAUSED / DISABLED too. -/
theorem C16_gen_pre_timestep (nodeOn running : Bool) (n : Net) (y : Nat) :
    preTimestepTranslated nodeOn running n y = preTimestepNode n y := by
  unfold preTimestepTranslated preTimestepNode
  cases hn : n.node y with
  | none => rfl
  | some nd =>
    simp only []
    rw [C16_gen_pre_timestep_fold]
    rfl

theorem C16_gen_pre_timestep_notes : Gen.SessionTr.preTimestepNotes = ["sets-current"] := by decide

/-! ### session validation -/

theorem contains_map_id_rem (l : List RSession) (cid : Nat) : (l.map (·.id)).contains cid = l.any (fun s => s.id == cid) := by
  induction l with
  | nil => rfl
  | cons a t ih => simp only [List.map_cons, List.contains_cons, List.any_cons, ih]; rw [Bool.beq_comm]

theorem contains_map_id_conns (l : List Conn) (cid : Nat) : (l.map (·.id)).contains cid = l.any (fun c => c.id == cid) := by
  induction l with
  | nil => rfl
  | cons a t ih => simp only [List.map_cons, List.contains_cons, List.any_cons, ih]; rw [Bool.beq_comm]

/-- **Gen, semantic.** `validate_remote_session_uuid` is the model's `hasSession`; `_check_client_connection` answers "listed session and
known connection" and calls `_disconnect` exactly when the session is not listed — the three branches of `opRemoteCmdK`. -/
theorem C16_gen_session_validation (nd : Node) (cid : Nat) :
    Gen.SessionTr.validateRemoteSessionUuid (nd.rem.map (·.id)) cid = nd.hasSession cid ∧
    Gen.SessionTr.checkClientConnection (nd.rem.map (·.id)) (nd.conns.map (·.id)) cid
      = (nd.hasSession cid && nd.hasConn cid, !nd.hasSession cid) := by
  unfold Gen.SessionTr.checkClientConnection Gen.SessionTr.validateRemoteSessionUuid Node.hasSession Node.hasConn
  rw [contains_map_id_rem, contains_map_id_conns]
  cases nd.rem.any (fun s => s.id == cid) <;> simp

/-! ### logins -/

/-- the atoms of `authenticate_user` read off the model state -/
def Node.acctFound (nd : Node) (u : String) : Bool := (nd.findUser u).isSome
def Node.acctDisabled (nd : Node) (u : String) : Bool := match nd.findUser u with | some w => w.disabled | none => false
def Node.acctPwOk (nd : Node) (u p : String) : Bool := match nd.findUser u with | some w => w.password == p | none => false

/-- **Gen, semantic (the login guards).** A login succeeds only with the current password of an existing, enabled account on a
powered-on node whose user manager and session manager are RUNNING, and a remote one only while fewer than `max_remote_sessions`
are open — each translated method equals the model's test, for all inputs. -/
theorem C16_gen_login_guards :
    (∀ nodeOn running, Gen.SessionTr.serviceCanPerformAction true nodeOn running = (nodeOn && running)) ∧
    (∀ (nd : Node) (u p : String),
      Gen.SessionTr.authenticateUser (Gen.SessionTr.serviceCanPerformAction true nd.isOn nd.um.running)
        (nd.acctFound u) (nd.acctDisabled u) (nd.acctPwOk u p) = nd.authenticate u p) ∧
    (∀ len mx, Gen.SessionTr.remoteSessionLimitReached len mx = !decide (len < mx)) ∧
    (∀ (nd : Node) (u p : String) (hasLoc otherUser : Bool),
      -- local login: granted iff `loginOk`; never stores a remote session
      Gen.SessionTr.login (Gen.SessionTr.serviceCanPerformAction true nd.isOn nd.usm.running) (nd.authenticate u p) true hasLoc otherUser
        (Gen.SessionTr.remoteSessionLimitReached nd.rem.length nd.maxRemote) = (nd.loginOk u p, false)) ∧
    (∀ (nd : Node) (u p : String) (hasLoc otherUser : Bool),
      -- remote login: granted (and the session stored) iff `loginOk` and fewer than `max_remote_sessions` are open
      Gen.SessionTr.login (Gen.SessionTr.serviceCanPerformAction true nd.isOn nd.usm.running) (nd.authenticate u p) false hasLoc otherUser
        (Gen.SessionTr.remoteSessionLimitReached nd.rem.length nd.maxRemote)
        = (nd.loginOk u p && decide (nd.rem.length < nd.maxRemote), nd.loginOk u p && decide (nd.rem.length < nd.maxRemote))) ∧
    Gen.SessionTr.loginWrappers =
      [("local_login", "return self._login(username=username, password=password, local=True)"),
       ("remote_login", "return self._login(username=username, password=password, local=False, remote_ip_address=remote_ip_address)")] := by
  have hcan : ∀ a b, Gen.SessionTr.serviceCanPerformAction true a b = (a && b) := by
    intro a b; cases a <;> cases b <;> rfl
  refine ⟨hcan, ?_, ?_, ?_, ?_, by decide⟩
  · intro nd u p
    rw [hcan]
    unfold Gen.SessionTr.authenticateUser Node.authenticate Node.canUm Node.acctFound Node.acctDisabled Node.acctPwOk
    cases nd.isOn <;> cases nd.um.running <;> cases nd.findUser u <;> simp
    rename_i w; cases w.disabled <;> simp <;> rfl
  · intro len mx
    unfold Gen.SessionTr.remoteSessionLimitReached
    by_cases h : len < mx
    · simp [h]
    · simp [h] <;> omega
  · intro nd u p hasLoc otherUser
    rw [hcan]
    unfold Gen.SessionTr.login Node.loginOk Node.canUsm
    cases nd.isOn <;> cases nd.usm.running <;> cases nd.authenticate u p <;> simp
  · intro nd u p hasLoc otherUser
    rw [hcan]
    unfold Gen.SessionTr.login Gen.SessionTr.remoteSessionLimitReached Node.loginOk Node.canUsm
    by_cases h : nd.rem.length < nd.maxRemote
    · have h' : ¬ nd.rem.length ≥ nd.maxRemote := by omega
      cases nd.isOn <;> cases nd.usm.running <;> cases nd.authenticate u p <;> simp [h, h']
    · have h' : nd.rem.length ≥ nd.maxRemote := by omega
      cases nd.isOn <;> cases nd.usm.running <;> cases nd.authenticate u p <;> simp [h, h']

/-- **Gen, semantic.** `Terminal.login` (the Python API that hands out connection objects): refused unless the terminal is RUNNING,
otherwise a remote login request when an address is given, a local login when not; `_process_local_login` hands out a connection
exactly when `UserSessionManager.local_login` returned a session id (= `Node.loginOk`, by `C16_gen_login_guards`) — the model's
`opLocalCmdK` / `opRemoteLogin` behind the terminal's own RUNNING test. -/
theorem C16_gen_terminal_login (nodeOn running hasIp granted : Bool) :
    Gen.SessionTr.terminalLogin nodeOn running hasIp = (if !running then 0 else if hasIp then 1 else 2) ∧
    Gen.SessionTr.processLocalLogin granted = granted := by
  unfold Gen.SessionTr.terminalLogin Gen.SessionTr.processLocalLogin
  cases nodeOn <;> cases running <;> cases hasIp <;> cases granted <;> decide

/-! ### `disable_user` -/

/-- the decision of the model's `opDisableUser` on an ON node: (answers success, writes `disabled = True`) -/
def Node.disableDecision (nd : Node) (u : String) : Bool × Bool :=
  if !nd.canUm then (false, false) else
  match nd.findUser u with
  | none => (false, false)
  | some w =>
    if w.disabled then (false, false)
    else if w.admin && (nd.users.filter (fun v => v.admin && !v.disabled)).length == 1 then (false, false)
    else (true, true)

/-- `opDisableUser` is `disableDecision` (so the next theorem is about the operation itself) -/
theorem opDisableUser_eq (n : Net) (y : Nat) (u : String) (nd : Node) (hn : n.node y = some nd) (hon : nd.isOn = true) :
    opDisableUser n y u = (if (nd.disableDecision u).2 then n.upd y (Node.setDisabled u) else n, boolOut (nd.disableDecision u).1) := by
  unfold opDisableUser Node.disableDecision
  simp only [hn, hon, Bool.not_true]
  cases nd.canUm <;> simp [boolOut]
  cases nd.findUser u with
  | none => simp
  | some w =>
    by_cases hd : w.disabled = true <;>
      by_cases ha : (w.admin = true ∧ (nd.users.filter (fun v => v.admin && !v.disabled)).length = 1) <;> simp [hd, ha]

/-- **Gen, semantic.** `disable_user` / `_is_last_admin`, translated, decide exactly like the model: an account is disabled iff the
user manager can act, the account exists, is enabled, and is not the only enabled administrator (`username in self.admins` = the
account is an enabled administrator; `len(self.admins)` = the number of enabled administrators); the flag is written exactly when
the answer is True. -/
theorem C16_gen_disable_user (nd : Node) (u : String) :
    Gen.SessionTr.disableUser (Gen.SessionTr.serviceCanPerformAction true nd.isOn nd.um.running) (nd.acctFound u) (nd.acctDisabled u)
      (Gen.SessionTr.isLastAdmin
        (match nd.findUser u with | some w => w.admin && !w.disabled | none => false)
        (nd.users.filter (fun v => v.admin && !v.disabled)).length)
      = nd.disableDecision u ∧
    Gen.SessionTr.adminsBody = ["return {k: v for k, v in self.users.items() if v.is_admin and (not v.disabled)}"] := by
  refine ⟨?_, by decide⟩
  have hcan : ∀ a b, Gen.SessionTr.serviceCanPerformAction true a b = (a && b) := by
    intro a b; cases a <;> cases b <;> rfl
  rw [hcan]
  unfold Gen.SessionTr.disableUser Gen.SessionTr.isLastAdmin Node.disableDecision Node.canUm Node.acctFound Node.acctDisabled
  cases nd.isOn <;> cases nd.um.running <;> cases nd.findUser u <;> simp
  rename_i w
  cases w.disabled <;> cases w.admin <;> simp

/-! ### counter-models: what the blind change C16-g does to `C16_gen_pre_timestep` -/

/-- `pre_timestep` as the extractor translates it from the tree with C16-g applied (early `return` unless RUNNING) -/
def preTimestepInactiveG {L R : Type} (_nodeOn running : Bool) (lastL : L → Nat) (lastR : R → Nat) (lto rto t : Nat)
    (loc : Option L) (rem : List R) : List (L ⊕ R) :=
  if !running then [] else
    ((match loc with | some s => if decide ((lastL s + lto) ≤ t) then [Sum.inl s] else [] | none => []) ++
     ((rem.filter (fun s => decide ((lastR s + rto) ≤ t))).map Sum.inr))

/-- the counter-model: service not RUNNING, one remote session idle past its time-out (last active at step 0, time-out 30, now 30) -/
def gWitness : Net :=
  { nodes := [{ usm := { st := .stopped }, rem := [⟨0, "admin", 0, 1⟩], conns := [⟨0, some 1⟩] }, { conns := [⟨0, some 0⟩] }], time := 30, nextId := 1 }

/-- **C16-g is refuted**: with the early return the statement of `C16_gen_pre_timestep` is false — in `gWitness` the model ends the
session, the changed `pre_timestep` keeps it (and a command sent afterwards would still be executed). -/
theorem C16_gen_pre_timestep_refutes_early_return :
    ¬ ∀ (nodeOn running : Bool) (n : Net) (y : Nat),
      (match n.node y with
       | none => n
       | some nd => (preTimestepInactiveG nodeOn running (fun l : LSession => l.last) (fun s : RSession => s.last)
            nd.localTimeout nd.remoteTimeout n.time nd.loc nd.rem).foldl (timeoutDispatch y) n) = preTimestepNode n y := by
  intro h
  have h1 := congrArg (fun m : Net => (m.nodes.map (fun nd => nd.rem.length))) (h true false gWitness 0)
  revert h1
  decide

end Primaite.Session
