/-
C09 — observations faithfully encode ground truth.
`observe cfg (describe truth) = spec cfg truth` for every observation class, where `describe` models `describe_state()` over the
simulator objects and `spec` is the documented encoding written directly over the objects (Model/ObsTruth.lean).
-/
import PrimaiteModel.Props.C02
import PrimaiteModel.Model.ObsTruth
namespace Primaite.Obs
open Primaite.Gen

/-! ### translator tie: which state key each health leaf reads under which switch -/

theorem C09_gen_scan_gates :
    ObsTables.serviceScanGate = ("health_state_visible", "health_state_actual") ∧
    ObsTables.applicationScanGate = ("health_state_visible", "health_state_actual") ∧
    ObsTables.fileScanGate = ("visible_status", "health_status") ∧
    -- since repair 59ceb16: the cached health only for the folder object it was read from (`FolderObs.sameFolder`), the folder's own
    -- visible health in the step a scan completes OR for another object; the identity is updated with the cache on every present
    -- observation, starts as None, and the branch for an absent folder changes nothing (`FolderObs.next`)
    ObsTables.folderScanGate = ("cached-of-this-folder:health_status|scanned-or-other-folder:visible_status", "health_status") ∧
    ObsTables.folderCacheUpdated = true ∧
    ObsTables.folderCacheIdentity = ("None", "folder_state.get('uuid')", "return self.default_observation") := by
  decide

theorem describedOp_eq_specOp (s : SoftwareT) : describedOp s = specOp s := by
  unfold describedOp specOp
  by_cases h1 : s.idleFtp = true <;> by_cases h2 : s.op = 1 <;> simp [h1, h2]

/-- the one `describe_state` override of an observed key: idle FTP services are described as STOPPED -/
theorem C09_gen_ftp_override :
    ObsTables.ftpIdleOverride = ("RUNNING", "STOPPED") ∧ ObsEnums.ServiceOperatingState.T.RUNNING.value = 1 ∧
    ObsEnums.ServiceOperatingState.T.STOPPED.value = 2 ∧
    ObsTables.observedKeysOverriddenIn = ["simulator/system/services/ftp/ftp_service.py"] := by
  decide

/-! ### the documented bands (spec side) = the code's functions -/

/-- **counted occurrences**: with the thresholds an observation object can have (strictly ascending, `_validate_thresholds`), the table
"number of thresholds passed" is the code's if-chain `> high → 3, > medium → 2, > low → 1, else 0` -/
theorem C09_band_eq_code (t : Thr) (h : t.Ok) (n : Int) : specBand t n = categorise t n := by
  obtain ⟨h1, h2⟩ := h
  unfold specBand categorise
  by_cases a : n > t.high
  · have b : n > t.med := by omega
    have c : n > t.low := by omega
    simp [List.filter, a, b, c]
  · by_cases b : n > t.med
    · have c : n > t.low := by omega
      simp [List.filter, a, b, c]
    · by_cases c : n > t.low <;> simp [List.filter, a, b, c]

/-- with the documented defaults the table reads 0 | 1-5 | 6-10 | >10 -/
theorem C09_band_default_table (n : Int) :
    categorise {} n = (if n ≤ 0 then 0 else if n ≤ 5 then 1 else if n ≤ 10 then 2 else 3) := by
  unfold categorise
  simp only []
  split <;> split <;> (try split) <;> (try split) <;> (try split) <;> omega

/-- without ascending thresholds the two readings differ — such an object cannot be constructed -/
theorem C09_band_needs_ascending : specBand { low := 5, med := 3, high := 10 } 4 ≠ categorise { low := 5, med := 3, high := 10 } 4 := by
  decide

theorem count_range_le (q : Nat) : ∀ n, ((List.range n).filter (fun v => decide (v + 1 ≤ q))).length = min n q := by
  intro n
  induction n with
  | zero => simp
  | succ n ih =>
    rw [List.range_succ, List.filter_append, List.length_append, ih]
    by_cases h : n + 1 ≤ q <;> simp [List.filter, h] <;> omega

/-- **utilisation**: the table "0 | one band per ninth | 10 from 100 % up" is the code's `min(int(x / b * 9) + 1, 10)` (0 for no traffic),
for every amount and every capacity -/
theorem C09_util_eq_code (x b : Nat) : specUtil x b = utilBin 10 x b := by
  unfold specUtil utilBin
  by_cases hx : x = 0
  · simp [hx]
  · by_cases hb : b = 0
    · simp [hx, hb]
    · have hb' : 0 < b := Nat.pos_of_ne_zero hb
      simp only [hx, hb, if_false]
      by_cases hle : b ≤ x
      · simp only [hle, if_true]
        have : 9 ≤ x * 9 / b := (Nat.le_div_iff_mul_le hb').mpr (by omega)
        congr 1
        omega
      · simp only [hle, if_false]
        have hq : x * 9 / b < 9 := (Nat.div_lt_iff_lt_mul hb').mpr (by omega)
        have hcongr : (List.range 9).filter (fun v => decide ((v + 1) * b ≤ 9 * x)) =
            (List.range 9).filter (fun v => decide (v + 1 ≤ x * 9 / b)) := by
          apply List.filter_congr
          intro v _
          have : (v + 1 ≤ x * 9 / b) ↔ ((v + 1) * b ≤ 9 * x) := by
            rw [Nat.le_div_iff_mul_le hb', Nat.mul_comm x 9]
          simp [this]
        rw [hcongr, count_range_le]
        congr 1
        omega

/-! ### dictionary comprehension keyed by name = "find the object with that name" -/

theorem lookupS_map {α β} (name : α → String) (f : α → β) (k : String) (l : List α) :
    lookupS k (l.map (fun x => (name x, f x))) = (l.find? (fun x => name x = k)).map f := by
  induction l with
  | nil => rfl
  | cons y ys ih =>
    simp only [List.map_cons, lookupS, List.find?_cons]
    by_cases h : k = name y
    · simp [h]
    · have h' : ¬ name y = k := fun e => h e.symm
      simp [h, h', ih]

theorem lookupN_map {α β} (num : α → Nat) (f : α → β) (k : Nat) (l : List α) :
    lookupN k (l.map (fun x => (num x, f x))) = (l.find? (fun x => num x = k)).map f := by
  induction l with
  | nil => rfl
  | cons y ys ih =>
    simp only [List.map_cons, lookupN, List.find?_cons]
    by_cases h : k = num y
    · simp [h]
    · have h' : ¬ num y = k := fun e => h e.symm
      simp [h, h', ih]

theorem describe_node (t : Truth) (h : String) : (describe t).node h = (t.node h).map (fun n => (describeNode n).2) := by
  unfold SimState.node describe Truth.node
  exact lookupS_map (fun n => n.hostname) (fun n => (describeNode n).2) h t.nodes

/-! ### per class: the code's encoder on the described state is the specification on the objects -/

theorem C09_service_eq_spec (o : ServiceObs) (t : Truth) : o.val (describe t) = o.spec t := by
  unfold ServiceObs.val ServiceObs.find ServiceObs.spec
  cases o.wh with
  | none => rfl
  | some p =>
    obtain ⟨h, s⟩ := p
    simp only [describe_node]
    cases t.node h with
    | none => rfl
    | some n =>
      simp only [Option.map_some, Option.bind_some, describeNode]
      rw [show n.services.map describeSoftware = n.services.map (fun x => (x.name, (describeSoftware x).2)) from rfl, lookupS_map]
      cases n.services.find? (fun x => x.name = s) with
      | none => rfl
      | some sv => simp only [Option.map_some, describeSoftware, describedOp_eq_specOp]; rfl

theorem C09_application_eq_spec (o : AppObs) (t : Truth) (ht : o.thr.Ok) : o.val (describe t) = o.spec t := by
  unfold AppObs.val AppObs.find AppObs.spec
  simp only [C09_band_eq_code o.thr ht]
  cases o.wh with
  | none => rfl
  | some p =>
    obtain ⟨h, s⟩ := p
    simp only [describe_node]
    cases t.node h with
    | none => rfl
    | some n =>
      simp only [Option.map_some, Option.bind_some, describeNode]
      rw [show n.apps.map describeSoftware = n.apps.map (fun x => (x.name, (describeSoftware x).2)) from rfl, lookupS_map]
      cases n.apps.find? (fun x => x.name = s) with
      | none => rfl
      | some sv => simp only [Option.map_some, describeSoftware, describedOp_eq_specOp]; rfl

theorem folder_find_describe (o : FolderObs) (t : Truth) :
    o.find (describe t) = match o.wh with
      | none => none
      | some (h, fo) => (t.folder h fo).map (fun f => (describeFolder f).2) := by
  unfold FolderObs.find Truth.folder
  cases o.wh with
  | none => rfl
  | some p =>
    obtain ⟨h, fo⟩ := p
    simp only [describe_node]
    cases t.node h with
    | none => rfl
    | some n =>
      simp only [Option.map_some, Option.bind_some, describeNode]
      rw [show n.folders.map describeFolder = n.folders.map (fun x => (x.name, (describeFolder x).2)) from rfl, lookupS_map]

theorem C09_file_eq_spec (o : FileObs) (t : Truth) (ht : o.thr.Ok) : o.val (describe t) = o.spec t := by
  unfold FileObs.val FileObs.find FileObs.spec Truth.file
  simp only [C09_band_eq_code o.thr ht]
  cases o.wh with
  | none => rfl
  | some p =>
    obtain ⟨h, fo, fi⟩ := p
    simp only [describe_node]
    cases t.node h with
    | none => rfl
    | some n =>
      simp only [Option.map_some, Option.bind_some, describeNode]
      rw [show n.folders.map describeFolder = n.folders.map (fun x => (x.name, (describeFolder x).2)) from rfl, lookupS_map]
      cases n.folders.find? (fun x => x.name = fo) with
      | none => rfl
      | some f =>
        simp only [Option.map_some, Option.bind_some, describeFolder]
        rw [show f.files.map describeFile = f.files.map (fun x => (x.name, (describeFile x).2)) from rfl, lookupS_map]
        cases f.files.find? (fun x => x.name = fi) with
        | none => rfl
        | some x => rfl

/-- The folder object's memory agrees with the simulator: when scanning is required and no scan completed in this step, the
cached health is the folder's visible health. (It holds initially — both are 0 — and `C09_folder_coherent_step` shows every
observation re-establishes it.) -/
def FolderObs.Coherent (o : FolderObs) (t : Truth) : Prop :=
  o.scan = true → ∀ h fo f, o.wh = some (h, fo) → t.folder h fo = some f → f.scanned = false →
    (o.cachedFor = none ∨ o.cachedFor = f.uid) → o.cached = f.visible

theorem FolderObs.sameFolder_iff (o : FolderObs) (fs : FolderState) :
    o.sameFolder fs = true ↔ (o.cachedFor = none ∨ o.cachedFor = fs.uid) := by
  unfold FolderObs.sameFolder
  cases hc : o.cachedFor with
  | none => simp
  | some u =>
    simp only [Option.isNone_some, Bool.false_or, beq_iff_eq]
    constructor
    · intro h; exact Or.inr h.symm
    · intro h; rcases h with h | h
      · cases h
      · exact h.symm

/-- with scanning required, the leaf is the folder's visible health whenever the memory is coherent with it: a cache read from
ANOTHER folder object is never used (59ceb16), a cache read from this one is its last-scanned health -/
theorem FolderObs.health_eq_visible (o : FolderObs) (fs : FolderState) (hs : o.scan = true)
    (hc : fs.scanned = false → (o.cachedFor = none ∨ o.cachedFor = fs.uid) → o.cached = fs.visible) : o.health fs = fs.visible := by
  unfold FolderObs.health
  simp only [hs, if_true]
  cases hsc : fs.scanned with
  | true => simp
  | false =>
    cases hsame : o.sameFolder fs with
    | false => simp
    | true => simpa [hsame] using hc hsc ((o.sameFolder_iff fs).mp hsame)

theorem C09_folder_eq_spec (o : FolderObs) (t : Truth) (c : o.Coherent t) (ht : ∀ x ∈ o.files, x.thr.Ok) :
    o.val (describe t) = o.spec t := by
  unfold FolderObs.val FolderObs.spec
  rw [folder_find_describe]
  cases hw : o.wh with
  | none => rfl
  | some p =>
    obtain ⟨h, fo⟩ := p
    simp only []
    cases hf : t.folder h fo with
    | none => rfl
    | some f =>
      simp only [Option.map_some]
      have hh : o.health (describeFolder f).2 = (if o.scan = true then f.visible else f.health) := by
        cases hs : o.scan with
        | false => simp [FolderObs.health, describeFolder, hs]
        | true =>
          rw [FolderObs.health_eq_visible o _ hs (fun hsc hsame => c hs h fo f hw hf hsc hsame)]
          simp [describeFolder]
      rw [hh]
      have hfiles : o.files.map (fun x => x.val (describe t)) = o.files.map (fun x => x.spec t) :=
        List.map_congr_left (fun x hx => C09_file_eq_spec x t (ht x hx))
      rw [hfiles]

theorem nic_lookup_describe (t : Truth) (h : String) (i : Nat) :
    ((describe t).node h).bind (fun n => lookupN i n.nics) = (t.nic h i).map (fun n => (describeNic n).2) := by
  simp only [describe_node, Truth.nic]
  cases t.node h with
  | none => rfl
  | some n =>
    simp only [Option.map_some, Option.bind_some, describeNode]
    rw [show n.nics.map describeNic = n.nics.map (fun x => (x.num, (describeNic x).2)) from rfl, lookupN_map]

theorem C09_nic_eq_spec (o : NicObs) (t : Truth) (ht : o.thr.Ok) : o.val (describe t) = o.spec t := by
  unfold NicObs.val NicObs.find NicObs.spec
  simp only [C09_band_eq_code o.thr ht, C09_util_eq_code]
  cases o.wh with
  | none => rfl
  | some p =>
    obtain ⟨h, i⟩ := p
    simp only [nic_lookup_describe]
    cases t.nic h i with
    | none => rfl
    | some n =>
      simp only [Option.map_some, describeNic]
      cases n.capturing <;> rfl

theorem C09_port_eq_spec (o : PortObs) (t : Truth) : o.val (describe t) = o.spec t := by
  unfold PortObs.val PortObs.spec
  cases o.wh with
  | none => rfl
  | some p =>
    obtain ⟨h, i⟩ := p
    simp only [nic_lookup_describe]
    cases t.nic h i with
    | none => rfl
    | some n => rfl

theorem C09_link_eq_spec (o : LinkObs) (t : Truth) : o.val (describe t) = o.spec t := by
  unfold LinkObs.val LinkObs.find LinkObs.spec describe
  simp only [C09_util_eq_code]
  rw [show t.links.map describeLink = t.links.map (fun l => (linkRef l.epA l.epB, (describeLink l).2)) from rfl, lookupS_map, lookupS_map]
  cases t.links.find? (fun l => linkRef l.epA l.epB = linkRef o.a o.b) with
  | some l => rfl
  | none =>
    simp only [Option.map_none]
    cases t.links.find? (fun l => linkRef l.epA l.epB = linkRef o.b o.a) with
    | some l => rfl
    | none => rfl

/-! #### ACL: the id of a listed value is its position + 2 -/

theorem idOf_none_of_not_mem {α} [DecidableEq α] (l : List α) (x : α) (h : x ∉ l) : ∀ k, idOf l x k = none := by
  induction l with
  | nil => intro k; rfl
  | cons y ys ih =>
    intro k
    simp only [List.mem_cons, not_or] at h
    simp [idOf, ih h.2, h.1]

theorem idOf_eq_firstIdx {α} [DecidableEq α] (l : List α) (hn : l.Nodup) (x : α) :
    ∀ k, idOf l x k = (firstIdx l x).map (· + k) := by
  induction l with
  | nil => intro k; rfl
  | cons y ys ih =>
    intro k
    simp only [List.nodup_cons] at hn
    simp only [idOf, firstIdx]
    by_cases hx : x = y
    · subst hx
      simp [idOf_none_of_not_mem ys x hn.1]
    · rw [ih hn.2 (k + 1)]
      simp only [hx, if_false]
      cases firstIdx ys x with
      | none => rfl
      | some i => simp only [Option.map_some]; congr 1; omega

theorem getId_eq_spec {α} [DecidableEq α] (l : List α) (hn : l.Nodup) (x : Option α) : getId l x = specListId l x := by
  cases x with
  | none => rfl
  | some v =>
    simp only [getId, specListId]
    rw [idOf_eq_firstIdx l hn v 2]
    cases firstIdx l v with
    | none => rfl
    | some i => rfl

theorem C09_acl_eq_spec (o : AclObs) (t : Truth) (c : o.CfgOk) : o.val (describe t) = o.spec t := by
  unfold AclObs.val AclObs.find AclObs.spec
  cases o.wh with
  | none => rfl
  | some p =>
    obtain ⟨h, a⟩ := p
    simp only [describe_node]
    cases t.node h with
    | none => rfl
    | some n =>
      simp only [Option.map_some, Option.bind_some, describeNode]
      cases lookupS a n.acls with
      | none => rfl
      | some slots =>
        simp only []
        congr 1
        apply List.map_congr_left
        intro i _
        congr 1
        cases slots[i]? with
        | none => rfl
        | some r =>
          cases r with
          | none => rfl
          | some r =>
            simp only [AclObs.ruleVal, AclObs.specRule, getId_eq_spec _ c.1, getId_eq_spec _ c.2.1, getId_eq_spec _ c.2.2.1,
              getId_eq_spec _ c.2.2.2]

/-! #### nodes -/

/-- simulator-side well-formedness used by C09: a local session's user name is not the empty string (the code reports
`current_local_user` through its truthiness) -/
def WfTruth (t : Truth) : Prop := ∀ n ∈ t.nodes, n.localUser ≠ some ""

theorem Truth.node_mem {t : Truth} {h : String} {n : NodeT} (hn : t.node h = some n) : n ∈ t.nodes :=
  List.mem_of_find?_eq_some hn

theorem users_eq_spec (n : NodeT) (h : n.localUser ≠ some "") : usersVal (describeUsm n) = specUsers n := by
  unfold describeUsm specUsers
  cases n.hasUsm with
  | false => rfl
  | true =>
    simp only [if_true, usersVal]
    cases hl : n.localUser with
    | none => rfl
    | some u =>
      have : u ≠ "" := fun e => h (by rw [hl, e])
      simp [this, maxUsers]

def HostObs.Coherent (o : HostObs) (t : Truth) : Prop := ∀ f ∈ o.folders, f.Coherent t

/-- every threshold triple inside the host observation is strictly ascending (the constructors refuse anything else) -/
def HostObs.ThrOk (o : HostObs) : Prop :=
  (∀ a ∈ o.apps, a.thr.Ok) ∧ (∀ f ∈ o.folders, ∀ x ∈ f.files, x.thr.Ok) ∧ (∀ n ∈ o.nics, n.thr.Ok)

theorem C09_host_eq_spec (o : HostObs) (t : Truth) (wt : WfTruth t) (c : o.Coherent t) (ht : o.ThrOk) :
    o.val (describe t) = o.spec t := by
  unfold HostObs.val HostObs.find HostObs.spec
  cases o.wh with
  | none => rfl
  | some h =>
    simp only [describe_node]
    cases hn : t.node h with
    | none => rfl
    | some n =>
      simp only [Option.map_some, describeNode, nodeOn]
      by_cases hop : n.op = 1
      · simp only [hop, if_true, HostObs.onVal]
        have h1 : o.services.map (fun x => x.val (describe t)) = o.services.map (fun x => x.spec t) :=
          List.map_congr_left (fun x _ => C09_service_eq_spec x t)
        have h2 : o.apps.map (fun x => x.val (describe t)) = o.apps.map (fun x => x.spec t) :=
          List.map_congr_left (fun x hx => C09_application_eq_spec x t (ht.1 x hx))
        have h3 : o.folders.map (fun x => x.val (describe t)) = o.folders.map (fun x => x.spec t) :=
          List.map_congr_left (fun x hx => C09_folder_eq_spec x t (c x hx) (ht.2.1 x hx))
        have h4 : o.nics.map (fun x => NicObs.val x (describe t)) = o.nics.map (fun x => NicObs.spec x t) :=
          List.map_congr_left (fun x hx => C09_nic_eq_spec x t (ht.2.2 x hx))
        have h5 := users_eq_spec n (wt n (Truth.node_mem hn))
        rw [h1, h2, h3, h4, h5]
        rfl
      · simp only [hop, if_false]

theorem C09_router_eq_spec (o : RouterObs) (t : Truth) (wt : WfTruth t) (c : o.acl.CfgOk) : o.val (describe t) = o.spec t := by
  unfold RouterObs.val RouterObs.spec
  cases o.wh with
  | none => rfl
  | some h =>
    simp only [describe_node]
    cases hn : t.node h with
    | none => rfl
    | some n =>
      simp only [Option.map_some, describeNode, nodeOn]
      by_cases hop : n.op = 1
      · simp only [hop, if_true]
        have h1 : o.ports.map (fun x => x.val (describe t)) = o.ports.map (fun x => x.spec t) :=
          List.map_congr_left (fun x _ => C09_port_eq_spec x t)
        have h5 := users_eq_spec n (wt n (Truth.node_mem hn))
        rw [h1, h5, C09_acl_eq_spec o.acl t c]
      · simp only [hop, if_false]

theorem C09_firewall_eq_spec (o : FirewallObs) (t : Truth) (wt : WfTruth t) : o.val (describe t) = o.spec t := by
  unfold FirewallObs.val FirewallObs.spec
  simp only [describe_node]
  cases hn : t.node o.wh with
  | none => rfl
  | some n =>
    simp only [Option.map_some, describeNode, nodeOn]
    by_cases hop : n.op = 1
    · simp only [hop, if_true]
      have h5 := users_eq_spec n (wt n (Truth.node_mem hn))
      have ha : (fun a => (o.acl a).val (describe t)) = (fun a => (o.acl a).spec t) := by
        funext a; exact C09_acl_eq_spec (o.acl a) t (o.acl_cfgOk a)
      rw [h5, ha, C09_port_eq_spec, C09_port_eq_spec, C09_port_eq_spec]
    · simp only [hop, if_false]

mutual
/-- what C09 needs of an observation object: folder memories coherent with the simulator, and the two invariants of construction — ACL
id tables without repeated entry, threshold triples strictly ascending -/
def Obs.Faithful (t : Truth) : Obs → Prop
  | .app o => o.thr.Ok
  | .file o => o.thr.Ok
  | .nic o => o.thr.Ok
  | .folder o => o.Coherent t ∧ ∀ x ∈ o.files, x.thr.Ok
  | .acl o => o.CfgOk
  | .host o => o.Coherent t ∧ o.ThrOk
  | .router o => o.acl.CfgOk
  | .nodes o => (∀ h ∈ o.hosts, h.Coherent t ∧ h.ThrOk) ∧ (∀ r ∈ o.routers, r.acl.CfgOk)
  | .nested cs => Obs.FaithfulL t cs
  | _ => True
def Obs.FaithfulL (t : Truth) : List (String × Obs) → Prop
  | [] => True
  | c :: cs => c.2.Faithful t ∧ Obs.FaithfulL t cs
end

mutual
/-- **C09, top level**: for every observation object and every ground truth, what the code's `observe` returns on
`describe_state()` of the objects is the documented encoding of those objects. -/
theorem C09_observe_eq_spec (t : Truth) (wt : WfTruth t) :
    ∀ o : Obs, o.Faithful t → o.val (describe t) = o.spec t
  | .null, _ => rfl
  | .service o, _ => C09_service_eq_spec o t
  | .app o, c => C09_application_eq_spec o t c
  | .file o, c => C09_file_eq_spec o t c
  | .folder o, c => C09_folder_eq_spec o t c.1 c.2
  | .nic o, c => C09_nic_eq_spec o t c
  | .port o, _ => C09_port_eq_spec o t
  | .link o, _ => C09_link_eq_spec o t
  | .links os, _ => by
    simp only [Obs.val, Obs.spec]
    rw [List.map_congr_left (fun x _ => C09_link_eq_spec x t)]
  | .acl o, c => C09_acl_eq_spec o t c
  | .host o, c => C09_host_eq_spec o t wt c.1 c.2
  | .router o, c => C09_router_eq_spec o t wt c
  | .firewall o, _ => C09_firewall_eq_spec o t wt
  | .nodes o, c => by
    simp only [Obs.val, Obs.spec, NodesObs.val, NodesObs.spec]
    rw [List.map_congr_left (fun x hx => C09_host_eq_spec x t wt (c.1 x hx).1 (c.1 x hx).2),
        List.map_congr_left (fun x hx => C09_router_eq_spec x t wt (c.2 x hx)),
        List.map_congr_left (fun x _ => C09_firewall_eq_spec x t wt)]
  | .nested cs, c => by
    simp only [Obs.val, Obs.spec]
    rw [C09_nested_eq_spec t wt cs c]
theorem C09_nested_eq_spec (t : Truth) (wt : WfTruth t) :
    ∀ cs : List (String × Obs), Obs.FaithfulL t cs → Obs.valL (describe t) cs = Obs.specL t cs
  | [], _ => rfl
  | c :: cs, h => by
    simp only [Obs.valL, Obs.specL]
    rw [C09_observe_eq_spec t wt c.2 h.1, C09_nested_eq_spec t wt cs h.2]
end

/-! ### scan gating: visible value exactly when scanning is required, true value otherwise (per component kind) -/

theorem C09_scan_gating_service (o : ServiceObs) (t : Truth) (h name : String) (n : NodeT) (s : SoftwareT)
    (hw : o.wh = some (h, name)) (hn : t.node h = some n) (hs : n.services.find? (fun x => x.name = name) = some s) :
    lookupK (.s "health_status") (match o.val (describe t) with | .dict kvs => kvs | _ => []) =
      some (.int (if o.scan then s.healthVisible else s.healthActual)) := by
  rw [C09_service_eq_spec]
  simp [ServiceObs.spec, hw, hn, hs, lookupK, specHealth]

theorem C09_scan_gating_application (o : AppObs) (t : Truth) (h name : String) (n : NodeT) (s : SoftwareT)
    (hw : o.wh = some (h, name)) (hn : t.node h = some n) (hs : n.apps.find? (fun x => x.name = name) = some s) (ht : o.thr.Ok) :
    lookupK (.s "health_status") (match o.val (describe t) with | .dict kvs => kvs | _ => []) =
      some (.int (if o.scan then s.healthVisible else s.healthActual)) := by
  rw [C09_application_eq_spec o t ht]
  simp [AppObs.spec, hw, hn, hs, lookupK, specHealth]

theorem C09_scan_gating_file (o : FileObs) (t : Truth) (h fo fi : String) (f : FileT)
    (hw : o.wh = some (h, fo, fi)) (hf : t.file h fo fi = some f) (ht : o.thr.Ok) :
    lookupK (.s "health_status") (match o.val (describe t) with | .dict kvs => kvs | _ => []) =
      some (.int (if o.scan then f.visible else f.health)) := by
  rw [C09_file_eq_spec o t ht]
  simp [FileObs.spec, hw, hf, lookupK]

theorem C09_scan_gating_folder (o : FolderObs) (t : Truth) (c : o.Coherent t) (h fo : String) (f : FolderT)
    (hw : o.wh = some (h, fo)) (hf : t.folder h fo = some f) (ht : ∀ x ∈ o.files, x.thr.Ok) :
    lookupK (.s "health_status") (match o.val (describe t) with | .dict kvs => kvs | _ => []) =
      some (.int (if o.scan then f.visible else f.health)) := by
  rw [C09_folder_eq_spec o t c ht]
  simp [FolderObs.spec, hw, hf, lookupK]

/-! ### absent components and nodes that are not ON read as the default encoding -/

theorem C09_absent_default_service (o : ServiceObs) (st : SimState) (h : o.find st = none) : o.val st = serviceDefault := by
  simp [ServiceObs.val, h]
theorem C09_absent_default_application (o : AppObs) (st : SimState) (h : o.find st = none) : o.val st = appDefault := by
  simp [AppObs.val, h]
theorem C09_absent_default_file (o : FileObs) (st : SimState) (h : o.find st = none) : o.val st = o.default := by
  simp [FileObs.val, h]
theorem C09_absent_default_folder (o : FolderObs) (st : SimState) (h : o.find st = none) : o.val st = o.default := by
  simp [FolderObs.val, h]
theorem C09_absent_default_nic (o : NicObs) (st : SimState) (h : o.find st = none) :
    o.val st = o.default := by
  simp [NicObs.val, h]
theorem C09_absent_default_host (o : HostObs) (st : SimState) (h : o.find st = none) :
    o.val st = o.default := by
  simp [HostObs.val, h]
/-- a deleted file is not among the folder's live files, so its observation is the default -/
theorem C09_deleted_file_default (o : FileObs) (t : Truth) (h fo fi : String) (hw : o.wh = some (h, fo, fi))
    (hf : t.file h fo fi = none) (ht : o.thr.Ok) : o.val (describe t) = o.default := by
  rw [C09_file_eq_spec o t ht]; simp [FileObs.spec, hw, hf]

/-- a host that is present but not ON: every component leaf is its default, `operating_status` is still the power state -/
theorem C09_not_on_default (o : HostObs) (st : SimState) (n : NodeState) (h : o.find st = some n)
    (hop : n.op ≠ nodeOn) : o.val st = o.offVal n.op ∧
      lookupK (.s "operating_status") (match o.offVal n.op with | .dict kvs => kvs | _ => []) = some (.int n.op) := by
  refine ⟨by simp [HostObs.val, h, hop], by simp [HostObs.offVal, lookupK]⟩

theorem C09_not_on_default_router (o : RouterObs) (st : SimState) (h : String) (n : NodeState) (hw : o.wh = some h)
    (hn : st.node h = some n) (hop : n.op ≠ nodeOn) : o.val st = o.default := by
  simp [RouterObs.val, hw, hn, hop]

theorem C09_not_on_default_firewall (o : FirewallObs) (st : SimState) (n : NodeState)
    (hn : st.node o.wh = some n) (hop : n.op ≠ nodeOn) : o.val st = o.default := by
  simp [FirewallObs.val, hn, hop]

/-! ### slot assignment -/

theorem lookupK_enumFrom {α} (xs : List α) (k i : Nat) : lookupK (.n (k + i)) (enumFrom k xs) = xs[i]? := by
  induction xs generalizing k i with
  | nil => simp [Obs.enumFrom, lookupK]
  | cons x xs ih =>
    cases i with
    | zero => simp [Obs.enumFrom, lookupK]
    | succ j =>
      have hne : ¬ (Key.n (k + (j + 1)) = Key.n k) := by intro h; injection h with h; omega
      simp only [Obs.enumFrom, lookupK, hne, if_false, List.getElem?_cons_succ]
      have := ih (k + 1) j
      rwa [show k + 1 + j = k + (j + 1) by omega] at this

/-- slot `i + 1` of a slot dictionary reads the `i`-th configured component (and nothing else) -/
theorem C09_slot_assignment {α} (xs : List α) (f : α → Val) (i : Nat) :
    lookupK (.n (i + 1)) (enumFrom 1 (xs.map f)) = xs[i]?.map f := by
  have := lookupK_enumFrom (xs.map f) 1 i
  rw [show 1 + i = i + 1 by omega] at this
  simp [this]

theorem padTo_length {α} (n : Nat) (d : α) (xs : List α) : (padTo n d xs).length = n := by
  simp [padTo]; omega

/-- construction: the first `min n len` slots are the configured components in order, the rest are padding -/
theorem C09_slot_padding {α} (n : Nat) (d : α) (xs : List α) (i : Nat) (hi : i < n) :
    (padTo n d xs)[i]? = some (if h : i < xs.length then xs[i] else d) := by
  unfold padTo
  rw [List.getElem?_take_of_lt hi]
  by_cases h : i < xs.length
  · simp [h, List.getElem?_append_left h]
  · rw [List.getElem?_append_right (by omega)]
    simp only [h, dite_false]
    rw [List.getElem?_replicate]
    have : i - xs.length < n - xs.length := by omega
    simp [this]

theorem rangeFrom_lookup {α} (f : Nat → α) (k n i : Nat) (hi : i < n) :
    lookupK (.n (k + i)) ((rangeFrom k n).map (fun j => (Key.n j, f j))) = some (f (k + i)) := by
  induction n generalizing k i with
  | zero => omega
  | succ n ih =>
    cases i with
    | zero => simp [rangeFrom, lookupK]
    | succ j =>
      have hne : ¬ (Key.n (k + (j + 1)) = Key.n k) := by intro h; injection h with h; omega
      simp only [rangeFrom, List.map_cons, lookupK, hne, if_false]
      have := ih (k + 1) j (by omega)
      rwa [show k + 1 + j = k + (j + 1) by omega] at this

/-- ACL: entry `i` of the observation (0-based — position 0 is slot 0) shows exactly the rule at position `i` of the list -/
theorem C09_acl_slot_assignment (o : AclObs) (st : SimState) (slots : List (Option RuleState)) (hf : o.find st = some slots)
    (i : Nat) (hi : i < o.numRules) :
    lookupK (.n i) (match o.val st with | .dict kvs => kvs | _ => []) = some (o.ruleVal i slots[i]?) := by
  simp only [AclObs.val, hf]
  have := rangeFrom_lookup (fun j => o.ruleVal j slots[j]?) 0 o.numRules i hi
  simpa using this

/-! ### the per-object memory -/

/-- after observing a present folder, the cache is the value just reported and belongs to THAT folder object; if the object was
coherent it is the visible health -/
theorem C09_folder_coherent_step (o : FolderObs) (st : SimState) (f : FolderState) (hf : o.find st = some f) (hs : o.scan = true)
    (hc : f.scanned = false → (o.cachedFor = none ∨ o.cachedFor = f.uid) → o.cached = f.visible) :
    (o.next st).cached = f.visible ∧ (o.next st).cachedFor = f.uid := by
  simp only [FolderObs.next, hf]
  exact ⟨FolderObs.health_eq_visible o f hs hc, trivial⟩

/-- health leaves reported for a folder NAME that stays present, step after step (the object behind the name may change) -/
def folderRun (o : FolderObs) : List FolderState → List Nat
  | [] => []
  | f :: fs => o.health f :: folderRun { o with cached := o.health f, cachedFor := f.uid } fs

/-- the simulator changes a folder's visible health only in a step it flags with `scanned_this_step` -/
def ScanCoherent (v0 : Nat) : List FolderState → Prop
  | [] => True
  | f :: fs => (f.scanned = false → f.visible = v0) ∧ ScanCoherent f.visible fs

/-- the same, per folder OBJECT: a state whose uuid differs from the previous one (a folder created under the name of a deleted one)
may show any visible health; only the SAME object (or states without uuid) must keep it until a scan is flagged -/
def ScanCoherentId (v0 : Nat) (u0 : Option Nat) : List FolderState → Prop
  | [] => True
  | f :: fs => (f.scanned = false → (u0 = none ∨ u0 = f.uid) → f.visible = v0) ∧ ScanCoherentId f.visible f.uid fs

theorem scanCoherentId_of_scanCoherent : ∀ (fs : List FolderState) (v0 : Nat) (u0 : Option Nat), ScanCoherent v0 fs → ScanCoherentId v0 u0 fs
  | [], _, _, _ => trivial
  | f :: fs, _, _, h => ⟨fun hsc _ => h.1 hsc, scanCoherentId_of_scanCoherent fs f.visible f.uid h.2⟩

/-- **the cache tracks the visible health of whichever folder object bears the name** (after repair 59ceb16): with scanning required,
starting with a cache equal to the visible health of the object it was read from, the folder leaf equals the visible health of the
folder that is there at EVERY step — the same object until its next scan (also across its deletion and restoration, during which
nothing is observed), and a NEW object of the same name from its first observation on (F-C09-4 / F-C09-5). -/
theorem C09_folder_cache_tracks_visible_id (fs : List FolderState) :
    ∀ (o : FolderObs) (v0 : Nat) (u0 : Option Nat), o.scan = true → o.cached = v0 → o.cachedFor = u0 → ScanCoherentId v0 u0 fs →
      folderRun o fs = fs.map (·.visible) := by
  induction fs with
  | nil => intro _ _ _ _ _ _ _; rfl
  | cons f fs ih =>
    intro o v0 u0 hs hc hu hco
    have hh : o.health f = f.visible :=
      FolderObs.health_eq_visible o f hs (fun hsc hsame => by rw [hc]; exact (hco.1 hsc (by rw [← hu]; exact hsame)).symm)
    simp only [folderRun, List.map_cons, hh]
    rw [ih { o with cached := f.visible, cachedFor := f.uid } f.visible f.uid hs rfl rfl hco.2]

/-- **the cache tracks the visible health along every trajectory** of one folder: with scanning required, starting with a cache
equal to the visible health, the folder leaf equals the folder's visible health at EVERY step (not only in the step a scan
completes — the defect F-17 of the unchanged code). -/
theorem C09_folder_cache_tracks_visible (fs : List FolderState) :
    ∀ (o : FolderObs) (v0 : Nat), o.scan = true → o.cached = v0 → ScanCoherent v0 fs →
      folderRun o fs = fs.map (·.visible) :=
  fun o v0 hs hc hco => C09_folder_cache_tracks_visible_id fs o v0 o.cachedFor hs hc rfl (scanCoherentId_of_scanCoherent fs v0 _ hco)

/-- NMNE memory: after observing a capturing interface the remembered counters are the current ones, so the next leaf is the
band of the events of the next step only -/
theorem C09_nmne_memory (o : NicObs) (st : SimState) (n : NicState) (i u : Nat) (hf : o.find st = some n)
    (hi : o.includeNmne = true) (hn : n.nmne = some (i, u)) :
    (o.next st).lastIn = i ∧ (o.next st).lastOut = u := by
  simp [NicObs.next, hf, hi, hn]


/-- **the NMNE leaves follow the OBSERVED interface's own network settings** (F-10 repaired): with `include_nmne`, an interface whose
settings capture shows the band of the events since its previous observation, an interface whose settings do not capture shows zeros
— whatever any other network, game or observation in the process is configured to do (no process-wide switch enters the statement) -/
theorem C09_nmne_follows_interface (o : NicObs) (t : Truth) (h : String) (i : Nat) (n : NicT)
    (hw : o.wh = some (h, i)) (hn : t.nic h i = some n) (hi : o.includeNmne = true) (ht : o.thr.Ok) :
    lookupK (.s "NMNE") (match o.val (describe t) with | .dict kvs => kvs | _ => []) =
      some (if n.capturing then
              .dict (dirDict (.int (specBand o.thr ((n.nmneIn : Int) - o.lastIn))) (.int (specBand o.thr ((n.nmneOut : Int) - o.lastOut))))
            else .dict (dirDict (.int 0) (.int 0))) := by
  rw [C09_nic_eq_spec o t ht]
  simp [NicObs.spec, hw, hn, hi, optEntry, lookupK]

/-! ### non-vacuity -/

def exTruth : Truth :=
  { nodes := [{ hostname := "pc", op := 1,
                services := [{ name := "dns", op := 6, healthActual := 3, healthVisible := 1 }],
                apps := [{ name := "browser", op := 3, healthActual := 4, healthVisible := 0, numExec := 99 }],
                folders := [{ name := "root", health := 3, visible := 4, scanned := false,
                              files := [{ name := "a.txt", health := 4, visible := 2, numAccess := 50 }], deletedFiles := [] }],
                deletedFolders := [],
                nics := [{ num := 1, enabled := false, speed := 100, icmp := some { inb := 5, outb := 1000 },
                           ports := [("tcp", [(80, { inb := 150, outb := 0 })])], capturing := true, nmneIn := 40, nmneOut := 3 }],
                numCreations := 17, numDeletions := 4, hasUsm := true, localUser := some "admin", remoteSessions := 9, acls := [] }],
    links := [] }

/-- the example host of C02, with a coherent folder cache, on a ground truth with compromised / fixing / over-threshold values -/
def exHost9 : HostObs := { exHost with folders := exHost.folders.map (fun f => { f with cached := 4 }) }

theorem exHost9_coherent : exHost9.Coherent exTruth := by
  intro f hf
  simp only [exHost9, exHost, List.map_cons, List.map_nil, List.mem_singleton] at hf
  subst hf
  intro _ h fo f hw hfo _ _
  simp only [Option.some.injEq, Prod.mk.injEq] at hw
  obtain ⟨rfl, rfl⟩ := hw
  simp [Truth.folder, Truth.node, exTruth] at hfo
  subst hfo; rfl

theorem thrDefault_ok : ({} : Thr).Ok := by unfold Thr.Ok; decide

theorem exHost9_thrOk : exHost9.ThrOk := by
  refine ⟨?_, ?_, ?_⟩
  · intro a ha; simp only [exHost9, exHost, List.mem_singleton] at ha; subst ha; exact thrDefault_ok
  · intro f hf x hx
    simp only [exHost9, exHost, List.map_cons, List.map_nil, List.mem_singleton] at hf
    subst hf
    simp only [List.mem_singleton] at hx
    subst hx; exact thrDefault_ok
  · intro n hn; simp only [exHost9, exHost, List.mem_singleton] at hn; subst hn; exact thrDefault_ok

example : WfTruth exTruth ∧ (Obs.host exHost9).Faithful exTruth ∧
    exHost9.val (describe exTruth) = exHost9.spec exTruth ∧ (exHost9.spec exTruth).raises = false := by
  refine ⟨?_, ⟨exHost9_coherent, exHost9_thrOk⟩, ?_, by decide⟩
  · intro n hn; simp only [exTruth, List.mem_singleton] at hn; subst hn; simp
  · exact C09_observe_eq_spec exTruth (by intro n hn; simp only [exTruth, List.mem_singleton] at hn; subst hn; simp)
      (.host exHost9) ⟨exHost9_coherent, exHost9_thrOk⟩

end Primaite.Obs
