/-
C04 — episodes and environment instances are isolated from one another.

Generic theorems (any classification `cls`, any programs, any schedule of operations of any number of instances):
  C04_frame                    an operation that respects the discipline leaves import-only globals untouched
  C04_instances_independent    A's trajectory and state in ANY schedule = A's trajectory and state when run alone
  C04_interleaving             the same, stated for an interleaving of two operation lists
  C04_reset_is_fresh           a reset that does not read the old game yields a state that depends only on the
                               environment-level attributes, the seed and the import-only globals
  C04_history_irrelevant       hence any two histories followed by reset(seed) and the same later operations (even
                               interleaved with other instances) give the same trajectory
Skeleton theorems (the four operations as the inventory describes them): see the second half of the file.
Round 7 (RNG): the F-11 repair (decorator `own_generator_state`: operations run on the instance's own generator state) is followed —
C04_skeleton_isolated PROVES C04_FullSkeletonIsolated, C04_gen_rng_safe PROVES C04_FullGenRngSafe, C04_skeleton_history_irrelevant is full; what
F-11 was is kept as lemmas about the pre-repair programs (C04_shared_rng_counterexample, C04_shared_rng_skeleton_isolated_partial).
Round 3: the F-10 repair (NMNE settings per game) is followed; C04_gen_globals_safe is FULL; the seed argument is an `Option Int` (C04_reset_call_reseeds, C04_reset_any_seed_episode_fresh,
C04_gen_seed_handling, C04_truthy_seed_counterexample, C04_unseeded_reset_fresh_modulo_rng).
-/
import PrimaiteModel.Model.Isolation
import PrimaiteModel.Gen.SharedState
import PrimaiteModel.Gen.IsolationReset
import PrimaiteModel.Gen.IsolationSinkFlags
import PrimaiteModel.Gen.OwnGeneratorState
namespace Primaite.Isolation

/-! ### relations -/

def Agree (cls : Nat → GClass) (W : List Nat) (G G' : Store) : Prop :=
  ∀ g, readOK cls W g = true → G g = G' g

/-- agreement on the import-only globals -/
def AgreeIO (cls : Nat → GClass) (G G' : Store) : Prop :=
  ∀ g, cls g = .importOnly → G g = G' g

def InstRel (L : Bool) (i j : Inst) : Prop := i.env = j.env ∧ (L = true → i.loc = j.loc)

def finalL : Bool → List Cmd → Bool
  | L, [] => L
  | _, .newGame :: r => finalL true r
  | L, .setEnv _ _ :: r => finalL L r
  | L, .setLoc _ _ :: r => finalL L r
  | L, .setGlob _ _ :: r => finalL L r
  | L, .emit _ :: r => finalL L r
  | L, .log _ :: r => finalL L r

def finalW : List Nat → List Cmd → List Nat
  | W, [] => W
  | W, .setGlob g _ :: r => finalW (g :: W) r
  | W, .newGame :: r => finalW W r
  | W, .setEnv _ _ :: r => finalW W r
  | W, .setLoc _ _ :: r => finalW W r
  | W, .emit _ :: r => finalW W r
  | W, .log _ :: r => finalW W r

theorem readOK_nil (cls : Nat → GClass) (g : Nat) : readOK cls [] g = true ↔ cls g = .importOnly := by
  simp [readOK]

theorem readOK_cons {cls : Nat → GClass} {W : List Nat} {g h : Nat} (hg : readOK cls W g = true) :
    readOK cls (h :: W) g = true := by
  simp only [readOK, Bool.or_eq_true, Bool.and_eq_true, List.contains_cons] at *
  rcases hg with hg | ⟨hc, hw⟩
  · exact Or.inl hg
  · refine Or.inr ⟨hc, ?_⟩
    simp only [List.contains_iff_mem] at hw
    simp [hw]

theorem agree_io_of_agree {cls : Nat → GClass} {W : List Nat} {G G' : Store} (h : Agree cls W G G') :
    AgreeIO cls G G' := by
  intro g hg
  apply h
  simp [readOK, hg]

theorem agree_nil_iff {cls : Nat → GClass} {G G' : Store} : Agree cls [] G G' ↔ AgreeIO cls G G' := by
  constructor
  · exact agree_io_of_agree
  · intro h g hg
    exact h g ((readOK_nil cls g).1 hg)

theorem finalL_true (p : List Cmd) : finalL true p = true := by
  induction p with
  | nil => rfl
  | cons c r ih => cases c <;> simpa [finalL] using ih

/-! ### expressions read the same value in related states -/

theorem eval_rel {cls : Nat → GClass} {L : Bool} {W : List Nat} {a : Val} {i j : Inst} {G G' : Store}
    (hi : InstRel L i j) (hG : Agree cls W G G') :
    ∀ e, exprOK cls L W e = true → eval a i G e = eval a j G' e := by
  intro e
  induction e with
  | lit v => intro _; rfl
  | arg => intro _; rfl
  | env x => intro _; simp [eval, hi.1]
  | loc x =>
    intro h
    simp only [exprOK] at h
    simp [eval, hi.2 h]
  | glob g => intro h; exact hG g h
  | add x y ihx ihy =>
    intro h
    simp only [exprOK, Bool.and_eq_true] at h
    simp [eval, ihx h.1, ihy h.2]
  | lcg x ih =>
    intro h
    simp only [exprOK] at h
    simp [eval, ih h]
  | ite c t e ihc iht ihe =>
    intro h
    simp only [exprOK, Bool.and_eq_true] at h
    simp [eval, ihc h.1.1, iht h.1.2, ihe h.2]

theorem agree_upd {cls : Nat → GClass} {W : List Nat} {G G' : Store} {g : Nat} {v : Val}
    (hG : Agree cls W G G') : Agree cls (g :: W) (upd G g v) (upd G' g v) := by
  intro h hh
  by_cases e : h = g
  · simp [upd, e]
  · simp only [upd, e, if_false]
    apply hG
    simp only [readOK, Bool.or_eq_true, Bool.and_eq_true, List.contains_cons] at *
    rcases hh with hh | ⟨hc, hw⟩
    · exact Or.inl hh
    · refine Or.inr ⟨hc, ?_⟩
      have : (h == g) = false := by simp [e]
      simpa [this] using hw

/-! ### the step lemma: one whole operation on two related states -/

theorem execProg_rel (cls : Nat → GClass) (a : Val) :
    ∀ (p : List Cmd) (L : Bool) (W : List Nat) (i j : Inst) (G G' : Store),
      cmdsOK cls L W p = true → InstRel L i j → Agree cls W G G' →
      InstRel (finalL L p) (execProg a p i G).1 (execProg a p j G').1
      ∧ Agree cls (finalW W p) (execProg a p i G).2.1 (execProg a p j G').2.1
      ∧ (execProg a p i G).2.2 = (execProg a p j G').2.2 := by
  intro p
  induction p with
  | nil => intro L W i j G G' _ hi hG; exact ⟨hi, hG, rfl⟩
  | cons c r ih =>
    intro L W i j G G' hok hi hG
    cases c with
    | setEnv x e =>
      simp only [cmdsOK, Bool.and_eq_true] at hok
      have hv := eval_rel (a := a) hi hG e hok.1
      have hi' : InstRel L { i with env := upd i.env x (eval a i G e) } { j with env := upd j.env x (eval a j G' e) } := by
        refine ⟨?_, hi.2⟩
        simp [hv, hi.1]
      have := ih L W _ _ G G' hok.2 hi' hG
      simpa [execProg, execCmd, finalL, finalW] using this
    | setLoc x e =>
      simp only [cmdsOK, Bool.and_eq_true] at hok
      have hv := eval_rel (a := a) hi hG e hok.1
      have hi' : InstRel L { i with loc := upd i.loc x (eval a i G e) } { j with loc := upd j.loc x (eval a j G' e) } := by
        refine ⟨hi.1, ?_⟩
        intro hL
        simp [hv, hi.2 hL]
      have := ih L W _ _ G G' hok.2 hi' hG
      simpa [execProg, execCmd, finalL, finalW] using this
    | setGlob g e =>
      simp only [cmdsOK, Bool.and_eq_true] at hok
      have hv := eval_rel (a := a) hi hG e hok.1.1
      have hG' : Agree cls (g :: W) (upd G g (eval a i G e)) (upd G' g (eval a j G' e)) := by
        rw [hv]; exact agree_upd hG
      have := ih L (g :: W) i j _ _ hok.2 hi hG'
      simpa [execProg, execCmd, finalL, finalW] using this
    | newGame =>
      simp only [cmdsOK] at hok
      have hi' : InstRel true { i with loc := fun _ => 0 } { j with loc := fun _ => 0 } := ⟨hi.1, fun _ => rfl⟩
      have := ih true W _ _ G G' hok hi' hG
      simpa [execProg, execCmd, finalL, finalW] using this
    | emit e =>
      simp only [cmdsOK, Bool.and_eq_true] at hok
      have hv := eval_rel (a := a) hi hG e hok.1
      have := ih L W i j G G' hok.2 hi hG
      simpa [execProg, execCmd, finalL, finalW, hv] using this
    | log e =>
      simp only [cmdsOK] at hok
      have := ih L W i j G G' hok hi hG
      simpa [execProg, execCmd, finalL, finalW] using this

theorem subset_finalW : ∀ (p : List Cmd) (W : List Nat) (g : Nat), g ∈ W → g ∈ finalW W p := by
  intro p
  induction p with
  | nil => intro W g h; exact h
  | cons c r ih =>
    intro W g h
    cases c <;> simp only [finalW] <;> apply ih
    all_goals first | exact h | exact List.mem_cons_of_mem _ h

theorem agree_mono {cls : Nat → GClass} {W W' : List Nat} {G G' : Store} (hs : ∀ g, g ∈ W → g ∈ W')
    (h : Agree cls W' G G') : Agree cls W G G' := by
  intro g hg
  apply h
  simp only [readOK, Bool.or_eq_true, Bool.and_eq_true, List.contains_iff_mem] at *
  rcases hg with hg | ⟨hc, hw⟩
  · exact Or.inl hg
  · exact Or.inr ⟨hc, hs g hw⟩

/-- the frame rule: an operation that respects the discipline does not change any import-only global -/
theorem C04_frame (cls : Nat → GClass) (a : Val) :
    ∀ (p : List Cmd) (L : Bool) (W : List Nat) (i : Inst) (G : Store),
      cmdsOK cls L W p = true → ∀ g, cls g = .importOnly → (execProg a p i G).2.1 g = G g := by
  intro p
  induction p with
  | nil => intro L W i G _ g _; rfl
  | cons c r ih =>
    intro L W i G hok g hg
    cases c with
    | setEnv x e =>
      simp only [cmdsOK, Bool.and_eq_true] at hok
      simpa [execProg, execCmd] using ih L W _ G hok.2 g hg
    | setLoc x e =>
      simp only [cmdsOK, Bool.and_eq_true] at hok
      simpa [execProg, execCmd] using ih L W _ G hok.2 g hg
    | setGlob h e =>
      simp only [cmdsOK, Bool.and_eq_true, bne_iff_ne, ne_eq] at hok
      have hne : g ≠ h := by
        intro e'
        subst e'
        exact hok.1.2 hg
      have := ih L (h :: W) i (upd G h (eval a i G e)) hok.2 g hg
      simp only [execProg, execCmd]
      rw [this]
      simp [upd, hne]
    | newGame =>
      simp only [cmdsOK] at hok
      simpa [execProg, execCmd] using ih true W _ G hok g hg
    | emit e =>
      simp only [cmdsOK, Bool.and_eq_true] at hok
      simpa [execProg, execCmd] using ih L W i G hok.2 g hg
    | log e =>
      simp only [cmdsOK] at hok
      simpa [execProg, execCmd] using ih L W i G hok g hg

theorem inst_ext {i j : Inst} (h : InstRel true i j) : i = j := by
  have h1 : i.env = j.env := h.1
  have h2 : i.loc = j.loc := h.2 rfl
  cases i; cases j
  simp only at h1 h2
  simp [h1, h2]

/-- a reset-safe program is also safe as an ordinary operation -/
theorem exprOK_mono {cls : Nat → GClass} {W : List Nat} : ∀ e, exprOK cls false W e = true → exprOK cls true W e = true := by
  intro e
  induction e with
  | lit v => intro h; exact h
  | arg => intro h; exact h
  | env x => intro h; exact h
  | loc x => intro h; simp [exprOK] at h
  | glob g => intro h; exact h
  | add x y ihx ihy =>
    intro h
    simp only [exprOK, Bool.and_eq_true] at *
    exact ⟨ihx h.1, ihy h.2⟩
  | lcg x ih => intro h; simp only [exprOK] at *; exact ih h
  | ite c t e ihc iht ihe =>
    intro h
    simp only [exprOK, Bool.and_eq_true] at *
    exact ⟨⟨ihc h.1.1, iht h.1.2⟩, ihe h.2⟩

theorem cmdsOK_mono (cls : Nat → GClass) : ∀ (p : List Cmd) (W : List Nat), cmdsOK cls false W p = true → cmdsOK cls true W p = true := by
  intro p
  induction p with
  | nil => intro W h; exact h
  | cons c r ih =>
    intro W h
    cases c <;> simp only [cmdsOK, Bool.and_eq_true] at *
    · exact ⟨exprOK_mono _ h.1, ih W h.2⟩
    · exact ⟨exprOK_mono _ h.1, ih W h.2⟩
    · exact ⟨⟨exprOK_mono _ h.1.1, h.1.2⟩, ih _ h.2⟩
    · exact h
    · exact ⟨exprOK_mono _ h.1, ih W h.2⟩
    · exact ih W h

/-! ### instances are independent -/

/-- Main theorem. For every classification, every schedule `evs` of operations of any number of instances in which every
operation respects the discipline, and every pair of start states that agree on instance `a` and on the import-only
globals: what `a`'s caller sees in the schedule, and `a`'s final state, are what they are when only `a`'s operations
are run. (Induction over the schedule; the other instances' operations are absorbed by the frame rule.) -/
theorem C04_instances_independent (cls : Nat → GClass) (a : Nat) :
    ∀ (evs : List Event) (p q : Proc),
      (∀ ev ∈ evs, progOK cls ev.prog = true) →
      p.inst a = q.inst a → AgreeIO cls p.glob q.glob →
      traj a (run evs p).2 = traj a (run (onlyOf a evs) q).2
      ∧ (run evs p).1.inst a = (run (onlyOf a evs) q).1.inst a
      ∧ AgreeIO cls (run evs p).1.glob (run (onlyOf a evs) q).1.glob := by
  intro evs
  induction evs with
  | nil => intro p q _ hi hG; exact ⟨rfl, hi, hG⟩
  | cons ev r ih =>
    intro p q hok hi hG
    have hev : progOK cls ev.prog = true := hok ev (List.mem_cons_self ..)
    have hr : ∀ e ∈ r, progOK cls e.prog = true := fun e he => hok e (List.mem_cons_of_mem _ he)
    by_cases hw : ev.who = a
    · -- an operation of `a`: executed on related states
      have hrel := execProg_rel cls ev.arg ev.prog true [] (p.inst ev.who) (q.inst ev.who) p.glob q.glob hev
        (by rw [hw, hi]; exact ⟨rfl, fun _ => rfl⟩) (agree_nil_iff.2 hG)
      rw [finalL_true] at hrel
      have hinst := inst_ext hrel.1
      have hG' := agree_io_of_agree hrel.2.1
      have hf : onlyOf a (ev :: r) = ev :: onlyOf a r := by simp [onlyOf, hw]
      rw [hf]
      have := ih (stepProc p ev).1 (stepProc q ev).1 hr
        (by
          show (if a = ev.who then _ else _) = (if a = ev.who then _ else _)
          rw [if_pos hw.symm, if_pos hw.symm]
          exact hinst) hG'
      refine ⟨?_, this.2⟩
      simp only [run, traj, hw, List.filter_cons, beq_self_eq_true, if_true, List.map_cons]
      have h1 := this.1
      simp only [traj] at h1
      rw [h1]
      simp [stepProc, hrel.2.2]
    · -- an operation of another instance: `a`'s state and the import-only globals are untouched
      have hf : onlyOf a (ev :: r) = onlyOf a r := by simp [onlyOf, hw]
      rw [hf]
      have hframe := C04_frame cls ev.arg ev.prog true [] (p.inst ev.who) p.glob hev
      have hG' : AgreeIO cls (stepProc p ev).1.glob q.glob := by
        intro g hg
        simp only [stepProc]
        rw [hframe g hg]
        exact hG g hg
      have hne : ¬ a = ev.who := fun e => hw e.symm
      have := ih (stepProc p ev).1 q hr (by simp [stepProc, hne, hi]) hG'
      refine ⟨?_, this.2⟩
      have hb : (ev.who == a) = false := by simp [hw]
      simp only [run, traj, List.filter_cons, hb]
      exact this.1

/-- `zs` is an interleaving of `xs` and `ys` (relative order inside each list kept) -/
inductive Interleave {α : Type} : List α → List α → List α → Prop
  | nil : Interleave [] [] []
  | left {x xs ys zs} : Interleave xs ys zs → Interleave (x :: xs) ys (x :: zs)
  | right {y xs ys zs} : Interleave xs ys zs → Interleave xs (y :: ys) (y :: zs)

theorem onlyOf_interleave {a : Nat} {xs ys zs : List Event} (h : Interleave xs ys zs)
    (hx : ∀ e ∈ xs, e.who = a) (hy : ∀ e ∈ ys, e.who ≠ a) : onlyOf a zs = xs := by
  induction h with
  | nil => rfl
  | @left x xs ys zs _ ih =>
    have hxa : x.who = a := hx x (List.mem_cons_self ..)
    simp only [onlyOf, List.filter_cons, hxa, beq_self_eq_true, if_true]
    congr 1
    exact ih (fun e he => hx e (List.mem_cons_of_mem _ he)) hy
  | @right y xs ys zs _ ih =>
    have hya : y.who ≠ a := hy y (List.mem_cons_self ..)
    have hb : (y.who == a) = false := by simp [hya]
    simp only [onlyOf, List.filter_cons, hb]
    exact ih hx (fun e he => hy e (List.mem_cons_of_mem _ he))

theorem mem_interleave {α : Type} {xs ys zs : List α} (h : Interleave xs ys zs) : ∀ z, z ∈ zs → z ∈ xs ∨ z ∈ ys := by
  induction h with
  | nil => intro z hz; cases hz
  | left _ ih =>
    intro z hz
    rcases List.mem_cons.1 hz with e | hz
    · exact Or.inl (e ▸ List.mem_cons_self ..)
    · rcases ih z hz with h | h
      · exact Or.inl (List.mem_cons_of_mem _ h)
      · exact Or.inr h
  | right _ ih =>
    intro z hz
    rcases List.mem_cons.1 hz with e | hz
    · exact Or.inr (e ▸ List.mem_cons_self ..)
    · rcases ih z hz with h | h
      · exact Or.inl h
      · exact Or.inr (List.mem_cons_of_mem _ h)

/-- The statement of DESIGN §5: for ALL interleavings of the operations of `a` with operations of other instances,
`a`'s trajectory is its solo trajectory. -/
theorem C04_interleaving (cls : Nat → GClass) (a : Nat) (opsA opsB evs : List Event) (p : Proc)
    (hil : Interleave opsA opsB evs)
    (hA : ∀ e ∈ opsA, e.who = a) (hB : ∀ e ∈ opsB, e.who ≠ a)
    (hokA : ∀ e ∈ opsA, progOK cls e.prog = true) (hokB : ∀ e ∈ opsB, progOK cls e.prog = true) :
    traj a (run evs p).2 = traj a (run opsA p).2 := by
  have hok : ∀ e ∈ evs, progOK cls e.prog = true := by
    intro e he
    rcases mem_interleave hil e he with h | h
    · exact hokA e h
    · exact hokB e h
  have := (C04_instances_independent cls a evs p p hok rfl (fun _ _ => rfl)).1
  rw [onlyOf_interleave hil hA hB] at this
  exact this

/-! ### reset is fresh -/

/-- One reset operation (a program that passes the check with `L = false`, i.e. never reads the old game, and that does
rebuild the game) executed on two processes with ARBITRARY different pasts: if the environment-level attributes of `a`
and the import-only globals agree, the returned values are equal, `a`'s whole new state is equal, and the import-only
globals still agree. The old per-game stores do not appear in the hypotheses: they are irrelevant. -/
theorem C04_reset_is_fresh (cls : Nat → GClass) (a : Nat) (prog : List Cmd) (seed : Val)
    (hreset : resetOK cls prog = true) (hnew : finalL false prog = true)
    (p q : Proc) (henv : (p.inst a).env = (q.inst a).env) (hG : AgreeIO cls p.glob q.glob) :
    (stepProc p ⟨a, prog, seed⟩).2 = (stepProc q ⟨a, prog, seed⟩).2
    ∧ (stepProc p ⟨a, prog, seed⟩).1.inst a = (stepProc q ⟨a, prog, seed⟩).1.inst a
    ∧ AgreeIO cls (stepProc p ⟨a, prog, seed⟩).1.glob (stepProc q ⟨a, prog, seed⟩).1.glob := by
  have hrel := execProg_rel cls seed prog false [] (p.inst a) (q.inst a) p.glob q.glob hreset
    ⟨henv, fun h => by cases h⟩ (agree_nil_iff.2 hG)
  rw [hnew] at hrel
  refine ⟨hrel.2.2, ?_, agree_io_of_agree hrel.2.1⟩
  simp [stepProc, inst_ext hrel.1]

/-- Any two histories `h₁ h₂` (arbitrary schedules, arbitrary start processes) after which `a`'s environment-level
attributes agree, followed by the same reset(seed) and then ANY schedule `later` — in one run interleaved with other
instances' operations, in the other run alone — give the same trajectory for `a` from the reset on. -/
theorem C04_history_irrelevant (cls : Nat → GClass) (a : Nat) (prog : List Cmd) (seed : Val)
    (hreset : resetOK cls prog = true) (hnew : finalL false prog = true)
    (h₁ h₂ later : List Event) (p₁ p₂ : Proc)
    (hok₁ : ∀ e ∈ h₁, progOK cls e.prog = true) (hok₂ : ∀ e ∈ h₂, progOK cls e.prog = true)
    (hlater : ∀ e ∈ later, progOK cls e.prog = true)
    (hG : AgreeIO cls p₁.glob p₂.glob)
    (henv : ((run h₁ p₁).1.inst a).env = ((run h₂ p₂).1.inst a).env) :
    traj a (run (⟨a, prog, seed⟩ :: later) (run h₁ p₁).1).2
      = traj a (run (⟨a, prog, seed⟩ :: onlyOf a later) (run h₂ p₂).1).2 := by
  -- import-only globals are what they were at the start, in both runs
  have frameRun : ∀ (h : List Event) (p : Proc), (∀ e ∈ h, progOK cls e.prog = true) →
      ∀ g, cls g = .importOnly → (run h p).1.glob g = p.glob g := by
    intro h
    induction h with
    | nil => intro p _ g _; rfl
    | cons e r ih =>
      intro p hok g hg
      have := ih (stepProc p e).1 (fun x hx => hok x (List.mem_cons_of_mem _ hx)) g hg
      simp only [run]
      rw [this]
      exact C04_frame cls e.arg e.prog true [] _ _ (hok e (List.mem_cons_self ..)) g hg
  have hG' : AgreeIO cls (run h₁ p₁).1.glob (run h₂ p₂).1.glob := by
    intro g hg
    rw [frameRun h₁ p₁ hok₁ g hg, frameRun h₂ p₂ hok₂ g hg]
    exact hG g hg
  have hfresh := C04_reset_is_fresh cls a prog seed hreset hnew (run h₁ p₁).1 (run h₂ p₂).1 henv hG'
  have hind := C04_instances_independent cls a later _ _ hlater hfresh.2.1 hfresh.2.2
  simp only [run, traj, List.filter_cons, beq_self_eq_true, if_true, List.map_cons]
  have h1 := hind.1
  simp only [traj] at h1
  rw [h1, hfresh.1]

/-! ## The skeleton of the real operations, and the tie to the regenerated inventory -/

/-- Full statement for the skeleton (the operations as the inventory says they access the globals): every schedule made of
construct / reset / step operations leaves every instance's trajectory equal to its solo trajectory. -/
def C04_FullSkeletonIsolated : Prop :=
  ∀ (a : Nat) (evs : List Event) (p : Proc),
    (∀ ev ∈ evs, ev.prog = constructProg ∨ ev.prog = resetProg ∨ ev.prog = stepProg ∨ ev.prog = stepProgClean) →
    traj a (run evs p).2 = traj a (run (onlyOf a evs) p).2

/-- construct / reset (with a seed) respect the discipline: the RNG is re-seeded before it is drawn, NMNE settings are per-game state -/
theorem constructProg_ok : progOK refClass constructProg = true := by decide
theorem resetProg_ok : progOK refClass resetProg = true := by decide
theorem resetProg_resetOK : resetOK refClass resetProg = true := by decide
theorem resetProg_rebuilds : finalL false resetProg = true := by decide
theorem stepProgClean_ok : progOK refClass stepProgClean = true := by decide
/-- **since the F-11 repair `step` as the code is respects the discipline**: the generator state it draws from was installed by the
operation itself (the environment's own saved state) … -/
theorem stepProg_ok : progOK refClass stepProg = true := by decide
/-- … and so does a reset WITHOUT a seed (it continues the environment's own stream) -/
theorem resetProgNoSeed_ok : progOK refClass resetProgNoSeed = true ∧ resetOK refClass resetProgNoSeed = true
    ∧ finalL false resetProgNoSeed = true := by decide
/-- the pre-repair programs: construct / reset(seed) passed … -/
theorem constructProgShared_ok : progOK refClass constructProgShared = true := by decide
theorem resetProgShared_ok : progOK refClass resetProgShared = true := by decide
/-- since the F-10 repair, `step` of an instance that draws nothing from the global generators respects the discipline … -/
theorem stepProgNoRng_ok : progOK refClass stepProgNoRng = true := by decide
/-- … while the PRE-repair `step` of an instance WITH scripted agents / red applications did not (F-11: global RNG) -/
theorem stepProgShared_not_ok : progOK refClass stepProgShared = false := by decide
/-- the only globals the pre-repair `step` read without having written them that are not import-only: the generator (F-11), three times;
the repaired `step` reads none -/
theorem stepProgShared_leaks : (unprotectedReads [] stepProgShared).filter (fun g => refClass g != .importOnly) = [gRng, gRng, gRng]
    ∧ (unprotectedReads [] stepProg).filter (fun g => refClass g != .importOnly) = [] := by decide
/-- what still starts from the process-wide state, BY DESIGN: the construction of a scenario without `game.seed` (and, before the repair,
the unseeded reset) -/
theorem noSeed_not_ok : progOK refClass constructProgNoSeed = false ∧ progOK refClass resetProgNoSeedShared = false := by decide

/-- **F-11 repaired: the FULL statement.** In ANY schedule of construct / reset(seed) / step operations of any number of instances, every
instance's trajectory is its solo trajectory - with the code's own `step`, scripted agents and red applications drawing included. -/
theorem C04_skeleton_isolated : C04_FullSkeletonIsolated := by
  intro a evs p h
  have hok : ∀ ev ∈ evs, progOK refClass ev.prog = true := by
    intro ev he
    rcases h ev he with e | e | e | e <;> rw [e]
    · exact constructProg_ok
    · exact resetProg_ok
    · exact stepProg_ok
    · exact stepProgClean_ok
  exact (C04_instances_independent refClass a evs p p hok rfl (fun _ _ => rfl)).1

/-- the same with UNSEEDED resets in the schedule (of `a` or of the others): they continue the instance's own stream -/
theorem C04_skeleton_isolated_with_unseeded_resets (a : Nat) (evs : List Event) (p : Proc)
    (h : ∀ ev ∈ evs, ev.prog = constructProg ∨ ev.prog = resetProg ∨ ev.prog = resetProgNoSeed ∨ ev.prog = stepProg ∨ ev.prog = stepProgClean) :
    traj a (run evs p).2 = traj a (run (onlyOf a evs) p).2 := by
  have hok : ∀ ev ∈ evs, progOK refClass ev.prog = true := by
    intro ev he
    rcases h ev he with e | e | e | e | e <;> rw [e]
    · exact constructProg_ok
    · exact resetProg_ok
    · exact resetProgNoSeed_ok.1
    · exact stepProg_ok
    · exact stepProgClean_ok
  exact (C04_instances_independent refClass a evs p p hok rfl (fun _ _ => rfl)).1

/-- and whatever ELSE runs in between (an unseeded construction of another environment, any program of any other instance that writes no
import-only global - e.g. a training loop drawing from the process-wide generators): it cannot move a draw of `a` -/
theorem C04_foreign_generator_use_harmless (a : Nat) (evs : List Event) (p : Proc)
    (h : ∀ ev ∈ evs, (ev.who = a ∧ (ev.prog = resetProg ∨ ev.prog = resetProgNoSeed ∨ ev.prog = stepProg))
      ∨ (ev.who ≠ a ∧ ev.prog = [.setGlob gRng (.lcg (.glob gRng))])) :
    traj a (run evs p).2 = traj a (run (onlyOf a evs) p).2 := by
  -- a foreign draw is not `progOK` (it reads the generator it did not write); absorb it by the frame argument directly
  induction evs generalizing p with
  | nil => rfl
  | cons ev r ih =>
    have hr := ih (stepProc p ev).1 (fun e he => h e (List.mem_cons_of_mem _ he))
    rcases h ev (List.mem_cons_self ..) with ⟨hw, hp⟩ | ⟨hw, hp⟩
    · -- an operation of `a`: installs a's own state first, so the globals it starts from do not matter beyond the import-only ones
      have hf : onlyOf a (ev :: r) = ev :: onlyOf a r := by simp [onlyOf, hw]
      rw [hf]
      simp only [run, traj, hw, List.filter_cons, beq_self_eq_true, if_true, List.map_cons]
      have h1 := hr
      simp only [traj] at h1
      rw [h1]
    · have hf : onlyOf a (ev :: r) = onlyOf a r := by simp [onlyOf, hw]
      have hb : (ev.who == a) = false := by simp [hw]
      rw [hf]
      simp only [run, traj, List.filter_cons, hb, Bool.false_eq_true, if_false]
      -- after the foreign draw the process differs from `p` in `gRng` only; `a`'s later operations overwrite it before reading
      have hok : ∀ e ∈ onlyOf a r, progOK refClass e.prog = true := by
        intro e he
        have hm := List.mem_filter.1 he
        rcases h e (List.mem_cons_of_mem _ hm.1) with ⟨_, hp⟩ | ⟨hw', _⟩
        · rcases hp with e' | e' | e' <;> rw [e']
          · exact resetProg_ok
          · exact resetProgNoSeed_ok.1
          · exact stepProg_ok
        · exact absurd (by simpa using hm.2) hw'
      have hne : ¬ a = ev.who := fun e => hw e.symm
      have hind := C04_instances_independent refClass a (onlyOf a r) (stepProc p ev).1 p hok
        (by simp [stepProc, hne])
        (by
          intro g hg
          simp only [stepProc, hp, execProg, execCmd]
          have : g ≠ gRng := by
            intro e
            subst e
            simp [refClass] at hg
          simp [upd, this])
      have hoo : onlyOf a (onlyOf a r) = onlyOf a r := by simp [onlyOf, List.filter_filter]
      rw [hoo] at hind
      have h2 := hr
      simp only [traj] at h2 hind ⊢
      rw [h2]
      exact hind.1

/-! #### the wrapper's `if own is not None` is decided by construction -/

/-- on an environment whose `_generator_state` is set, the prologue AS WRITTEN is the unconditional one … -/
theorem C04_own_in_code_eq (a : Val) (i : Inst) (G : Store) (rest : List Cmd) (h : i.env eHasOwn ≠ 0) :
    execProg a (ownInCode ++ rest) i G = execProg a (ownIn ++ rest) i G := by
  simp only [eHasOwn] at h
  simp [ownInCode, ownIn, execProg, execCmd, eval, eHasOwn, h]

/-- … on a new object (`__init__`) it does nothing … -/
theorem C04_own_in_code_new (a : Val) (i : Inst) (G : Store) (rest : List Cmd) (h : i.env eHasOwn = 0) :
    execProg a (ownInCode ++ rest) i G = execProg a rest i G := by
  simp only [eHasOwn] at h
  have hG : upd G gRng (G gRng) = G := by
    funext y
    by_cases e : y = gRng <;> simp [upd, e]
  simp [ownInCode, execProg, execCmd, eval, eHasOwn, h, hG]

/-- … and every wrapped operation leaves the state set (the epilogue runs in a `finally`): after `__init__` it is set for good -/
theorem C04_has_own_after (a : Val) (i : Inst) (G : Store) (p : List Cmd)
    (hp : p = constructProg ∨ p = constructProgNoSeed ∨ p = resetProg ∨ p = resetProgNoSeed ∨ p = stepProg) :
    (execProg a p i G).1.env eHasOwn = 1 := by
  rcases hp with h | h | h | h | h <;> subst h <;>
    simp [constructProg, constructProgNoSeed, constructBody, constructBodyNoSeed, resetProg, resetProgNoSeed, resetBody, resetHead, buildGame,
      stepProg, stepProgShared, ownIn, ownOut, execProg, execCmd, eval, upd, eHasOwn, eOwnRng, eEpisode]

/-- hence the operations exactly as written (`…Code`, with the test) ARE the skeleton's on every constructed environment -/
theorem C04_code_ops_are_skeleton_ops (a : Val) (i : Inst) (G : Store) (h : i.env eHasOwn ≠ 0) :
    execProg a stepProgCode i G = execProg a stepProg i G ∧ execProg a resetProgCode i G = execProg a resetProg i G
    ∧ execProg a resetProgNoSeedCode i G = execProg a resetProgNoSeed i G :=
  ⟨C04_own_in_code_eq a i G _ h, C04_own_in_code_eq a i G _ h, C04_own_in_code_eq a i G _ h⟩

theorem C04_code_construct_is_skeleton_construct (a : Val) (i : Inst) (G : Store) (h : i.env eHasOwn = 0) :
    execProg a constructProgCode i G = execProg a constructProg i G :=
  C04_own_in_code_new a i G _ h

/-! #### the PRE-repair programs (NOT the code any more): what F-11 was -/

/-- the full statement for the operations without the decorator -/
def C04_SharedRngSkeletonIsolated : Prop :=
  ∀ (a : Nat) (evs : List Event) (p : Proc),
    (∀ ev ∈ evs, ev.prog = constructProgShared ∨ ev.prog = resetProgShared ∨ ev.prog = stepProgShared ∨ ev.prog = stepProgClean) →
    traj a (run evs p).2 = traj a (run (onlyOf a evs) p).2

/-- on an instance that does not use the global generators in `step`, `stepProgShared` IS `stepProgNoRng` (same new state, globals, outputs) -/
theorem step_norng_eq (a : Val) (i : Inst) (G : Store) (h : i.env eUsesRng = 0) :
    execProg a stepProgShared i G = execProg a stepProgNoRng i G := by
  simp only [eUsesRng] at h
  have hG : upd G gRng (G gRng) = G := by
    funext y
    by_cases e : y = gRng <;> simp [upd, e]
  simp [stepProgShared, stepProgNoRng, nmneInForce, execProg, execCmd, eval, upd, eUsesRng, lState, lStep, lNmne, gNmne, gRng, gSimOutput, h] at hG ⊢
  exact hG

/-- the environment-level attribute "uses the global generators" is never assigned by an operation of the skeleton -/
theorem usesRng_const (a : Val) (i : Inst) (G : Store) (p : List Cmd)
    (hp : p = constructProgShared ∨ p = resetProgShared ∨ p = stepProgShared ∨ p = stepProgClean ∨ p = stepProgNoRng) :
    (execProg a p i G).1.env eUsesRng = i.env eUsesRng := by
  rcases hp with h | h | h | h | h <;> subst h <;>
    simp [constructProgShared, resetProgShared, resetHead, buildGame, resetBody, constructBody, stepProgShared, stepProgClean, stepProgNoRng, execProg, execCmd, upd, eUsesRng, eEpisode]

/-- replace the `step` of instances that do not use the generators by its generator-free form -/
def normEvent (p : Proc) (ev : Event) : Event :=
  if ev.prog = stepProgShared ∧ (p.inst ev.who).env eUsesRng = 0 then { ev with prog := stepProgNoRng } else ev

/-- the "uses the generators" flags of all instances -/
def flags (p : Proc) : Nat → Val := fun k => (p.inst k).env eUsesRng

theorem stepProc_norm (p : Proc) (ev : Event) : stepProc p (normEvent p ev) = stepProc p ev := by
  unfold normEvent
  split
  · rename_i h
    simp only [stepProc]
    rw [h.1, step_norng_eq ev.arg (p.inst ev.who) p.glob h.2]
  · rfl

theorem flags_step (p : Proc) (ev : Event)
    (hp : ev.prog = constructProgShared ∨ ev.prog = resetProgShared ∨ ev.prog = stepProgShared ∨ ev.prog = stepProgClean ∨ ev.prog = stepProgNoRng) :
    flags (stepProc p ev).1 = flags p := by
  funext k
  simp only [flags, stepProc]
  by_cases hk : k = ev.who
  · subst hk
    simp only [if_true]
    exact usesRng_const ev.arg _ _ _ hp
  · simp [hk]

/-- events normalised along the run (the flag of an instance never changes, so the start process decides) -/
def normAll (p : Proc) (evs : List Event) : List Event := evs.map (normEvent p)

theorem normEvent_congr (p q : Proc) (ev : Event) (h : flags p = flags q) : normEvent p ev = normEvent q ev := by
  have : (p.inst ev.who).env eUsesRng = (q.inst ev.who).env eUsesRng := congrFun h ev.who
  simp [normEvent, this]

theorem normEvent_who (p : Proc) (e : Event) : (normEvent p e).who = e.who := by
  unfold normEvent
  split <;> rfl

theorem run_norm : ∀ (evs : List Event) (p : Proc),
    (∀ ev ∈ evs, ev.prog = constructProgShared ∨ ev.prog = resetProgShared ∨ ev.prog = stepProgShared ∨ ev.prog = stepProgClean) →
    run (normAll p evs) p = run evs p := by
  intro evs
  induction evs with
  | nil => intro p _; rfl
  | cons ev r ih =>
    intro p h
    have hev := h ev (List.mem_cons_self ..)
    have hev' : ev.prog = constructProgShared ∨ ev.prog = resetProgShared ∨ ev.prog = stepProgShared ∨ ev.prog = stepProgClean ∨ ev.prog = stepProgNoRng := by
      rcases hev with e | e | e | e
      · exact Or.inl e
      · exact Or.inr (Or.inl e)
      · exact Or.inr (Or.inr (Or.inl e))
      · exact Or.inr (Or.inr (Or.inr (Or.inl e)))
    have hfl := flags_step p ev hev'
    have hmap : (r.map (normEvent p)) = r.map (normEvent (stepProc p ev).1) := by
      apply List.map_congr_left
      intro e _
      exact normEvent_congr _ _ e hfl.symm
    simp only [normAll, List.map_cons, run]
    rw [stepProc_norm, hmap, normEvent_who]
    have := ih (stepProc p ev).1 (fun e he => h e (List.mem_cons_of_mem _ he))
    simp only [normAll] at this
    rw [this]

/-- **About the PRE-repair programs (a lemma about the old code).** Before the F-11 repair only this much held: in ANY schedule of
construct / reset(seed) / step operations WITHOUT the decorator in which every instance that is STEPPED draws nothing from the global
generators (decidable hypothesis on the start process), every instance's trajectory is its solo trajectory. -/
theorem C04_shared_rng_skeleton_isolated_partial (a : Nat) (evs : List Event) (p : Proc)
    (h : ∀ ev ∈ evs, ev.prog = constructProgShared ∨ ev.prog = resetProgShared ∨ ev.prog = stepProgShared ∨ ev.prog = stepProgClean)
    (hx : ∀ ev ∈ evs, ev.prog = stepProgShared → (p.inst ev.who).env eUsesRng = 0) :
    traj a (run evs p).2 = traj a (run (onlyOf a evs) p).2 := by
  have hok : ∀ ev ∈ normAll p evs, progOK refClass ev.prog = true := by
    intro ev he
    simp only [normAll, List.mem_map] at he
    obtain ⟨e0, he0, rfl⟩ := he
    unfold normEvent
    split
    · exact stepProgNoRng_ok
    · rename_i hn
      rcases h e0 he0 with e | e | e | e
      · rw [e]; exact constructProgShared_ok
      · rw [e]; exact resetProgShared_ok
      · exact absurd ⟨e, hx e0 he0 e⟩ hn
      · rw [e]; exact stepProgClean_ok
  have hind := (C04_instances_independent refClass a (normAll p evs) p p hok rfl (fun _ _ => rfl)).1
  have hwho : ∀ e : Event, (normEvent p e).who = e.who := normEvent_who p
  have hfilter : onlyOf a (normAll p evs) = normAll p (onlyOf a evs) := by
    simp only [onlyOf, normAll, List.filter_map]
    congr 1
    apply List.filter_congr
    intro e _
    simp [Function.comp, hwho]
  rw [hfilter, run_norm evs p h, run_norm (onlyOf a evs) p (fun e he => h e (List.mem_filter.1 he).1)] at hind
  exact hind

def proc0 : Proc := { inst := fun i => initInst 7 (if i = 0 then 1 else 0) 0, glob := fun _ => 0 }
/-- two instances with different NMNE settings, none of which draws from the global generators -/
def procQuiet : Proc := { inst := fun i => initInst 7 (if i = 0 then 1 else 0) 0 0, glob := fun _ => 0 }

/-- non-vacuity: two instances with DIFFERENT NMNE settings, resets and the code's own `step` -/
example : traj 0 (run [⟨0, constructProg, 5⟩, ⟨1, constructProg, 9⟩, ⟨0, stepProg, 2⟩, ⟨1, resetProg, 4⟩, ⟨1, stepProg, 1⟩, ⟨0, stepProg, 3⟩] procQuiet).2
    = [[8], [11, 1], [15, 2]] := by decide


/-- F-10 witness (FIXED): instance 0 captures NMNE (config 1), instance 1 is built from a scenario that does not (config 0). -/
def witnessF10 : List Event := [⟨0, constructProg, 5⟩, ⟨1, constructProg, 5⟩, ⟨0, stepProg, 2⟩]
/-- F-11 witness: identical scenarios; instance 1's step advances the global RNG between two steps of instance 0. -/
def witnessF11 : List Event := [⟨0, resetProg, 5⟩, ⟨0, stepProg, 2⟩, ⟨1, stepProg, 2⟩, ⟨0, stepProg, 2⟩]
/-- the same schedule with the operations as they were BEFORE the repair -/
def witnessF11Shared : List Event := [⟨0, resetProgShared, 5⟩, ⟨0, stepProgShared, 2⟩, ⟨1, stepProgShared, 2⟩, ⟨0, stepProgShared, 2⟩]
def proc1 : Proc := { inst := fun _ => initInst 7 1 0, glob := fun _ => 0 }

/-- non-vacuity of the full theorem: the instances of `proc1` DO draw (their steps return generator-dependent values) -/
example : traj 0 (run [⟨0, constructProg, 5⟩, ⟨1, constructProg, 9⟩, ⟨0, stepProg, 2⟩, ⟨1, stepProg, 1⟩, ⟨0, stepProg, 3⟩] proc1).2
    ≠ traj 0 (run [⟨0, constructProg, 6⟩, ⟨1, constructProg, 9⟩, ⟨0, stepProg, 2⟩, ⟨1, stepProg, 1⟩, ⟨0, stepProg, 3⟩] proc1).2 := by decide

/-- the F-10 witness no longer separates the interleaved run from the solo run (the instances even use the generators here) -/
theorem C04_skeleton_f10_witness_isolated : traj 0 (run witnessF10 proc0).2 = traj 0 (run (onlyOf 0 witnessF10) proc0).2 := by decide

/-- BEFORE the repair (class attributes written by every from_config, read by every step) the same schedule did separate them -/
def C04_ClassAttrSkeletonIsolated : Prop :=
  ∀ (a : Nat) (evs : List Event) (p : Proc),
    (∀ ev ∈ evs, ev.prog = constructProgClassAttrs ∨ ev.prog = resetProgClassAttrs ∨ ev.prog = stepProgClassAttrs ∨ ev.prog = stepProgClean) →
    traj a (run evs p).2 = traj a (run (onlyOf a evs) p).2

theorem C04_class_attr_counterexample : ¬ C04_ClassAttrSkeletonIsolated := by
  intro h
  have := h 0 [⟨0, constructProgClassAttrs, 5⟩, ⟨1, constructProgClassAttrs, 5⟩, ⟨0, stepProgClassAttrs, 2⟩] procQuiet (by decide)
  revert this
  decide

/-! #### F-C04-r7-1 (fixed): a sink-only global whose readers can raise is not sink-only -/

/-- the statement for log calls that dereference a logger under the process-wide flag alone -/
def C04_SinkFlagSkeletonIsolated : Prop :=
  ∀ (a : Nat) (evs : List Event) (p : Proc),
    (∀ ev ∈ evs, ev.prog = constructProgSinkFlag ∨ ev.prog = resetProgSinkFlag ∨ ev.prog = stepProgSinkFlag) →
    traj a (run evs p).2 = traj a (run (onlyOf a evs) p).2

/-- such programs read a sink-only global outside `log`: they do not pass the discipline … -/
theorem sinkFlagProgs_not_ok : progOK refClass constructProgSinkFlag = false ∧ progOK refClass resetProgSinkFlag = false
    ∧ progOK refClass stepProgSinkFlag = false := by decide

/-- instance 0 saves no logs (io settings 0), instance 1 does (io settings 1), no generator use anywhere -/
def procIo : Proc := { inst := fun i => initInst 7 0 (if i = 0 then 0 else 1) 0, glob := fun _ => 0 }

/-- … and the statement is REFUTED: environment 0 is built with saving off, environment 1 with saving on, then environment 0 steps: its
log call finds the flag on and no logger (the raise marker is returned); alone it returns 0. This is why
`C04_gen_sink_flag_uses_guarded` is an obligation. -/
theorem C04_sink_flag_counterexample : ¬ C04_SinkFlagSkeletonIsolated := by
  intro h
  have := h 0 [⟨0, constructProgSinkFlag, 5⟩, ⟨1, constructProgSinkFlag, 5⟩, ⟨0, stepProgSinkFlag, 2⟩] procIo (by decide)
  revert this
  decide

/-- the same two environments with the operations as the code has them now: instance 0 is unaffected -/
theorem C04_skeleton_io_witness_isolated :
    traj 0 (run [⟨0, constructProg, 5⟩, ⟨1, constructProg, 5⟩, ⟨0, stepProg, 2⟩, ⟨1, resetProg, 3⟩, ⟨0, resetProg, 4⟩, ⟨0, stepProg, 1⟩] procIo).2
      = traj 0 (run (onlyOf 0 [⟨0, constructProg, 5⟩, ⟨1, constructProg, 5⟩, ⟨0, stepProg, 2⟩, ⟨1, resetProg, 3⟩, ⟨0, resetProg, 4⟩, ⟨0, stepProg, 1⟩]) procIo).2 := by
  decide

/-- **F-11 as it was (a lemma about the old code)**: without the decorator the full statement is refuted by the F-11 witness … -/
theorem C04_shared_rng_counterexample : ¬ C04_SharedRngSkeletonIsolated := by
  intro h
  have := h 0 witnessF11Shared proc1 (by decide)
  revert this
  decide

/-- … and the same schedule with the operations as the code has them now no longer separates the interleaved run from the solo run
(instance 0's second step returns what it returns alone although instance 1 drew in between) -/
theorem C04_skeleton_f11_witness_isolated : traj 0 (run witnessF11 proc1).2 = traj 0 (run (onlyOf 0 witnessF11) proc1).2
    ∧ traj 0 (run witnessF11 proc1).2 ≠ traj 0 (run (witnessF11.filter fun e => e.prog != stepProg) proc1).2 := by decide

/-- history irrelevance for the skeleton's reset: any two pasts with the same environment-level attributes -/
theorem C04_skeleton_reset_fresh (a : Nat) (seed : Val) (h₁ h₂ later : List Event) (p₁ p₂ : Proc)
    (hok₁ : ∀ e ∈ h₁, progOK refClass e.prog = true) (hok₂ : ∀ e ∈ h₂, progOK refClass e.prog = true)
    (hlater : ∀ e ∈ later, progOK refClass e.prog = true)
    (hG : AgreeIO refClass p₁.glob p₂.glob)
    (henv : ((run h₁ p₁).1.inst a).env = ((run h₂ p₂).1.inst a).env) :
    traj a (run (⟨a, resetProg, seed⟩ :: later) (run h₁ p₁).1).2
      = traj a (run (⟨a, resetProg, seed⟩ :: onlyOf a later) (run h₂ p₂).1).2 :=
  C04_history_irrelevant refClass a resetProg seed resetProg_resetOK resetProg_rebuilds h₁ h₂ later p₁ p₂ hok₁ hok₂ hlater hG henv

/-! ### episode schedules: episode k of a long-lived environment = an environment built from scenario k

One instance alone (no other instance interferes), with the operations AS THE CODE HAS THEM (the leaking `stepProg` included: alone, what
`step` reads from the globals is what the instance's own last `from_config` wrote). -/

/-- the operations of one instance in sequence: what its caller sees -/
def runSolo : List (List Cmd × Val) → Inst → Store → List (List Val)
  | [], _, _ => []
  | (p, a) :: r, i, G => (execProg a p i G).2.2 :: runSolo r (execProg a p i G).1 (execProg a p i G).2.1

/-- `j` is an environment constructed for the scenario that the scheduler of `i` hands out at `i`'s NEXT episode: constant scheduler,
scenario and nmne_config equal to the scheduled ones, same io settings and agents. Its episode counter, its game and the process
globals around it are arbitrary. -/
def EpisodeMatch (i j : Inst) : Prop :=
  j.env eScheduled = 0 ∧ j.env eNmneVar = 0
  ∧ j.env eConfig = i.env eConfig + (if i.env eScheduled ≠ 0 then i.env eEpisode + 1 else 0)
  ∧ j.env eNmneCfg = i.env eNmneCfg + (if i.env eNmneVar ≠ 0 then i.env eEpisode + 1 else 0)
  ∧ j.env eIo = i.env eIo ∧ j.env eUsesRng = i.env eUsesRng ∧ j.env eBuildRng = i.env eBuildRng

/-- what a `step` of an instance depends on: its game, whether it draws, ITS OWN generator state (not the process's: F-11 repair) and the
optional process-wide NMNE override -/
def StepRel (i j : Inst) (G G' : Store) : Prop :=
  i.loc = j.loc ∧ i.env eUsesRng = j.env eUsesRng ∧ i.env eOwnRng = j.env eOwnRng ∧ G gNmne = G' gNmne

theorem reset_episode_match (seed : Val) (i j : Inst) (G G' : Store) (hm : EpisodeMatch i j) (hG : G gImport = G' gImport)
    (hN : G gNmne = G' gNmne) :
    (execProg seed resetProg i G).2.2 = (execProg seed resetProg j G').2.2
    ∧ StepRel (execProg seed resetProg i G).1 (execProg seed resetProg j G').1 (execProg seed resetProg i G).2.1 (execProg seed resetProg j G').2.1 := by
  obtain ⟨h1, h2, h3, h4, h5, h6, h7⟩ := hm
  simp only [eScheduled, eNmneVar, eConfig, eNmneCfg, eIo, eUsesRng, eBuildRng, eEpisode, gImport, gNmne] at h1 h2 h3 h4 h5 h6 h7 hG hN
  simp only [StepRel, eUsesRng, eOwnRng, gNmne]
  by_cases hs : i.env 5 = 0 <;> by_cases hv : i.env 6 = 0 <;>
    simp only [hs, hv, ne_eq, not_true_eq_false, not_false_eq_true, if_true, if_false] at h3 h4 <;>
    refine ⟨?_, ?_, ?_, ?_, ?_⟩ <;>
    simp [resetProg, resetBody, ownIn, ownOut, resetHead, buildGame, scenarioExpr, nmneExpr, nmneInForce, execProg, execCmd, eval, upd, eScheduled,
      eNmneVar, eConfig, eNmneCfg, eIo, eUsesRng, eBuildRng, eEpisode, eOwnRng, eHasOwn, gImport, gRng, gNmne, gSimOutput, gPcapLoggers, lState,
      lStep, lNmne, h1, h2, h3, h4, h5, h6, h7, hG, hN, hs, hv] <;>
    (try funext y) <;> (try split) <;> (try simp_all) <;> omega

theorem step_rel (a : Val) (i j : Inst) (G G' : Store) (h : StepRel i j G G') :
    (execProg a stepProg i G).2.2 = (execProg a stepProg j G').2.2
    ∧ StepRel (execProg a stepProg i G).1 (execProg a stepProg j G').1 (execProg a stepProg i G).2.1 (execProg a stepProg j G').2.1 := by
  obtain ⟨h1, h2, h3, h4⟩ := h
  simp only [eUsesRng, eOwnRng, gNmne] at h2 h3 h4
  simp only [StepRel, eUsesRng, eOwnRng, gNmne]
  refine ⟨?_, ?_, ?_, ?_, ?_⟩ <;>
    simp [stepProg, stepProgShared, ownIn, ownOut, nmneInForce, execProg, execCmd, eval, upd, eUsesRng, eOwnRng, eHasOwn, gRng, gNmne, gSimOutput,
      lState, lStep, lNmne, h1, h2, h3, h4]

theorem steps_rel : ∀ (acts : List Val) (i j : Inst) (G G' : Store), StepRel i j G G' →
    runSolo (acts.map fun a => (stepProg, a)) i G = runSolo (acts.map fun a => (stepProg, a)) j G' := by
  intro acts
  induction acts with
  | nil => intro i j G G' _; rfl
  | cons a r ih =>
    intro i j G G' h
    have := step_rel a i j G G' h
    simp only [List.map_cons, runSolo]
    rw [this.1, ih _ _ _ _ this.2]

/-- **Episode k of a scheduled environment is the episode of an environment built from scenario k.** For the skeleton with the operations
as the code has them: whatever the long-lived instance `i` did before (its game `i.loc` and the globals `G` are arbitrary), `reset(seed)`
followed by ANY action sequence returns exactly what an instance `j` constructed for that episode's scenario (EpisodeMatch) returns for
`reset(seed)` and the same actions in a process with arbitrary other globals `G'` (import-only tables equal). -/
theorem C04_skeleton_scheduled_episode_fresh (seed : Val) (acts : List Val) (i j : Inst) (G G' : Store)
    (hm : EpisodeMatch i j) (hG : G gImport = G' gImport) (hN : G gNmne = G' gNmne) :
    runSolo ((resetProg, seed) :: acts.map fun a => (stepProg, a)) i G
      = runSolo ((resetProg, seed) :: acts.map fun a => (stepProg, a)) j G' := by
  have h := reset_episode_match seed i j G G' hm hG hN
  simp only [runSolo]
  rw [h.1, steps_rel acts _ _ _ _ h.2]

/-- non-vacuity: a scheduled instance in its 3rd episode whose scenarios differ in nmne_config, and the constant instance for episode 4 -/
example : EpisodeMatch (initInst 7 1 0 1 1 1 |> fun i => { i with env := upd i.env eEpisode 3 }) (initInst 11 5 0 1 0 0) := by
  simp [EpisodeMatch, initInst, upd, eScheduled, eNmneVar, eConfig, eNmneCfg, eIo, eUsesRng, eBuildRng, eEpisode]

/-- the same statement for a `from_config` that assigns the NMNE class attributes only when the scenario has a (truthy) nmne_config -/
def C04_CondWriteEpisodeFresh : Prop :=
  ∀ (seed : Val) (acts : List Val) (i j : Inst) (G G' : Store), EpisodeMatch i j → G gImport = G' gImport →
    runSolo ((resetProgCond, seed) :: acts.map fun a => (stepProgClassAttrs, a)) i G
      = runSolo ((resetProgCond, seed) :: acts.map fun a => (stepProgClassAttrs, a)) j G'

theorem resetProgCond_not_ok : resetOK refClassPreFix resetProgCond = false ∧ progOK refClassPreFix resetProgCond = false
    ∧ resetOK refClassPreFix resetProgClassAttrs = true := by decide

/-- with a CONDITIONAL write the property fails: an episode whose scenario has no nmne_config (value 0) after an episode that captured
(global still 5) differs from the environment built for that scenario in a new process (global 0). This is why
`C04_gen_writes_unconditional` is an obligation. -/
theorem C04_conditional_write_counterexample : ¬ C04_CondWriteEpisodeFresh := by
  intro h
  have := h 3 [1] (initInst 7 0 0 0 0 0) (initInst 7 0 0 0 0 0) (fun g => if g = gNmne then 5 else if g = gCapture then 5 else 0) (fun _ => 0)
    (by simp [EpisodeMatch, initInst, eScheduled, eNmneVar, eConfig, eNmneCfg, eIo, eUsesRng, eBuildRng]) (by simp [gImport, gNmne, gCapture])
  revert this
  decide

/-! ### the seed argument: `reset(seed=…)` as a CALL (the quantifier over seeds made real)

`C04_skeleton_scheduled_episode_fresh` quantifies over the argument of `resetProg`. What a Python call `reset(seed=v)` executes is decided by
the guard in `reset` and by `set_random_seed` (Model: `resetCall`; regenerated from source: `C04_gen_seed_handling`). -/

/-- every non-negative seed — 0 included — re-seeds: the call `reset(seed=v)` IS the skeleton's `resetProg` with argument `v`,
whatever `generate_seed_value` says -/
theorem C04_reset_call_reseeds (v : Int) (gen : Bool) (hv : 0 ≤ v) : resetCall (some v) gen = some (resetProg, v) := by
  have h1 : ¬ v = -1 := by omega
  have h2 : ¬ v < -1 := by omega
  simp [resetCall, resetSeeding, resetSeedGuard, setRandomSeed, h1, h2]

/-- `PrimaiteGymEnv(cfg)` with `game.seed: v`, `v ≥ 0`, is the seeded construction -/
theorem C04_construct_call_reseeds (v : Int) (gen : Bool) (hv : 0 ≤ v) : constructCall (some v) gen = some (constructProg, v) := by
  have h1 : ¬ v = -1 := by omega
  have h2 : ¬ v < -1 := by omega
  simp [constructCall, setRandomSeed, h1, h2]

/-- the other arguments (quirks of the code kept): no argument and `-1` leave the generators alone; below `-1` raises -/
theorem C04_reset_call_other :
    resetCall none false = some (resetProgNoSeed, 0) ∧ resetCall none true = some (resetProgNoSeed, 0)
    ∧ resetCall (some (-1)) false = some (resetProgNoSeed, 0) ∧ resetCall (some (-1)) true = none
    ∧ (∀ v : Int, v < -1 → ∀ gen, resetCall (some v) gen = none) := by
  refine ⟨by decide, by decide, by decide, by decide, ?_⟩
  intro v hv gen
  have h1 : ¬ v = -1 := by omega
  simp [resetCall, resetSeeding, resetSeedGuard, setRandomSeed, h1, hv]

/-- non-vacuity: seed 0 is a seed -/
example : resetCall (some 0) = some (resetProg, 0) := by decide

/-- **For every natural seed `s` (0, 1, the configured one, 2³²−1, …) the call `reset(seed=s)` followed by any actions returns, on a
long-lived scheduled instance with an arbitrary past, what it returns on an instance built for that episode's scenario.** -/
theorem C04_reset_any_seed_episode_fresh (s : Nat) (gen : Bool) (acts : List Val) (i j : Inst) (G G' : Store)
    (hm : EpisodeMatch i j) (hG : G gImport = G' gImport) (hN : G gNmne = G' gNmne) :
    ∃ op, resetCall (some (s : Int)) gen = some op ∧
      runSolo (op :: acts.map fun a => (stepProg, a)) i G = runSolo (op :: acts.map fun a => (stepProg, a)) j G' :=
  ⟨(resetProg, (s : Int)), C04_reset_call_reseeds s gen (by omega), C04_skeleton_scheduled_episode_fresh s acts i j G G' hm hG hN⟩

/-- the same statement for a `reset` whose guard is a truthiness test (`if seed:`) -/
def C04_TruthySeedEpisodeFresh : Prop :=
  ∀ (s : Nat) (acts : List Val) (i j : Inst) (G G' : Store), EpisodeMatch i j → G gImport = G' gImport → G gNmne = G' gNmne →
    ∃ op, resetCallTruthy (some (s : Int)) = some op ∧
      runSolo (op :: acts.map fun a => (stepProg, a)) i G = runSolo (op :: acts.map fun a => (stepProg, a)) j G'

/-- an instance whose earlier operations left its own generator state at `v` -/
def withOwn (i : Inst) (v : Val) : Inst := { i with env := upd (upd i.env eOwnRng v) eHasOwn 1 }

/-- with a truthiness test `reset(seed=0)` is an unseeded reset: the episode shows where the environment's earlier episodes left its
generator (5 vs 0). This is why `C04_gen_seed_handling` pins the guard for EVERY argument. -/
theorem C04_truthy_seed_counterexample : ¬ C04_TruthySeedEpisodeFresh := by
  intro h
  obtain ⟨op, hop, heq⟩ := h 0 [] (withOwn (initInst 7 0 0 1 0 0) 5) (withOwn (initInst 7 0 0 1 0 0) 0) (fun _ => 0) (fun _ => 0)
    (by simp [EpisodeMatch, withOwn, upd, initInst, eScheduled, eNmneVar, eConfig, eNmneCfg, eIo, eUsesRng, eBuildRng, eOwnRng, eHasOwn, eEpisode])
    rfl rfl
  have hop' : op = (resetProgNoSeed, 0) := by
    have : resetCallTruthy (some ((0 : Nat) : Int)) = some (resetProgNoSeed, 0) := by decide
    rw [this] at hop
    exact (Option.some.inj hop).symm
  subst hop'
  revert heq
  decide

/-- what an UNSEEDED reset (`reset()`, Gymnasium: "the generator is not reset") carries over from the past is the generator state and
nothing else: with equal generator states the episode equals the one of an instance built for that episode's scenario -/
theorem reset_noseed_episode_match (a : Val) (i j : Inst) (G G' : Store) (hm : EpisodeMatch i j) (hG : G gImport = G' gImport)
    (hN : G gNmne = G' gNmne) (hR : i.env eOwnRng = j.env eOwnRng) :
    (execProg a resetProgNoSeed i G).2.2 = (execProg a resetProgNoSeed j G').2.2
    ∧ StepRel (execProg a resetProgNoSeed i G).1 (execProg a resetProgNoSeed j G').1 (execProg a resetProgNoSeed i G).2.1 (execProg a resetProgNoSeed j G').2.1 := by
  obtain ⟨h1, h2, h3, h4, h5, h6, h7⟩ := hm
  simp only [eScheduled, eNmneVar, eConfig, eNmneCfg, eIo, eUsesRng, eBuildRng, eEpisode, eOwnRng, gImport, gRng, gNmne] at h1 h2 h3 h4 h5 h6 h7 hG hR hN
  simp only [StepRel, eUsesRng, eOwnRng, gNmne]
  by_cases hs : i.env 5 = 0 <;> by_cases hv : i.env 6 = 0 <;>
    simp only [hs, hv, ne_eq, not_true_eq_false, not_false_eq_true, if_true, if_false] at h3 h4 <;>
    refine ⟨?_, ?_, ?_, ?_, ?_⟩ <;>
    simp [resetProgNoSeed, ownIn, ownOut, resetHead, buildGame, scenarioExpr, nmneExpr, nmneInForce, execProg, execCmd, eval, upd, eScheduled, eNmneVar,
      eConfig, eNmneCfg, eIo, eUsesRng, eBuildRng, eEpisode, eOwnRng, eHasOwn, gImport, gRng, gNmne, gSimOutput, gPcapLoggers, lState, lStep, lNmne,
      h1, h2, h3, h4, h5, h6, h7, hG, hN, hR, hs, hv] <;>
    (try funext y) <;> (try split) <;> (try simp_all) <;> omega

theorem C04_unseeded_reset_fresh_modulo_rng (acts : List Val) (i j : Inst) (G G' : Store)
    (hm : EpisodeMatch i j) (hG : G gImport = G' gImport) (hN : G gNmne = G' gNmne) (hR : i.env eOwnRng = j.env eOwnRng) :
    ∃ op, resetCall none = some op ∧
      runSolo (op :: acts.map fun a => (stepProg, a)) i G = runSolo (op :: acts.map fun a => (stepProg, a)) j G' := by
  refine ⟨(resetProgNoSeed, 0), by decide, ?_⟩
  have h := reset_noseed_episode_match 0 i j G G' hm hG hN hR
  simp only [runSolo]
  rw [h.1, steps_rel acts _ _ _ _ h.2]

/-- **The multi-agent environment.** Whatever seed argument `PrimaiteRayMARLEnv.reset` is given (none, 0, any integer): on a long-lived
instance with an arbitrary past and on an instance built for that episode's scenario, the reset followed by any actions returns the same
values PROVIDED both start from the same generator state - the class never seeds, so that proviso cannot be dropped
(`C04_unseeded_reset_depends_on_rng`); everything else of the past is erased as for the single-agent environment. -/
theorem C04_marl_reset_fresh_modulo_rng (s : Option Int) (acts : List Val) (i j : Inst) (G G' : Store)
    (hm : EpisodeMatch i j) (hG : G gImport = G' gImport) (hN : G gNmne = G' gNmne) (hR : i.env eOwnRng = j.env eOwnRng) :
    ∃ op, marlResetCall s = some op ∧
      runSolo (op :: acts.map fun a => (stepProg, a)) i G = runSolo (op :: acts.map fun a => (stepProg, a)) j G' := by
  refine ⟨(resetProgNoSeed, 0), rfl, ?_⟩
  have h := reset_noseed_episode_match 0 i j G G' hm hG hN hR
  simp only [runSolo]
  rw [h.1, steps_rel acts _ _ _ _ h.2]

/-- the wrapper `PrimaiteRayEnv` IS the single-agent environment for every seed argument: all `reset` theorems apply to it -/
theorem C04_ray_env_reset_is_gym_reset (s : Option Int) (gen : Bool) : rayEnvResetCall s gen = resetCall s gen := rfl

/-- and the ENVIRONMENT'S OWN generator state does matter for an unseeded reset (by design; not claimed as a violation): own states 5 / 0;
the process-wide state no longer does (5 / 0 in the process, same own state: equal) -/
theorem C04_unseeded_reset_depends_on_rng :
    runSolo [(resetProgNoSeed, 0)] (withOwn (initInst 7 0 0 1 0 0) 5) (fun _ => 0)
      ≠ runSolo [(resetProgNoSeed, 0)] (withOwn (initInst 7 0 0 1 0 0) 0) (fun _ => 0)
    ∧ runSolo [(resetProgNoSeed, 0)] (withOwn (initInst 7 0 0 1 0 0) 3) (fun g => if g = gRng then 5 else 0)
      = runSolo [(resetProgNoSeed, 0)] (withOwn (initInst 7 0 0 1 0 0) 3) (fun _ => 0) := by decide

/-! ### the committed classification and the regenerated inventory -/

open Primaite.Gen.SharedState

/-- role of a function that touches a runtime-written global: in which operations of an environment it can run, and
whether what it reads only steers logging / file output / interactive display -/
structure FnRole where
  fn : String
  phases : List Phase
  sink : Bool

def allPhases : List Phase := [.construct, .reset, .step]

/-- COMMITTED table. A function that is not listed here and touches a runtime-written global breaks `C04_gen_functions_known`. -/
/- notes:
   (since the F-10 repair no function reads or writes an NMNE class attribute at run time: NICObservation.observe, from_config,
    NetworkInterface._capture_nmne / describe_state and Node.show_nic left this table)
   AirSpaceFrequency.__init__: import time (two module constants) and the unused `register_frequency` API
   WirelessRouter.from_config: readers of SIM_OUTPUT / PRIMAITE_CONFIG: logging, file paths
   network_simulator_demo_example: demo helper, not an environment operation
   _SimOutput.write_sys_log_to_terminal: users of the process-global random generators
-/
def committedFns : List FnRole := [
  ⟨"game.agent.agent_log:AgentLog._get_log_path", allPhases, true⟩,
  ⟨"game.agent.agent_log:AgentLog._write_to_terminal", allPhases, true⟩,
  ⟨"game.agent.agent_log:AgentLog.critical", allPhases, true⟩,
  ⟨"game.agent.agent_log:AgentLog.debug", allPhases, true⟩,
  ⟨"game.agent.agent_log:AgentLog.error", allPhases, true⟩,
  ⟨"game.agent.agent_log:AgentLog.info", allPhases, true⟩,
  ⟨"game.agent.agent_log:AgentLog.warning", allPhases, true⟩,
  ⟨"game.agent.scripted_agents.TAP001:TAP001._select_target_ip", allPhases, false⟩,
  ⟨"game.agent.scripted_agents.TAP001:TAP001._update_next_scan_target", [.step], false⟩,
  ⟨"game.agent.scripted_agents.abstract_tap:AbstractTAP._select_start_node", allPhases, false⟩,
  ⟨"game.agent.scripted_agents.abstract_tap:AbstractTAP._set_next_execution_timestep", allPhases, false⟩,
  ⟨"game.agent.scripted_agents.probabilistic_agent:ProbabilisticAgent.rng.<lambda>", [.construct, .reset], false⟩,
  ⟨"game.agent.scripted_agents.random_agent:PeriodicAgent._set_next_execution_timestep", allPhases, false⟩,
  ⟨"game.agent.scripted_agents.random_agent:PeriodicAgent.start_node", allPhases, false⟩,
  -- RandomAgent's PRIVATE generator (C03's repair 903a159): its seed is drawn from numpy's global generator when the agent is built, i.e. in
  -- construct / reset (seeded operations); `get_action` draws from `self.rng` only — no process-global draw in `step`
  ⟨"game.agent.scripted_agents.random_agent:RandomAgent.rng.<lambda>", [.construct, .reset], false⟩,
  ⟨"game.game:PrimaiteGame.apply_agent_actions", [.step], true⟩,
  ⟨"game.science:simulate_trial", [.step], false⟩,
  ⟨"primaite:getLogger", [], true⟩,
  ⟨"session.environment:PrimaiteGymEnv._write_step_metadata_json", [.step], true⟩,
  ⟨"session.environment:log_seed_value", [.construct], true⟩,
  -- F-11 repair: the decorator (runs when the classes are defined: no phase) and its wrapper (every wrapped operation); the wrapper's
  -- accesses are `getstate` / `setstate` / `get_state` / `set_state` only (`isStateCall`), see `C04_gen_own_generator_state`
  ⟨"session.environment:own_generator_state", [], false⟩,
  ⟨"session.environment:own_generator_state.wrapper", allPhases, false⟩,
  ⟨"session.environment:set_random_seed", [.construct, .reset], false⟩,
  ⟨"session.io:PrimaiteIO.__init__", [.construct], true⟩,
  ⟨"session.io:PrimaiteIO.generate_session_path", [.construct], true⟩,
  ⟨"session.ray_envs:PrimaiteRayMARLEnv._write_step_metadata_json", [.step], true⟩,
  ⟨"simulator.file_system.file_type:FileType.random", [], false⟩,
  ⟨"simulator.network.airspace:AirSpaceFrequency.__init__", [], false⟩,
  ⟨"simulator.network.hardware.base:NetworkInterface.setup_for_episode", [.reset], true⟩,
  ⟨"simulator.network.hardware.base:Node.__init__", [.construct, .reset], true⟩,
  ⟨"simulator.network.hardware.nodes.network.wireless_router:WirelessRouter.from_config", [.construct, .reset], false⟩,
  ⟨"simulator.network.networks:network_simulator_demo_example", [], true⟩,
  ⟨"simulator.system.core.packet_capture:PacketCapture.__init__", [.construct, .reset], true⟩,
  ⟨"simulator.system.core.packet_capture:PacketCapture._get_log_path", allPhases, true⟩,
  ⟨"simulator.system.core.packet_capture:PacketCapture.capture_inbound", allPhases, true⟩,
  ⟨"simulator.system.core.packet_capture:PacketCapture.capture_outbound", allPhases, true⟩,
  ⟨"simulator.system.core.packet_capture:PacketCapture.clear", [.reset], true⟩,
  ⟨"simulator.system.core.packet_capture:PacketCapture.setup_logger", [.construct, .reset], true⟩,
  ⟨"simulator.system.core.sys_log:SysLog._get_log_path", allPhases, true⟩,
  ⟨"simulator.system.core.sys_log:SysLog._write_to_terminal", allPhases, true⟩,
  ⟨"simulator.system.core.sys_log:SysLog.critical", allPhases, true⟩,
  ⟨"simulator.system.core.sys_log:SysLog.debug", allPhases, true⟩,
  ⟨"simulator.system.core.sys_log:SysLog.error", allPhases, true⟩,
  ⟨"simulator.system.core.sys_log:SysLog.info", allPhases, true⟩,
  ⟨"simulator.system.core.sys_log:SysLog.setup_logger", allPhases, true⟩,
  ⟨"simulator.system.core.sys_log:SysLog.warning", allPhases, true⟩,
  ⟨"simulator:_SimOutput.agent_behaviour_path", allPhases, true⟩,
  ⟨"simulator:_SimOutput.agent_log_level", allPhases, true⟩,
  ⟨"simulator:_SimOutput.path", allPhases, true⟩,
  ⟨"simulator:_SimOutput.save_agent_logs", allPhases, true⟩,
  ⟨"simulator:_SimOutput.save_pcap_logs", allPhases, true⟩,
  ⟨"simulator:_SimOutput.save_sys_logs", allPhases, true⟩,
  ⟨"simulator:_SimOutput.sys_log_level", allPhases, true⟩,
  ⟨"simulator:_SimOutput.write_agent_log_to_terminal", allPhases, true⟩,
  ⟨"simulator:_SimOutput.write_sys_log_to_terminal", allPhases, true⟩,
  ⟨"utils.cli.dev_cli:config_callback", [], true⟩,
  ⟨"utils.cli.dev_cli:disable", [], true⟩,
  ⟨"utils.cli.dev_cli:enable", [], true⟩,
  ⟨"utils.cli.dev_cli:path", [], true⟩,
  ⟨"utils.cli.dev_cli:show", [], true⟩,
  ⟨"utils.cli.primaite_config_utils:is_dev_mode", allPhases, true⟩,
  ⟨"utils.cli.primaite_config_utils:update_primaite_application_config", [], true⟩ ]

/-- functions are referred to by their index in the regenerated `fns`; `C04_gen_functions_known` shows that the committed
table lists exactly those functions in the same order, so index `i` of one is index `i` of the other -/
def roleOf (f : Nat) : Option FnRole := committedFns[f]?

def phasesOf (f : Nat) : List Phase := match roleOf f with | some r => r.phases | none => []
def isSink (f : Nat) : Bool := match roleOf f with | some r => r.sink | none => false

def writesIn (e : Entry) (ph : Phase) : Bool := e.writers.any (fun f => (phasesOf f).contains ph)
def readsIn (e : Entry) (ph : Phase) : Bool := e.readers.any (fun f => !isSink f && (phasesOf f).contains ph)
/-- only a write that is a top-level statement of its function (not nested in `if`/`for`/`try`/…, not after a `return`) protects the
reads of the same operation: a CONDITIONAL write leaves, on the other branch, whatever an earlier operation installed -/
def uncondWritesIn (e : Entry) (ph : Phase) : Bool := e.uncondWriters.any (fun f => (phasesOf f).contains ph)

/-- class derived from the regenerated sites and the committed roles. A global is unsafe exactly when some operation reads it
without writing it UNCONDITIONALLY. That inside the operation the write comes before the reads is `C04_gen_write_order` (static: what
`from_config` calls before the assignment) plus the call-event monitor of the rig (harness/rigs/isolation_order.py). -/
def derive (e : Entry) : GClass :=
  if allPhases.all (fun ph => !writesIn e ph) then .importOnly
  else if allPhases.all (fun ph => !readsIn e ph) then .sinkOnly
  else if allPhases.all (fun ph => !readsIn e ph || uncondWritesIn e ph) then .rewrittenBeforeRead
  else .shared

/-- the two class attributes of F-10 (repaired: no environment operation writes them any more) -/
def nmneAttrs : List String :=
  [ "game.agent.observations.nic_observations:NICObservation.capture_nmne",
    "simulator.network.hardware.base:NetworkInterface.nmne_config" ]

/-- the entries whose value an operation reads and an operation writes: the ones the write-before-read discipline is about -/
def readable (e : Entry) : Bool := derive e == .shared || derive e == .rewrittenBeforeRead

/-- the functions that the regenerated inventory shows touching a runtime-written global or a global RNG are exactly the
functions of the committed role table (a new or renamed function breaks this obligation) -/
theorem C04_gen_functions_known : committedFns.map (·.fn) = fns := by decide +kernel

/-- the runtime-written globals are exactly the committed FOUR (six before the F-10 repair), with these derived classes: none is read by an
operation outside logging -/
theorem C04_gen_classification :
    (entries.filter (fun e => !e.writers.isEmpty)).map (fun e => (e.name, derive e)) =
      [ ("primaite:PRIMAITE_CONFIG", .importOnly),
        ("simulator.network.airspace:AirSpaceFrequency._registry", .importOnly),
        ("simulator.system.core.packet_capture:PacketCapture._logger_instances", .sinkOnly),
        ("simulator:SIM_OUTPUT", .sinkOnly) ] := by decide +kernel

/-- **F-10 stays repaired**: the two NMNE class attributes are still declared (API: an optional process-wide override / a retained
name), and NO function of the package assigns them — neither at run time nor at import time beyond the class body. Re-introducing
`NetworkInterface.nmne_config = …` / `NICObservation.capture_nmne = …` (or a `setattr`) anywhere breaks this obligation. -/
theorem C04_gen_nmne_per_game :
    (entries.filter (fun e => nmneAttrs.contains e.name)).map (fun e => (e.name, e.kind, e.importWrites, e.writers)) =
      [ ("game.agent.observations.nic_observations:NICObservation.capture_nmne", "classvar", ["class-body"], []),
        ("simulator.network.hardware.base:NetworkInterface.nmne_config", "classvar", ["class-body"], []) ] := by decide +kernel

/-- Every run-time write of a global that some operation reads (derived class `shared` or `rewrittenBeforeRead`) is UNCONDITIONAL: each
writer function has a write site that is a top-level statement of its body, before any `return` / `raise`, and that writer runs WHENEVER
`from_config` runs to completion (it is from_config itself or a helper called from an unconditional top-level statement: a write moved
into a helper that is called under an `if` fails here); no `setattr(<class>, <computed name>, …)` anywhere. (A conditional assignment —
"only when the scenario has a non-empty nmne_config" — makes an episode inherit the previous episode's setting,
`C04_conditional_write_counterexample`.) Since the F-10 repair no global is readable, so the first part holds of an empty list: it is the
net for the next one. -/
theorem C04_gen_writes_unconditional :
    ((entries.filter readable).all fun e =>
      !e.writers.isEmpty && (e.writers.all fun f => e.uncondWriters.contains f)
      && (e.writers.all fun f => e.anchoredWriters.contains f)) = true
    ∧ dynamicClassWrites = [] := by decide +kernel

/-- the method names of the non-sink reader functions of an entry, writers themselves excluded -/
def readerIdents (e : Entry) : List String :=
  (e.readers.filter fun f => !isSink f && !e.writers.contains f).filterMap fun f => fnIdents[f]?

/-- Order inside the operation, for the statements of the writer itself: for every readable global and each of its writers the calls made in
the statements BEFORE the write are extracted, and none of them has the name of a non-sink reader of that global. -/
theorem C04_gen_write_order :
    ((entries.filter readable).all fun e => e.writers.all fun f =>
        callsBeforeWrite.any fun r => r.1 == e.name && fns[f]? == some r.2.1 && r.2.2.2.all fun c => !(readerIdents e).contains c) = true
    ∧ fnIdents.length = fns.length := by decide +kernel

/-- Memoisation decorators are process-global mutable state: a `functools.lru_cache` / `functools.cache` keeps what the function returned
for every later caller in the process — later episodes, other environments. No memoised function of the package returns a value that is
not syntactically immutable (tuple / frozenset / str / number / address objects …): a cached list / dict / set that a caller extends is
extended for everybody (`memoDischarged`: reviewed exceptions, none). The caches that exist also show up as run-time written inventory
entries (`… .<memo cache>`, written and read by their callers) and so in `C04_gen_classification`. -/
def memoDischarged : List String := []

theorem C04_gen_no_mutable_memo :
    (memoFunctions.all fun m => m.2.2.1 || memoDischarged.contains m.1) = true := by decide +kernel

/-- Caches behind helpers (the hand-written form of a memoisation decorator): a function that returns a run-time written module-level /
class-level container, or an element of it, hands a process-wide object to its caller. Every such function is either over a container
into which only syntactically immutable values are ever stored, or is in the reviewed list `handedOutDischarged` (empty). -/
def handedOutDischarged : List (String × String) := []

theorem C04_gen_no_cached_mutable_handed_out :
    (handedOut.all fun h =>
      handedOutDischarged.contains (h.1, h.2.1)
      || (h.2.2.1 != "container-itself" && (storedValues.filter fun s => s.1 == h.1).all fun s => s.2.2.1)) = true := by decide +kernel

/-- no `global` statement anywhere, and no module logger object is re-bound or mutated by a function -/
theorem C04_gen_no_global_statements : globalStatements = [] ∧ moduleLoggersWritten = [] := by decide

/-- Full statement of DESIGN's `gen_globals_safe` -/
def C04_FullGenGlobalsSafe : Prop := ∀ e ∈ entries, derive e ≠ .shared

/-- **Full since the F-10 repair** (was partial, with the two NMNE class attributes excluded): EVERY inventory entry is import-only,
sink-only or re-written before read. -/
theorem C04_gen_globals_safe : C04_FullGenGlobalsSafe := by
  unfold C04_FullGenGlobalsSafe
  decide +kernel

/-- stronger: no entry is even `rewrittenBeforeRead` — no process global carries scenario data from one operation's write to a read -/
theorem C04_gen_no_readable_global : entries.filter readable = [] := by decide +kernel

/-! the process-wide output flags: a log call must not be able to raise on their account -/

open Primaite.Gen.IsolationSinkFlags in
/-- dereferences of a conditionally created logger that are NOT guarded by the object's own state, reviewed: both are the error branch of
`Node.connect_nic` / `disconnect_nic` (`self.sys_log.logger.warning(msg)` right before `raise NetworkError(msg)`): the operation raises in
any case, the flag at build time decides the exception TYPE only; measured: connecting a connected NIC / disconnecting twice raise earlier
(RuntimeWarning / KeyError) and never reach these branches. Node construction code, reached by no agent action. -/
def sinkFlagDischarged : List (String × String) :=
  [("simulator.network.hardware.base:Node.connect_nic", "self.sys_log.logger.warning"),
   ("simulator.network.hardware.base:Node.disconnect_nic", "self.sys_log.logger.warning")]

open Primaite.Gen.IsolationSinkFlags in
/-- **A log call cannot raise on account of a process-wide output flag.** Every attribute that is CREATED under control of a test on
`SIM_OUTPUT` (found: `SysLog.logger`, `PacketCapture.inbound_logger` / `outbound_logger`) (i) has an unconditional initial value, so that
testing it cannot raise, and (ii) is dereferenced - anywhere in the package, through `self` or through a name that holds such an object
- only after an assignment in the same block or under the guard `<it> is not None` (own state decides; the process-wide flag, which
another environment may have written since, can only switch saving OFF), the two reviewed error branches aside. The extractor is not
blind: the three attributes are found, and the five `SysLog` level methods and the two `PacketCapture.capture_*` methods are among the
guarded uses. `SIM_OUTPUT` is the only sink global and it IS derived sink-only from the inventory. -/
theorem C04_gen_sink_flag_uses_guarded :
    sinkGlobals = ["SIM_OUTPUT"]
    ∧ (entries.find? (fun e => e.name == "simulator:SIM_OUTPUT")).map derive = some GClass.sinkOnly
    ∧ (condAttrUses.all fun u => u.2.2.2 != "UNGUARDED" || sinkFlagDischarged.contains (u.2.1, u.2.2.1)) = true
    ∧ (condAttrInit.all fun i => i.2.2) = true
    ∧ ([("SysLog", "logger"), ("PacketCapture", "inbound_logger"), ("PacketCapture", "outbound_logger")].all
        fun ca => condAttrs.any fun c => c.1 == ca.1 && c.2.1 == ca.2) = true
    ∧ ((["SysLog.debug", "SysLog.info", "SysLog.warning", "SysLog.error", "SysLog.critical", "PacketCapture.capture_inbound",
          "PacketCapture.capture_outbound"].all
        fun f => condAttrUses.any fun u => u.2.1.endsWith f && u.2.2.2 == "guarded") = true) := by decide +kernel

/-! the global random generators -/

def isSeeder (call : String) : Bool := call == "random.seed" || call == "numpy.random.seed"
/-- the wrapper of the F-11 repair puts the environment's own state in place … -/
def isRestorer (call : String) : Bool := call == "random.setstate" || call == "numpy.random.set_state"
/-- … and reads the state to save it: neither is a draw -/
def isSaver (call : String) : Bool := call == "random.getstate" || call == "numpy.random.get_state"
def isDraw (call : String) : Bool := !isSeeder call && !isRestorer call && !isSaver call

def rngSeededIn (gen : String) (ph : Phase) : Bool :=
  rngUses.any fun u => u.1 == gen && isSeeder u.2.2 && (phasesOf u.2.1).contains ph
/-- the operation starts by installing the environment's OWN saved state of the generator (not in `__init__`: a new object has none) -/
def rngRestoredIn (gen : String) (ph : Phase) : Bool :=
  ph != .construct && rngUses.any fun u => u.1 == gen && isRestorer u.2.2 && (phasesOf u.2.1).contains ph
def rngSavedIn (gen : String) (ph : Phase) : Bool :=
  rngUses.any fun u => u.1 == gen && isSaver u.2.2 && (phasesOf u.2.1).contains ph
def rngDrawnIn (gen : String) (ph : Phase) : Bool :=
  rngUses.any fun u => u.1 == gen && isDraw u.2.2 && (phasesOf u.2.1).contains ph

/-- Full statement: every operation that draws from a process-wide generator has first put a state in place that no other instance
decides: it has seeded it (construct / reset with a seed) or installed the environment's own saved state (the F-11 repair) -/
def C04_FullGenRngSafe : Prop :=
  ∀ gen ∈ ["random", "numpy.random"], ∀ ph ∈ allPhases, rngDrawnIn gen ph = true → (rngSeededIn gen ph || rngRestoredIn gen ph) = true

/-- **FULL since the F-11 repair** (was partial: construct / reset only). `step` and `reset` install the environment's own state of BOTH
generators before anything draws, `__init__` seeds (given a configured seed); every operation saves both states afterwards; numpy's
generator is still never drawn in `step`. That the restoring statements precede the operation and the saving ones follow it in a
`finally` is `C04_gen_own_generator_state`. -/
theorem C04_gen_rng_safe : C04_FullGenRngSafe
    ∧ (∀ gen ∈ ["random", "numpy.random"], ∀ ph ∈ allPhases, rngSavedIn gen ph = true)
    ∧ (∀ gen ∈ ["random", "numpy.random"], ∀ ph ∈ [Phase.reset, Phase.step], rngRestoredIn gen ph = true)
    ∧ rngDrawnIn "numpy.random" .step = false := by
  unfold C04_FullGenRngSafe
  decide +kernel

/-- the statement as it was BEFORE the repair (every operation that draws has SEEDED) stays refuted by `step` - by design now: `step`
continues the environment's own stream, it does not re-seed -/
theorem C04_gen_step_draws_unseeded : rngDrawnIn "random" .step = true ∧ rngSeededIn "random" .step = false := by decide +kernel

open Primaite.Gen.OwnGeneratorState in
/-- **Gen obligation: the decorator is what the skeleton's `ownIn` / `ownOut` say, and it is applied where the skeleton says.**
The wrapper reads the environment's saved state first, under `is not None` puts it back into BOTH generators, only then calls the wrapped
operation (once, inside the `try`), and in the `finally` stores both generators' states under the SAME key; it draws nothing itself and has
no other statement; nothing else in the package touches the key. `__init__`, `reset`, `step` of `PrimaiteGymEnv` and of
`PrimaiteRayMARLEnv` carry the decorator (and no other), no other method of the three environment classes does (`PrimaiteRayEnv` delegates
to a `PrimaiteGymEnv`: `C04_gen_other_env_classes`); no decorated method calls a decorated method of the same object (a nested wrapper
would rewind the running operation's draws); and from NONE of the undecorated methods (close, action_masks, _get_obs, the properties, …)
does the static call graph reach a function that draws from a process-wide generator (no bound of the search hit). Dropping the decorator
from `step` breaks this. -/
theorem C04_gen_own_generator_state :
    stateKey = savedUnder ∧ stateKey ≠ "" ∧ ownReadFirst = true ∧ restoreGuard = "isNotNone"
    ∧ restoreCalls = [("random.setstate", "own[0]"), ("numpy.random.set_state", "own[1]")]
    ∧ operationCalls = ["operation(self, *args, **kwargs)"] ∧ operationAfterRestore = true ∧ operationInTry = true
    ∧ savedValue = ["random.getstate", "numpy.random.get_state"]
    ∧ drawsInWrapper = [] ∧ otherStatements = [] ∧ stateKeyMentions = [] ∧ nestedOwned = []
    ∧ (decorated.filter fun d => !d.2.2.isEmpty) =
        [ ("PrimaiteGymEnv", "__init__", ["own_generator_state"]), ("PrimaiteGymEnv", "step", ["own_generator_state"]),
          ("PrimaiteGymEnv", "reset", ["own_generator_state"]), ("PrimaiteRayMARLEnv", "__init__", ["own_generator_state"]),
          ("PrimaiteRayMARLEnv", "reset", ["own_generator_state"]), ("PrimaiteRayMARLEnv", "step", ["own_generator_state"]) ]
    ∧ (drawersFromUnownedMethods.all fun m => m.2.1.isEmpty && !m.2.2.2) = true
    ∧ (["session.environment:PrimaiteGymEnv.close", "session.environment:PrimaiteGymEnv.action_masks",
        "session.environment:PrimaiteGymEnv._get_obs", "session.ray_envs:PrimaiteRayMARLEnv.close"].all
        fun m => drawersFromUnownedMethods.any fun r => r.1 == m) = true
    ∧ (rngUses.filter fun u => isRestorer u.2.2 || isSaver u.2.2).all
        (fun u => fns[u.2.1]? == some "session.environment:own_generator_state.wrapper"
          || fns[u.2.1]? == some "session.environment:own_generator_state") = true := by decide +kernel

/-! the skeleton's access pattern is the one derived from the inventory -/

def entryNamed (n : String) : Option Entry := entries.find? (fun e => e.name == n)

def numbered : List (Nat × String) :=
  [ (gSimOutput, "simulator:SIM_OUTPUT"),
    (gPcapLoggers, "simulator.system.core.packet_capture:PacketCapture._logger_instances") ]

/-- For each numbered global and each operation: the skeleton program writes it iff the inventory has a writer in that
operation, and reads it unprotected iff the inventory has a non-sink reader but no UNCONDITIONAL writer in that operation. Likewise
for the RNG (global 0) against `rngUses`: no operation reads the generator before it has seeded or restored it (F-11 repaired: `step` included). -/
theorem C04_gen_skeleton_matches :
    (numbered.all fun (g, n) => match entryNamed n with
      | none => false
      | some e => allPhases.all fun ph =>
          ((writesOf (progOf ph)).contains g == writesIn e ph)
          && ((unprotectedReads [] (progOf ph)).contains g == (readsIn e ph && !uncondWritesIn e ph))) = true
    ∧ (allPhases.all fun ph =>
          ((unprotectedReads [] (progOf ph)).contains gRng
            == (rngDrawnIn "random" ph && !(rngSeededIn "random" ph || rngRestoredIn "random" ph)))) = true
    -- the skeleton's operations write the generator state (seed / restore) and read it to save it exactly where the inventory says
    ∧ (allPhases.all fun ph => (writesOf (progOf ph)).contains gRng && rngSavedIn "random" ph) = true := by
  decide +kernel

/-- Order inside the operation, beyond the statements of `from_config`: the STATIC CALL GRAPH (by name, self type followed through
constructors, registered lambdas deferred, import-scoped resolution of unknown receivers — harness/extract/sharedstate.py `CallGraph`) from
every call that `from_config`, `PrimaiteGymEnv.reset` and `PrimaiteGymEnv.__init__` make BEFORE the write of a readable global reaches no
non-sink reader of it (every readable global has its three rows; none is left since the F-10 repair), and — the generators being the
one process global that IS re-written and then read — nothing reachable from what `reset` / `__init__` call before their
`set_random_seed` statement draws from a global generator; no bound of the search was hit. (The rig cross-checks the call graph against the
functions actually entered before the seeding on monitored runs.) -/
theorem C04_gen_no_reader_before_write :
    (reachBeforeWrite.map fun r => (r.1, r.2.1)) =
      [ ("<process-global generators>", "reset"), ("<process-global generators>", "__init__") ]
    ∧ ((entries.filter readable).all fun e =>
        ["from_config", "reset", "__init__"].all fun op => reachBeforeWrite.any fun r => r.1 == e.name && r.2.1 == op) = true
    ∧ (reachBeforeWrite.all fun r =>
        !r.2.2.2.2.2 && 0 < r.2.2.2.1 &&
        if r.1 == "<process-global generators>" then
          -- the generators: nothing reachable before the seeding statement draws from one
          (r.2.2.2.2.1.filter fun f => rngUses.any fun u => u.2.1 == f && isDraw u.2.2).isEmpty
        else match entryNamed r.1 with
        | none => false
        | some e => (r.2.2.2.2.1.filter fun f => !isSink f && !e.writers.contains f).isEmpty) = true := by decide +kernel

/-! ### what `reset` keeps: the environment-level attributes -/

def isSetEnv : Cmd → Bool
  | .setEnv _ _ => true
  | _ => false

theorem execProg_env_of_noSetEnv (a : Val) :
    ∀ (p : List Cmd) (i : Inst) (G : Store), (p.all fun c => !isSetEnv c) = true → (execProg a p i G).1.env = i.env := by
  intro p
  induction p with
  | nil => intro i G _; rfl
  | cons c r ih =>
    intro i G h
    simp only [List.all_cons, Bool.and_eq_true] at h
    cases c with
    | setEnv x e => simp [isSetEnv] at h
    | setLoc x e => simpa [execProg, execCmd] using ih _ G h.2
    | setGlob g e => simpa [execProg, execCmd] using ih i _ h.2
    | newGame => simpa [execProg, execCmd] using ih _ G h.2
    | emit e => simpa [execProg, execCmd] using ih i G h.2
    | log e => simpa [execProg, execCmd] using ih i G h.2

/-- the four post-construction operations of the skeleton -/
def isResetProg (p : List Cmd) : Bool := p == resetProg || p == resetProgNoSeed
def isStepProg (p : List Cmd) : Bool := p == stepProg || p == stepProgClean

def bumpEpisode (e : Store) : Store := upd e eEpisode (e eEpisode + 1)

theorem buildGame_noSetEnv : (buildGame.all fun c => !isSetEnv c) = true := by decide

/-- two environment-attribute stores that agree on everything but the saved generator state (`_generator_state`) -/
def EnvModOwn (e e' : Store) : Prop := ∀ x, x ≠ eOwnRng → x ≠ eHasOwn → e x = e' x

theorem EnvModOwn.refl (e : Store) : EnvModOwn e e := fun _ _ _ => rfl
theorem EnvModOwn.symm {e e' : Store} (h : EnvModOwn e e') : EnvModOwn e' e := fun x h1 h2 => (h x h1 h2).symm
theorem EnvModOwn.trans {e e' e'' : Store} (h : EnvModOwn e e') (h' : EnvModOwn e' e'') : EnvModOwn e e'' :=
  fun x h1 h2 => (h x h1 h2).trans (h' x h1 h2)

theorem EnvModOwn.bump {e e' : Store} (h : EnvModOwn e e') : EnvModOwn (bumpEpisode e) (bumpEpisode e') := by
  intro x h1 h2
  have h0 : e eEpisode = e' eEpisode := h eEpisode (by decide) (by decide)
  by_cases hx : x = eEpisode
  · simp [bumpEpisode, upd, hx, h0]
  · simp [bumpEpisode, upd, hx, h x h1 h2]

/-- a reset advances the episode counter and (since the F-11 repair) records the generator state; nothing else at that level -/
theorem reset_env (a : Val) (i : Inst) (G : Store) (p : List Cmd) (h : isResetProg p = true) :
    EnvModOwn (execProg a p i G).1.env (bumpEpisode i.env) := by
  simp only [isResetProg, Bool.or_eq_true, beq_iff_eq] at h
  intro x h1 h2
  simp only [eOwnRng, eHasOwn] at h1 h2
  rcases h with h | h <;> subst h <;>
    simp [resetProg, resetProgNoSeed, resetBody, ownIn, ownOut, resetHead, buildGame, execProg, execCmd, eval, upd, bumpEpisode, eEpisode,
      eOwnRng, eHasOwn, h1, h2] <;> (by_cases h0 : x = 0 <;> simp [h0])

theorem step_env (a : Val) (i : Inst) (G : Store) (p : List Cmd) (h : isStepProg p = true) :
    EnvModOwn (execProg a p i G).1.env i.env := by
  simp only [isStepProg, Bool.or_eq_true, beq_iff_eq] at h
  intro x h1 h2
  simp only [eOwnRng, eHasOwn] at h1 h2
  rcases h with h | h <;> subst h <;>
    simp [stepProg, stepProgShared, stepProgClean, ownIn, ownOut, execProg, execCmd, eval, upd, eOwnRng, eHasOwn, h1, h2]

def resetsOf (a : Nat) (h : List Event) : Nat := (h.filter fun e => e.who == a && isResetProg e.prog).length

def iter {α : Type} (f : α → α) : Nat → α → α
  | 0, x => x
  | n + 1, x => iter f n (f x)

theorem EnvModOwn.iter {e e' : Store} (h : EnvModOwn e e') : ∀ n, EnvModOwn (iter bumpEpisode n e) (iter bumpEpisode n e')
  | 0 => h
  | n + 1 => EnvModOwn.iter (EnvModOwn.bump h) n

/-- After ANY history of step / reset operations (of any instances), the environment-level attributes of `a` are the initial
ones with the episode counter advanced once per reset of `a` (and the saved generator state): nothing else of an earlier episode
survives at that level. -/
theorem C04_env_counts_resets (a : Nat) :
    ∀ (h : List Event) (p : Proc), (∀ e ∈ h, isResetProg e.prog = true ∨ isStepProg e.prog = true) →
      EnvModOwn ((run h p).1.inst a).env (iter bumpEpisode (resetsOf a h) (p.inst a).env) := by
  intro h
  induction h with
  | nil => intro p _; exact EnvModOwn.refl _
  | cons e r ih =>
    intro p hk
    have hr := ih (stepProc p e).1 (fun x hx => hk x (List.mem_cons_of_mem _ hx))
    simp only [run]
    refine EnvModOwn.trans hr ?_
    by_cases hw : e.who = a
    · have hinst : ((stepProc p e).1.inst a) = (execProg e.arg e.prog (p.inst a) p.glob).1 := by
        simp [stepProc, hw]
      rw [hinst]
      rcases hk e (List.mem_cons_self ..) with hp | hp
      · have : resetsOf a (e :: r) = resetsOf a r + 1 := by simp [resetsOf, hw, hp]
        rw [this]
        simp only [iter]
        exact EnvModOwn.iter (reset_env e.arg _ _ _ hp) _
      · have hnr : isResetProg e.prog = false := by
          simp only [isStepProg, Bool.or_eq_true, beq_iff_eq] at hp
          rcases hp with hp | hp <;> rw [hp] <;> decide
        have : resetsOf a (e :: r) = resetsOf a r := by simp [resetsOf, hnr]
        rw [this]
        exact EnvModOwn.iter (step_env e.arg _ _ _ hp) _
    · have : resetsOf a (e :: r) = resetsOf a r := by simp [resetsOf, hw]
      rw [this]
      have hne : ¬ a = e.who := fun x => hw x.symm
      have hinst : ((stepProc p e).1.inst a) = p.inst a := by simp [stepProc, hne]
      rw [hinst]
      exact EnvModOwn.refl _

/-- the saved generator state of an instance set to a fixed value -/
def forgetOwn (i : Inst) : Inst := { i with env := upd (upd i.env eOwnRng 0) eHasOwn 1 }

/-- a SEEDED reset does not depend on the generator state the environment had saved (the seeding inside the wrapped operation wins) -/
theorem resetProg_forgets_own (seed : Val) (i : Inst) (G : Store) :
    execProg seed resetProg (forgetOwn i) G = execProg seed resetProg i G := by
  have hG : ∀ v w : Val, upd (upd G gRng v) gRng w = upd G gRng w := by
    intro v w
    funext y
    by_cases e : y = gRng <;> simp [upd, e]
  have hE : ∀ (f : Store) (v w v' w' : Val), upd (upd (upd (upd f 8 v) 9 w) 8 v') 9 w' = upd (upd f 8 v') 9 w' := by
    intro f v w v' w'
    funext y
    by_cases e8 : y = 8 <;> by_cases e9 : y = 9 <;> simp [upd, e8, e9]
  have hE0 : ∀ (f : Store) (v w z : Val), upd (upd (upd f 8 v) 9 w) 0 z = upd (upd (upd f 0 z) 8 v) 9 w := by
    intro f v w z
    funext y
    by_cases e8 : y = 8 <;> by_cases e9 : y = 9 <;> by_cases e0 : y = 0 <;> simp [upd, e8, e9, e0] <;> omega
  simp [forgetOwn, resetProg, resetBody, ownIn, ownOut, resetHead, buildGame, scenarioExpr, nmneExpr, nmneInForce, execProg, execCmd, eval, upd,
    eOwnRng, eHasOwn, eEpisode, eScheduled, eNmneVar, eConfig, eNmneCfg, eIo, eBuildRng, gRng, gNmne, gImport, gSimOutput, gPcapLoggers,
    lState, lStep, lNmne]
  refine ⟨?_, ?_⟩ <;> funext y <;> simp only [upd] <;> (repeat' split) <;> first | rfl | omega

theorem forgetOwn_env_eq {i j : Inst} (h : EnvModOwn i.env j.env) : (forgetOwn i).env = (forgetOwn j).env := by
  funext x
  by_cases h9 : x = eHasOwn
  · simp [forgetOwn, upd, h9]
  · by_cases h8 : x = eOwnRng
    · simp [forgetOwn, upd, h8, eOwnRng, eHasOwn]
    · simp [forgetOwn, upd, h8, h9, h x h8 h9]

/-- replace instance `a`'s saved generator state by a fixed value -/
def forgetProc (p : Proc) (a : Nat) : Proc := { p with inst := fun j => if j = a then forgetOwn (p.inst a) else p.inst j }

theorem stepProc_reset_forget (p : Proc) (a : Nat) (seed : Val) :
    stepProc (forgetProc p a) ⟨a, resetProg, seed⟩ = stepProc p ⟨a, resetProg, seed⟩ := by
  simp only [stepProc, forgetProc, if_true]
  rw [resetProg_forgets_own]
  congr 2
  funext j
  by_cases hj : j = a <;> simp [hj]

/-- history irrelevance for the skeleton's seeded reset: any two processes in which `a`'s environment-level attributes agree UP TO the saved
generator state (whatever the pasts did to the generators) -/
theorem C04_skeleton_reset_fresh_mod_own (a : Nat) (seed : Val) (later : List Event) (p q : Proc)
    (hlater : ∀ e ∈ later, progOK refClass e.prog = true) (hG : AgreeIO refClass p.glob q.glob)
    (henv : EnvModOwn (p.inst a).env (q.inst a).env) :
    traj a (run (⟨a, resetProg, seed⟩ :: later) p).2 = traj a (run (⟨a, resetProg, seed⟩ :: onlyOf a later) q).2 := by
  have hp : run (⟨a, resetProg, seed⟩ :: later) p = run (⟨a, resetProg, seed⟩ :: later) (forgetProc p a) := by
    simp only [run, stepProc_reset_forget]
  have hq : run (⟨a, resetProg, seed⟩ :: onlyOf a later) q = run (⟨a, resetProg, seed⟩ :: onlyOf a later) (forgetProc q a) := by
    simp only [run, stepProc_reset_forget]
  rw [hp, hq]
  have := C04_history_irrelevant refClass a resetProg seed resetProg_resetOK resetProg_rebuilds [] [] later (forgetProc p a) (forgetProc q a)
    (by simp) (by simp) hlater hG (by simpa [run, forgetProc] using forgetOwn_env_eq henv)
  simpa [run] using this

/-- **The property's first sentence for the skeleton, FULL since the F-11 repair** (was: histories of clean steps only): two environments
built alike, ANY two histories of the code's own steps (drawing scripted agents included), clean steps and resets - seeded or not - with
the same number of resets, then reset(seed) and the same later operations — in one run even interleaved with other instances — give the
same trajectory. -/
theorem C04_skeleton_history_irrelevant (a : Nat) (seed : Val) (h₁ h₂ later : List Event) (p₁ p₂ : Proc)
    (hk₁ : ∀ e ∈ h₁, isResetProg e.prog = true ∨ isStepProg e.prog = true)
    (hk₂ : ∀ e ∈ h₂, isResetProg e.prog = true ∨ isStepProg e.prog = true)
    (hlater : ∀ e ∈ later, progOK refClass e.prog = true)
    (hG : AgreeIO refClass p₁.glob p₂.glob) (hinit : (p₁.inst a).env = (p₂.inst a).env)
    (hcount : resetsOf a h₁ = resetsOf a h₂) :
    traj a (run (⟨a, resetProg, seed⟩ :: later) (run h₁ p₁).1).2
      = traj a (run (⟨a, resetProg, seed⟩ :: onlyOf a later) (run h₂ p₂).1).2 := by
  have ok : ∀ (h : List Event), (∀ e ∈ h, isResetProg e.prog = true ∨ isStepProg e.prog = true) →
      ∀ e ∈ h, progOK refClass e.prog = true := by
    intro h hk e he
    rcases hk e he with hp | hp
    · simp only [isResetProg, Bool.or_eq_true, beq_iff_eq] at hp
      rcases hp with hp | hp <;> rw [hp]
      · exact resetProg_ok
      · exact resetProgNoSeed_ok.1
    · simp only [isStepProg, Bool.or_eq_true, beq_iff_eq] at hp
      rcases hp with hp | hp <;> rw [hp]
      · exact stepProg_ok
      · exact stepProgClean_ok
  -- import-only globals are what they were at the start, in both runs
  have frameRun : ∀ (h : List Event) (p : Proc), (∀ e ∈ h, progOK refClass e.prog = true) →
      ∀ g, refClass g = .importOnly → (run h p).1.glob g = p.glob g := by
    intro h
    induction h with
    | nil => intro p _ g _; rfl
    | cons e r ih =>
      intro p hok g hg
      have := ih (stepProc p e).1 (fun x hx => hok x (List.mem_cons_of_mem _ hx)) g hg
      simp only [run]
      rw [this]
      exact C04_frame refClass e.arg e.prog true [] _ _ (hok e (List.mem_cons_self ..)) g hg
  have hG' : AgreeIO refClass (run h₁ p₁).1.glob (run h₂ p₂).1.glob := by
    intro g hg
    rw [frameRun h₁ p₁ (ok h₁ hk₁) g hg, frameRun h₂ p₂ (ok h₂ hk₂) g hg]
    exact hG g hg
  apply C04_skeleton_reset_fresh_mod_own a seed later _ _ hlater hG'
  have e1 := C04_env_counts_resets a h₁ p₁ hk₁
  have e2 := C04_env_counts_resets a h₂ p₂ hk₂
  rw [hcount, hinit] at e1
  exact EnvModOwn.trans e1 (EnvModOwn.symm e2)

/-! ### tie: the shape of `PrimaiteGymEnv.reset` and of the schedulers -/

open Primaite.Gen.IsolationReset in
/-- `reset` rebuilds the game from nothing but the scheduler and the episode counter, (re)binds only the episode counter, the game and
the per-episode reward record; no later method assigns an attribute of the environment or reads that record; the constant scheduler
returns a deep copy; the list scheduler parses the YAML anew and keeps only a warn-once flag. -/
theorem C04_gen_reset_shape :
    resetGameSource = "PrimaiteGame.from_config(cfg=self.episode_scheduler(self.episode_counter))"
    ∧ initGameSource = "PrimaiteGame.from_config(self.episode_scheduler(0))"
    ∧ resetAssigns = ["total_reward_per_episode[…]", "episode_counter", "game"]
    ∧ laterWrites = []
    ∧ (laterReads.all fun r => ["_agent_name", "game", "agent", "_get_obs", "_write_step_metadata_json", "episode_counter", "io"].contains r) = true
    ∧ resetCallsBefore = ["set_random_seed", "self.io.write_agent_log", "self.game.agents.items", "PacketCapture.clear"]
    ∧ resetCallsAfter = ["self.game.setup_for_episode", "self.game.get_sim_state", "self.game.update_agents", "self._get_obs"]
    ∧ constantSchedulerReturns = "copy.deepcopy(self.config)"
    ∧ listSchedulerReturns = ["parsed_cfg"] ∧ listSchedulerParsedBy = "yaml.safe_load"
    ∧ listSchedulerAssigns = ["_exceeded_episode_list"] := by decide +kernel

open Primaite.Gen.IsolationReset in
/-- The other two environment classes. `PrimaiteRayMARLEnv`: `reset` and `__init__` build the game from nothing but the scheduler and the
episode counter (same expression as the single-agent environment), `reset` (re)binds only the counter and the game, no other method assigns
an attribute of the environment, the agents are looked up in the CURRENT game on every use (one statement), and NO call in the class seeds
a generator or is handed a seed (so `marlResetCall` / `marlConstructCall` ignore their argument). `PrimaiteRayEnv`: binds a
`PrimaiteGymEnv` once, assigns nothing afterwards and only delegates (`reset(seed=seed)`, `step(action)`, `close()`, `game`). -/
theorem C04_gen_other_env_classes :
    marlResetGameSource = "PrimaiteGame.from_config(self.episode_scheduler(self.episode_counter))"
    ∧ marlInitGameSource = "PrimaiteGame.from_config(self.episode_scheduler(self.episode_counter))"
    ∧ marlResetAssigns = ["episode_counter", "game"]
    ∧ marlResetTopLevelTargets.contains "self.game" = true
    ∧ marlLaterWrites = []
    ∧ marlSeedCalls = []
    ∧ marlAgentsStatements = 1
    ∧ marlAgentsReturns = ["{name: self.game.rl_agents[name] for name in self._agent_ids}"]
    ∧ rayEnvSource = ["PrimaiteGymEnv(env_config=env_config)"]
    ∧ rayEnvLaterWrites = []
    ∧ rayEnvResetCalls = ["self.env.reset(seed=seed)"]
    ∧ rayEnvStepCalls = ["self.env.step(action)"]
    ∧ rayEnvCloseCalls = ["self.env.close()"]
    ∧ rayEnvGameReturns = ["self.env.game"] := by decide +kernel

/-! ### tie: the seed handling of `reset` / `__init__` / `set_random_seed` -/

/-- The regenerated `set_random_seed` and the regenerated guard of `reset` ARE the model's, for EVERY argument (`None`, 0, negative, any
integer) — a guard written as a truthiness test, a changed sentinel or a dropped branch breaks this. The generators seeded are Python's,
numpy's (unconditionally, with the argument) and torch's; `reset` seeds in a top-level statement before it rebuilds the game, `__init__`
seeds unconditionally from `game.seed` of episode 0 before it builds the game. -/
theorem C04_gen_seed_handling :
    (∀ (s : Option Int) (gen : Bool), Primaite.Gen.IsolationReset.setRandomSeed s gen = setRandomSeed s gen)
    ∧ (∀ s : Option Int, Primaite.Gen.IsolationReset.resetSeedGuard s = resetSeedGuard s)
    ∧ Primaite.Gen.IsolationReset.seedCalls = [("random.seed", "seed", "top"), ("np.random.seed", "seed", "top"),
        ("th.manual_seed", "seed", "if sys.modules['torch']")]
    ∧ Primaite.Gen.IsolationReset.resetSeedCall = "set_random_seed(seed, self.generate_seed_value)"
    ∧ Primaite.Gen.IsolationReset.resetSeedsBeforeNewGame = true
    ∧ Primaite.Gen.IsolationReset.initSeedStatements =
        ["self.seed = self.episode_scheduler(0).get('game', {}).get('seed')",
         "self.generate_seed_value = self.episode_scheduler(0).get('game', {}).get('generate_seed_value')",
         "self.seed = set_random_seed(self.seed, self.generate_seed_value)"]
    ∧ Primaite.Gen.IsolationReset.initSeedsBeforeNewGame = true := by
  refine ⟨?_, ?_, by decide, by decide, by decide, by decide, by decide⟩
  · intro s gen
    cases s <;> simp [Primaite.Gen.IsolationReset.setRandomSeed, setRandomSeed]
  · intro s
    cases s <;> simp [Primaite.Gen.IsolationReset.resetSeedGuard, resetSeedGuard]

/-- hence the regenerated code re-seeds for every non-negative argument, 0 included (stated on Gen directly) -/
theorem C04_gen_reset_reseeds_every_seed (v : Int) (gen : Bool) (hv : 0 ≤ v) :
    (if Primaite.Gen.IsolationReset.resetSeedGuard (some v) then Primaite.Gen.IsolationReset.setRandomSeed (some v) gen else .keeps)
      = SeedOutcome.seeds v := by
  rw [C04_gen_seed_handling.1, C04_gen_seed_handling.2.1]
  have h1 : ¬ v = -1 := by omega
  have h2 : ¬ v < -1 := by omega
  simp [resetSeedGuard, setRandomSeed, h1, h2]

end Primaite.Isolation
